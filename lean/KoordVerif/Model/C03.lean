/-
C03 — quota admission never lets usage pass the quota's limit.  Model of
  pkg/scheduler/plugins/elasticquota/plugin.go         PreFilter, Reserve, Unreserve
  pkg/scheduler/plugins/elasticquota/plugin_helper.go  checkQuotaRecursive, getQuotaInfoUsedLimit,
                                                       snapshotPostFilterState
  pkg/scheduler/plugins/elasticquota/core/group_quota_manager.go
      ReservePod, UnreservePod, OnPodAdd, OnPodDelete, updatePodUsedNoLock,
      updateGroupDeltaUsedNoLock, getCurToAllParentGroupQuotaInfoNoLock,
      UpdateQuota, deleteQuotaNoLock, updateQuotaNoLockWhenParentChange (re-parenting),
      resetQuotaNoLock / rebuildAllGroupQuotaNoLock (tree reset after an is-parent / allow-lent flip)
  pkg/scheduler/plugins/elasticquota/core/quota_info.go addUsedNonNegativeNoLock, clearForResetNoLock,
      IsQuotaMetaChange, IsQuotaParentChange, updateQuotaInfoFromRemote
Only the `used` side of the accounting is modelled (the request side / runtime computation is
C01/C02): the runtime quota of a group is an *input* (`setRuntime`, the value the manager holds in
`CalculateInfo.Runtime` after `RefreshRuntime`).

Resource lists are partial maps over dimension indices (`RL`): key presence matters because
`quotav1.LessThanOrEqual(a, b)` only inspects the keys of `b`, `quotav1.Mask` keeps the keys
present in both arguments, and a missing key reads as 0.  `Used`/`NonPreemptibleUsed` are total
vectors (missing = 0): their key presence never influences a comparison.  CPU in milli units.
Core-only.
-/
namespace KoordVerif.C03

/-- `corev1.ResourceList` over dimension indices. -/
abbrev RL := Nat → Option Int

def RL.empty : RL := fun _ => none

/-- a missing key reads as the zero quantity. -/
def val (a : RL) (d : Nat) : Int := (a d).getD 0

/-- `extension.RootQuotaName`. -/
def rootName : Nat := 0

structure Quota where
  name    : Nat
  parent  : Nat
  /-- `QuotaInfo.IsParent` (label quota.scheduling.koordinator.sh/is-parent). -/
  isParent : Bool
  /-- `QuotaInfo.AllowLentResource` (label quota.scheduling.koordinator.sh/allow-lent-resource). -/
  lent    : Bool
  max     : RL
  min     : RL
  /-- `CalculateInfo.Runtime` as last refreshed (input). -/
  runtime : RL
  used    : Nat → Int
  npUsed  : Nat → Int
  /-- `SelfUsed` / `SelfNonPreemptibleUsed`: what arrived with `selfQuotaIndex` = this group (its own pods). -/
  selfUsed : Nat → Int
  selfNp   : Nat → Int

/-- a pod object (immutable part) + its `PodInfo` in the quota's `PodCache`. -/
structure Pod where
  id       : Nat
  /-- the group whose `PodCache` holds (or last held) the pod's `PodInfo`; PreFilter / Reserve / Unreserve /
      OnPodDelete are modelled for pods whose current association (`homeOf`) is this group. -/
  quota    : Nat
  /-- the group named by the pod's quota label. -/
  label    : Nat
  np       : Bool
  req      : RL
  inCache  : Bool
  assigned : Bool
  /-- UID of the latest pod object built under this cache key (namespace/name); a re-creation bumps it. -/
  uid      : Nat := 0
  /-- UID of the pod object the `PodInfo` holds (`isCachedPodUID`). -/
  cuid     : Nat := 0
  /-- a second `PodInfo` of the pod still sits in the default quota (a bind update filed the pod under its labelled
      group before the migration tick); `ghostAssigned` = that `PodInfo`'s assigned flag. -/
  ghost    : Bool := false
  ghostAssigned : Bool := false

structure State where
  dims   : Nat
  quotas : List Quota
  pods   : List Pod
  /-- koordinator-default-quota, once the history has named it: a pod whose label names no registered group is
      associated with it (`getPodAssociateQuotaNameAndTreeID`). -/
  dflt   : Option Nat := none

/-- plugin args `EnableRuntimeQuota`, `EnableCheckParentQuota`. -/
structure Cfg where
  rt : Bool
  cp : Bool
deriving DecidableEq, Repr

def rootQuota : Quota :=
  { name := rootName, parent := rootName, isParent := true, lent := false,
    max := RL.empty, min := RL.empty, runtime := RL.empty,
    used := fun _ => 0, npUsed := fun _ => 0, selfUsed := fun _ => 0, selfNp := fun _ => 0 }

def init (dims : Nat) : State := { dims := dims, quotas := [rootQuota], pods := [] }

def findQ (qs : List Quota) (n : Nat) : Option Quota := qs.find? (fun q => q.name == n)

def findP (ps : List Pod) (i : Nat) : Option Pod := ps.find? (fun p => p.id == i)

/-- `getCurToAllParentGroupQuotaInfoNoLock`: the group, its parent, … up to and including the root;
    stops early at a name that is not registered.  (Go loops without a bound; `fuel` = number of
    groups + 1 suffices for any acyclic tree.) -/
def chain (qs : List Quota) : Nat → Nat → List Quota
  | 0, _ => []
  | fuel + 1, n =>
    match findQ qs n with
    | none => []
    | some q => q :: (if n = rootName then [] else chain qs fuel q.parent)

def fuelOf (s : State) : Nat := s.quotas.length + 1

def pathNames (s : State) (n : Nat) : List Nat := (chain s.quotas (fuelOf s) n).map (·.name)

/-- `quotav1.LessThanOrEqual(a, lim)`: only the keys of `lim` are inspected. -/
def leqB (D : Nat) (a : Nat → Int) (lim : RL) : Bool :=
  (List.range D).all fun d => match lim d with
    | none => true
    | some l => decide (a d ≤ l)

/-- value of `quotav1.Mask(PodRequests(pod), ResourceNames(quota.Max))` in dimension `d`. -/
def mreq (q : Quota) (p : Pod) (d : Nat) : Int := if (q.max d).isSome then val p.req d else 0

/-- key `d` is present in the masked pod request. -/
def mkey (q : Quota) (p : Pod) (d : Nat) : Bool := (q.max d).isSome && (p.req d).isSome

/-- `getQuotaInfoUsedLimit`. -/
def limitOf (cfg : Cfg) (q : Quota) : RL := if cfg.rt then q.runtime else q.max

/-- framework status codes. -/
inductive Verdict where
  | success | error | unschedulable
deriving DecidableEq, Repr

def Verdict.code : Verdict → Nat
  | .success => 0
  | .error => 1
  | .unschedulable => 2

/-- `newUsed := Mask(Add(podRequest, quotaUsed), ResourceNames(podRequest))` of `checkQuotaRecursive`. -/
def ancNewUsed (leaf : Quota) (p : Pod) (a : Quota) (d : Nat) : Int :=
  if mkey leaf p d then mreq leaf p d + a.used d else 0

/-- `checkQuotaRecursive` (Go recursion is unbounded; out of fuel = error, unreachable on a tree). -/
def checkRec (D : Nat) (qs : List Quota) (cfg : Cfg) (leaf : Quota) (p : Pod) : Nat → Nat → Verdict
  | 0, _ => .error
  | fuel + 1, cur =>
    if cur = rootName then .success else
    match findQ qs cur with
    | none => .error
    | some a =>
      if leqB D (ancNewUsed leaf p a) (limitOf cfg a) then checkRec D qs cfg leaf p fuel a.parent
      else .unschedulable

/-- `PreFilter` for a pod whose quota label names a registered group (hook plugins absent). -/
def attempt (s : State) (cfg : Cfg) (p : Pod) : Verdict :=
  match findQ s.quotas p.quota with
  | none => .error
  | some q =>
    if !leqB s.dims (fun d => mreq q p d + q.used d) (limitOf cfg q) then .unschedulable
    else if p.np && !leqB s.dims (fun d => mreq q p d + q.npUsed d) q.min then .unschedulable
    else if cfg.cp then checkRec s.dims s.quotas cfg q p (fuelOf s) q.parent
    else .success

def clamp0 (x : Int) : Int := if x < 0 then 0 else x

/-- `addUsedNonNegativeNoLock(delta, deltaNonPreemptibleUsed, isSelfUsed)`. -/
def addUsed (g : Quota) (δ nδ : Nat → Int) (self : Bool) : Quota :=
  { g with used := fun d => clamp0 (g.used d + δ d), npUsed := fun d => clamp0 (g.npUsed d + nδ d)
           selfUsed := if self then fun d => clamp0 (g.selfUsed d + δ d) else g.selfUsed
           selfNp := if self then fun d => clamp0 (g.selfNp d + nδ d) else g.selfNp }

/-- `updateGroupDeltaUsedNoLock(quotaName, delta, deltaNP, selfQuotaIndex)`: every group on the path gets the
    delta; `self = some n` (index 0, the start group `n`) also books it as that group's own, `none` = index -1. -/
def applyDelta (s : State) (names : List Nat) (self : Option Nat) (δ nδ : Nat → Int) : List Quota :=
  s.quotas.map fun g => if g.name ∈ names then addUsed g δ nδ (self == some g.name) else g

def setPod (ps : List Pod) (id : Nat) (f : Pod → Pod) : List Pod :=
  ps.map fun x => if x.id = id then f x else x

/-- `ReservePod` → `updatePodIsAssignedNoLock(true)`, `updatePodUsedNoLock(quota, nil, pod)`. -/
def reserve (s : State) (id : Nat) : State :=
  match findP s.pods id with
  | none => s
  | some p =>
    match findQ s.quotas p.quota with
    | none => s
    | some q =>
      if !p.inCache || p.assigned then s else
      { s with
        quotas := applyDelta s (pathNames s p.quota) (some p.quota) (mreq q p) (fun d => if p.np then mreq q p d else 0)
        pods := setPod s.pods id fun x => { x with assigned := true } }

/-- `UnreservePod` → `updatePodUsedNoLock(quota, pod, nil)`, `updatePodIsAssignedNoLock(false)`. -/
def unreserve (s : State) (id : Nat) : State :=
  match findP s.pods id with
  | none => s
  | some p =>
    match findQ s.quotas p.quota with
    | none => s
    | some q =>
      if !p.inCache || !p.assigned then s else
      { s with
        quotas := applyDelta s (pathNames s p.quota) (some p.quota) (fun d => -(mreq q p d)) (fun d => if p.np then -(mreq q p d) else 0)
        pods := setPod s.pods id fun x => { x with assigned := false } }

/-- `OnPodDelete` (used side): an assigned pod gives its request back, the `PodInfo` is dropped. -/
def podDelete (s : State) (id : Nat) : State :=
  match findP s.pods id with
  | none => s
  | some p =>
    match findQ s.quotas p.quota with
    | none => s
    | some q =>
      if !p.inCache then s else
      { s with
        quotas := if p.assigned then
            applyDelta s (pathNames s p.quota) (some p.quota) (fun d => -(mreq q p d)) (fun d => if p.np then -(mreq q p d) else 0)
          else s.quotas
        pods := setPod s.pods id fun x => { x with inCache := false, assigned := false } }

/-- `getPodAssociateQuotaNameAndTreeID`: the labelled group if it is registered, else the default quota. -/
def homeOf (s : State) (p : Pod) : Nat :=
  if (findQ s.quotas p.label).isSome then p.label else s.dflt.getD p.label

/-- `OnPodAdd` of a pending pod (no node name): a fresh, unassigned `PodInfo` in the associated group. -/
def podAdd (s : State) (id : Nat) : State :=
  match findP s.pods id with
  | none => s
  | some p =>
    match findQ s.quotas (homeOf s p) with
    | none => s
    | some _ =>
      if p.inCache then s else
      { s with pods := setPod s.pods id fun x => { x with quota := homeOf s p, inCache := true, assigned := false, cuid := x.uid } }

/-- the harness builds a pod object. -/
def podDef (s : State) (id quota : Nat) (np : Bool) (req : RL) : State :=
  { s with pods := s.pods ++ [{ id := id, quota := quota, label := quota, np := np, req := req,
                                inCache := false, assigned := false }] }

/-- a pod sitting in the default quota although its labelled group is registered by now. -/
def limbo (s : State) (p : Pod) : Bool :=
  p.inCache && (s.dflt == some p.quota) && (p.label != p.quota) && (findQ s.quotas p.label).isSome

/-- `MigratePod(pod, default, labelled group)` (used side): an assigned pod's usage leaves the default quota's path
    (masked to ITS max) and enters the labelled group's path (masked to that group's max), self index 0 both
    times; the `PodInfo` moves with its assigned flag. -/
def migrateOne (s : State) (p : Pod) : State :=
  match findQ s.quotas p.quota, findQ s.quotas p.label with
  | some qd, some qx =>
    let s1 : State := if p.assigned then
        { s with quotas := applyDelta s (pathNames s p.quota) (some p.quota) (fun d => -(mreq qd p d))
                             (fun d => if p.np then -(mreq qd p d) else 0) }
      else s
    let s2 : State := if p.assigned then
        { s1 with quotas := applyDelta s1 (pathNames s1 p.label) (some p.label) (mreq qx p)
                              (fun d => if p.np then mreq qx p d else 0) }
      else s1
    { s2 with pods := setPod s2.pods p.id fun x => { x with quota := x.label } }
  | _, _ => s

/-- the tick meets a pod of the default quota that its labelled group already holds (`ghost`): `MigratePod` takes it
    out of the default quota (usage back if that `PodInfo` was assigned) and returns — "the target quota already
    holds the pod", fix 5a63beb. -/
def unghostOne (s : State) (p : Pod) : State :=
  match s.dflt with
  | none => s
  | some dn =>
    match findQ s.quotas dn with
    | none => s
    | some qd =>
      let s1 : State := if p.ghostAssigned then
          { s with quotas := applyDelta s (pathNames s dn) (some dn) (fun d => -(mreq qd p d))
                               (fun d => if p.np then -(mreq qd p d) else 0) }
        else s
      { s1 with pods := setPod s1.pods p.id fun x => { x with ghost := false, ghostAssigned := false } }

def unghost (s : State) : State := (s.pods.filter (·.ghost)).foldl unghostOne s

/-- `migrateDefaultQuotaGroupsPod` (one tick, same tree): every pod of the default quota whose labelled group
    exists by now is migrated (Go ranges over a map; the moves commute, the model takes list order). -/
def migrate (s : State) : State :=
  let s' := unghost s
  (s'.pods.filter (limbo s')).foldl migrateOne s'

/-- the harness builds a NEW pod object under an old cache key (pod deleted and re-created under the same name):
    new UID, possibly another request. -/
def podRedef (s : State) (id : Nat) (np : Bool) (req : RL) : State :=
  match findP s.pods id with
  | none => s
  | some p =>
    if p.inCache then s else
    { s with pods := setPod s.pods id fun x => { x with np := np, req := req, uid := x.uid + 1 } }

/-- `Unreserve` called with the pod object of incarnation `uid`: `UnreservePod` returns when the cached pod has
    another UID (`isCachedPodUID`, fix 03c2d97). -/
def unreserveObj (s : State) (id uid : Nat) : State :=
  match findP s.pods id with
  | none => s
  | some p => if p.cuid = uid then unreserve s id else s

/-- `OnPodUpdate` with the bind update (spec.nodeName set).  For a pod waiting in the default quota for the tick
    (`limbo`): the labelled group does not hold it, so it is filed there ("pod creation is before quota creation"),
    marked assigned and its usage booked on the group's path; the `PodInfo` in the default quota stays (`ghost`).
    For any other cached pod: assigned + usage booked unless it is assigned already (= `reserve`). -/
def podBind (s : State) (id : Nat) : State :=
  match findP s.pods id with
  | none => s
  | some p =>
    if !limbo s p then reserve s id else
    match findQ s.quotas p.label with
    | none => s
    | some qx =>
      { s with
        quotas := applyDelta s (pathNames s p.label) (some p.label) (mreq qx p) (fun d => if p.np then mreq qx p d else 0)
        pods := setPod s.pods id fun x =>
          { x with quota := x.label, assigned := true, ghost := true, ghostAssigned := x.assigned } }

/-- `quotav1.IsZero` on the declared dimensions. -/
def allZero (D : Nat) (a : Nat → Int) : Bool := (List.range D).all fun d => a d == 0

/-- `UpdateQuota`, quota not yet known: `updateQuotaInternalNoLock(new, nil)` — a fresh `QuotaInfo`. -/
def quotaAdd (s : State) (n parent : Nat) (isParent lent : Bool) (mx mn : RL) : State :=
  { s with quotas := s.quotas ++ [{ name := n, parent := parent, isParent := isParent, lent := lent,
                                    max := mx, min := mn, runtime := RL.empty,
                                    used := fun _ => 0, npUsed := fun _ => 0,
                                    selfUsed := fun _ => 0, selfNp := fun _ => 0 }] }

/-- `UpdateQuota` with unchanged meta (`updateQuotaInternalNoLock`): only `Max`/`Min` are replaced, `Used` stays. -/
def quotaMaxMin (s : State) (n : Nat) (mx mn : RL) : State :=
  { s with quotas := s.quotas.map fun q => if q.name = n then { q with max := mx, min := mn } else q }

/-- `deleteQuotaNoLock` (used side): the group leaves `quotaInfoMap`, its `Used` / `NonPreemptibleUsed` are taken
    from the old parent and every group above it (`selfQuotaIndex = -1`), unless both are zero. -/
def deleteQuota (s : State) (n : Nat) : State :=
  match findQ s.quotas n with
  | none => s
  | some q =>
    let s1 : State := { s with quotas := s.quotas.filter fun g => g.name != n }
    if allZero s.dims q.used && allZero s.dims q.npUsed then s1
    else { s1 with quotas := applyDelta s1 (pathNames s1 q.parent) none (fun d => -(q.used d)) (fun d => -(q.npUsed d)) }

/-- `updateQuotaNoLockWhenParentChange`: delete, re-create (fresh `QuotaInfo` from the new object, `PodCache` kept,
    `Runtime` empty until the next refresh), then add the saved `SelfUsed` (index 0) and — only when the OLD info
    says `IsParent` — the children's part `Used - SelfUsed` (index -1) to the group and its NEW ancestors; each
    of the two only if not both of its lists are zero. -/
def reparent (s : State) (old : Quota) (parent : Nat) (isParent lent : Bool) (mx mn : RL) : State :=
  let s1 := deleteQuota s old.name
  let s2 := quotaAdd s1 old.name parent isParent lent mx mn
  let s3 : State :=
    if allZero s.dims old.selfUsed && allZero s.dims old.selfNp then s2
    else { s2 with quotas := applyDelta s2 (pathNames s2 old.name) (some old.name) old.selfUsed old.selfNp }
  let du := fun d => old.used d - old.selfUsed d
  let dn := fun d => old.npUsed d - old.selfNp d
  if old.isParent && !(allZero s.dims du && allZero s.dims dn)
  then { s3 with quotas := applyDelta s3 (pathNames s3 old.name) none du dn }
  else s3

/-- what `rebuildAllGroupQuotaNoLock` saves for a group before clearing it: `SelfUsed` / `SelfNonPreemptibleUsed`
    of an is-parent group, `Used` / `NonPreemptibleUsed` otherwise. -/
def ownUsed (q : Quota) : (Nat → Int) × (Nat → Int) :=
  if q.isParent then (q.selfUsed, q.selfNp) else (q.used, q.npUsed)

/-- `clearForResetNoLock`; for the root `resetRootQuotaUsedAndRequest` (used of the system + default quota, which
    carry no pods in the histories that reach a reset: 0). -/
def clearQ (q : Quota) : Quota :=
  if q.name = rootName then { q with used := fun _ => 0, npUsed := fun _ => 0 }
  else { q with used := fun _ => 0, npUsed := fun _ => 0, selfUsed := fun _ => 0, selfNp := fun _ => 0,
                runtime := RL.empty }

/-- one iteration of the last loop of `rebuildAllGroupQuotaNoLock` (`q` = the group as saved before clearing):
    `updateGroupDeltaUsedNoLock(name, savedUsed, savedNonPreemptibleUsed, 0)` over the rebuilt tree. -/
def reAdd (st : State) (q : Quota) : State :=
  { st with quotas := applyDelta st (pathNames st q.name) (some q.name) (ownUsed q).1 (ownUsed q).2 }

/-- `resetQuotaNoLock` (Go ranges over a map; additions of non-negative amounts commute, the model takes list order). -/
def resetAll (s : State) : State :=
  (s.quotas.filter fun q => q.name != rootName).foldl reAdd { s with quotas := s.quotas.map clearQ }

/-- `updateQuotaInfoFromRemote`: max, min, allow-lent and is-parent are taken from the new object (parent unchanged). -/
def quotaMeta (s : State) (n : Nat) (isParent lent : Bool) (mx mn : RL) : State :=
  { s with quotas := s.quotas.map fun g =>
      if g.name = n then { g with max := mx, min := mn, isParent := isParent, lent := lent } else g }

/-- `OnQuotaAdd` / `OnQuotaUpdate` → `UpdateQuota`: unknown group ⇒ add; meta (parent, is-parent, allow-lent)
    unchanged ⇒ max/min only; parent changed ⇒ re-parent (whatever else changed); otherwise
    `updateQuotaInfoFromRemote` + `resetQuotaNoLock`. -/
def quotaSet (s : State) (n parent : Nat) (isParent lent : Bool) (mx mn : RL) : State :=
  match findQ s.quotas n with
  | none => quotaAdd s n parent isParent lent mx mn
  | some q =>
    if q.parent = parent ∧ q.isParent = isParent ∧ q.lent = lent then quotaMaxMin s n mx mn
    else if q.parent ≠ parent then reparent s q parent isParent lent mx mn
    else resetAll (quotaMeta s n isParent lent mx mn)

/-- `quotav1.Equals(a, b)` over the dimensions of the world: the same keys with the same values.  An entry whose
    value is zero is an entry (`{cpu, gpu: 0}` and `{cpu}` differ). -/
def rlEq (D : Nat) (a b : RL) : Bool := (List.range D).all fun d => a d == b d

/-- `QuotaInfo.IsQuotaChange(new)`: allow-lent, is-parent, parent name, then `Equals` on Max, Min and SharedWeight
    (`extension.GetSharedWeight` = a copy of Max unless the annotation is set, which no modelled history does, so the
    third comparison repeats the first).  This is the "is the update applied at all" gate of `Plugin.OnQuotaUpdate`
    and of `GroupQuotaManager.UpdateQuota` (hook plugins absent: `isQuotaUpdatedNoLock` = false). -/
def isQuotaChange (D : Nat) (q : Quota) (parent : Nat) (isParent lent : Bool) (mx mn : RL) : Bool :=
  q.lent != lent || q.isParent != isParent || q.parent != parent || !rlEq D q.max mx || !rlEq D q.min mn

/-- `Plugin.OnQuotaAdd` / `Plugin.OnQuotaUpdate(old, new)` → `UpdateQuota(new)`: an unknown group is added; for a known
    one the update is dropped ("quota not change") unless `IsQuotaChange`, else dispatched as `quotaSet`. -/
def quotaUpdate (s : State) (n parent : Nat) (isParent lent : Bool) (mx mn : RL) : State :=
  match findQ s.quotas n with
  | none => quotaSet s n parent isParent lent mx mn
  | some q => if isQuotaChange s.dims q parent isParent lent mx mn then quotaSet s n parent isParent lent mx mn else s

/-- `core.NewQuotaInfoFromQuota` (quota_info.go): the allow-lent flag a quota OBJECT yields.  With the alpha feature
    gate `ElasticQuotaGuaranteeUsage` on, the label `allow-lent-resource` is ignored (`allowLentResource = false`), so
    the manager never sees an allow-lent flip (`IsQuotaChange` compares false with false) and such an update is
    dropped or treated as whatever else it changes.  The gate touches nothing else of the model: the operands of
    `PreFilter` (used, limit, non-preemptible used, declared min) and the used side of the accounting are the same;
    what the gate adds (Allocated / Guaranteed, runtime calculator) only feeds the runtime list, an input here. -/
def declaredLent (guaranteeUsage lent : Bool) : Bool := if guaranteeUsage then false else lent

/-- `OnQuotaAdd` / `OnQuotaUpdate` of an object under a given setting of the gate. -/
def quotaUpdateGated (guaranteeUsage : Bool) (s : State) (n parent : Nat) (isParent lent : Bool) (mx mn : RL) : State :=
  quotaUpdate s n parent isParent (declaredLent guaranteeUsage lent) mx mn

/-- `RefreshRuntime` wrote a new `CalculateInfo.Runtime` (value supplied by the environment). -/
def setRuntime (s : State) (n : Nat) (r : RL) : State :=
  { s with quotas := s.quotas.map fun q => if q.name = n then { q with runtime := r } else q }

inductive Op where
  | quotaSet (n parent : Nat) (isParent lent : Bool) (mx mn : RL)
  | setRuntime (n : Nat) (r : RL)
  | podDef (id quota : Nat) (np : Bool) (req : RL)
  | podAdd (id : Nat)
  | attempt (id : Nat) (cfg : Cfg)
  | reserve (id : Nat)
  | unreserve (id : Nat)
  | podDelete (id : Nat)
  | setDefault (n : Nat)
  | migrate
  | podRedef (id : Nat) (np : Bool) (req : RL)
  | unreserveObj (id uid : Nat)
  | podBind (id : Nat)

/-- one event; the output is the PreFilter verdict of an `attempt`. -/
def step (s : State) : Op → State × Option Verdict
  | .quotaSet n p ip l mx mn => (quotaSet s n p ip l mx mn, none)
  | .setRuntime n r => (setRuntime s n r, none)
  | .podDef id q np req => (podDef s id q np req, none)
  | .podAdd id => (podAdd s id, none)
  | .attempt id cfg =>
    match findP s.pods id with
    | none => (s, some .error)
    | some p => (s, some (attempt s cfg p))
  | .reserve id => (reserve s id, none)
  | .unreserve id => (unreserve s id, none)
  | .podDelete id => (podDelete s id, none)
  | .setDefault n => ({ s with dflt := some n }, none)
  | .migrate => (migrate s, none)
  | .podRedef id np req => (podRedef s id np req, none)
  | .unreserveObj id uid => (unreserveObj s id uid, none)
  | .podBind id => (podBind s id, none)

/-! ### critical sections (`hierarchyUpdateLock`)

One pod's roll-back racing its deletion, at the granularity of the manager's critical sections.  Each of the two
calls runs "acquire the lock + test `isAssigned`" (one step, the `PodInfo` test is under the quota's own lock),
"subtract the request from used", "clear the flag / drop the `PodInfo` + release". -/

/-- which side of `hierarchyUpdateLock` an entry point takes. -/
inductive LockKind where
  | excl | shared
deriving DecidableEq, Repr

/-- `UnreservePod` / `ReservePod` take `Lock()`, `OnPodDelete` takes `RLock()` (tied to the source in Ties/C03). -/
def unreserveLock : LockKind := .excl
def podDeleteLock : LockKind := .shared

inductive Pc where
  | start | sub | fin | done
deriving DecidableEq, Repr

structure LState where
  /-- how often the pod's request has been subtracted from used -/
  subs     : Nat
  assigned : Bool
  present  : Bool
  pcU      : Pc   -- the thread running Unreserve(p)
  pcD      : Pc   -- the thread running OnPodDelete(p)
deriving DecidableEq, Repr

def lInit : LState := { subs := 0, assigned := true, present := true, pcU := .start, pcD := .start }

def inSection : Pc → Bool
  | .sub | .fin => true
  | _ => false

/-- may a thread of kind `k` enter while the other thread (kind `ko`, program counter `pco`) is where it is? -/
def mayEnter (k ko : LockKind) (pco : Pc) : Bool :=
  !(inSection pco && (k == .excl || ko == .excl))

/-- one step of the Unreserve thread (`none` = blocked on the lock). -/
def stepU (kU kD : LockKind) (s : LState) : Option LState :=
  match s.pcU with
  | .start =>
    if !mayEnter kU kD s.pcD then none
    else if s.present && s.assigned then some { s with pcU := .sub } else some { s with pcU := .done }
  | .sub => some { s with subs := s.subs + 1, pcU := .fin }
  | .fin => some { s with assigned := false, pcU := .done }
  | .done => some s

/-- one step of the OnPodDelete thread. -/
def stepD (kU kD : LockKind) (s : LState) : Option LState :=
  match s.pcD with
  | .start =>
    if !mayEnter kD kU s.pcU then none
    else if !s.present then some { s with pcD := .done }
    else if s.assigned then some { s with pcD := .sub } else some { s with pcD := .fin }
  | .sub => some { s with subs := s.subs + 1, pcD := .fin }
  | .fin => some { s with present := false, assigned := false, pcD := .done }
  | .done => some s

/-- run a schedule (`true` = the Unreserve thread moves); `none` = the schedule asks a blocked thread to move. -/
def lRun (kU kD : LockKind) : List Bool → LState → Option LState
  | [], s => some s
  | b :: bs, s =>
    match (if b then stepU kU kD s else stepD kU kD s) with
    | none => none
    | some s' => lRun kU kD bs s'

def allScheds : Nat → List (List Bool)
  | 0 => [[]]
  | n + 1 => (allScheds n).flatMap fun s => [true :: s, false :: s]

end KoordVerif.C03
