/-
C03 — quota admission never lets usage pass the quota's limit.  Model of
  pkg/scheduler/plugins/elasticquota/plugin.go         PreFilter, Reserve, Unreserve
  pkg/scheduler/plugins/elasticquota/plugin_helper.go  checkQuotaRecursive, getQuotaInfoUsedLimit,
                                                       snapshotPostFilterState
  pkg/scheduler/plugins/elasticquota/core/group_quota_manager.go
      ReservePod, UnreservePod, OnPodAdd, OnPodDelete, updatePodUsedNoLock,
      updateGroupDeltaUsedNoLock, getCurToAllParentGroupQuotaInfoNoLock
  pkg/scheduler/plugins/elasticquota/core/quota_info.go addUsedNonNegativeNoLock
Only the `used` side of the accounting is modelled (the request side / runtime computation is
C01/C02): the runtime quota of a group is an *input* (`setRuntime`, the value the manager holds in
`CalculateInfo.Runtime` after `RefreshRuntime`).

Resource lists are partial maps over dimension indices (`RL`): key presence matters because
`quotav1.LessThanOrEqual(a, b)` only inspects the keys of `b`, `quotav1.Mask` keeps the keys
present in both arguments, and a missing key reads as 0.  `Used`/`NonPreemptibleUsed` are total
vectors (missing = 0): their key presence never influences a comparison.  CPU in milli units.
Core-only.
-/
namespace KoordVerif.C03

/-- `corev1.ResourceList` over dimension indices. -/
abbrev RL := Nat → Option Int

def RL.empty : RL := fun _ => none

/-- a missing key reads as the zero quantity. -/
def val (a : RL) (d : Nat) : Int := (a d).getD 0

/-- `extension.RootQuotaName`. -/
def rootName : Nat := 0

structure Quota where
  name    : Nat
  parent  : Nat
  max     : RL
  min     : RL
  /-- `CalculateInfo.Runtime` as last refreshed (input). -/
  runtime : RL
  used    : Nat → Int
  npUsed  : Nat → Int

/-- a pod object (immutable part) + its `PodInfo` in the quota's `PodCache`. -/
structure Pod where
  id       : Nat
  quota    : Nat
  np       : Bool
  req      : RL
  inCache  : Bool
  assigned : Bool

structure State where
  dims   : Nat
  quotas : List Quota
  pods   : List Pod

/-- plugin args `EnableRuntimeQuota`, `EnableCheckParentQuota`. -/
structure Cfg where
  rt : Bool
  cp : Bool
deriving DecidableEq, Repr

def rootQuota : Quota :=
  { name := rootName, parent := rootName, max := RL.empty, min := RL.empty, runtime := RL.empty,
    used := fun _ => 0, npUsed := fun _ => 0 }

def init (dims : Nat) : State := { dims := dims, quotas := [rootQuota], pods := [] }

def findQ (qs : List Quota) (n : Nat) : Option Quota := qs.find? (fun q => q.name == n)

def findP (ps : List Pod) (i : Nat) : Option Pod := ps.find? (fun p => p.id == i)

/-- `getCurToAllParentGroupQuotaInfoNoLock`: the group, its parent, … up to and including the root;
    stops early at a name that is not registered.  (Go loops without a bound; `fuel` = number of
    groups + 1 suffices for any acyclic tree.) -/
def chain (qs : List Quota) : Nat → Nat → List Quota
  | 0, _ => []
  | fuel + 1, n =>
    match findQ qs n with
    | none => []
    | some q => q :: (if n = rootName then [] else chain qs fuel q.parent)

def fuelOf (s : State) : Nat := s.quotas.length + 1

def pathNames (s : State) (n : Nat) : List Nat := (chain s.quotas (fuelOf s) n).map (·.name)

/-- `quotav1.LessThanOrEqual(a, lim)`: only the keys of `lim` are inspected. -/
def leqB (D : Nat) (a : Nat → Int) (lim : RL) : Bool :=
  (List.range D).all fun d => match lim d with
    | none => true
    | some l => decide (a d ≤ l)

/-- value of `quotav1.Mask(PodRequests(pod), ResourceNames(quota.Max))` in dimension `d`. -/
def mreq (q : Quota) (p : Pod) (d : Nat) : Int := if (q.max d).isSome then val p.req d else 0

/-- key `d` is present in the masked pod request. -/
def mkey (q : Quota) (p : Pod) (d : Nat) : Bool := (q.max d).isSome && (p.req d).isSome

/-- `getQuotaInfoUsedLimit`. -/
def limitOf (cfg : Cfg) (q : Quota) : RL := if cfg.rt then q.runtime else q.max

/-- framework status codes. -/
inductive Verdict where
  | success | error | unschedulable
deriving DecidableEq, Repr

def Verdict.code : Verdict → Nat
  | .success => 0
  | .error => 1
  | .unschedulable => 2

/-- `newUsed := Mask(Add(podRequest, quotaUsed), ResourceNames(podRequest))` of `checkQuotaRecursive`. -/
def ancNewUsed (leaf : Quota) (p : Pod) (a : Quota) (d : Nat) : Int :=
  if mkey leaf p d then mreq leaf p d + a.used d else 0

/-- `checkQuotaRecursive` (Go recursion is unbounded; out of fuel = error, unreachable on a tree). -/
def checkRec (D : Nat) (qs : List Quota) (cfg : Cfg) (leaf : Quota) (p : Pod) : Nat → Nat → Verdict
  | 0, _ => .error
  | fuel + 1, cur =>
    if cur = rootName then .success else
    match findQ qs cur with
    | none => .error
    | some a =>
      if leqB D (ancNewUsed leaf p a) (limitOf cfg a) then checkRec D qs cfg leaf p fuel a.parent
      else .unschedulable

/-- `PreFilter` for a pod whose quota label names a registered group (hook plugins absent). -/
def attempt (s : State) (cfg : Cfg) (p : Pod) : Verdict :=
  match findQ s.quotas p.quota with
  | none => .error
  | some q =>
    if !leqB s.dims (fun d => mreq q p d + q.used d) (limitOf cfg q) then .unschedulable
    else if p.np && !leqB s.dims (fun d => mreq q p d + q.npUsed d) q.min then .unschedulable
    else if cfg.cp then checkRec s.dims s.quotas cfg q p (fuelOf s) q.parent
    else .success

def clamp0 (x : Int) : Int := if x < 0 then 0 else x

/-- `addUsedNonNegativeNoLock` (Used and NonPreemptibleUsed; the Self* copies are not observed). -/
def addUsed (g : Quota) (δ nδ : Nat → Int) : Quota :=
  { g with used := fun d => clamp0 (g.used d + δ d), npUsed := fun d => clamp0 (g.npUsed d + nδ d) }

/-- `updateGroupDeltaUsedNoLock`: every group on the path gets the delta. -/
def applyDelta (s : State) (names : List Nat) (δ nδ : Nat → Int) : List Quota :=
  s.quotas.map fun g => if g.name ∈ names then addUsed g δ nδ else g

def setPod (ps : List Pod) (id : Nat) (f : Pod → Pod) : List Pod :=
  ps.map fun x => if x.id = id then f x else x

/-- `ReservePod` → `updatePodIsAssignedNoLock(true)`, `updatePodUsedNoLock(quota, nil, pod)`. -/
def reserve (s : State) (id : Nat) : State :=
  match findP s.pods id with
  | none => s
  | some p =>
    match findQ s.quotas p.quota with
    | none => s
    | some q =>
      if !p.inCache || p.assigned then s else
      { s with
        quotas := applyDelta s (pathNames s p.quota) (mreq q p) (fun d => if p.np then mreq q p d else 0)
        pods := setPod s.pods id fun x => { x with assigned := true } }

/-- `UnreservePod` → `updatePodUsedNoLock(quota, pod, nil)`, `updatePodIsAssignedNoLock(false)`. -/
def unreserve (s : State) (id : Nat) : State :=
  match findP s.pods id with
  | none => s
  | some p =>
    match findQ s.quotas p.quota with
    | none => s
    | some q =>
      if !p.inCache || !p.assigned then s else
      { s with
        quotas := applyDelta s (pathNames s p.quota) (fun d => -(mreq q p d)) (fun d => if p.np then -(mreq q p d) else 0)
        pods := setPod s.pods id fun x => { x with assigned := false } }

/-- `OnPodDelete` (used side): an assigned pod gives its request back, the `PodInfo` is dropped. -/
def podDelete (s : State) (id : Nat) : State :=
  match findP s.pods id with
  | none => s
  | some p =>
    match findQ s.quotas p.quota with
    | none => s
    | some q =>
      if !p.inCache then s else
      { s with
        quotas := if p.assigned then
            applyDelta s (pathNames s p.quota) (fun d => -(mreq q p d)) (fun d => if p.np then -(mreq q p d) else 0)
          else s.quotas
        pods := setPod s.pods id fun x => { x with inCache := false, assigned := false } }

/-- `OnPodAdd` of a pending pod (no node name): a fresh, unassigned `PodInfo`. -/
def podAdd (s : State) (id : Nat) : State :=
  match findP s.pods id with
  | none => s
  | some p =>
    match findQ s.quotas p.quota with
    | none => s
    | some _ =>
      if p.inCache then s else
      { s with pods := setPod s.pods id fun x => { x with inCache := true, assigned := false } }

/-- the harness builds a pod object. -/
def podDef (s : State) (id quota : Nat) (np : Bool) (req : RL) : State :=
  { s with pods := s.pods ++ [{ id := id, quota := quota, np := np, req := req, inCache := false, assigned := false }] }

/-- `OnQuotaAdd` / `OnQuotaUpdate` with unchanged meta: only `Max`/`Min` are replaced, `Used` stays. -/
def quotaSet (s : State) (n parent : Nat) (mx mn : RL) : State :=
  match findQ s.quotas n with
  | some _ => { s with quotas := s.quotas.map fun q => if q.name = n then { q with max := mx, min := mn } else q }
  | none => { s with quotas := s.quotas ++ [{ name := n, parent := parent, max := mx, min := mn, runtime := RL.empty,
                                              used := fun _ => 0, npUsed := fun _ => 0 }] }

/-- `RefreshRuntime` wrote a new `CalculateInfo.Runtime` (value supplied by the environment). -/
def setRuntime (s : State) (n : Nat) (r : RL) : State :=
  { s with quotas := s.quotas.map fun q => if q.name = n then { q with runtime := r } else q }

inductive Op where
  | quotaSet (n parent : Nat) (mx mn : RL)
  | setRuntime (n : Nat) (r : RL)
  | podDef (id quota : Nat) (np : Bool) (req : RL)
  | podAdd (id : Nat)
  | attempt (id : Nat) (cfg : Cfg)
  | reserve (id : Nat)
  | unreserve (id : Nat)
  | podDelete (id : Nat)

/-- one event; the output is the PreFilter verdict of an `attempt`. -/
def step (s : State) : Op → State × Option Verdict
  | .quotaSet n p mx mn => (quotaSet s n p mx mn, none)
  | .setRuntime n r => (setRuntime s n r, none)
  | .podDef id q np req => (podDef s id q np req, none)
  | .podAdd id => (podAdd s id, none)
  | .attempt id cfg =>
    match findP s.pods id with
    | none => (s, some .error)
    | some p => (s, some (attempt s cfg p))
  | .reserve id => (reserve s id, none)
  | .unreserve id => (unreserve s id, none)
  | .podDelete id => (podDelete s id, none)

end KoordVerif.C03
