import KoordVerif.Model.C09
import KoordVerif.Model.C09Plugin
/-
C09, extension 4: which ColocationStrategy ONE node gets.

Go code modelled (as written):
  pkg/slo-controller/config/colocation_cm_event_handler.go  syncConfig / updateCacheIfChanged      (`loadCfg`, `cmEvent`)
  pkg/util/sloconfig/colocation_config.go                    DefaultColocationStrategy, IsColocationStrategyValid,
                                                             GetNodeColocationStrategy, UpdateColocationStrategyForNode (`resolve`)
  pkg/util/utils.go                                          MergeCfg                                (`mergeV`)
  pkg/slo-controller/noderesource/resource_calculator.go     isColocationCfgDisabled                 (`nodeEnabled`)

A strategy is the vector of the pointer fields the noderesource controller reads (`none` = nil pointer):
  0 enable(0/1) 1 cpuReclaimThr 2 memReclaimThr 3 batchCpuCap 4 batchMemCap 5 degradeMinutes 6 updateIntervalSec
  7 diffThreshold (permille) 8 cpuPolicy 9 memPolicy (0 usage 1 request 2 maxUsageRequest, else unknown) 10 midReclaimMode (1 = static)
  11 midCpuThr 12 midMemThr 13 midStaticCpuReserved 14 midStaticMemReserved 15 midUnallocated
The cache is a VALUE here: `GetCfgCopy` hands every reconcile a deep copy (every pointer field cloned — tied to the generated
DeepCopyInto by Ties/C09.lean), `MergeCfg` writes only through its first argument, hence computing one node's strategy
leaves the cache alone (`cfgStep … (.reconcile _)` is the identity on the cache; the harness compares the real cache with
the declared ConfigMap after every reconcile).
Core Lean only.
-/
namespace KoordVerif.C09

abbrev StratV := List (Option Int)

def nStratFields : Nat := 16

/-- `util.MergeCfg(old, new)`: JSON round trip — a field set in `new` replaces the one in `old`, a nil field of `new`
    (omitted by `omitempty`) leaves `old`'s alone. -/
def mergeV : StratV → StratV → StratV
  | o :: os, n :: ns => (match n with | some v => some v | none => o) :: mergeV os ns
  | os, [] => os
  | [], _ :: _ => []

def fld (s : StratV) (i : Nat) : Option Int := s.getD i none

/-- `sloconfig.DefaultColocationStrategy` -/
def defaultV : StratV :=
  [some 0, some 60, some 65, none, none, some 15, some 300, some 100, some 0, some 0, none,
   some 100, some 100, some 0, some 0, some 0]

def okIf (o : Option Int) (p : Int → Bool) : Bool := match o with | none => true | some v => p v

/-- `sloconfig.IsColocationStrategyValid` on the modelled fields -/
def validV (s : StratV) : Bool :=
  okIf (fld s 1) (fun v => 0 ≤ v) && okIf (fld s 13) (fun v => 0 ≤ v) &&
  okIf (fld s 2) (fun v => 0 ≤ v) && okIf (fld s 14) (fun v => 0 ≤ v) &&
  okIf (fld s 5) (fun v => 0 < v) && okIf (fld s 6) (fun v => 0 < v) && okIf (fld s 7) (fun v => 0 < v) &&
  okIf (fld s 11) (fun v => 0 ≤ v && v ≤ 100) && okIf (fld s 12) (fun v => 0 ≤ v && v ≤ 100) &&
  okIf (fld s 15) (fun v => 0 ≤ v && v ≤ 100) &&
  okIf (fld s 3) (fun v => 0 ≤ v) && okIf (fld s 4) (fun v => 0 ≤ v)

/-- a nodeConfigs entry's selector: nil pointer (`labels.Nothing`), empty selector (`labels.Everything`), or
    matchLabels {pool: v}. -/
inductive Sel | nothing | everything | pool (v : Int)
deriving Repr, DecidableEq

def Sel.matchesPool (s : Sel) (label : Option Int) : Bool :=
  match s with
  | .nothing => false
  | .everything => true
  | .pool v => label == some v

structure CfgCache where
  cluster : StratV
  nodes : List (Sel × StratV)
deriving Repr

def defaultCache : CfgCache := { cluster := defaultV, nodes := [] }

/-- what the ConfigMap declares: `none` = the colocation-config key is empty / absent (=> defaults) -/
abbrev Declared := Option (StratV × List (Sel × StratV))

/-- `syncConfig` for a parsable ConfigMap: `none` = rejected (cluster strategy invalid; the old cache is kept). -/
def loadCfg (decl : Declared) : Option CfgCache :=
  match decl with
  | none => some defaultCache
  | some (dc, dn) =>
    let cl := mergeV defaultV dc
    if !validV cl then none else
    some { cluster := cl,
           nodes := dn.map (fun e => let m := mergeV cl e.2; (e.1, if validV m then m else cl)) }

/-- the node metadata GetNodeColocationStrategy looks at -/
structure NodeMeta where
  pool : Option Int := none        -- value of the label the selectors look at
  anno : Option StratV := none     -- parsed node strategy annotation; `none`: absent or unparsable
  lblCpu : Option Int := none      -- cpu-reclaim-ratio label, already int64(v*100); `none`: absent / unparsable / negative
  lblMem : Option Int := none
deriving Repr

def firstMatch (pool : Option Int) : List (Sel × StratV) → Option StratV
  | [] => none
  | (sel, s) :: rest => if sel.matchesPool pool then some s else firstMatch pool rest

def setFld (s : StratV) (i : Nat) (v : Option Int) : StratV := s.set i v

/-- `GetNodeColocationStrategy` (first matching nodeConfigs entry, then the node annotation, then the ratio labels) -/
def resolve (c : CfgCache) (m : NodeMeta) : StratV :=
  let s1 := match firstMatch m.pool c.nodes with | some n => mergeV c.cluster n | none => c.cluster
  let s2 := match m.anno with | some a => mergeV s1 a | none => s1
  let s3 := match m.lblCpu with | some v => setFld s2 1 (some v) | none => s2
  match m.lblMem with | some v => setFld s3 2 (some v) | none => s3

/-- `isColocationCfgDisabled` negated: the CLUSTER switch and the node's resolved switch -/
def nodeEnabled (c : CfgCache) (m : NodeMeta) : Bool :=
  fld c.cluster 0 == some 1 && fld (resolve c m) 0 == some 1

def polOf : Option Int → Policy
  | some 0 => .usage | some 1 => .request | some 2 => .maxUR | _ => .unset

/-- what the batch plugin reads from the resolved strategy (the plugins dereference the threshold / degrade pointers; they
    are never nil after a load because the defaults set them and a merge never clears a field: `mergeV_some`). -/
def stratOfV (s : StratV) : Strategy :=
  { cpuThr := (fld s 1).getD 0, memThr := (fld s 2).getD 0, cpuPol := polOf (fld s 8), memPol := polOf (fld s 9),
    cpuCap := fld s 3, memCap := fld s 4, degradeMin := (fld s 5).getD 0 }

def midOfV (s : StratV) : MidStrategy :=
  { static := fld s 10 == some 1, cpuThr := fld s 11, memThr := fld s 12, cpuRes := fld s 13, memRes := fld s 14,
    unalloc := fld s 15 }

/-! ### the controller's config state over a multi-node history -/

inductive CEvent
  | cm (decl : Option Declared)        -- ConfigMap create / update event; `none` = unparsable JSON (cache kept)
  | nodeMeta (k : Nat) (m : NodeMeta)      -- node k's labels / annotations change
  | reconcile (k : Nat)                -- one Reconcile of node k
deriving Repr

structure CState where
  cache : CfgCache
  metas : Nat → NodeMeta

def cmEvent (c : CfgCache) (d : Option Declared) : CfgCache :=
  match d with
  | none => c
  | some decl => match loadCfg decl with | some c' => c' | none => c

/-- one event; the second component is what a reconcile computed: (node, enabled, strategy). -/
def cfgStep (st : CState) : CEvent → CState × Option (Nat × Bool × StratV)
  | .cm d => ({ st with cache := cmEvent st.cache d }, none)
  | .nodeMeta k m => ({ st with metas := fun j => if j = k then m else st.metas j }, none)
  | .reconcile k => (st, some (k, nodeEnabled st.cache (st.metas k), resolve st.cache (st.metas k)))

/-- the strategies node `k`'s reconciles computed, in order -/
def stratLog (k : Nat) : CState → List CEvent → List (Bool × StratV)
  | _, [] => []
  | st, e :: es =>
    let (st', out) := cfgStep st e
    match out with
    | some (j, en, s) => if j = k then (en, s) :: stratLog k st' es else stratLog k st' es
    | none => stratLog k st' es

/-- does the event concern node `k`: ConfigMap events concern everybody -/
def CEvent.concerns (k : Nat) : CEvent → Bool
  | .cm _ => true
  | .nodeMeta j _ => j == k
  | .reconcile j => j == k

end KoordVerif.C09
