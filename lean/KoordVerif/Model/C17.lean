/-
C17 — migration jobs.  Model of ONE `Reconciler.Reconcile` invocation
  pkg/descheduler/controllers/migration/controller.go   Reconcile, doMigrate and every helper it calls
  pkg/descheduler/controllers/migration/reservation/{interpreter.go,reservation.go}  Get/Create/Delete, Is…
  pkg/descheduler/controllers/migration/util/util.go    GetCondition, UpdateCondition, IsMigratePendingPod
as a decision function over (persisted job, environment, write-fault mask).  Core-only.

Conventions
* all enumerations are small `Nat` codes (`Ph`, `CT`, `Rs`, `RPh` below); names/uids/nodes/messages are Nats,
  `0` = empty string / absent.
* one PodMigrationJob, one target pod (by name), one Reservation (by the name in the job's ReservationRef =
  the name a created reservation gets), one "bound" pod (named by Reservation.Status.CurrentOwners[0]).
* API semantics are those of a status-subresource object: `Status().Update` persists only the status and
  refreshes the in-memory spec from the server; `Update` persists only the spec and refreshes the in-memory
  status from the server (controller-runtime fake client = real API server behaviour for /status).
* every API *write* of the reconcile (job Update, job Status().Update, reservation Create / Update / Delete,
  evictor.Evict) takes the next bit of the fault mask: bit set ⇒ the call fails without effect.
-/
namespace KoordVerif.C17

/-! ### codes -/
namespace Ph   -- PodMigrationJobPhase
abbrev none : Nat := 0
abbrev pending : Nat := 1
abbrev running : Nat := 2
abbrev succeeded : Nat := 3
abbrev failed : Nat := 4
end Ph

namespace CT   -- PodMigrationJobConditionType (also the code of Status.Status when it names a condition)
abbrev resvCreated : Nat := 1
abbrev resvScheduled : Nat := 2
abbrev preemption : Nat := 3
abbrev eviction : Nat := 4
abbrev podScheduled : Nat := 5
abbrev podBound : Nat := 6
abbrev boundPodReady : Nat := 7
abbrev resvBound : Nat := 8
abbrev complete : Nat := 100   -- Status.Status = "Complete"
end CT

namespace Rs   -- reasons
abbrev none : Nat := 0
abbrev timeout : Nat := 1
abbrev failedCreate : Nat := 2
abbrev resvExpired : Nat := 3
abbrev unschedulable : Nat := 4
abbrev forbidden : Nat := 5
abbrev missingPod : Nat := 6
abbrev missingResv : Nat := 7
abbrev evicting : Nat := 10
abbrev evictComplete : Nat := 12
abbrev waitBind : Nat := 13
abbrev waitReady : Nat := 14
abbrev invalidPodRef : Nat := 15
end Rs

namespace RPh  -- ReservationPhase
abbrev none : Nat := 0
abbrev pending : Nat := 1
abbrev available : Nat := 2
abbrev succeeded : Nat := 3
abbrev failed : Nat := 4
abbrev waiting : Nat := 5
end RPh

/-! ### objects -/

structure Cond where
  ty : Nat
  st : Bool      -- ConditionStatus True / False
  reason : Nat
  msg : Nat
deriving DecidableEq, Repr

structure Spec where
  paused : Bool
  direct : Bool        -- Mode = EvictionDirectly (or "" with that default)
  ttl : Nat            -- seconds, 0 = nil / zero
  podRefValid : Bool
  podUID : Nat         -- Spec.PodRef.UID
  resvRef : Bool       -- Spec.ReservationOptions.ReservationRef != nil
  evictAnno : Bool     -- evictions.HaveEvictAnnotation
  createdBy : Nat      -- AnnotationJobCreatedBy (0 = absent)
deriving DecidableEq, Repr

structure Status where
  phase : Nat
  status : Nat
  reason : Nat
  node : Nat           -- Status.NodeName
  podRef : Bool        -- Status.PodRef != nil
  conds : List Cond
deriving DecidableEq, Repr

structure Job where
  spec : Spec
  status : Status
deriving DecidableEq, Repr

structure Pod where
  uid : Nat
  node : Nat           -- Spec.NodeName
  sched : Nat          -- PodScheduled condition: 0 absent, 1 False, 2 True
  schedMsg : Nat
  pending : Bool       -- Status.Phase = Pending
deriving DecidableEq, Repr

structure Resv where
  phase : Nat
  node : Nat           -- Status.NodeName
  sched : Nat          -- condition of type Scheduled: 0 absent, 1 reason Scheduled/True, 2 reason Scheduled/False, 3 reason Unschedulable
  msg : Nat            -- message of the Unschedulable condition
  expired : Bool       -- a condition (Ready, reason Expired) is present
  owner : Nat          -- Status.CurrentOwners[0].UID, 0 = no current owner
  pendingMode : Bool   -- Spec.Owners contains an Object-only owner (util.IsMigratePendingPod)
  orderLabel : Bool    -- label scheduling.koordinator.sh/reservation-order present
  needPreempt : Bool   -- Object.NeedPreemption()
deriving DecidableEq, Repr

structure Env where
  now : Nat            -- clock.Since(job.CreationTimestamp), seconds
  pod : Option Pod
  resv : Option Resv
  bpod : Nat           -- the bound pod: 0 absent, 1 not ready, 2 ready
  limited : Bool       -- the object limiter has no token for the pod
  preempt : Nat        -- Interpreter.Preemption(): 0 nil, 1 Preempt→not complete, 2 complete, 3 error
  ctrl : Nat           -- Reconciler.reconcilerUID
deriving DecidableEq, Repr

/-! ### conditions (util.GetCondition / util.UpdateCondition) -/

def getCond : List Cond → Nat → Option Cond
  | [], _ => none
  | c :: cs, ty => if c.ty = ty then some c else getCond cs ty

/-- `UpdateCondition`: append, or overwrite the first condition of that type; the Bool is its return value
    (LastTransitionTime is carried over when the status is unchanged, so only status/reason/message count). -/
def setCond : List Cond → Cond → List Cond × Bool
  | [], c => ([c], true)
  | o :: rest, c =>
    if o.ty = c.ty then (c :: rest, !(o.st == c.st && o.reason == c.reason && o.msg == c.msg))
    else ((o :: (setCond rest c).1), (setCond rest c).2)

def condTrue (cs : List Cond) (ty : Nat) : Bool :=
  match getCond cs ty with
  | some c => c.st
  | none => false

/-- `cond == nil || cond.Status == False` -/
def condAbsentOrFalse (cs : List Cond) (ty : Nat) : Bool :=
  match getCond cs ty with
  | some c => !c.st
  | none => true

/-- `cond != nil && cond.Reason == reason` -/
def condReasonIs (cs : List Cond) (ty reason : Nat) : Bool :=
  match getCond cs ty with
  | some c => c.reason == reason
  | none => false

/-! ### in-flight state of one reconcile -/

inductive ActK where
  | jobUpdate | statusUpdate | resvCreate | resvUpdate | resvDelete | evict | preempt
  | getJob | getPod | getResv | getBPod     -- API reads, logged only by the extended model (Model/C17Read.lean)
deriving DecidableEq, Repr

def ActK.code : ActK → Nat
  | .jobUpdate => 1 | .statusUpdate => 2 | .resvCreate => 3 | .resvUpdate => 4
  | .resvDelete => 5 | .evict => 6 | .preempt => 7
  | .getJob => 8 | .getPod => 9 | .getResv => 10 | .getBPod => 11

structure Act where
  k : ActK
  ok : Bool
  arg : Nat      -- evict: uid of the pod handed to the evictor
deriving DecidableEq, Repr

/-- what the recording evictor sees at the instant of an `Evict` call -/
structure Snap where
  env : Env      -- the environment at that instant
  job0 : Job     -- the persisted job at the start of this reconcile
  mem : Job      -- the in-memory job handed to the evictor
deriving DecidableEq, Repr

structure M where
  mem : Job          -- the object `job` doMigrate works on
  api : Job          -- what the API server holds
  job0 : Job         -- api at the start (constant)
  env : Env
  faults : Nat
  w : Nat            -- number of write calls issued so far
  acts : List Act
  evicts : List Snap

inductive Res where
  | stop (m : M)     -- doMigrate returns
  | cont (m : M)     -- falls through to the next statement

def Res.bind : Res → (M → Res) → Res
  | .stop m, _ => .stop m
  | .cont m, f => f m

def Res.m : Res → M
  | .stop m => m
  | .cont m => m

/-- does the next write call succeed? (its bit of the fault mask is clear) -/
def M.wok (m : M) : Bool := !(m.faults.testBit m.w)

/-- log one write call (consumes one fault bit) -/
def M.logw (m : M) (k : ActK) (arg : Nat := 0) : M :=
  { m with w := m.w + 1, acts := m.acts ++ [⟨k, m.wok, arg⟩] }

def M.logAct (m : M) (a : Act) : M := { m with acts := m.acts ++ [a] }

def M.setStatus (m : M) (f : Status → Status) : M := { m with mem := { m.mem with status := f m.mem.status } }
def M.setSpec (m : M) (f : Spec → Spec) : M := { m with mem := { m.mem with spec := f m.mem.spec } }

/-- `r.Client.Status().Update(ctx, job)` -/
def M.statusUpdate (m : M) : Bool × M :=
  if m.wok then
    (true, { m.logw .statusUpdate with api := { m.api with status := m.mem.status }, mem := { m.mem with spec := m.api.spec } })
  else (false, m.logw .statusUpdate)

/-- `r.Client.Update(ctx, job)` -/
def M.jobUpdate (m : M) : Bool × M :=
  if m.wok then
    (true, { m.logw .jobUpdate with api := { m.api with spec := m.mem.spec }, mem := { m.mem with status := m.api.status } })
  else (false, m.logw .jobUpdate)

/-- `evictorInterpreter.Evict(ctx, job, pod)` -/
def M.evictCall (m : M) (uid : Nat) : Bool × M :=
  (m.wok, { m.logw .evict uid with evicts := m.evicts ++ [{ env := m.env, job0 := m.job0, mem := m.mem }] })

/-- controller.go `updateCondition` -/
def updateCondition (m : M) (c : Cond) : Bool × M :=
  if (setCond m.mem.status.conds c).2 then
    ((m.setStatus fun s => { s with conds := (setCond m.mem.status.conds c).1 }).setStatus
      fun s => { s with status := c.ty, reason := c.reason }).statusUpdate
  else (true, m.setStatus fun s => { s with conds := (setCond m.mem.status.conds c).1 })

/-- the `abortJobBy…` family: phase Failed + reason, one status write whose error is returned/ignored -/
def abortWith (m : M) (reason : Nat) : M :=
  ((m.setStatus fun s => { s with phase := Ph.failed, reason := reason }).statusUpdate).2

def okOr (r : Bool × M) : Res := if r.1 then .cont r.2 else .stop r.2

/-! ### reservation predicates (reservation/reservation.go) -/

def resvPending (r : Resv) : Bool := r.phase == RPh.none || r.phase == RPh.pending
def resvExpired (r : Resv) : Bool := r.phase == RPh.failed && r.expired
def resvScheduled (r : Resv) : Bool := r.node != 0 && r.sched == 1
def resvSucceeded (r : Resv) : Bool := r.phase == RPh.succeeded

/-- the Reservation `CreateReservation` builds from the pod (reservation/util.go):
    owners = the pod itself iff it is Pending and unschedulable; order label always set; empty status. -/
def newResv (p : Pod) : Resv :=
  { phase := RPh.none, node := 0, sched := 0, msg := 0, expired := false, owner := 0,
    pendingMode := p.pending && p.sched == 1, orderLabel := true, needPreempt := false }

/-! ### stages of doMigrate, in source order -/

/-- `deleteReservation`: 0 = nil, 1 = NotFound, 2 = other error -/
def deleteReservation (m : M) : Nat × M :=
  if !m.mem.spec.resvRef then (0, m) else
  match m.env.resv with
  | none => (1, m)
  | some _ =>
    if m.wok then (0, { m.logw .resvDelete with env := { m.env with resv := none } }) else (2, m.logw .resvDelete)

/-- `abortJobIfTimeout` -/
def abortIfTimeout (m : M) : Res :=
  if m.mem.spec.ttl = 0 then .cont m else
  if m.env.now < m.mem.spec.ttl then .cont m else
  if (deleteReservation m).1 = 2 then .stop (deleteReservation m).2
  else .stop (abortWith (deleteReservation m).2 Rs.timeout)

/-- `preparePendingJob` (+ `preparePodRef`) -/
def preparePending (m : M) : Res :=
  if m.mem.status.phase ≠ Ph.none ∧ m.mem.status.phase ≠ Ph.pending then .cont m else
  if !m.mem.spec.podRefValid then .stop (abortWith m Rs.invalidPodRef) else
  match m.env.pod with
  | none => .stop (abortWith m Rs.missingPod)
  | some p =>
    match (m.setSpec fun s => { s with podUID := p.uid }).jobUpdate with
    | (false, m) => .stop m
    | (true, m) => okOr (m.setStatus fun s => { s with phase := Ph.running }).statusUpdate

/-- `requeueJobIfObjectLimiterFailed` -/
def limiterRequeue (m : M) : Bool :=
  !m.mem.spec.evictAnno && m.env.pod.isSome && m.env.limited

/-- `abortJobIfReservationBoundByAnotherPod(ctx, job, pod)` -/
def boundByOther (m : M) (pod : Option Pod) : Res :=
  if !m.mem.spec.resvRef then .cont m else
  match m.env.resv with
  | none => .stop (abortWith m Rs.missingResv)
  | some r =>
    if resvSucceeded r then
      match pod with
      | none => .stop (abortWith m Rs.forbidden)
      | some p => if r.owner != 0 && r.owner == p.uid then .cont m else .stop (abortWith m Rs.forbidden)
    else .cont m

/-- `evictPod`: `.cont` = (true, _, nil) -/
def evictPod (m : M) : Res :=
  if condTrue m.mem.status.conds CT.eviction then .cont m else
  match m.env.pod with
  | none =>
    if m.mem.status.status ≠ CT.eviction then .stop (abortWith m Rs.missingPod)
    else okOr (updateCondition m ⟨CT.eviction, true, Rs.evictComplete, 0⟩)
  | some p =>
    if m.mem.spec.podUID != 0 && m.mem.spec.podUID != p.uid then   -- a same-name replacement is not the target (df70d80)
      if m.mem.status.status ≠ CT.eviction then .stop (abortWith m Rs.missingPod)
      else okOr (updateCondition m ⟨CT.eviction, true, Rs.evictComplete, 0⟩)
    else
    if condReasonIs m.mem.status.conds CT.eviction Rs.evicting then .stop m else
    (boundByOther m none).bind fun m =>
    match m.evictCall p.uid with
    | (false, m) => .stop m
    | (true, m) => .stop (updateCondition m ⟨CT.eviction, false, Rs.evicting, 0⟩).2

/-- `evictPodDirectly` -/
def evictDirect (m : M) : Res :=
  (evictPod m).bind fun m =>
    .stop ((m.setStatus fun s => { s with phase := Ph.succeeded, status := CT.complete, reason := Rs.none }).statusUpdate).2

/-- `createReservation` (always returns) -/
def createReservation (m : M) : M :=
  match m.env.pod with
  | none => abortWith m Rs.missingPod
  | some p =>
    if !m.wok then (updateCondition (m.logw .resvCreate) ⟨CT.resvCreated, false, Rs.failedCreate, 0⟩).2 else
    match m.env.resv with
    | some _ => (((m.logw .resvCreate).setSpec fun s => { s with resvRef := true }).jobUpdate).2   -- AlreadyExists → Get
    | none =>
      ((({ m.logw .resvCreate with env := { m.env with resv := some (newResv p) } } : M).setSpec
        fun s => { s with resvRef := true }).jobUpdate).2

/-- `setReservationOrder` -/
def setReservationOrder (m : M) : Res :=
  match m.env.resv with
  | none => .stop m
  | some r =>
    if r.orderLabel then .cont m else
    if m.wok then .cont { m.logw .resvUpdate with env := { m.env with resv := some { r with orderLabel := true } } }
    else .stop (m.logw .resvUpdate)

/-- `syncReservationScheduleFailed` -/
def syncScheduleFailed (m : M) (r : Resv) : Res :=
  if condAbsentOrFalse m.mem.status.conds CT.resvScheduled then
    if r.sched = 3 then okOr (updateCondition m ⟨CT.resvScheduled, false, Rs.unschedulable, r.msg⟩) else .cont m
  else .cont m

/-- the `!IsReservationScheduled` block: abort unschedulable, or preempt -/
def preemptGate (m : M) (r : Resv) : Res :=
  if resvScheduled r then .cont m else
  if !r.needPreempt || m.env.preempt == 0 then .stop (abortWith m Rs.unschedulable) else
  if m.env.preempt = 2 then .cont (m.logAct ⟨.preempt, m.env.preempt != 3, 0⟩)
  else .stop (m.logAct ⟨.preempt, m.env.preempt != 3, 0⟩)

/-- `abortJobIfReserveOnSameNode`: the pod exists and sits on `node` (`node ≠ ""` is checked by the caller) -/
def sameNode (pod : Option Pod) (node : Nat) : Bool :=
  match pod with
  | some p => node == p.node
  | none => false

/-- `prepareJobWithReservationScheduleSuccess` (+ `abortJobIfReserveOnSameNode`) -/
def prepareScheduleSuccess (m : M) (r : Resv) : Res :=
  if r.node = 0 ∨ m.mem.status.node ≠ 0 then .cont m else
  if condTrue m.mem.status.conds CT.resvScheduled then .cont m else
  if sameNode m.env.pod r.node then .stop (abortWith m Rs.forbidden) else
  okOr (updateCondition (m.setStatus fun s => { s with node := r.node }) ⟨CT.resvScheduled, true, Rs.none, 0⟩)

/-- tail of `waitForPendingPodScheduled`: `util.UpdateCondition(PodScheduled=True)`, status write only if it changed -/
def podScheduledDone (m : M) : M :=
  if (setCond m.mem.status.conds ⟨CT.podScheduled, true, Rs.none, 0⟩).2 then
    (m.setStatus fun s => { s with conds := (setCond m.mem.status.conds ⟨CT.podScheduled, true, Rs.none, 0⟩).1 }).statusUpdate.2
  else m.setStatus fun s => { s with conds := (setCond m.mem.status.conds ⟨CT.podScheduled, true, Rs.none, 0⟩).1 }

/-- `waitForPendingPodScheduled` (always returns) -/
def waitPendingPod (m : M) : M :=
  match m.env.pod with
  | none => abortWith m Rs.missingPod
  | some p =>
    if p.sched = 0 ∨ p.sched = 1 then
      match boundByOther m (some p) with
      | .stop m => m
      | .cont m => (updateCondition m ⟨CT.podScheduled, false, Rs.unschedulable, if p.sched = 0 then 0 else p.schedMsg⟩).2
    else
      podScheduledDone (m.setStatus fun s => { s with phase := Ph.succeeded, status := CT.complete, reason := Rs.none })

/-- `waitForPodBindReservation` -/
def waitBind (m : M) (r : Resv) : Res :=
  if condTrue m.mem.status.conds CT.podBound then .cont m else
  if r.owner = 0 then .stop (updateCondition m ⟨CT.podBound, false, Rs.waitBind, 0⟩).2 else .cont m

/-- `handleReservationBoundSuccess` -/
def boundSuccess (m : M) : Res :=
  if !m.mem.status.podRef || (setCond m.mem.status.conds ⟨CT.resvBound, true, Rs.none, 0⟩).2 then
    okOr ((m.setStatus fun s => { s with conds := (setCond m.mem.status.conds ⟨CT.resvBound, true, Rs.none, 0⟩).1 }).setStatus
      fun s => { s with podRef := true }).statusUpdate
  else .cont (m.setStatus fun s => { s with conds := (setCond m.mem.status.conds ⟨CT.resvBound, true, Rs.none, 0⟩).1 })

/-- `waitForPodReady` -/
def waitReady (m : M) : Res :=
  if condTrue m.mem.status.conds CT.boundPodReady then .cont m else
  if m.env.bpod = 1 then .stop (updateCondition m ⟨CT.boundPodReady, false, Rs.waitReady, 0⟩).2 else .cont m

/-- the tail of doMigrate after `waitForPodReady` -/
def finish (m : M) : Res :=
  (okOr (updateCondition m ⟨CT.boundPodReady, true, Rs.none, 0⟩)).bind fun m =>
    .stop ((m.setStatus fun s => { s with podRef := true, phase := Ph.succeeded, status := CT.complete, reason := Rs.none }).setStatus
      fun s => { s with conds := (setCond m.mem.status.conds ⟨CT.podBound, true, Rs.none, 0⟩).1 }).statusUpdate.2

/-- everything after the reservation object has been fetched (controller.go:343–431) -/
def withReservation (m : M) (r : Resv) : Res :=
  (syncScheduleFailed m r).bind fun m =>
  if resvPending r then .stop m else
  if resvExpired r then .stop (abortWith m Rs.resvExpired) else
  (preemptGate m r).bind fun m =>
  (prepareScheduleSuccess m r).bind fun m =>
  if r.pendingMode then .stop (waitPendingPod m) else
  (evictPod m).bind fun m =>
  (waitBind m r).bind fun m =>
  (boundSuccess m).bind fun m =>
  (waitReady m).bind fun m =>
  finish m

/-- reservation-first mode (controller.go:320–341) -/
def reservationFirst (m : M) : Res :=
  if !m.mem.spec.resvRef then .stop (createReservation m) else
  (setReservationOrder m).bind fun m =>
  (okOr (updateCondition m ⟨CT.resvCreated, true, Rs.none, 0⟩)).bind fun m =>
  match m.env.resv with
  | none => .stop (abortWith m Rs.missingResv)
  | some r => withReservation m r

def livePhase (p : Nat) : Bool := p == Ph.none || p == Ph.pending || p == Ph.running

/-- `doMigrate` -/
def doMigrate (m : M) : M :=
  if m.mem.spec.paused then m else
  if !livePhase m.mem.status.phase then m else
  ((abortIfTimeout m).bind fun m =>
   (preparePending m).bind fun m =>
   if limiterRequeue m then .stop m else
   if m.mem.spec.direct then evictDirect m else
   reservationFirst m).m

structure World where
  job : Job
  env : Env
deriving DecidableEq, Repr

structure Out where
  acts : List Act
  evicts : List Snap
deriving DecidableEq, Repr

def M.init (w : World) (faults : Nat) : M :=
  { mem := w.job, api := w.job, job0 := w.job, env := w.env, faults := faults, w := 0, acts := [], evicts := [] }

/-- `Reconcile`: Get the job, skip jobs created by another controller instance, doMigrate. -/
def reconcile (w : World) (faults : Nat) : World × Out :=
  if w.job.spec.createdBy ≠ 0 ∧ w.job.spec.createdBy ≠ w.env.ctrl then (w, ⟨[], []⟩) else
  let m := doMigrate (M.init w faults)
  ({ job := m.api, env := m.env }, ⟨m.acts, m.evicts⟩)

/-! ### histories -/

inductive Op where
  | tick (d : Nat)
  | pod (p : Option Pod)        -- pod deleted / created / replaced
  | resv (r : Option Resv)      -- reservation deleted / created / any status change
  | bpod (k : Nat)
  | pause (b : Bool)
  | limit (b : Bool)
  | preempt (k : Nat)
  | restart (uid : Nat)         -- controller restart: new reconcilerUID, empty assumed-cache
  | recon (faults : Nat)
deriving DecidableEq, Repr

def step (w : World) : Op → World × Out
  | .tick d => ({ w with env := { w.env with now := w.env.now + d } }, ⟨[], []⟩)
  | .pod p => ({ w with env := { w.env with pod := p } }, ⟨[], []⟩)
  | .resv r => ({ w with env := { w.env with resv := r } }, ⟨[], []⟩)
  | .bpod k => ({ w with env := { w.env with bpod := k } }, ⟨[], []⟩)
  | .pause b => ({ w with job := { w.job with spec := { w.job.spec with paused := b } } }, ⟨[], []⟩)
  | .limit b => ({ w with env := { w.env with limited := b } }, ⟨[], []⟩)
  | .preempt k => ({ w with env := { w.env with preempt := k } }, ⟨[], []⟩)
  | .restart u => ({ w with env := { w.env with ctrl := u } }, ⟨[], []⟩)
  | .recon f => reconcile w f

/-- run a history; returns the final world and all evictor calls in order -/
def run : World → List Op → World × List Snap
  | w, [] => (w, [])
  | w, op :: ops =>
    let r := step w op
    let rest := run r.1 ops
    (rest.1, r.2.evicts ++ rest.2)

/-! ### guard order (tied to the source by Ties/C17.lean)

Each entry: a gate as it appears in the Go source (a called function, or a `job.…`/`cond.…` selector tested in
an if-condition) and whether it is an early exit (a `return` follows before the next gate).  The lists are what
the model's stage order assumes; `harness/extract/facts_c17.go` regenerates them from the current source. -/

/-- `doMigrate`, reservation-first path up to the `evictPod` call; in model terms:
    paused · terminal phase · abortIfTimeout · (phase test of) preparePending · limiterRequeue · direct mode ·
    no ReservationRef ⇒ createReservation · setReservationOrder · ReservationCreated=True · reservation lookup /
    missing · syncScheduleFailed · resvPending · resvExpired · resvScheduled/preemptGate · prepareScheduleSuccess ·
    pendingMode ⇒ waitPendingPod · evictPod -/
def gateList : List (String × Bool) :=
  [("job.Spec.Paused", true), ("job.Status.Phase", true), ("abortJobIfTimeout", true), ("job.Status.Phase", false),
   ("preparePendingJob", true), ("requeueJobIfObjectLimiterFailed", true), ("job.Spec.Mode", true),
   ("job.Spec.ReservationOptions", true), ("setReservationOrder", true), ("handleReservationCreateSuccess", true),
   ("GetReservation", false), ("IsNotFound", true), ("syncReservationScheduleFailed", true),
   ("IsReservationPending", true), ("IsReservationExpired", true), ("IsReservationScheduled", true),
   ("prepareJobWithReservationScheduleSuccess", true), ("IsMigratePendingPod", true), ("evictPod", false)]

/-- `evictPod` up to the `evictorInterpreter.Evict` call: Eviction=True ⇒ done · pod lookup · not found / replaced
    (⇒ abort or EvictComplete) · reason Evicting ⇒ requeue · boundByOther · (default DeleteOptions) · Evict -/
def evictGateList : List (String × Bool) :=
  [("GetCondition", false), ("cond.Status", true), ("Get", false), ("IsNotFound", false), ("job.Spec.PodRef", false),
   ("job.Status.Status", true), ("cond.Reason", true), ("abortJobIfReservationBoundByAnotherPod", true),
   ("job.Spec.DeleteOptions", false), ("Evict", false)]

/-- `prepareJobWithReservationScheduleSuccess`: the two early returns (no node / node already recorded;
    ReservationScheduled=True) and the same-node abort precede the write that records the node -/
def nodeCheckGateList : List (String × Bool) :=
  [("GetScheduledNodeName", false), ("job.Status.NodeName", true), ("GetCondition", false), ("cond.Status", true),
   ("abortJobIfReserveOnSameNode", true), ("updateCondition", false)]

end KoordVerif.C17
