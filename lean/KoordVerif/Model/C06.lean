/-
C06 — CPU / NUMA allocation.  Executable model, core-only.  Three layers:

Layer A  NUMA split by hint         pkg/scheduler/plugins/nodenumaresource/resource_manager.go
           tryBestToDistributeEvenly, splitQuantity, allocateRes        (one resource name)
Layer B  allocation ledger          pkg/scheduler/plugins/nodenumaresource/node_allocation.go
           addPodAllocation, release, update, getAvailableCPUs,
           getAvailableNUMANodeResources (no amplification / reusable resources)
Layer C  picker contract            resource_manager.go satisfiedRequiredCPUBindPolicy,
           determineFullPCPUs, determineSpreadByPCPUs, filterCPUsByRequiredCPUBindPolicy
         (the candidate search of cpu_accumulator.go takeCPUs is NOT modelled; its result enters
          the model as an input and is judged by `pickCheck`.)

Quantities (`resource.Quantity`) are exact integers in MILLI-units for every resource, so
`Value()` (round up to a whole unit) and `MilliValue()` are both expressible.  A missing map
key reads as the zero Quantity.  The per-node `corev1.ResourceList`s of the ledger are flattened
to cells keyed by `(node, resource)` (encoded as one `Nat` by the driver); `quotav1.Add` and
`quotav1.SubtractWithNonNegativeResult` are cell-wise `+` and `max (a-b) 0` under that reading.
-/
namespace KoordVerif.C06

/-! ## Layer A — NUMA split -/

/-- which branch of `splitQuantity` applies (it depends on the resource name and the options
    only, not on the quantity). -/
inductive SplitMode where
  | milli                  -- cpu, !requestCPUBind:           MilliValue()/n   milli
  | value                  -- non-cpu, or cpu with cpu-bind:  Value()/n        whole units
  | fullPCPUs (cpc : Int)  -- cpu, required FullPCPUs:        (Value()/cpc/n)*cpc
deriving Repr, DecidableEq

/-- `Quantity.Value()`: the value rounded up to a whole unit (input in milli). -/
def valueCeil (m : Int) : Int := (m + 999) / 1000

/-- resource_manager.go `splitQuantity` (result in milli; Go `/` on int64 truncates). -/
def splitQuantity (mode : SplitMode) (q : Int) (n : Int) : Int :=
  match mode with
  | .milli => Int.tdiv q n
  | .value => Int.tdiv (valueCeil q) n * 1000
  | .fullPCPUs cpc => Int.tdiv (Int.tdiv (valueCeil q) cpc) n * cpc * 1000

/-- resource_manager.go `allocateRes`, third result (`allocated`): the three `Cmp` cases. -/
def allocateRes (available request : Int) : Int :=
  if available > request then request
  else if available < request then available
  else available

/-- Go's insertion sort step (`insertionSortLessFunc`, used by sort.Slice for n ≤ 12): the new
    element moves left while it is strictly less than its left neighbour; on a sorted prefix
    that is "insert before the first strictly greater element" (stable). -/
def insertByKey (key : Nat → Int) (x : Nat) : List Nat → List Nat
  | [] => [x]
  | y :: ys => if key x < key y then x :: y :: ys else y :: insertByKey key x ys

/-- `sort.Slice(sortedNUMANodes, less)` with
    `less(i,j) = totalAvailable[sortedNUMANodes[i]][res].Cmp(totalAvailable[sortedNUMANodes[j]][res]) < 0`. -/
def sortByKey (key : Nat → Int) (l : List Nat) : List Nat :=
  l.foldl (fun acc x => insertByKey key x acc) []

/-- the inner loop of `tryBestToDistributeEvenly` for one resource name over the sorted hinted
    nodes; `len(numaNodes)-i` is the number of nodes not yet visited.  Returns the recorded
    (node, allocated) pairs in visiting order and the quantity left. -/
def distribute (mode : SplitMode) (free : Nat → Int) : List Nat → Int → List (Nat × Int) × Int
  | [], q => ([], q)
  | id :: rest, q =>
    let s := splitQuantity mode q ((rest.length : Int) + 1)
    let a := allocateRes (free id) s
    if a ≠ 0 then
      let r := distribute mode free rest (q - a)
      ((id, a) :: r.1, r.2)
    else distribute mode free rest q

structure NumaOut where
  allocs    : List (Nat × Int)   -- (node, amount) in visiting order (sorted by free amount)
  remaining : Int                -- `requests[resourceName]` after the call
  failed    : Bool               -- a reason "Insufficient NUMA <resource>" is returned
deriving Repr, DecidableEq

/-- `tryBestToDistributeEvenly` projected on one requested resource name.
    `declared` = the name occurs in some `totalAvailable[*]` list (`resourceNamesByNUMA`);
    otherwise nothing is allocated and no reason is produced. -/
def numaSplit (mode : SplitMode) (declared : Bool) (free : Nat → Int) (hint : List Nat) (req : Int) :
    NumaOut :=
  if declared then
    let r := distribute mode free (sortByKey free hint) req
    { allocs := r.1, remaining := r.2, failed := r.2 != 0 }
  else { allocs := [], remaining := req, failed := false }

/-- association list read with the zero Quantity as default. -/
def getI : List (Nat × Int) → Nat → Int
  | [], _ => 0
  | (k, v) :: l, x => if k = x then v else getI l x

/-! ## Layer B — ledger -/

/-- the fields of `CPUInfo` that the ledger mutates. -/
structure CpuRec where
  ref  : Int     -- RefCount
  excl : Nat     -- ExclusivePolicy (enum)
deriving Repr, DecidableEq

abbrev CpuMap := List (Nat × CpuRec)   -- allocatedCPUs (CPUDetails), first match wins

def cpuGet : CpuMap → Nat → Option CpuRec
  | [], _ => none
  | (k, v) :: l, c => if k = c then some v else cpuGet l c

def cpuDel (m : CpuMap) (c : Nat) : CpuMap := m.filter (fun e => e.1 != c)

def cpuSet (m : CpuMap) (c : Nat) (r : CpuRec) : CpuMap := (c, r) :: cpuDel m c

/-- RefCount with 0 for an absent CPU. -/
def refOf (m : CpuMap) (c : Nat) : Int :=
  match cpuGet m c with
  | some r => r.ref
  | none => 0

/-- body of the CPU loop in `addPodAllocation`: take the entry (or the topology's, RefCount 0),
    overwrite the exclusive policy, RefCount++. -/
def addCPU (excl : Nat) (m : CpuMap) (c : Nat) : CpuMap :=
  match cpuGet m c with
  | some r => cpuSet m c { ref := r.ref + 1, excl := excl }
  | none => cpuSet m c { ref := 1, excl := excl }

/-- body of the CPU loop in `release` (and of the preferred-CPU loop in `getAvailableCPUs`):
    absent ⇒ skip; RefCount--; delete at 0. -/
def relCPU (m : CpuMap) (c : Nat) : CpuMap :=
  match cpuGet m c with
  | none => m
  | some r => if r.ref - 1 = 0 then cpuDel m c else cpuSet m c { r with ref := r.ref - 1 }

abbrev ResMap := List (Nat × Int)      -- allocatedResources, flattened cells

def resHas : ResMap → Nat → Bool
  | [], _ => false
  | (k, _) :: l, x => k == x || resHas l x

def resSet (m : ResMap) (k : Nat) (v : Int) : ResMap := (k, v) :: m.filter (fun e => e.1 != k)

/-- `res.Resources = quotav1.Add(res.Resources, numaNodeRes.Resources)` on one cell. -/
def addCell (m : ResMap) (e : Nat × Int) : ResMap := resSet m e.1 (getI m e.1 + e.2)

/-- `if res != nil { res.Resources = SubtractWithNonNegativeResult(res.Resources, …) }` on one cell. -/
def relCell (m : ResMap) (e : Nat × Int) : ResMap :=
  if resHas m e.1 then resSet m e.1 (max (getI m e.1 - e.2) 0) else m

/-- `PodAllocation` (UID, CPUSet, CPUExclusivePolicy, NUMANodeResources flattened). -/
structure PodAlloc where
  uid  : Nat
  excl : Nat
  cpus : List Nat
  numa : List (Nat × Int)
deriving Repr, DecidableEq

/-- `NodeAllocation` (allocatedPods, allocatedCPUs, allocatedResources). -/
structure Ledger where
  pods : List PodAlloc
  cpus : CpuMap
  res  : ResMap
deriving Repr

def Ledger.empty : Ledger := { pods := [], cpus := [], res := [] }

def hasPod (pods : List PodAlloc) (uid : Nat) : Bool := pods.any (fun p => p.uid == uid)

def findPod : List PodAlloc → Nat → Option PodAlloc
  | [], _ => none
  | p :: ps, uid => if p.uid = uid then some p else findPod ps uid

/-- node_allocation.go `addPodAllocation`: an already recorded UID is ignored. -/
def addPod (L : Ledger) (p : PodAlloc) : Ledger :=
  if hasPod L.pods p.uid then L
  else { pods := p :: L.pods
         cpus := p.cpus.foldl (addCPU p.excl) L.cpus
         res := p.numa.foldl addCell L.res }

/-- node_allocation.go `release`. -/
def releasePod (L : Ledger) (uid : Nat) : Ledger :=
  match findPod L.pods uid with
  | none => L
  | some p =>
    { pods := L.pods.filter (fun q => q.uid != uid)
      cpus := p.cpus.foldl relCPU L.cpus
      res := p.numa.foldl relCell L.res }

/-- node_allocation.go `update`. -/
def updatePod (L : Ledger) (p : PodAlloc) : Ledger := addPod (releasePod L p.uid) p

/-- node_allocation.go `getAvailableCPUs`: `topo` = all CPU ids of the topology. -/
def availableCPUs (topo : List Nat) (m : CpuMap) (maxRef : Int) (reserved : List Nat)
    (prefs : List (List Nat)) : List Nat :=
  let m' := prefs.foldl (fun m pref => pref.foldl relCPU m) m
  topo.filter fun c =>
    !(match cpuGet m' c with
      | some r => decide (r.ref ≥ maxRef)
      | none => false) && !reserved.contains c

/-- node_allocation.go `getAvailableNUMANodeResources` on one cell without amplification and
    reusable resources: `SubtractWithNonNegativeResult(capacity, allocated)`. -/
def availableCell (capacity : Int) (m : ResMap) (k : Nat) : Int := max (capacity - getI m k) 0

inductive Op where
  | add (p : PodAlloc)      -- NodeAllocation.addPodAllocation
  | upd (p : PodAlloc)      -- resourceManager.Update
  | rel (uid : Nat)         -- resourceManager.Release
deriving Repr

def step (L : Ledger) : Op → Ledger
  | .add p => addPod L p
  | .upd p => updatePod L p
  | .rel u => releasePod L u

def run (ops : List Op) : Ledger := ops.foldl step Ledger.empty

/-! ## Layer C — picker contract -/

/-- `details.KeepOnly(cpus).Cores().Size()`: number of distinct cores among `cpus`
    (`core c` = CoreID of cpu `c`). -/
def coresOf (core : Nat → Nat) (cpus : List Nat) : List Nat := (cpus.map core).eraseDups

/-- resource_manager.go `determineFullPCPUs`. -/
def determineFullPCPUs (core : Nat → Nat) (cpc : Nat) (cpus : List Nat) : Bool :=
  (coresOf core cpus).length * cpc == cpus.length

/-- resource_manager.go `determineSpreadByPCPUs`. -/
def determineSpreadByPCPUs (core : Nat → Nat) (cpus : List Nat) : Bool :=
  (coresOf core cpus).length == cpus.length

/-- resource_manager.go `satisfiedRequiredCPUBindPolicy` (policy 1 = FullPCPUs, 2 = SpreadByPCPUs,
    anything else is always satisfied). -/
def satisfiedPolicy (policy : Nat) (core : Nat → Nat) (cpc : Nat) (cpus : List Nat) : Bool :=
  if policy = 1 then determineFullPCPUs core cpc cpus
  else if policy = 2 then determineSpreadByPCPUs core cpus
  else true

/-- the contract a successful `takeCPUs`/`allocateCPUSet` result `S` must meet: `n` CPUs, no
    duplicates, all from `avail`. -/
def pickCheck (avail : List Nat) (n : Nat) (S : List Nat) : Bool :=
  S.length == n && S.all (fun c => avail.contains c) && decide S.Nodup

end KoordVerif.C06
