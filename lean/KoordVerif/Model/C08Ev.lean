import KoordVerif.Model.C08
/-
C08 — the NodeMetric informer glue (pod_assign_cache.go `NodeMetricHandler`): what the REGISTERED handler functions do
with an informer event (old object, new object).  Core-only.
-/
namespace KoordVerif.C08

/-- the STATUS part of two NodeMetric objects is deep-equal (everything the model keeps of the object except
`spec.metricCollectPolicy.reportIntervalSeconds`, which is `Metric.interval`). -/
def Metric.statusEq (a b : Metric) : Bool :=
  a.hasUpd == b.hasUpd && a.updT == b.updT && a.hasInfo == b.hasInfo && a.nodeUsage == b.nodeUsage &&
  a.sysUsage == b.sysUsage && a.aggs == b.aggs && a.pods == b.pods

/-- one informer event as the handler funcs receive it (`old` = none: no old object / not a NodeMetric). -/
inductive MEv where
  | add (node : Nat) (m : Metric)                          -- AddFunc(obj)
  | update (node : Nat) (old : Option Metric) (m : Metric) -- UpdateFunc(old, obj)
  | delete (node : Nat)                                    -- DeleteFunc(obj | tombstone)

/-- NodeMetricHandler as written: AddFunc and UpdateFunc call AddOrUpdateNodeMetric(new) - UpdateFunc's first parameter is
`_` -, DeleteFunc calls DeleteNodeMetric(name). -/
def handle : MEv → Ev
  | .add n m => .metric n m
  | .update n _ m => .metric n m
  | .delete n => .delMetric n

/-- the variant that is NOT in the source: UpdateFunc returns early when old and new status are deep-equal
("resync / metadata-only update"). -/
def handleStatusFiltered (cfg : Cfg) (c : Cache) : MEv → Cache
  | .update n (some old) m => if old.statusEq m then c else step cfg c (.metric n m)
  | e => step cfg c (handle e)

end KoordVerif.C08
