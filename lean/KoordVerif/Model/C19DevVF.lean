/-
C19 (deviceshare part, VF ledger): model of `nodeDevice.vfAllocations`, the record of the RDMA
VirtualFunctions (PCI bus ids) handed out per (device type, minor) on a node.

Go code mirrored (pkg/scheduler/plugins/deviceshare/device_cache.go):
  getVFAllocations          DeviceAllocation list -> map[minor]sets.String
  updateCacheVFAllocations  called at the end of updateDeviceUsed, i.e. AFTER the isValid guard of
                            updateCacheUsed and for the same (device type, pod)
  updateVFAllocations       add: union into allocatedVFs[minor]
  removeVFAllocations       remove: delete the bus ids CARRIED BY THE EVENT
Reader of the ledger: device_allocator.go allocateVF (`if allocated.Has(vf.BusID) { continue }`): a bus
id recorded here is not offered again.

Representation: the ledger is the set of pairs ((node, type, minor), bus id) with
`bus ∈ vfAllocations[type].allocatedVFs[minor]` of that node, kept as a duplicate-free list
(sets.String).  A bus id crosses the harness boundary as a small integer (index of the string in the
sorted list of the case's bus ids).  `VirtualFunction.Minor` is not read by the cache and is not
modelled.

Quirks kept as written:
  * NO OWNER is recorded: the ledger does not know which pod holds a VF.  A remove deletes the bus
    ids listed in the event (the pod annotation), whoever added them; an add of a bus id that is
    already present is absorbed (set insert).  So if two allocations hold the same VF, removing one
    frees the VF of the other (theorem `vf_shared_remove_counterexample`).
  * getVFAllocations builds ONE set per minor, last write wins: of two DeviceAllocations of one
    list with the same minor that both carry VFs only the later one's VFs are recorded (and later
    removed); allocations without VFs are skipped (they do not overwrite).
  * duplicates inside one VirtualFunctions list collapse (set).
  * removeVFAllocations returns at once when the type has no VF record on the node; after the deletes
    an empty set is dropped from allocatedVFs and an empty allocatedVFs from vfAllocations.  An empty
    set is never stored (updateVFAllocations only stores sets built from a non-empty
    VirtualFunctions list), so "no pair with that key" is exactly "key absent".
  * the sets handed to updateVFAllocations are freshly built by getVFAllocations on every call, so
    storing them without a copy (`allocatedVFs[minor] = vfs`) creates no aliasing.
  * iteration over the Go maps is in random order; adds are set unions and removes set differences
    over distinct minors, so the order is irrelevant and the model uses list order.
-/
namespace KoordVerif.C19.Dev

/-- (node, device type, minor): `vfAllocations[type].allocatedVFs[minor]` of one node -/
abbrev VKey := Int × Int × Int
/-- one recorded VF: (key, bus id) -/
abbrev VEnt := VKey × Int
/-- the VF ledger -/
abbrev VFTab := List VEnt
/-- `Extension.VirtualFunctions` of one DeviceAllocation: (minor, bus ids in list order) -/
abbrev VItem := Int × List Int

/-- `allocatedVFs[minor].Has(bus)` -/
def vfHas (t : VFTab) (k : VKey) (b : Int) : Bool := t.contains (k, b)

/-- sets.String.Insert -/
def vfIns (t : VFTab) (e : VEnt) : VFTab := if t.contains e then t else t ++ [e]

/-- sets.String.Delete (+ dropping the emptied set: structural in this representation) -/
def vfDel (t : VFTab) (e : VEnt) : VFTab := t.filter (fun x => x ≠ e)

/-- device_cache.go getVFAllocations: `allocatedVFs[minor] = set(bus ids)` in list order for every
    allocation with a non-empty VirtualFunctions list; a later allocation with the same minor
    overwrites. -/
def vfOf (items : List VItem) : List VItem :=
  items.foldl (fun r it => if it.2.isEmpty then r else r.filter (fun x => x.1 ≠ it.1) ++ [it]) []

/-- the ledger entries an allocation list of (node n, type t) stands for (after getVFAllocations) -/
def vfEnts (n t : Int) (items : List VItem) : List VEnt :=
  (vfOf items).flatMap fun it => it.2.map fun b => ((n, t, it.1), b)

/-- device_cache.go updateVFAllocations -/
def vfAdd (n t : Int) (tab : VFTab) (items : List VItem) : VFTab :=
  (vfEnts n t items).foldl vfIns tab

/-- `n.vfAllocations[deviceType] == nil` -/
def vfTypeAbsent (n t : Int) (tab : VFTab) : Bool := tab.all fun e => !(e.1.1 = n ∧ e.1.2.1 = t)

/-- device_cache.go removeVFAllocations -/
def vfRemove (n t : Int) (tab : VFTab) (items : List VItem) : VFTab :=
  if vfTypeAbsent n t tab then tab else (vfEnts n t items).foldl vfDel tab

/-! ### rendering over a fixed universe (keys and bus ids of the case's op lines, sorted) -/

structure VUniv where
  keys : List VKey     -- sorted
  buses : List Int     -- sorted

/-- one line `vf <node> <type> <minor> <bus>*` per key with a non-empty set, bus ids ascending -/
def vfRender (un : VUniv) (tab : VFTab) : List String :=
  un.keys.filterMap fun k =>
    let bs := un.buses.filter (fun b => vfHas tab k b)
    if bs.isEmpty then none
    else some (s!"vf {k.1} {k.2.1} {k.2.2}" ++ String.join (bs.map fun b => s!" {b}"))

end KoordVerif.C19.Dev
