/-
C06, Layer C — the CPU picker.  Executable model, core-only, of
  pkg/scheduler/plugins/nodenumaresource/cpu_accumulator.go
      takePreferredCPUs, takeCPUs, newCPUAccumulator, take/needs/isSatisfied/isFailed,
      sortCores, freeCoresInNode, freeCoresInSocket, freeCPUsInNode, freeCPUsInSocket, freeCPUs,
      getCoreRefCount, sortCPUsByRefCount, extractCPU, spreadCPUs
as the code is now (including the `needs(cpusPerCore)` guard at the head of the loop over the
"unsatisfied" sockets).  Go maps are association lists; every `sort.Slice` whose comparator is
a strict total order is an insertion sort here (the result is unique); the two sorts by list
length only (ties possible) are stable insertion sorts = Go's algorithm for ≤ 12 elements
(there are at most as many lists as sockets).
-/
namespace KoordVerif.C06

/-- `CPUInfo`. -/
structure CpuI where
  cpu    : Nat
  core   : Nat
  node   : Nat
  socket : Nat
  ref    : Int := 0
  excl   : Nat := 0     -- 2 = PCPULevel, 3 = NUMANodeLevel
deriving Repr, DecidableEq

structure PickCtx where
  topo   : List CpuI    -- topology.CPUDetails
  cpc    : Nat          -- CPUsPerCore()   = NumCPUs / NumCores
  cpn    : Nat          -- CPUsPerNode()   = NumCPUs / NumNodes
  cps    : Nat          -- CPUsPerSocket() = NumCPUs / NumSockets
  maxRef : Int
  excl   : Nat          -- the pod's cpuExclusivePolicy
  most   : Bool         -- numaAllocateStrategy == NUMAMostAllocated
deriving Repr

/-- `cpuAccumulator` (mutable part). -/
structure Acc where
  alloc     : List CpuI   -- allocatableCPUs
  need      : Int         -- numCPUsNeeded
  exclCores : List Nat    -- exclusiveInCores
  exclNodes : List Nat    -- exclusiveInNUMANodes
  result    : List Nat
deriving Repr

def dedupNat : List Nat → List Nat
  | [] => []
  | x :: xs => x :: (dedupNat xs).filter (· != x)

/-- stable insertion sort: `x` goes before the first element it is strictly less than. -/
def insertLt {α} (lt : α → α → Bool) (x : α) : List α → List α
  | [] => [x]
  | y :: ys => if lt x y then x :: y :: ys else y :: insertLt lt x ys

def isortLt {α} (lt : α → α → Bool) (l : List α) : List α :=
  l.foldl (fun acc x => insertLt lt x acc) []

def sortAsc (l : List Nat) : List Nat := isortLt (fun a b => decide (a < b)) l

def topoInfo (ctx : PickCtx) (c : Nat) : CpuI :=
  match ctx.topo.find? (·.cpu == c) with
  | some i => i
  | none => { cpu := 0, core := 0, node := 0, socket := 0 }   -- Go: zero CPUInfo

def allocInfo (a : Acc) (c : Nat) : CpuI :=
  match a.alloc.find? (·.cpu == c) with
  | some i => i
  | none => { cpu := 0, core := 0, node := 0, socket := 0 }

/-- `newCPUAccumulator`. -/
def newAcc (ctx : PickCtx) (avail : List Nat) (allocated : List CpuI) (need : Int) : Acc :=
  let exclCores := dedupNat ((allocated.filter (·.excl == 2)).map (·.core))
  let exclNodes := dedupNat ((allocated.filter (·.excl == 3)).map (·.node))
  let al := ctx.topo.filter (fun i => avail.contains i.cpu)
  let al := if ctx.maxRef > 1 then
      al.map (fun i => { i with ref := match allocated.find? (·.cpu == i.cpu) with
                                         | some j => j.ref
                                         | none => 0 })
    else al
  { alloc := al, need := need, exclCores := exclCores, exclNodes := exclNodes, result := [] }

/-- `take`. -/
def Acc.take (ctx : PickCtx) (a : Acc) (cpus : List Nat) : Acc :=
  let res := a.result ++ (dedupNat cpus).filter (fun c => !a.result.contains c)   -- UnionSlice
  let al := a.alloc.filter (fun i => !cpus.contains i.cpu)
  let ec := if ctx.excl == 2 then dedupNat (a.exclCores ++ cpus.map (fun c => (topoInfo ctx c).core))
            else a.exclCores
  let en := if ctx.excl == 3 then dedupNat (a.exclNodes ++ cpus.map (fun c => (topoInfo ctx c).node))
            else a.exclNodes
  { alloc := al, need := a.need - cpus.length, exclCores := ec, exclNodes := en, result := res }

def Acc.needs (a : Acc) (n : Nat) : Bool := decide (a.need ≥ (n : Int))
def Acc.isSatisfied (a : Acc) : Bool := decide (a.need < 1)
def Acc.isFailed (a : Acc) : Bool := decide (a.need > (a.alloc.length : Int))

def exclPCPU (ctx : PickCtx) (a : Acc) (i : CpuI) : Bool := ctx.excl == 2 && a.exclCores.contains i.core
def exclNUMA (ctx : PickCtx) (a : Acc) (i : CpuI) : Bool := ctx.excl == 3 && a.exclNodes.contains i.node

/-- `getCoreRefCount(allocatableCPUs, core)`. -/
def coreRef (a : Acc) (core : Nat) : Int :=
  ((a.alloc.filter (·.core == core)).map (·.ref)).foldl (· + ·) 0

/-- comparator of `sortCores`. -/
def coreLt (ctx : PickCtx) (a : Acc) (len : Nat → Nat) (i j : Nat) : Bool :=
  if len i != len j then decide (len i > len j)
  else if ctx.maxRef > 1 && coreRef a i != coreRef a j then decide (coreRef a i < coreRef a j)
  else decide (i < j)

/-- "free score" comparison: MostAllocated prefers the smaller amount. -/
def scoreLt (ctx : PickCtx) (x y : Nat) : Bool := if ctx.most then decide (x < y) else decide (x > y)

/-- `sortCPUsByRefCount`. -/
def sortByRef (a : Acc) (cpus : List Nat) : List Nat :=
  isortLt (fun i j =>
    let ri := (allocInfo a i).ref
    let rj := (allocInfo a j).ref
    if ri != rj then decide (ri < rj) else decide (i < j)) cpus

/-- `extractCPU`: the first listed CPU of every core. -/
def extractCPU (ctx : PickCtx) (cpus : List Nat) : List Nat :=
  let rec go (seen : List Nat) : List Nat → List Nat
    | [] => []
    | c :: cs =>
      let k := (topoInfo ctx c).core
      if seen.contains k then go seen cs else c :: go (k :: seen) cs
  go [] cpus

/-- shared body of `freeCoresInNode` (byNode) and `freeCoresInSocket`. -/
def freeCoresIn (ctx : PickCtx) (a : Acc) (byNode filterFull filterExcl : Bool) : List (List Nat) :=
  let cpus := a.alloc.filter (fun i => !(byNode && filterExcl && exclNUMA ctx a i))
  let cores := dedupNat (cpus.map (·.core))
  let cpusIn := fun (core : Nat) => (cpus.filter (·.core == core)).map (·.cpu)
  let socketFree := fun (s : Nat) => (cpus.filter (·.socket == s)).length
  let cores := cores.filter (fun c => !(filterFull && (cpusIn c).length != ctx.cpc))
  let groupOf := fun (core : Nat) =>
    match cpus.find? (·.core == core) with
    | some i => if byNode then i.node else i.socket
    | none => 0
  let groups := dedupNat (cores.map groupOf)
  let cpusInGroup := fun (g : Nat) =>
    (isortLt (coreLt ctx a (fun c => (cpusIn c).length)) (cores.filter (fun c => groupOf c == g))).flatMap
      (fun c => sortAsc (cpusIn c))
  let lt := fun (i j : Nat) =>
    let li := (cpusInGroup i).length
    let lj := (cpusInGroup j).length
    if li != lj then scoreLt ctx li lj
    else if byNode then
      let si := socketFree (allocInfo a ((cpusInGroup i).headD 0)).socket
      let sj := socketFree (allocInfo a ((cpusInGroup j).headD 0)).socket
      if si != sj then scoreLt ctx si sj else decide (i < j)
    else decide (i < j)
  (isortLt lt groups).map cpusInGroup

/-- shared body of `freeCPUsInNode` (byNode) and `freeCPUsInSocket`. -/
def freeCPUsIn (ctx : PickCtx) (a : Acc) (byNode filterExcl : Bool) : List (List Nat) :=
  let cpus := a.alloc.filter (fun i =>
    !(filterExcl && (exclPCPU ctx a i || (byNode && exclNUMA ctx a i))))
  let groupOf := fun (i : CpuI) => if byNode then i.node else i.socket
  let groups := dedupNat (cpus.map groupOf)
  let nodeFree := fun (n : Nat) => (cpus.filter (·.node == n)).length
  let socketFree := fun (s : Nat) => (cpus.filter (·.socket == s)).length
  let cpusInGroup := fun (g : Nat) =>
    let l := sortAsc ((cpus.filter (fun i => groupOf i == g)).map (·.cpu))
    let l := if ctx.maxRef > 1 then sortByRef a l else l
    if filterExcl then extractCPU ctx l else l
  let lt := fun (i j : Nat) =>
    if byNode then
      let ii := allocInfo a ((cpusInGroup i).headD 0)
      let ij := allocInfo a ((cpusInGroup j).headD 0)
      let ni := nodeFree ii.node
      let nj := nodeFree ij.node
      let si := socketFree ii.socket
      let sj := socketFree ij.socket
      if ni != nj then scoreLt ctx ni nj
      else if si != sj then scoreLt ctx si sj
      else decide (i < j)
    else
      let li := (cpusInGroup i).length
      let lj := (cpusInGroup j).length
      if li != lj then scoreLt ctx li lj else decide (i < j)
  (isortLt lt groups).map cpusInGroup

/-- `freeCPUs`. -/
def freeCPUsAll (ctx : PickCtx) (a : Acc) (filterExcl : Bool) : List Nat :=
  let cpus := a.alloc.filter (fun i => !(filterExcl && (exclPCPU ctx a i || exclNUMA ctx a i)))
  let cores := dedupNat (cpus.map (·.core))
  let cpusIn := fun (core : Nat) => (cpus.filter (·.core == core)).map (·.cpu)
  -- coresToSocket / coresToNode: the last writer wins in Go; all CPUs of a core agree
  let infoOf := fun (core : Nat) =>
    match cpus.find? (·.core == core) with
    | some i => i
    | none => { cpu := 0, core := 0, node := 0, socket := 0 }
  let nodeFree := fun (n : Nat) => (cpus.filter (·.node == n)).length
  let socketFree := fun (s : Nat) => (cpus.filter (·.socket == s)).length
  let colo := fun (s : Nat) => ((ctx.topo.filter (·.socket == s)).filter (fun i => a.result.contains i.cpu)).length
  let lt := fun (i j : Nat) =>
    let si := (infoOf i).socket
    let sj := (infoOf j).socket
    if colo si != colo sj then decide (colo si > colo sj)
    else if socketFree si != socketFree sj then scoreLt ctx (socketFree si) (socketFree sj)
    else
      let ni := nodeFree (infoOf i).node
      let nj := nodeFree (infoOf j).node
      if ni != nj then scoreLt ctx ni nj
      else if (cpusIn i).length != (cpusIn j).length then decide ((cpusIn i).length < (cpusIn j).length)
      else if si != sj then decide (si < sj)
      else if ctx.maxRef > 1 && coreRef a i != coreRef a j then decide (coreRef a i < coreRef a j)
      else decide (i < j)
  (isortLt lt cores).flatMap fun c =>
    let l := sortAsc (cpusIn c)
    if ctx.maxRef > 1 then sortByRef a l else l

/-- one round of `spreadCPUs`: the first CPU of every core, and the rest. -/
def spreadRound (ctx : PickCtx) : List Nat → List Nat → List Nat × List Nat
  | _, [] => ([], [])
  | seen, c :: cs =>
    let k := (topoInfo ctx c).core
    if seen.contains k then
      let r := spreadRound ctx seen cs
      (r.1, c :: r.2)
    else
      let r := spreadRound ctx (k :: seen) cs
      (c :: r.1, r.2)

/-- `spreadCPUs`. -/
def spreadCPUs (ctx : PickCtx) (cpus : List Nat) : List Nat :=
  if cpus.length ≤ ctx.cpc then cpus else
  let rec go (fuel : Nat) (l : List Nat) : List Nat :=
    match fuel with
    | 0 => l
    | fuel + 1 =>
      if l.isEmpty then [] else
      let r := spreadRound ctx [] l
      r.1 ++ go fuel r.2
  go cpus.length cpus

/-- first list with at least `need` CPUs. -/
def firstFit (need : Int) : List (List Nat) → Option (List Nat)
  | [] => none
  | l :: ls => if (l.length : Int) ≥ need then some l else firstFit need ls

/-- `for _, filterExclusive := range {true,false} { for cpus in gen(filterExclusive) { if fits … } }` -/
def firstFit2 (need : Int) (gen : Bool → List (List Nat)) : Option (List Nat) :=
  match firstFit need (gen true) with
  | some l => some l
  | none => firstFit need (gen false)

/-- phase 3 of the FullPCPUs branch: sockets by free cores descending; take every list that fits
    entirely.  Returns (done?, acc, unsatisfied lists). -/
def takeWhole (ctx : PickCtx) : Acc → List (List Nat) → List (List Nat) → Bool × Acc × List (List Nat)
  | a, [], uns => (false, a, uns.reverse)
  | a, l :: ls, uns =>
    if !a.needs l.length then takeWhole ctx a ls (l :: uns)
    else
      let a' := a.take ctx l
      if a'.isSatisfied then (true, a', uns.reverse) else takeWhole ctx a' ls uns

/-- inner loop of phase 4: core by core out of one socket's list.  Returns (done?, acc). -/
def takeCoresOf (ctx : PickCtx) (fuel : Nat) (a : Acc) (l : List Nat) : Bool × Acc :=
  match fuel with
  | 0 => (false, a)
  | fuel + 1 =>
    if l.isEmpty then (false, a) else
    let a' := a.take ctx (l.take ctx.cpc)     -- cpus[i : i+cpusPerCore]
    if a'.isSatisfied then (true, a')
    else if !a'.needs ctx.cpc then (false, a')
    else takeCoresOf ctx fuel a' (l.drop ctx.cpc)

/-- phase 4: the "unsatisfied" sockets, fewest free cores first (with the guard at the head of
    the outer loop). -/
def takeCores (ctx : PickCtx) : Acc → List (List Nat) → Bool × Acc
  | a, [] => (false, a)
  | a, l :: ls =>
    if !a.needs ctx.cpc then (false, a)
    else
      let r := takeCoresOf ctx l.length a l
      if r.1 then r else takeCores ctx r.2 ls

/-- last phase: one CPU at a time. -/
def takeSingles (ctx : PickCtx) : Acc → List Nat → Bool × Acc
  | a, [] => (false, a)
  | a, c :: cs =>
    let a' := if a.needs 1 then a.take ctx [c] else a
    if a'.isSatisfied then (true, a') else takeSingles ctx a' cs

/-- `takeCPUs`.  `none` = error. -/
def takeCPUs (ctx : PickCtx) (fullPCPUs : Bool) (avail : List Nat) (allocated : List CpuI) (need : Int) :
    Option (List Nat) :=
  let a := newAcc ctx avail allocated need
  if a.isSatisfied then some a.result
  else if a.isFailed then none
  else
  -- FullPCPUs branch
  let r1 : Option (List Nat) × Acc :=
    if fullPCPUs || ctx.cpc == 1 then
      let fit1 := if a.need ≤ ctx.cpn then firstFit2 a.need (fun fe => freeCoresIn ctx a true true fe) else none
      match fit1 with
      | some l => (some ((a.take ctx (l.take a.need.toNat)).result), a)
      | none =>
        let fit2 := if a.need ≤ ctx.cps then firstFit a.need (freeCoresIn ctx a false true false) else none
        match fit2 with
        | some l => (some ((a.take ctx (l.take a.need.toNat)).result), a)
        | none =>
          let lists := isortLt (fun (x y : List Nat) => decide (x.length > y.length))
                          (freeCoresIn ctx a false true false)
          let (done, a3, uns) := takeWhole ctx a lists []
          if done then (some a3.result, a3)
          else if a3.needs ctx.cpc then
            let uns := isortLt (fun (x y : List Nat) => decide (x.length < y.length)) uns
            let (done, a4) := takeCores ctx a3 uns
            if done then (some a4.result, a4) else (none, a4)
          else (none, a3)
    else (none, a)
  match r1 with
  | (some res, _) => some res
  | (none, a) =>
  -- SpreadByPCPUs branch
  let r2 : Option (List Nat) :=
    if !fullPCPUs then
      let fit1 := if a.need ≤ ctx.cpn then firstFit2 a.need (fun fe => freeCPUsIn ctx a true fe) else none
      match fit1 with
      | some l => some ((a.take ctx ((spreadCPUs ctx l).take a.need.toNat)).result)
      | none =>
        let fit2 := if a.need ≤ ctx.cps then firstFit2 a.need (fun fe => freeCPUsIn ctx a false fe) else none
        match fit2 with
        | some l => some ((a.take ctx ((spreadCPUs ctx l).take a.need.toNat)).result)
        | none => none
    else none
  match r2 with
  | some res => some res
  | none =>
    let (done, a5) := takeSingles ctx a (spreadCPUs ctx (freeCPUsAll ctx a true))
    if done then some a5.result
    else
      let (done, a6) := takeSingles ctx a5 (spreadCPUs ctx (freeCPUsAll ctx a5 false))
      if done then some a6.result else none

/-- `takePreferredCPUs`. -/
def takePreferredCPUs (ctx : PickCtx) (fullPCPUs : Bool) (avail preferred : List Nat) (allocated : List CpuI)
    (need : Int) : Option (List Nat) :=
  let pref := avail.filter (fun c => preferred.contains c)
  let step1 : Option (List Nat × Int × List Nat) :=
    if !pref.isEmpty then
      let needed := if need > pref.length then (pref.length : Int) else need
      match takeCPUs ctx fullPCPUs pref allocated needed with
      | none => none
      | some res => some (res, need - res.length, avail.filter (fun c => !pref.contains c))
    else some ([], need, avail)
  match step1 with
  | none => none
  | some (res, need, avail) =>
    if need > 0 then
      match takeCPUs ctx fullPCPUs avail allocated need with
      | none => none
      | some cpus => some (res ++ cpus.filter (fun c => !res.contains c))
    else some res

end KoordVerif.C06
