import KoordVerif.Common.Proto
/-
C19, reservation part: what the scheduler's reservationCache holds for a reservation
(ReservationInfo.Allocated per resource dimension, AssignedPods, the per-node indexes) on the live
scheduler and on a fresh scheduler that only sees the persisted objects.

Core-only, executable.  Mirrors the Go code AS WRITTEN (pkg/scheduler/frameworkext/reservation_info.go,
pkg/scheduler/plugins/reservation/{cache,pod_eventhandler,eventhandler,plugin}.go).

Value-level encoding: a ResourceList is a function `dimension → Int` with a missing key = 0 (that is what
the harness prints).  A request vector `Req` is a list with `-1` = key absent.  quotav1.Add is pointwise
`+`; quotav1.Mask keeps the dimensions in ResourceNames; quotav1.SubtractWithNonNegativeResult is
pointwise `max (a - b) 0` (for a key only in `b` Go yields 0, which is the same value because requests
are never negative).
-/
namespace KoordVerif.C19.Rsv
open KoordVerif.Proto

abbrev Req := List Int

/-- quantity of dimension `d` in a request vector, `-1` = absent. -/
def amt (q : Req) (d : Nat) : Int := q.getD d (-1)

/-- frameworkext.ReservationInfo, the fields the property talks about.
`decl` = Allocatable (ResourceNames = the declared dimensions; default allocate policy). -/
structure Info where
  rid : Nat
  node : Nat
  once : Bool
  decl : Req
  allocated : Nat → Int
  pods : List (Nat × Req)      -- AssignedPods: pod UID ↦ PodRequirement.Requests

/-- `quotav1.Mask(requirement.Requests, ri.ResourceNames)` at dimension `d` (missing = 0). -/
def masked (decl q : Req) (d : Nat) : Int :=
  if amt decl d ≥ 0 ∧ amt q d ≥ 0 then amt q d else 0

def keys (ri : Info) : List Nat := ri.pods.map Prod.fst

/-- reservation_info.go NewReservationInfo: Allocated nil, AssignedPods empty. -/
def newInfo (rid node : Nat) (once : Bool) (decl : Req) : Info :=
  { rid, node, once, decl, allocated := fun _ => 0, pods := [] }

/-- reservation_info.go AddAssignedPod: guard on an already assigned UID ("Repeatedly add assigned Pod
… skip it"), else Allocated = Add(Allocated, Mask(requests, ResourceNames)) and record the requirement. -/
def addAssigned (ri : Info) (pid : Nat) (q : Req) : Info :=
  if pid ∈ keys ri then ri
  else { ri with allocated := fun d => ri.allocated d + masked ri.decl q d, pods := (pid, q) :: ri.pods }

/-- `quotav1.SubtractWithNonNegativeResult` pointwise. -/
def subNN (a b : Int) : Int := if a - b > 0 then a - b else 0

/-- reservation_info.go RemoveAssignedPod: uses the RECORDED requirement (not the event's pod); subtracts
only when the recorded request list is non-empty; truncated subtraction; then deletes the map entry. -/
def removeAssigned (ri : Info) (pid : Nat) : Info :=
  match ri.pods.lookup pid with
  | none => ri
  | some q =>
    { ri with
      allocated := if q.any (fun x => decide (x ≥ 0)) then (fun d => subNN (ri.allocated d) (masked ri.decl q d)) else ri.allocated,
      pods := ri.pods.filter (fun e => e.1 ≠ pid) }

/-- Σ over a pod list of the masked requests at dimension `d`. -/
def sumMasked (decl : Req) (d : Nat) : List (Nat × Req) → Int
  | [] => 0
  | e :: t => masked decl e.2 d + sumMasked decl d t

/-- reservation_info.go UpdateReservation (same spec): Allocated = Mask(Allocated, ResourceNames) when
non-nil, then recalculateAllocatedOfAssignedPods (commit 6aca46c): when AssignedPods is non-empty,
Allocated := Σ Mask(requirement.Requests, ResourceNames); untouched when empty. -/
def updateInfo (ri : Info) : Info :=
  let maskedOld : Nat → Int := fun d => if amt ri.decl d ≥ 0 then ri.allocated d else 0
  { ri with allocated := if ri.pods.isEmpty then maskedOld else (fun d => sumMasked ri.decl d ri.pods) }

/-- reservation_info.go IsMatchable for an Available reservation without parse error:
`!(IsAllocateOnce() && GetAllocatedPods() > 0)`. -/
def matchable (ri : Info) : Bool := !(ri.once && decide (ri.pods.length > 0))

/-- cache.go reservationCache: reservationInfos, reservationsOnNode, allocatedOnNode (sets of (node, uid)). -/
structure Cache where
  infos : List Info := []
  onNode : List (Nat × Nat) := []
  allocOn : List (Nat × Nat) := []

def setIns (s : List (Nat × Nat)) (x : Nat × Nat) : List (Nat × Nat) := if x ∈ s then s else x :: s
def setDel (s : List (Nat × Nat)) (x : Nat × Nat) : List (Nat × Nat) := s.filter (fun y => y ≠ x)

def Cache.get (c : Cache) (rid : Nat) : Option Info := c.infos.find? (fun i => i.rid == rid)

def Cache.put (c : Cache) (ri : Info) : Cache :=
  if (c.get ri.rid).isSome then { c with infos := c.infos.map (fun i => if i.rid == ri.rid then ri else i) }
  else { c with infos := ri :: c.infos }

/-- cache.go updateReservation (Status.NodeName non-empty): create or UpdateReservation, add to
reservationsOnNode, then refresh allocatedOnNode: matchable ∧ pods>0 ⇒ insert; matchable ∧ pods=0 ⇒
delete; not matchable ⇒ delete. -/
def Cache.updateReservation (c : Cache) (rid node : Nat) (once : Bool) (decl : Req) : Cache :=
  let ri := match c.get rid with
    | none => newInfo rid node once decl
    | some ri => updateInfo ri
  let c := c.put ri
  let c := { c with onNode := setIns c.onNode (node, rid) }
  if matchable ri && decide (ri.pods.length > 0) then { c with allocOn := setIns c.allocOn (node, rid) }
  else { c with allocOn := setDel c.allocOn (node, rid) }

/-- cache.go addPods / the add half of updatePod: unknown reservation UID ⇒ nothing (addPods: error);
else AddAssignedPod and, when matchable ∧ pods>0, insert into allocatedOnNode. -/
def Cache.addPod (c : Cache) (rid pid : Nat) (q : Req) : Option Cache :=
  match c.get rid with
  | none => none
  | some ri =>
    let ri := addAssigned ri pid q
    let c := c.put ri
    some (if matchable ri && decide (ri.pods.length > 0) then { c with allocOn := setIns c.allocOn (ri.node, rid) } else c)

/-- cache.go deletePods / the remove half of updatePod: unknown UID ⇒ nothing; else RemoveAssignedPod
and, when no pod is left, delete from allocatedOnNode. -/
def Cache.delPod (c : Cache) (rid pid : Nat) : Cache :=
  match c.get rid with
  | none => c
  | some ri =>
    let ri := removeAssigned ri pid
    let c := c.put ri
    if ri.pods.length = 0 then { c with allocOn := setDel c.allocOn (ri.node, rid) } else c

/-- a pod object as the API server holds it: `rid` = the reservation-allocated annotation written by
plugin.go PreBind (apiext.SetReservationAllocated), `term` = phase Succeeded/Failed. -/
structure Pod where
  pid : Nat
  rid : Option Nat
  q : Req
  term : Bool

/-- pod_eventhandler.go deletePod: annotation present (UID non-empty) ⇒ cache.deletePod. -/
def handlerDelete (c : Cache) (p : Pod) : Cache :=
  match p.rid with
  | some r => c.delPod r p.pid
  | none => c

/-- pod_eventhandler.go updatePod (pods here always have spec.nodeName): terminated ⇒ deletePod(newPod);
else cache.updatePod(oldUID, newUID, oldPod, newPod) when either annotation is present: remove oldPod
from the old reservation (if known and oldPod ≠ nil), add newPod to the new one (if known).  A pod whose
reservation is not (yet) in the cache is silently dropped. -/
def handlerUpdate (c : Cache) (old : Option Pod) (new : Pod) : Cache :=
  if new.term then handlerDelete c new else
  let oldR := old.bind (·.rid)
  if oldR.isNone && new.rid.isNone then c else
  let c := match old, oldR with
    | some o, some r => c.delPod r o.pid
    | _, _ => c
  match new.rid with
  | some r => (c.addPod r new.pid new.q).getD c
  | none => c

/-- pod_eventhandler.go OnAdd → updatePod(nil, pod) for a pod that is annotated (PreBind wrote the
reservation-allocated annotation first) but still UNBOUND (spec.nodeName = ""): terminated ⇒ deletePod;
else `!assignedPod(newPod)` with `oldPod = nil` ⇒ return, nothing is recorded. -/
def handlerAddUnbound (c : Cache) (p : Pod) : Cache :=
  if p.term then handlerDelete c p else c

/-- pod_eventhandler.go OnUpdate → updatePod(old, new) where `old` = the unbound version of `new` (same
annotations, spec.nodeName = "") and `new` is bound: `assignedPod(newPod)` holds, both annotations are read
(GetReservationAllocated does not look at spec.nodeName), so it is cache.updatePod(uid, uid, old, new) —
the same as an update whose old object already was bound. -/
def handlerBind (c : Cache) (p : Pod) : Cache := handlerUpdate c (some p) p

/-! ### driver -/

structure RObj where
  rid : Nat
  node : Nat
  once : Bool
  decl : Req

structure St where
  live : Cache := {}
  fresh : Cache := {}
  resvs : List RObj := []
  pods : List Pod := []        -- API server store
  out : List String := []

def insertSorted (x : Nat) : List Nat → List Nat
  | [] => [x]
  | y :: t => if x ≤ y then x :: y :: t else y :: insertSorted x t

def sortNat (l : List Nat) : List Nat := l.foldr insertSorted []

def insertInfo (x : Info) : List Info → List Info
  | [] => [x]
  | y :: t => if x.rid ≤ y.rid then x :: y :: t else y :: insertInfo x t

/-- canonical summary: `s <n>` then per reservation (ascending id)
`r <rid> <alloc0> <alloc1> <alloc2> <in reservationsOnNode> <in allocatedOnNode> <sorted pod ids…>`. -/
def summary (c : Cache) : List String :=
  let is := c.infos.foldr insertInfo []
  s!"s {is.length}" :: is.map fun ri =>
    let head := s!"r {ri.rid} {ri.allocated 0} {ri.allocated 1} {ri.allocated 2} {b2i (decide ((ri.node, ri.rid) ∈ c.onNode))} {b2i (decide ((ri.node, ri.rid) ∈ c.allocOn))}"
    let ps := sortNat (keys ri)
    if ps.isEmpty then head else head ++ " " ++ showNats ps

def findPod (st : St) (pid : Nat) : Option Pod := st.pods.find? (fun p => p.pid == pid)
def findR (st : St) (rid : Nat) : Option RObj := st.resvs.find? (fun r => r.rid == rid)

def St.bad (st : St) : St := { st with out := st.out ++ ["bad-op"] }
def St.emitLive (st : St) : St := { st with out := st.out ++ summary st.live }

def stepLine (st : St) (line : String) : St :=
  match toks line with
  | "rsv" :: "resv" :: rest =>
    match ints? rest with
    | some [rid, node, once, a0, a1, a2] =>
      if rid < 0 ∨ node < 0 then st.bad else
      let r : RObj := { rid := rid.toNat, node := node.toNat, once := once ≠ 0, decl := [a0, a1, a2] }
      -- eventhandler.go OnAdd: active reservation ⇒ cache.updateReservation
      { st with resvs := st.resvs ++ [r], live := st.live.updateReservation r.rid r.node r.once r.decl }.emitLive
    | _ => st.bad
  | "rsv" :: "assign" :: rest =>
    match ints? rest with
    | some [pid, rid, q0, q1, q2] =>
      if pid < 0 ∨ rid < 0 then st.bad else
      if (findPod st pid.toNat).isSome then st.bad else
      -- plugin.go Reserve: assumePods(nominated.UID(), [pod]) (= addPods); PreBind: SetReservationAllocated
      match st.live.addPod rid.toNat pid.toNat [q0, q1, q2] with
      | none => st.bad
      | some c =>
        let p : Pod := { pid := pid.toNat, rid := some rid.toNat, q := [q0, q1, q2], term := false }
        { st with live := c, pods := st.pods ++ [p], out := st.out ++ ["assign 0 1"] }.emitLive
    | _ => st.bad
  | ["rsv", "bound", pid] =>
    match (nat? pid).bind (findPod st) with
    | some p => { st with live := handlerUpdate st.live (some { p with rid := none }) p }.emitLive
    | none => st.bad
  | ["rsv", "upd", pid] =>
    match (nat? pid).bind (findPod st) with
    | some p => { st with live := handlerUpdate st.live (some p) p }.emitLive
    | none => st.bad
  | ["rsv", "del", pid] =>
    match (nat? pid).bind (findPod st) with
    | some p => { st with live := handlerDelete st.live p, pods := st.pods.filter (fun (x : Pod) => x.pid != p.pid) }.emitLive
    | none => st.bad
  | ["rsv", "term", pid] =>
    match (nat? pid).bind (findPod st) with
    | some p =>
      let p' := { p with term := true }
      { st with live := handlerUpdate st.live (some p) p',
                pods := st.pods.map (fun (x : Pod) => if x.pid == p.pid then p' else x) }.emitLive
    | none => st.bad
  | ["rsv", "rupd", rid] =>
    match (nat? rid).bind (findR st) with
    | some r => { st with live := st.live.updateReservation r.rid r.node r.once r.decl }.emitLive
    | none => st.bad
  | ["rsv", "fresh"] => { st with fresh := {} }
  | ["rsv", "ev", "resv", rid] =>
    match (nat? rid).bind (findR st) with
    | some r => { st with fresh := st.fresh.updateReservation r.rid r.node r.once r.decl }
    | none => st.bad
  | ["rsv", "ev", "add", pid] =>
    match (nat? pid).bind (findPod st) with
    | some p => { st with fresh := handlerUpdate st.fresh none p }
    | none => st.bad
  | ["rsv", "ev", "upd", pid] =>
    match (nat? pid).bind (findPod st) with
    | some p => { st with fresh := handlerUpdate st.fresh (some p) p }
    | none => st.bad
  | ["rsv", "ev", "addu", pid] =>   -- add event carrying the unbound (annotated) version of the stored pod
    match (nat? pid).bind (findPod st) with
    | some p => { st with fresh := handlerAddUnbound st.fresh p }
    | none => st.bad
  | ["rsv", "ev", "bind", pid] =>   -- update(old = unbound version, new = the stored pod), same annotations
    match (nat? pid).bind (findPod st) with
    | some p => { st with fresh := handlerBind st.fresh p }
    | none => st.bad
  | ["rsv", "end"] => { st with out := st.out ++ summary st.fresh }
  | _ => st.bad

def runCase (lines : List String) : List String := (lines.foldl stepLine {}).out

end KoordVerif.C19.Rsv
