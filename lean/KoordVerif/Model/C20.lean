/-
C20 — node SLO layering (default < cluster < first matching node entry).  Model of
  pkg/util/utils.go                                   MergeCfg  (json.Marshal(new) ; json.Unmarshal into old)
  pkg/slo-controller/nodeslo/resource_strategy.go     calculate{ResourceThreshold,ResourceQOS,CPUBurst}CfgMerged,
                                                      calculateSystemConfigMerged, calculateHostAppConfigMerged,
                                                      get{ResourceThreshold,ResourceQOS,CPUBurstConfig,SystemConfig}Spec,
                                                      getHostApplicationConfig
  pkg/slo-controller/nodeslo/nodeslo_cm_event_handler.go   DefaultSLOCfg, syncConfig (keep-old-on-error)
  pkg/slo-controller/nodeslo/nodeslo_controller.go    getNodeSLOSpec
Core-only (linked into drv_c20).

A strategy value is its JSON form, *flattened*: a list of `(path, value)` entries with
  * `(q ++ [0], -1)`      an object (non-nil struct pointer / inline struct / map) exists at `q`
  * `(q ++ [0], n)`, n≥0  an array of length `n` exists at `q`; element `i` (0-based) lives under `q ++ [i+1]`
  * `(q, v)`              a scalar leaf (`q` does not end in 0): int, bool as 0/1, string/quantity as an integer code
Keys are small positive integers (the harness numbers the JSON key names); key 0 is reserved for
the markers, key 1 is `totalNetworkBandwidth` (the one non-pointer, non-omittable scalar field).
-/
namespace KoordVerif.C20

abbrev Path := List Nat
abbrev Flat := List (Path × Int)

def get (t : Flat) (p : Path) : Option Int := (t.find? (fun e => e.1 == p)).map (·.2)

def has (t : Flat) (p : Path) : Bool := t.any (fun e => e.1 == p)

/-- `cutBy m len p`: `m = q ++ [0]` is an array marker of length `len` and `p` enters that array at
    an element index beyond its length (elements are numbered 1..len). -/
def cutBy : Path → Int → Path → Bool
  | [0], len, i :: _ => decide (0 ≤ len) && decide (len < (i : Int))
  | a :: m, len, b :: p => a == b && cutBy m len p
  | _, _, _ => false

/-- `p` runs through an array that `n` sets, at an index `n`'s array does not have. -/
def cut (n : Flat) (p : Path) : Bool := n.any (fun e => cutBy e.1 e.2 p)

/-- util.MergeCfg(old, new) = json.Unmarshal(json.Marshal(new), &old) on the flattened JSON forms:
    every entry `new` emits wins; an entry of `old` survives unless `new` emits the same path or
    `new` emits a shorter array on the way (encoding/json decodes objects/maps key by key into the
    existing value, arrays element by element into the existing elements and then truncates). -/
def overlay (o n : Flat) : Flat :=
  n ++ o.filter (fun e => !(has n e.1) && !(cut n e.1))

/-- the path of SystemStrategy.TotalNetworkBandwidth (key 1 at the root of the system strategy). -/
def tnbPath : Path := [1]

/-- json.Marshal of a *SystemStrategy always emits totalNetworkBandwidth (a resource.Quantity value:
    `omitempty` never drops a struct), "0" when unset. -/
def emitTnb (s : Flat) : Flat := if has s tnbPath then s else s ++ [(tnbPath, 0)]

def setLeaf (t : Flat) (p : Path) (v : Option Int) : Flat :=
  t.filter (fun e => !(e.1 == p)) ++ (match v with | some v => [(p, v)] | none => [])

/-- what json.Marshal(new) emits for a strategy of the section (`sys` = system-config). -/
def emit (sys : Bool) (s : Flat) : Flat := if sys then emitTnb s else s

/-- cluster layer: `MergeCfg(default.DeepCopy(), cfg.ClusterStrategy)` if the latter is non-nil. -/
def mergeCluster (sys : Bool) (dflt : Flat) : Option Flat → Flat
  | none => dflt
  | some c => overlay dflt (emit sys c)

/-- node layer: `MergeCfg(cluster.DeepCopy(), nodeStrategy)`; calculateSystemConfigMerged afterwards
    restores the cluster's totalNetworkBandwidth when the node strategy's value IsZero(). -/
def mergeNode (sys : Bool) (cl : Flat) : Option Flat → Flat
  | none => cl
  | some s =>
    let s' := emit sys s
    let m := overlay cl s'
    if sys && get s' tnbPath == some 0 then setLeaf m tnbPath (get cl tnbPath) else m

/-! ### node selectors (metav1.LabelSelectorAsSelector + Selector.Matches) -/

/-- one requirement; `op`: 0 In, 1 NotIn, 2 Exists, 3 DoesNotExist (matchLabels k=v is `In [v]`). -/
structure Req where
  key : Nat
  op : Nat
  vals : List Nat
deriving Repr, DecidableEq

inductive Sel where
  | nothing            -- nil NodeSelector: labels.Nothing()
  | invalid            -- LabelSelectorAsSelector fails: the entry is skipped (`continue`)
  | reqs (rs : List Req)  -- conjunction; `reqs []` = labels.Everything()
deriving Repr, DecidableEq

abbrev Labels := List (Nat × Nat)

def lookupLabel (ls : Labels) (k : Nat) : Option Nat := (ls.find? (fun e => e.1 == k)).map (·.2)

def Req.matches (ls : Labels) (r : Req) : Bool :=
  match r.op, lookupLabel ls r.key with
  | 0, some v => r.vals.contains v
  | 0, none => false
  | 1, some v => !r.vals.contains v
  | 1, none => true
  | 2, l => l.isSome
  | 3, l => l.isNone
  | _, _ => false

def Sel.matches (ls : Labels) : Sel → Bool
  | .nothing => false
  | .invalid => false
  | .reqs rs => rs.all (Req.matches ls)

/-! ### one section of the merged configuration -/

structure NodeEntry where
  sel : Sel
  strat : Option Flat
deriving Repr, DecidableEq

/-- what a ConfigMap says about one section. -/
inductive SecIn where
  | absent                                            -- key missing in ConfigMap.Data
  | bad                                               -- json.Unmarshal fails
  | ok (cluster : Option Flat) (nodes : List NodeEntry)
deriving Repr, DecidableEq

/-- merged section kept in SLOCfg: cluster strategy and the per-entry merged strategies (never nil). -/
structure SecCfg where
  cluster : Flat
  nodes : List (Sel × Flat)
deriving Repr, DecidableEq

/-- calculate*CfgMerged(oldCfg, configMap) for the four strategy sections. -/
def mergeSection (sys : Bool) (dflt : Flat) (old : SecCfg) : SecIn → SecCfg
  | .absent => { cluster := dflt, nodes := [] }
  | .bad => old
  | .ok c ns =>
    let cl := mergeCluster sys dflt c
    { cluster := cl, nodes := ns.map (fun e => (e.sel, mergeNode sys cl e.strat)) }

/-- the empty host-application list (`[]`). -/
def noApps : Flat := [([0], 0)]

/-- calculateHostAppConfigMerged: no merging at all. -/
def mergeHost (old : SecCfg) : SecIn → SecCfg
  | .absent => { cluster := noApps, nodes := [] }
  | .bad => old
  | .ok c ns =>
    { cluster := c.getD noApps, nodes := ns.map (fun e => (e.sel, e.strat.getD noApps)) }

/-- get*Spec: the strategy of the FIRST entry whose (valid) selector matches, else the cluster one. -/
def selectNode (ls : Labels) (cfg : SecCfg) : Flat :=
  match cfg.nodes.find? (fun e => e.1.matches ls) with
  | some e => e.2
  | none => cfg.cluster

/-! ### SLOCfg cache and ConfigMap events -/

/-- sections: 0 resource-threshold, 1 resource-qos, 2 cpu-burst, 3 system, 4 host-application. -/
structure Defaults where
  thr : Flat
  qos : Flat
  burst : Flat
  sys : Flat
deriving Repr, DecidableEq

structure Cfg where
  thr : SecCfg
  qos : SecCfg
  burst : SecCfg
  sys : SecCfg
  host : SecCfg
deriving Repr, DecidableEq

def secDefault (d : Flat) : SecCfg := { cluster := d, nodes := [] }

/-- DefaultSLOCfg() -/
def Cfg.default (d : Defaults) : Cfg :=
  { thr := secDefault d.thr, qos := secDefault d.qos, burst := secDefault d.burst,
    sys := secDefault d.sys, host := secDefault noApps }

/-- a ConfigMap event: `none` = ConfigMap deleted, else the five sections. -/
structure CM where
  thr : SecIn
  qos : SecIn
  burst : SecIn
  sys : SecIn
  host : SecIn
deriving Repr, DecidableEq

/-- syncConfig -/
def sync (d : Defaults) (st : Cfg) : Option CM → Cfg
  | none => Cfg.default d
  | some cm =>
    { thr := mergeSection false d.thr st.thr cm.thr,
      qos := mergeSection false d.qos st.qos cm.qos,
      burst := mergeSection false d.burst st.burst cm.burst,
      sys := mergeSection true d.sys st.sys cm.sys,
      host := mergeHost st.host cm.host }

def run (d : Defaults) (st : Cfg) (evs : List (Option CM)) : Cfg := evs.foldl (sync d) st

/-- getNodeSLOSpec (node without bandwidth annotation): the five delivered sections. -/
def nodeSpec (st : Cfg) (ls : Labels) : List Flat :=
  [selectNode ls st.thr, selectNode ls st.qos, selectNode ls st.burst, selectNode ls st.sys, selectNode ls st.host]

/-- tail of getSystemConfigSpec: a node bandwidth annotation (`node.koordinator.sh/network-bandwidth`)
    that parses overrides totalNetworkBandwidth; one that does not parse makes the function fail, and
    getNodeSLOSpec then delivers a nil system strategy.  `bw`: none = no annotation, some none = unparsable. -/
def sysWithAnnotation (t : Flat) : Option (Option Int) → Option Flat
  | none => some t
  | some none => none
  | some (some v) => some (setLeaf t tnbPath (some v))

def nodeSpecBw (st : Cfg) (ls : Labels) (bw : Option (Option Int)) : List (Option Flat) :=
  [some (selectNode ls st.thr), some (selectNode ls st.qos), some (selectNode ls st.burst),
   sysWithAnnotation (selectNode ls st.sys) bw, some (selectNode ls st.host)]

end KoordVerif.C20
