import KoordVerif.Model.C16
import KoordVerif.Model.C16Arb
/-
C16 — glue around the two cores.  Core-only (linked into drv_c16).

Mirrors, as written today:
  pkg/descheduler/controllers/migration/arbitrator/handler.go   arbitrationHandler.{Create,Update,Delete}
  pkg/descheduler/controllers/migration/arbitrator/arbitrator.go AddPodMigrationJob / DeletePodMigrationJob
  pkg/descheduler/apis/config/v1alpha2/types.go                  DeschedulerConfiguration.MaxNoOfPodsToEvict{PerNode,PerNamespace,Total} (`*uint`, omitempty)
  pkg/descheduler/apis/config/v1alpha2/defaults.go               SetDefaults_DeschedulerConfiguration (does not touch the three caps)
  pkg/descheduler/apis/config/v1alpha2/zz_generated.conversion.go  autoConvert_v1alpha2_DeschedulerConfiguration_To_config_… (pointer casts)
  cmd/koord-descheduler/app/options/configfile.go                loadConfig (UniversalDecoder: decode, default, convert)
  pkg/descheduler/apis/config/v1alpha2/defaults.go               SetDefaults_MigrationControllerArgs (the five arbitration limits)
  cmd/koord-descheduler/app/server.go                            Setup: NewEvictionLimiter(cc.ComponentConfig.MaxNoOfPodsToEvict{PerNode,PerNamespace,Total})
-/
namespace KoordVerif.C16

/-! ## Event routing around the arbitrator (handler.go) -/

/-- the phases for which arbitrationHandler.Update calls DeletePodMigrationJob, as written:
    `Phase == Failed || Phase == Succeeded || Phase == Aborted` (codes 4, 3, 5 of JobA.phase).  Every other phase value
    — "", Pending, Running, or a string the API does not define — keeps the job. -/
def terminalPhase (ph : Nat) : Bool := ph == 4 || ph == 3 || ph == 5

/-- arbitratorImpl.DeletePodMigrationJob = filter.removeJobPassedArbitration(job.UID): only the passed mark goes; the
    waiting collection is NOT touched -/
def dropMark (st : ArbSt) (jid : Nat) : ArbSt := { st with arbitrated := st.arbitrated.filter (· != jid) }

/-- an informer event for a PodMigrationJob; `create` carries the phase of the object, `update` that of ObjectNew -/
inductive HEvent where
  | create (jid : Nat) (phase : Nat)
  | update (jid : Nat) (phase : Nat)
  | delete (jid : Nat)
deriving Repr, DecidableEq

/-- arbitrationHandler.Create → AddPodMigrationJob (`waitingCollection[job.UID] = copy`, a map: idempotent), unless the
    job's phase is Failed / Succeeded / Aborted (early return since 2a5d178: a finished job seen again after a restart is
    not arbitrated again);
    Update → DeletePodMigrationJob iff the new phase is terminal; Delete → DeletePodMigrationJob.
    (The work-queue Adds of Update / Delete feed the reconciler, not the arbitrator.) -/
def handle (st : ArbSt) : HEvent → ArbSt
  | .create jid ph =>
    if terminalPhase ph then st
    else if st.waiting.contains jid then st else { st with waiting := jid :: st.waiting }
  | .update jid ph => if terminalPhase ph then dropMark st jid else st
  | .delete jid => dropMark st jid

/-- the Update event the informer delivers for job `jid` after a write: ObjectNew = the object in the API -/
def echo (st : ArbSt) (jid : Nat) : ArbSt :=
  match findJob st jid with
  | some j => handle st (.update jid j.phase)
  | none => st

def echoAll (st : ArbSt) (jids : List Nat) : ArbSt := jids.foldl echo st

/-- the API object of job `jid` is deleted and the informer delivers the Delete event -/
def deleteJob (st : ArbSt) (jid : Nat) : ArbSt :=
  handle { st with jobs := st.jobs.filter (·.id != jid) } (.delete jid)

/-- a (re)started controller: empty filter map and waiting collection, then the informer's initial list delivers one
    Create event per job in the API -/
def restart (st : ArbSt) : ArbSt :=
  st.jobs.foldr (fun j s => handle s (.create j.id j.phase)) { st with arbitrated := [], waiting := [] }

/-- doOnceArbitrate wrote the job's object (annotation Update that succeeded, or the Failed status) -/
def wrote : Verdict → Bool
  | .passed => true
  | .failed => true
  | _ => false

/-- doOnceArbitrate with the informer echoing each of the arbitrator's own writes back as an Update event before the
    next job is filtered (the earliest the event can arrive: the mark is set right after the write returns) -/
def roundEager (cfg : ArbCfg) (updFail : List Nat) (st : ArbSt) (order : List Nat) : ArbSt :=
  order.foldl (fun s jid =>
    let r := processJob cfg updFail s jid
    if wrote r.2 then echo r.1 jid else r.1) st

/-- the seeded shape that was missed: the mark is dropped for every phase that is not literally Pending or Running -/
def handleLiteral (st : ArbSt) : HEvent → ArbSt
  | .update jid ph => if ph == 1 || ph == 2 then st else dropMark st jid
  | e => handle st e

/-! ## From the configuration file to the EvictionLimiter (decode → default → convert → Setup) -/

/-- how one of the three caps is written in the v1alpha2 file -/
inductive CapDecl where
  | absent            -- key not present
  | null              -- `key: null` / `key: ~` / `"key": null`
  | val (n : Nat)     -- a non-negative integer, 0 included
  | malformed         -- anything else (negative, fraction, string, list): the decoder returns an error
deriving Repr, DecidableEq

/-- what the operator declared: no cap, or at most n evictions (0 = evict nothing) -/
def CapDecl.declared : CapDecl → Option Nat
  | .val n => some n
  | _ => none

/-- JSON / YAML decoding into a `*uint` field -/
def decodeCap : CapDecl → Option Nat
  | .absent => none
  | .null => none
  | .val n => some n
  | .malformed => none   -- never used: the file is rejected (`configLoads`)

/-- loadConfig returns no error (as far as the three caps are concerned) -/
def configLoads (node ns total : CapDecl) : Bool :=
  node != .malformed && ns != .malformed && total != .malformed

/-- SetDefaults_DeschedulerConfiguration on one of the three cap fields: not mentioned, so unchanged
    (Ties: the function never names the fields) -/
def defaultCap (c : Option Nat) : Option Nat := c

/-- autoConvert_v1alpha2_DeschedulerConfiguration_To_config_DeschedulerConfiguration: `(*uint)(unsafe.Pointer(in.X))` -/
def convertCap (c : Option Nat) : Option Nat := c

/-- loadConfig for one cap -/
def loadCap (d : CapDecl) : Option Nat := convertCap (defaultCap (decodeCap d))

/-- Setup: `NewEvictionLimiter(cc.ComponentConfig.MaxNoOfPodsToEvictPerNode, …PerNamespace, …Total)`, in this order -/
def configCaps (node ns total : CapDecl) : Caps := ⟨loadCap node, loadCap ns, loadCap total⟩

/-! ## From the MigrationController plugin config to the arbitration limits (decode → default → convert) -/

/-- v1alpha2/defaults.go `defaultMaxMigratingPerNode` -/
def defaultMaxMigratingPerNode : Int := 2

/-- SetDefaults_MigrationControllerArgs as far as the arbitration limits go: `if obj.MaxMigratingPerNode == nil` it becomes
    defaultMaxMigratingPerNode; MaxMigratingGlobally / PerNamespace / PerWorkload, MaxUnavailablePerWorkload,
    SkipEvictionGates and SkipCheckExpectedReplicas are not mentioned; the conversion copies all of them -/
def defaultArbCfg (cfg : ArbCfg) : ArbCfg :=
  { cfg with maxNode := if cfg.maxNode < 0 then defaultMaxMigratingPerNode else cfg.maxNode }

/-- the seeded shape that was missed: defaulting turns an explicit 0 into nil -/
def defaultCapZeroNil (c : Option Nat) : Option Nat := if c = some 0 then none else c

end KoordVerif.C16
