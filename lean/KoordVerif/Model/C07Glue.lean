import KoordVerif.Model.C07
import KoordVerif.Model.C07Hist
import KoordVerif.Model.C07RO
/-
C07 — glue far from the ledger core that decides WHAT reaches the ledger.  Core-only.

(a) the informer transformer in front of the pod handlers
      pkg/util/transformer/transformers.go      SetupTransformers (pods -> TransformPodFactory())
      pkg/util/transformer/pod_transformer.go   TransformPodFactory (typed object or tombstone by value),
          TransformDeprecatedDeviceResources, transformDeviceAllocations, replaceAndEraseWithResourcesMapper,
          replaceAndEraseResource
      apis/extension/deprecated.go              DeprecatedDeviceResourcesMapper
    A resource list of an annotation entry is read BY NAME: per dimension the amount under the deprecated name
    (kubernetes.io/gpu-core, …) and the amount under the current name (koordinator.sh/gpu-core, …).  The handlers and
    the Device inventory only know the current names.

(b) the scheduling cycle's handling of the allocation result across candidate nodes
      pkg/scheduler/plugins/deviceshare/plugin.go   PreFilter (designation kept only with a DeviceShare scheduling hint),
          Filter (designated branch: trial allocate, `state.allocationResult = nil`), allocate, Reserve
    seen from ONE device type, like everything else in the model.
-/
namespace KoordVerif.C07

/-! ### (a) rename of deprecated resource names -/

/-- one dimension of an annotation entry: (amount under the DEPRECATED name, amount under the CURRENT name) -/
abbrev NQ := Q × Q
abbrev NRL := List NQ

/-- replaceAndEraseResource(list, from = deprecated, to = current) at one dimension:
    `to` present ⇒ untouched (the deprecated key stays); else `from` present ⇒ moved to `to`, `from` deleted -/
def renameQ (x : NQ) : NQ :=
  match x.2 with
  | some _ => x
  | none => (none, x.1)

/-- the helper's return value at one dimension -/
def renameChanged (x : NQ) : Bool := x.2.isNone && x.1.isSome

/-- replaceAndEraseWithResourcesMapper over the dimensions of one entry -/
def renameRL (r : NRL) : NRL := r.map renameQ

/-- the device-allocated annotation by name: device type → entries (minor, resources) in annotation order -/
abbrev NEntry := Nat × NRL
abbrev NAnn := List (Nat × List NEntry)

/-- transformDeviceAllocations: the helper runs on EVERY entry of EVERY device type (its return value only feeds the
    `transformed` flag) -/
def transformAnn (a : NAnn) : NAnn := a.map (fun g => (g.1, g.2.map (fun e => (e.1, renameRL e.2))))

/-- the `transformed` flag -/
def annChanged (a : NAnn) : Bool := a.any (fun g => g.2.any (fun e => e.2.any renameChanged))

/-- TransformDeprecatedDeviceResources on the annotation: written back only when something was renamed -/
def transformPodAnn (a : NAnn) : NAnn := if annChanged a then transformAnn a else a

/-- what the handlers and the ledger read: the amounts under the CURRENT names -/
def curRL (r : NRL) : RL := r.map (·.2)

def annCur (a : NAnn) : List (Nat × List (Nat × RL)) :=
  a.map (fun g => (g.1, g.2.map (fun e => (e.1, curRL e.2))))

/-- what is left under deprecated names -/
def legRL (r : NRL) : RL := r.map (·.1)

/-- the amount the annotation's writer meant at one dimension: the current name wins, else the deprecated one -/
def semQ (x : NQ) : Q :=
  match x.2 with
  | some v => some v
  | none => x.1

def semRL (r : NRL) : RL := r.map semQ

def annSem (a : NAnn) : List (Nat × List (Nat × RL)) :=
  a.map (fun g => (g.1, g.2.map (fun e => (e.1, semRL e.2))))

/-- no dimension carries BOTH names (an annotation written by one scheduler version) -/
def noConflictB (a : NAnn) : Bool :=
  a.all (fun g => g.2.all (fun e => e.2.all (fun x => x.1.isNone || x.2.isNone)))

def legacyFreeB (a : NAnn) : Bool :=
  a.all (fun g => g.2.all (fun e => e.2.all (fun x => x.1.isNone)))

/-- the entry of one device type as the handlers read it after the transformer -/
def txAlloc (a : NAnn) (t : Nat) : Option (List (Nat × RL)) :=
  ((annCur (transformPodAnn a)).find? (fun g => g.1 == t)).map (·.2)

/-- a pod object built from a by-name annotation that went through the informer's transformer -/
def txPodObj (a : NAnn) (t : Nat) (assigned terminated : Bool) : PodObj :=
  { assigned := assigned, terminated := terminated, alloc := txAlloc a t }

/-- pkg/util/transformer/device_transformer.go TransformDevice / TransformDeviceWithDeprecatedResources: the resource list of
    EVERY DeviceInfo of the Device object is renamed (the same helper, no write-back condition) -/
def transformInv (inv : List NEntry) : List NEntry := inv.map (fun e => (e.1, renameRL e.2))

/-- the inventory the Device handlers install: the amounts under the current names -/
def invCur (inv : List NEntry) : List (Nat × RL) := inv.map (fun e => (e.1, curRL e.2))

def invSem (inv : List NEntry) : List (Nat × RL) := inv.map (fun e => (e.1, semRL e.2))

/-! ### (b) the allocation result in the cycle state -/

/-- the part of preFilterState that Filter / Reserve use, for one device type -/
structure PState where
  designated : Option DevRes        -- designatedAllocation[type]; `none`: the map is nil (no annotation, or dropped by PreFilter)
  result     : Option (List Nat)    -- allocationResult[type]: the chosen minors; `none`: nil
deriving Repr

/-- PreFilter: preparePod parses the device-allocated annotation; without a DeviceShare extension in the scheduling
    hint the designation is dropped -/
def cycPreFilter (ann : Option DevRes) (hint : Bool) : PState :=
  { designated := if hint then ann else none, result := none }

/-- the devices Plugin.allocate lets the allocator see on a node: with a designation the view
    `filter(minors of deviceInfos, required = designated amounts)`, else the node's ledger itself -/
def cycView (s : TState) (minors : List Nat) (c : PState) : TState :=
  match c.designated with
  | some des => filterT s (some minors) [] des
  | none => s

/-- Plugin.allocate on a node: the allocator runs on the node's ledger OF THAT MOMENT; success stores the result -/
def cycAllocate (s : TState) (minors : List Nat) (a : AllocReq) (c : PState) : Option PState :=
  match allocate (cycView s minors c) a with
  | none => none
  | some ms => some { c with result := some ms }

/-- Plugin.Filter on ONE candidate node.  Designated branch: `if allocationResult == nil { allocate; on success
    allocationResult = nil }` — the trial result must not survive the node it was computed on.
    No designation: the verdict of the allocator on the node's ledger. -/
def cycFilter (s : TState) (minors : List Nat) (a : AllocReq) (c : PState) : PState × Bool :=
  match c.designated with
  | some _ =>
    match c.result with
    | none =>
      match cycAllocate s minors a c with
      | none => (c, false)
      | some c1 => ({ c1 with result := none }, true)
    | some _ => (c, true)
  | none => (c, (allocate s a).isSome)

/-- Plugin.Reserve on the selected node: `if allocationResult == nil { allocate }`, then
    `updateCacheUsed(allocationResult, pod, true)` -/
def cycReserve (s : TState) (minors : List Nat) (a : AllocReq) (c : PState) (p : Nat) : TState × PState × Bool :=
  let c1 : Option PState :=
    match c.result with
    | none => cycAllocate s minors a c
    | some _ => some c
  match c1 with
  | none => (s, c, false)
  | some c1 =>
    match c1.result with
    | none => (s, c1, true)
    | some ms => (addT s p (allocList a ms), c1, true)

/-- several nodes: node index → ledger (of the device type) -/
abbrev World := List TState

def wGet (w : World) (n : Nat) : TState := w.getD n TState.empty
def wSet (w : World) (n : Nat) (s : TState) : World := w.set n s

/-- what happens between PreFilter and Reserve: Filter on candidate nodes, and ledger ops on any node (informer events,
    other pods' commits) -/
inductive CStep where
  | filter (node : Nat) (minors : List Nat) (a : AllocReq)
  | event (node : Nat) (op : Op)
deriving Repr

def cycStep (wc : World × PState) : CStep → World × PState
  | .filter n ms a => (wc.1, (cycFilter (wGet wc.1 n) ms a wc.2).1)
  | .event n op => (wSet wc.1 n (step (wGet wc.1 n) op), wc.2)

def cycRun (w : World) (c : PState) (steps : List CStep) : World × PState := steps.foldl cycStep (w, c)

/-! ### (c) a pod scheduled NEXT TO reservations it does not match (extension 4)

      pkg/scheduler/plugins/deviceshare/reservation.go  RestoreReservation (matched = none), mergeReservationAllocations
      pkg/scheduler/plugins/deviceshare/plugin.go       Filter / allocate:
          `preemptible := appendAllocated(nil, restoreState.mergedUnmatchedUsed, state.preemptibleDevices[node])`,
          tryAllocateFromReusable / allocateWithNominated return (nil, nil) without a matched reservation,
          then `allocator.Allocate(nil, nil, required, preemptible)`.
    The ledger counts a reservation's own record AND, on top of it, what its owner pods took out of it; the discount for
    an unmatched reservation takes exactly the owners' part out again — what the reservation STILL HOLDS stays in use. -/

/-- mergeReservationAllocations, one unmatched reservation:
    `used := subtractAllocated(copyDeviceResources(alloc.allocatable), alloc.remained, true)` -/
def unmatchedDiscount (a : Reusable) : DevRes := drSubtract a.allocatable a.remained true

/-- the hypotheses on one reusableAlloc the extension-4 theorems (Props/C07.lean) need; decidable, evaluated by the driver on every reservation
    of every `cyrst` line (`rsvhyp 0` would be printed): the reservation's record is a map with amounts ≥ 0, what the
    owners took out of it is ≥ 0, and they did not take more than it holds (remained ≥ 0) -/
def rsvOK (a : Reusable) : Bool := alOK a.allocatable && amountsOK a.allocated && amountsOK a.remained

/-- the devices Plugin.allocate / Filter let the allocator see on a node when the restore state of that node grants the
    preemptible amounts `pre` (= mergedUnmatchedUsed; no preemption dry-run, no matched reservation):
    `filter(minors of deviceInfos, required = designated amounts if any, preemptible = pre)`.
    Without such amounts it is the view of `cycView`. -/
def cycViewR (s : TState) (minors : List Nat) (c : PState) (pre : DevRes) : TState :=
  if pre.isEmpty then cycView s minors c else filterT s (some minors) pre (c.designated.getD [])

/-- Plugin.Filter on one candidate node with a restore state that has unmatched reservations only -/
def cycFilterR (s : TState) (minors : List Nat) (a : AllocReq) (c : PState) (pre : DevRes) : PState × Bool :=
  if pre.isEmpty then cycFilter s minors a c else
  match c.designated, c.result with
  | some _, some _ => (c, true)
  | _, _ => (c, (allocate (cycViewR s minors c pre) a).isSome)

/-- Plugin.Reserve on the selected node with such a restore state -/
def cycReserveR (s : TState) (minors : List Nat) (a : AllocReq) (c : PState) (pre : DevRes) (p : Nat) : TState × PState × Bool :=
  match c.result with
  | some ms => (addT s p (allocList a ms), c, true)
  | none =>
    match allocate (cycViewR s minors c pre) a with
    | none => (s, c, false)
    | some ms => (addT s p (allocList a ms), { c with result := some ms }, true)

end KoordVerif.C07
