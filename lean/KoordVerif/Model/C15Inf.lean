import KoordVerif.Model.C15
/-
C15 — informer glue of the webhook's quota topology cache.
  pkg/webhook/elasticquota/quota_handler.go                     OnQuotaAdd / OnQuotaUpdate / OnQuotaDelete
  pkg/webhook/elasticquota/plugin_check_quota_meta_validate.go  NewQuotaInformer (handlers registered UNFILTERED)
  pkg/webhook/elasticquota/quota_topology.go                    ValidUpdateQuota (old API object vs recorded info)
Core-only.  The handlers overwrite the recorded topology without any check ("webhook works with multiple copies at
the same time, so it needs to watch other copies' writes").  The Go maps are sets; the model keeps the list encoding
of Model/C15.lean (duplicates allowed, observed through membership only).
An informer event carries the decoded API objects (`QI` = the topology-relevant projection of an ElasticQuota:
labels parent / is-parent / tree-id / allow-force-update / is-root, annotation namespaces, spec min / max).
-/
namespace KoordVerif.C15

/-- `qt.quotaInfoMap[name] = info` -/
def put (info : List QI) (q : QI) : List QI :=
  if (find info q.name).isSome then replace info q else q :: info

/-- OnQuotaAdd: record the info, make sure both child sets exist, link under the parent, bind the namespaces. -/
def onAdd (s : Topo) (q : QI) : Topo :=
  { info := put s.info q
    hkeys := q.parent :: q.name :: s.hkeys
    kids := (q.parent, q.name) :: s.kids
    nsMap := nsSetAll s.nsMap q.ns q.name }

/-- OnQuotaUpdate: record the new info; on a parent change unlink from the old parent and link under the new one;
    when the parsed namespace lists differ FIRST unbind the old namespaces, THEN bind the new ones (a namespace in
    both lists stays bound).  reflect.DeepEqual(nil, []string{}) is false, but both sides are then empty and the two
    loops do nothing, so `o.ns != q.ns` has the same effect. -/
def onUpdate (s : Topo) (o q : QI) : Topo :=
  { info := put s.info q
    hkeys := s.hkeys
    kids := if o.parent != q.parent
            then (q.parent, q.name) :: s.kids.filter (fun e => e != (o.parent, o.name))
            else s.kids
    nsMap := if o.ns != q.ns then nsSetAll (nsDelAll s.nsMap o.ns) q.ns q.name else s.nsMap }

/-- `qt.quotaHierarchyInfo[newParent][name] = struct{}{}` writes into a nil map (panic) when the new parent owns no
    child set. -/
def onUpdatePanics (s : Topo) (o q : QI) : Bool :=
  o.parent != q.parent && !(s.hkeys.contains q.parent)

/-- OnQuotaDelete (parent name taken from the delivered object). -/
def onDelete (s : Topo) (q : QI) : Topo :=
  { info := s.info.filter (fun c => c.name != q.name)
    hkeys := s.hkeys.filter (fun n => n != q.name)
    kids := s.kids.filter (fun e => e != (q.parent, q.name) && e.1 != q.name)
    nsMap := nsDelAll s.nsMap q.ns }

inductive Ev where
  | add (q : QI)
  | upd (o q : QI)
  | del (q : QI)
deriving Repr, DecidableEq

def applyEv (s : Topo) : Ev → Topo
  | .add q => onAdd s q
  | .upd o q => onUpdate s o q
  | .del q => onDelete s q

/-- the API server's object store (one decoded object per name) under the same event. -/
def infoEv (info : List QI) : Ev → List QI
  | .add q => put info q
  | .upd _ q => put info q
  | .del q => info.filter (fun c => c.name != q.name)

/-- the informer event the API server emits for an admitted request; `api` = its object store (the old object of an
    update / the object of a delete is the stored one). -/
def evOf (api : List QI) : Op → Option Ev
  | .add q _ => some (.add q)
  | .upd q _ _ => (find api q.name).map (fun o => .upd o q)
  | .del n _ => (find api n).map .del

/-- ValidUpdateQuota with the two "old" sources kept apart: `oa` = the old API object of the admission request
    (unchanged-fields shortcut, old namespaces), `find s.info` = the replica's recorded info (all checks, old parent). -/
def validUpdateO (d : Nat) (s : Topo) (oa : Option QI) (q : QI) (swNeg hasPods : Bool) : Topo × Bool :=
  if (match oa with | some o => sameFields o q | none => false) then (s, true)
  else if q.name = 0 || q.name = 1 then (s, false)
  else if !(nsFree s q) then (s, false)
  else match find s.info q.name with
  | none => (s, false)
  | some o =>
    if !(selfOK d q swNeg) then (s, false)
    else if !(topoCheck d s (some o) q hasPods) then (s, false)
    else
      ({ info := replace s.info q
         hkeys := s.hkeys
         kids := if o.parent != q.parent
                 then (q.parent, q.name) :: s.kids.filter (fun e => e != (o.parent, q.name))
                 else s.kids
         nsMap := nsSetAll (nsDelAll s.nsMap (match oa with | some a => a.ns | none => [])) q.ns q.name }, true)

/-- admission on a replica `s`; old API objects come from the API server's store. -/
def stepO (d : Nat) (s : Topo) (api : List QI) : Op → Topo × Bool
  | .add q sw => validAdd d s q sw
  | .upd q sw hp => validUpdateO d s (find api q.name) q sw hp
  | .del n lp => validDelete s n lp

/-! ### one replica: the informer event of an admitted request reaches the admitting replica right after -/

def stepEcho (d : Nat) (s : Topo) (op : Op) : Topo × Bool :=
  let r := step d s op
  if r.2 then
    match evOf s.info op with
    | some e => (applyEv r.1 e, true)
    | none => (r.1, true)
  else r

/-- a raw request (Model/C15.lean `decodeOp`: labels, annotations, pod listing, mutating default-filling) with the echo. -/
def stepRawEcho (d : Nat) (s : Topo) (r : RawOp) : Topo × Bool :=
  match decodeOp s r with
  | none => (s, false)
  | some op => stepEcho d s op

def runEcho (d : Nat) (s : Topo) : List Op → Topo
  | [] => s
  | op :: ops => runEcho d (stepEcho d s op).1 ops

/-! ### two replicas behind one API server -/

structure Sys where
  a   : Topo
  b   : Topo
  api : List QI
deriving Repr, DecidableEq

def sysInit : Sys := { a := init, b := init, api := [] }

/-- handler registration with an event filter in front (`fun _ => true` = today's NewQuotaInformer). -/
def deliver (flt : Ev → Bool) (s : Topo) (e : Ev) : Topo := if flt e then applyEv s e else s

/-- replica `rep` (false = a, true = b) handles the admission request; an admitted object is stored by the API server
    and broadcast as an informer event to BOTH replicas. -/
def sysStep (d : Nat) (flt : Ev → Bool) (σ : Sys) (rep : Bool) (op : Op) : Sys × Bool :=
  let r := stepO d (if rep then σ.b else σ.a) σ.api op
  if !r.2 then (σ, false) else
  let a1 := if rep then σ.a else r.1
  let b1 := if rep then r.1 else σ.b
  match evOf σ.api op with
  | none => ({ a := a1, b := b1, api := σ.api }, true)
  | some e => ({ a := deliver flt a1 e, b := deliver flt b1 e, api := infoEv σ.api e }, true)

def sysRun (d : Nat) (flt : Ev → Bool) (σ : Sys) : List (Bool × Op) → Sys
  | [] => σ
  | (rep, op) :: rs => sysRun d flt (sysStep d flt σ rep op).1 rs

/-- a generation-changed filter: the API server bumps metadata.generation only when the spec changes (the CRD has no
    status subresource, status is not modelled); label / annotation edits keep the generation. -/
def genFilter : Ev → Bool
  | .upd o q => o.mn != q.mn || o.mx != q.mx
  | _ => true

/-- raw request decoding for a replica `s` with the API server's store `api` (old namespaces come from the old API object). -/
def decodeOp2 (s : Topo) (api : List QI) : RawOp → Option Op
  | .upd r le pods =>
    let oldNs := match find api r.name with
      | some o => o.ns
      | none => []
    some (.upd (decodeQI r) (swBad r.swShape) (le || hasBoundPods pods r.name oldNs))
  | r => decodeOp s r

/-! ### the object an informer hands to a handler (quota_topology_check.go toElasticQuota) -/

/-- toElasticQuota: shape 0 = typed *ElasticQuota, 1 = *unstructured.Unstructured, 2 = tombstone
    (cache.DeletedFinalStateUnknown BY VALUE) holding an unstructured object, 3 = tombstone holding the typed object
    (what the typed informer of NewQuotaInformer yields; unpacked directly since the repair fc155e0), 4 = anything else
    (e.g. a pointer to a tombstone).  An unstructured object is converted with client-go's scheme.Scheme, which works
    only when the ElasticQuota type is registered there (`reg`).  `false` = the handler logs an error and returns
    without touching the state. -/
def convertible (reg : Bool) (shape : Nat) : Bool :=
  shape == 0 || shape == 3 || ((shape == 1 || shape == 2) && reg)

/-- a handler invocation with the delivered representation (both objects of an update come in the same one). -/
def applyEvAs (reg : Bool) (shape : Nat) (s : Topo) (e : Ev) : Topo :=
  if convertible reg shape then applyEv s e else s

end KoordVerif.C15
