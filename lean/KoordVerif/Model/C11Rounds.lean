import KoordVerif.Model.C11
/-
C11 — Part C: the real executor behind KillAndEvictPods and the round loop.  Model of
  pkg/util/cache/expiration_cache.go                       Cache.Get, Cache.set (SetDefault), gcStarted
  pkg/koordlet/qosmanager/plugins/util/evictor.go          Evictor.IsPodEvicted, EvictPodIfNotEvicted
  pkg/koordlet/qosmanager/plugins/util/evict.go            DefaultEvictionExecutor.Evict / IsPodEvicted,
                                                           KillAndEvictPods (same loop as Part A, the executor
                                                           is now a state that the loop threads), EvictTaskCheck
One round = one KillAndEvictPods call at wall-clock time `now`; the eviction API is a script of
outcomes of the successive API calls (true = the call succeeded; 429/404/500/timeout = false).
Time is an integer (any unit; the TTL is in the same unit).  Core-only.
-/
namespace KoordVerif.C11

/-- `Cache.items`: key (pod UID) ↦ expirationTime; a Go map, i.e. at most one entry per key
    (`cacheSet` overwrites). -/
abbrev Cache := List (Nat × Int)

def cacheLookup : Cache → Nat → Option Int
  | [], _ => none
  | (q, e) :: l, p => if q = p then some e else cacheLookup l p

/-- `Cache.Get`: present and not `expirationTime.Before(now)`.  (The GC goroutine deletes exactly the
    items with `now.After(expirationTime)`, which `Get` does not return anyway, so it is invisible.) -/
def cacheGet (c : Cache) (now : Int) (p : Nat) : Bool :=
  match cacheLookup c p with
  | none => false
  | some e => !(e < now)

/-- `c.items[key] = item{expirationTime: exp}` -/
def cacheSet : Cache → Nat → Int → Cache
  | [], p, exp => [(p, exp)]
  | (q, e) :: l, p, exp => if q = p then (q, exp) :: l else (q, e) :: cacheSet l p exp

/-- `Evictor` + `DefaultEvictionExecutor`. -/
structure Exec where
  onlyAPI : Bool      -- DefaultEvictionExecutor.OnlyEvictByAPI
  started : Bool      -- Cache.gcStarted (Evictor.Start was called); `set` refuses with an error before
  ttl     : Int       -- Cache.defaultExpiration
  cache   : Cache     -- Evictor.podsEvicted
deriving Repr, DecidableEq

/-- `cache.defaultExpiration` in seconds (2 * time.Minute); `NewEvictor` uses `NewCacheDefault()`. -/
def defaultTTLSeconds : Int := 120

/-- `Evictor.IsPodEvicted` / `DefaultEvictionExecutor.IsPodEvicted` (non-nil pod). -/
def Exec.isEvicted (x : Exec) (now : Int) (p : Nat) : Bool := cacheGet x.cache now p

/-- `Cache.SetDefault` as `EvictPodIfNotEvicted` uses it (`_ =`: the error is dropped). -/
def Exec.record (x : Exec) (now : Int) (p : Nat) : Exec :=
  if x.started then { x with cache := cacheSet x.cache p (now + x.ttl) } else x

/-- `Evictor.EvictPodIfNotEvicted`; `api` = outcome of the eviction API call if one is made.
    Result: (return value, an API call was made, new state). -/
def Exec.evictIfNot (x : Exec) (now : Int) (p : Nat) (api : Bool) : Bool × Bool × Exec :=
  if cacheGet x.cache now p then (true, false, x)
  else if api then (true, true, x.record now p)
  else (false, true, x)

/-- `DefaultEvictionExecutor.Evict`: by API, or kill the containers and report success. -/
def Exec.evict (x : Exec) (now : Int) (p : Nat) (api : Bool) : Bool × Bool × Exec :=
  if x.onlyAPI then x.evictIfNot now p api else (true, false, x)

/-- loop state of KillAndEvictPods with the real executor: Part A's state (its `script` now holds the
    outcomes of the coming API calls), the executor, and the number of API calls made. -/
structure XSt where
  st  : St
  x   : Exec
  api : Nat
deriving Repr, DecidableEq

/-- inner loop of KillAndEvictPods, executor threaded. -/
def loopPodsX (agg : Entry → Rel) (now : Int) (ti : Nat) (t : Task) : XSt → List Entry → XSt
  | s, [] => s
  | s, e :: es =>
    if s.st.evicted.contains e.pod then loopPodsX agg now ti t s es else
    if s.x.isEvicted now e.pod then
      let st' := { s.st with evicted := e.pod :: s.st.evicted, released := addRel s.st.released (agg e),
                             logRev := ⟨ti, e, .pending⟩ :: s.st.logRev }
      if (remaining t st'.released).isEmpty then { s with st := st' }
      else loopPodsX agg now ti t { s with st := st' } es
    else
      let r := s.x.evict now e.pod (s.st.script.headD true)
      let script' := if r.2.1 then s.st.script.tail else s.st.script
      let api' := if r.2.1 then s.api + 1 else s.api
      if r.1 then
        let st' := { s.st with evicted := e.pod :: s.st.evicted, newly := true,
                               released := addRel s.st.released (agg e), script := script',
                               logRev := ⟨ti, e, .ok⟩ :: s.st.logRev }
        if (remaining t st'.released).isEmpty then { st := st', x := r.2.2, api := api' }
        else loopPodsX agg now ti t { st := st', x := r.2.2, api := api' } es
      else
        loopPodsX agg now ti t
          { st := { s.st with script := script', logRev := ⟨ti, e, .fail⟩ :: s.st.logRev }, x := r.2.2, api := api' } es

/-- outer loop. -/
def loopTasksX (agg : Entry → Rel) (now : Int) : Nat → XSt → List Task → XSt
  | _, s, [] => s
  | ti, s, t :: ts =>
    if (remaining t s.st.released).isEmpty then loopTasksX agg now (ti + 1) s ts
    else loopTasksX agg now (ti + 1) (loopPodsX agg now ti t s t.pods) ts

/-- one qos-manager round: the candidate lists computed in this round, the time, the API outcomes. -/
structure Round where
  now    : Int
  script : List Bool
  tasks  : List Task
deriving Repr, DecidableEq

/-- the API script as the loop sees it: without OnlyEvictByAPI no API call is ever made. -/
def Exec.scriptFor (x : Exec) (script : List Bool) : List Bool := if x.onlyAPI then script else []

/-- KillAndEvictPods(DefaultEvictionExecutor{…}, node, tasks) at time `now`. -/
def runRound (x : Exec) (r : Round) : XSt :=
  loopTasksX (aggWith (collectFns [] r.tasks)) r.now 0
    { st := St.init (x.scriptFor r.script), x := x, api := 0 } r.tasks

/-- executor state after the rounds `rs`. -/
def execAfter (x : Exec) : List Round → Exec
  | [] => x
  | r :: rs => execAfter (runRound x r).x rs

/-- `EvictTaskCheck(task, released)`: finished? -/
def taskDone (t : Task) (released : Rel) : Bool :=
  t.toRelease.isEmpty || (remaining t released).isEmpty

end KoordVerif.C11
