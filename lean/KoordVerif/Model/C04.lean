/-
C04 — gang scheduling is all-or-nothing across the whole gang group.  Model of
  pkg/scheduler/plugins/coscheduling/core/gang.go        Gang: setChild, addAssumedPod, delAssumedPod, addBoundPod,
                                                         deletePod, tryInitByPodConfig, tryInitByPodGroup,
                                                         SetGangGroupInfo, isGangValidForPermit
  pkg/scheduler/plugins/coscheduling/core/gang_cache.go  onPodAddInternal, onPodUpdate, onPodDelete, onPodGroupAdd,
                                                         onPodGroupUpdate, onPodGroupDelete, getGangGroupInfo
  pkg/scheduler/plugins/coscheduling/core/ganggroup.go   GangGroupInfo.{Initialized, OnceResourceSatisfied}
  pkg/scheduler/plugins/coscheduling/core/core.go        Permit, Unreserve, PostBind, AfterPostFilter, AllowGangGroup,
                                                         rejectGangGroupById, rejectGangGroup
  pkg/scheduler/plugins/coscheduling/coscheduling.go     Permit (Success => AllowGangGroup)
Core-only.  Gangs and pods are naturals.  The Go maps keyed by "ns/name" are duplicate-free lists
of keys (`sIns` = `m[k] = v`, `sDel` = `delete(m, k)`); only key sets matter to the property.
`*GangGroupInfo` pointers are object ids into a heap `infos` (objects are never collected):
NewGang allocates a private, un-Initialized info; the cache map `gangGroupInfoMap` (key = the
sorted gang-group list, i.e. util.GetGangGroupId) holds the shared, Initialized ones.
Not modelled (irrelevant to the property, not observed): WaitTime, CreateTime, TotalChildrenNum,
NetworkTopologySpec, WaitingGangIDs, RepresentativePodKey, BindingMemberPods, metrics, auditor.
The cache's handle is a non-nil ExtendedHandle whose Scheduler() is nil (no queue activation).
CoschedulingArgs.DefaultMatchPolicy is part of the state (`State.dflt`, fixed at construction: `initWith`); `init` is the
defaulted configuration once-satisfied.

Environment (k8s scheduling framework contract, implemented by the harness' fake handle):
`fw` is the framework's waiting-pod map (pod ↦ its gang id).  A pod whose Permit answers Wait is
parked there; `WaitingPod.Allow/Reject` removes it; the framework removes a pod from the map
before it calls Unreserve / PostBind for it.
-/
namespace KoordVerif.C04

abbrev Pod := Nat
abbrev GangId := Nat

/-- `m[k] = v` on the key set. -/
def sIns (x : Nat) (s : List Nat) : List Nat := if x ∈ s then s else x :: s
/-- `delete(m, k)` on the key set. -/
def sDel (x : Nat) (s : List Nat) : List Nat := s.filter (fun y => y != x)

def insSorted (x : Nat) : List Nat → List Nat
  | [] => [x]
  | y :: ys => if x ≤ y then x :: y :: ys else y :: insSorted x ys

/-- `sort.Strings` on single-digit gang ids / canonical printing order. -/
def sortNat (l : List Nat) : List Nat := l.foldr insSorted []

/-- ganggroup.go GangGroupInfo (the fields that matter). `key` = GangGroupId ([] = ""). -/
structure Info where
  oid    : Nat
  inited : Bool
  key    : List GangId
  sat    : Bool          -- OnceResourceSatisfied
deriving Repr, DecidableEq

/-- gang.go Gang.{Children, PendingChildren, WaitingForBindChildren, BoundChildren} (key sets) -/
structure PodSets where
  children : List Pod
  pending  : List Pod
  waiting  : List Pod    -- WaitingForBindChildren
  bound    : List Pod
deriving Repr, DecidableEq

def PodSets.empty : PodSets := { children := [], pending := [], waiting := [], bound := [] }

/-- gang.go Gang. policy: 0 only-waiting, 1 waiting-and-running, 2 once-satisfied; 3 = the empty string, ≥ 4 = any other
    string — both only as the stored copy of a CoschedulingArgs.DefaultMatchPolicy that is not one of the three
    (isGangValidForPermit: the `default:` branch of its switch; Unreserve / AfterPostFilter: not `== once-satisfied`). -/
structure Gang where
  id       : GangId
  init     : Bool        -- HasGangInit
  fromAnno : Bool        -- GangFrom == GangFromPodAnnotation
  min      : Int         -- MinRequiredNumber
  policy   : Nat         -- GangMatchPolicy
  strict   : Bool        -- Mode == Strict
  group    : List GangId -- GangGroup
  info     : Nat         -- GangGroupInfo (object id)
  ps       : PodSets
deriving Repr, DecidableEq

structure State where
  gangs : List Gang                  -- GangCache.gangItems
  infos : List Info                  -- heap of GangGroupInfo objects
  ggMap : List (List GangId × Nat)   -- GangCache.gangGroupInfoMap
  next  : Nat                        -- allocation counter
  fw    : List (Pod × GangId)        -- framework waiting pods (environment)
  dflt  : Nat := 2                   -- GangCache.pluginArgs.DefaultMatchPolicy (policy token as for Gang.policy)
deriving Repr, DecidableEq

def init : State := { gangs := [], infos := [], ggMap := [], next := 0, fw := [] }

/-- NewGangCache(args, …) with args.DefaultMatchPolicy = `d` (0 only-waiting, 1 waiting-and-running, 2 once-satisfied,
    3 the empty string: v1 defaulting only replaces a nil pointer, and nothing validates the value) -/
def initWith (d : Nat) : State := { init with dflt := d }

/-- gang parameters carried by a PodGroup object or by a pod's annotations (raw tokens).
    policy (annotation gang.scheduling.koordinator.sh/match-policy) and palias (the alias annotation
    pod-group.scheduling.sigs.k8s.io/match-policy): 0/1/2 as above, 3 = absent, 4 = any other string, 5 = present
    with the empty string;
    mode: 0 `NonStrict`, 1 `Strict` (both spelled exactly), 2 absent, 3 any other string, 4 present with the empty string,
    5 `Strict` in another letter case (strict, STRICT, …), 6 `NonStrict` in another letter case;
    gshape: the shape of the groups annotation — 0 absent, 1 the empty string, 2 `null`, 3 `[]`,
    4 a JSON list of gang ids (`group`), 5 not JSON;  group: the ids of shape 4. -/
structure Cfg where
  min    : Int
  policy : Nat
  mode   : Nat
  group  : List GangId
  gshape : Nat := 4
  palias : Nat := 3
deriving Repr, DecidableEq

/-- util.StringToGangGroupSlice (`none` = the Go nil slice): "" -> nil; `null` unmarshals to nil;
    `[]` -> empty non-nil; a syntax error returns the empty non-nil slice made before Unmarshal
    together with the error, which both callers only log. -/
def parseGroups (shape : Nat) (group : List GangId) : Option (List GangId) :=
  match shape with
  | 0 => none
  | 1 => none
  | 2 => none
  | 3 => some []
  | 4 => some group
  | _ => some []

/-- tryInitByPodConfig / tryInitByPodGroup: `if len(groupSlice) == 0 { groupSlice = append(groupSlice, gang.Name) }`
    (len, not a nil test: the empty non-nil slice also falls back to the gang itself) -/
def groupOrSelf (self : GangId) : Option (List GangId) → List GangId
  | none => [self]
  | some [] => [self]
  | some (x :: xs) => x :: xs

structure Out where
  verdict  : Nat := 9        -- Permit: 0 Success, 1 Wait, 2 PodGroupNotFound; 9 = not a permit
  allowed  : List Pod := []  -- WaitingPod.Allow calls
  rejected : List Pod := []  -- WaitingPod.Reject calls
deriving Repr, DecidableEq

def findGang (gs : List Gang) (id : GangId) : Option Gang := gs.find? (fun g => g.id == id)

def updGang (gs : List Gang) (id : GangId) (f : Gang → Gang) : List Gang :=
  gs.map (fun g => if g.id == id then f g else g)

def findInfo (is : List Info) (oid : Nat) : Option Info := is.find? (fun i => i.oid == oid)

def infoSat (s : State) (oid : Nat) : Bool :=
  match findInfo s.infos oid with
  | some i => i.sat
  | none => false

def infoInited (s : State) (oid : Nat) : Bool :=
  match findInfo s.infos oid with
  | some i => i.inited
  | none => false

def infoKey (s : State) (oid : Nat) : List GangId :=
  match findInfo s.infos oid with
  | some i => i.key
  | none => []

/-- GangGroupInfo.setResourceSatisfied -/
def setSat (is : List Info) (oid : Nat) : List Info :=
  is.map (fun i => if i.oid == oid then { i with sat := true } else i)

/-- NewGang -/
def newGang (id : GangId) (oid : Nat) : Gang :=
  { id := id, init := false, fromAnno := true, min := 0, policy := 2, strict := true, group := [id],
    info := oid, ps := PodSets.empty }

/-- getGangFromCacheByGangId(id, createIfNotExist = true) -/
def ensureGang (s : State) (id : GangId) : State :=
  match findGang s.gangs id with
  | some _ => s
  | none =>
    { s with gangs := s.gangs ++ [newGang id s.next],
             infos := s.infos ++ [{ oid := s.next, inited := false, key := [], sat := false }],
             next := s.next + 1 }

/-- getGangGroupInfo(key, group, createIfNotExist = true) -/
def ensureInfo (s : State) (key : List GangId) : State × Nat :=
  match s.ggMap.find? (fun e => e.1 == key) with
  | some e => (s, e.2)
  | none =>
    ({ s with infos := s.infos ++ [{ oid := s.next, inited := true, key := key, sat := false }],
              ggMap := s.ggMap ++ [(key, s.next)], next := s.next + 1 }, s.next)

/-- `gangGroup := gang.getGangGroup(); id := util.GetGangGroupId(gangGroup)` (sorts the gang's
    own slice in place); `getGangGroupInfo(id, gangGroup, true)`; `gang.SetGangGroupInfo(info)`
    (only replaces an un-Initialized info). -/
def attachInfo (s : State) (id : GangId) : State :=
  match findGang s.gangs id with
  | none => s
  | some g =>
    let key := sortNat g.group
    let r := ensureInfo s key
    let s1 := r.1
    { s1 with gangs := updGang s1.gangs id (fun g =>
        { g with group := key, info := if infoInited s1 g.info then g.info else r.2 }) }

/-- a policy token that reads as the empty string: annotation absent, or present and empty -/
def polEmpty (t : Nat) : Bool := t == 3 || t == 5

/-- apis/extension/coscheduling.go GetGangMatchPolicy: the annotation unless it is empty, else the alias annotation
    (whatever it holds; "" when both are missing — never a default of its own) -/
def getMatchPolicy (primary aliasTok : Nat) : Nat := if polEmpty primary then aliasTok else primary

/-- tryInitByPodConfig / tryInitByPodGroup:
    `matchPolicy := extension.GetGangMatchPolicy(obj); if matchPolicy == "" { matchPolicy = args.DefaultMatchPolicy };
     if matchPolicy is none of the three { matchPolicy = args.DefaultMatchPolicy }; gang.GangMatchPolicy = matchPolicy`
    (the configured default is stored as written, legal or not) -/
def resolvePolicy (dflt t : Nat) : Nat :=
  let t1 := if polEmpty t then dflt else t
  if t1 ≤ 2 then t1 else dflt

/-- tryInitByPodConfig / tryInitByPodGroup: `mode := annotations[mode]; if mode == "" { mode = Strict };
    if mode != Strict && mode != NonStrict { mode = Strict }; gang.Mode = mode` — the comparison is exact (case
    sensitive), so only token 0 survives as NonStrict; result = `gang.Mode == Strict` (the test of Unreserve /
    AfterPostFilter) -/
def normStrict (m : Nat) : Bool :=
  let m1 := if m == 2 || m == 4 then 1 else m
  let m2 := if m1 != 1 && m1 != 0 then 1 else m1
  m2 == 1

/-- the common part of tryInitByPodConfig / tryInitByPodGroup (`dflt` = args.DefaultMatchPolicy) -/
def applyCfg (dflt : Nat) (g : Gang) (c : Cfg) (fromAnno : Bool) : Gang :=
  { g with min := c.min, policy := resolvePolicy dflt (getMatchPolicy c.policy c.palias), strict := normStrict c.mode,
           group := sortNat (groupOrSelf g.id (parseGroups c.gshape c.group)),
           fromAnno := fromAnno, init := true }

/-! ### gang.go: the four child sets -/

/-- setChild (with the guard of fix bbde960: a bound pod does not go back to pending on a stale
    update that does not carry the node name yet) -/
def PodSets.setChild (g : PodSets) (p : Pod) (hasNode : Bool) : PodSets :=
  let g1 := { g with children := sIns p g.children }
  if hasNode = false ∧ p ∉ g1.waiting ∧ p ∉ g1.bound then { g1 with pending := sIns p g1.pending } else g1

/-- addAssumedPod -/
def PodSets.addAssumed (g : PodSets) (p : Pod) : PodSets :=
  { g with waiting := sIns p g.waiting, pending := sDel p g.pending }

/-- delAssumedPod -/
def PodSets.delAssumed (g : PodSets) (p : Pod) : PodSets :=
  if p ∈ g.waiting then
    { g with waiting := sDel p g.waiting,
             pending := if p ∈ g.children then sIns p g.pending else g.pending }
  else g

/-- addBoundPod (set part) -/
def PodSets.addBound (g : PodSets) (p : Pod) : PodSets :=
  { g with waiting := sDel p g.waiting, pending := sDel p g.pending, bound := sIns p g.bound }

/-- deletePod (set part) -/
def PodSets.deletePod (g : PodSets) (p : Pod) : PodSets :=
  { children := sDel p g.children, pending := sDel p g.pending,
    waiting := sDel p g.waiting, bound := sDel p g.bound }

def Gang.setChild (g : Gang) (p : Pod) (hasNode : Bool) : Gang := { g with ps := g.ps.setChild p hasNode }
def Gang.addAssumed (g : Gang) (p : Pod) : Gang := { g with ps := g.ps.addAssumed p }
def Gang.delAssumed (g : Gang) (p : Pod) : Gang := { g with ps := g.ps.delAssumed p }
def Gang.addBound (g : Gang) (p : Pod) : Gang := { g with ps := g.ps.addBound p }
def Gang.deletePod (g : Gang) (p : Pod) : Gang := { g with ps := g.ps.deletePod p }

/-- gang.setResourceSatisfied on whatever info the gang holds now -/
def satGang (s : State) (id : GangId) : State :=
  match findGang s.gangs id with
  | none => s
  | some g => { s with infos := setSat s.infos g.info }

/-- onPodDelete / onPodGroupDelete tail: drop the gang, and the group info once every gang
    named by THIS gang's GangGroup is gone (key = the GangGroupId of the info it holds). -/
def removeGang (s : State) (g : Gang) : State :=
  let gs := s.gangs.filter (fun x => x.id != g.id)
  let allGone := g.group.all (fun h => (findGang gs h).isNone)
  let key := infoKey s g.info
  { s with gangs := gs, ggMap := if allGone then s.ggMap.filter (fun e => e.1 != key) else s.ggMap }

/-- isGangValidForPermit -/
def validForPermit (s : State) (g : Gang) : Bool :=
  g.init &&
    (match g.policy with
     | 0 => decide (g.min ≤ (g.ps.waiting.length : Int))
     | 1 => decide (g.min ≤ ((g.ps.waiting.length + g.ps.bound.length : Nat) : Int))
     | _ => decide (g.min ≤ (g.ps.waiting.length : Int)) || infoSat s g.info)

/-- the loop of Permit over the gang group -/
def allValid (s : State) (group : List GangId) : Bool :=
  group.all (fun h =>
    match findGang s.gangs h with
    | some gh => validForPermit s gh
    | none => false)

def inGroup (group : List GangId) (e : Pod × GangId) : Bool := decide (e.2 ∈ group)

/-- handle.IterateOverWaitingPods: the waiting pods whose gang is in the group -/
def fwHit (s : State) (group : List GangId) : List Pod := (s.fw.filter (inGroup group)).map (·.1)

def fwDrop (s : State) (group : List GangId) : State :=
  { s with fw := s.fw.filter (fun e => !inGroup group e) }

def fwRemove (s : State) (p : Pod) : State := { s with fw := s.fw.filter (fun e => e.1 != p) }

/-- rejectGangGroupById -/
def rejectGroup (s : State) (id : GangId) : State × List Pod :=
  match findGang s.gangs id with
  | none => (s, [])
  | some g => (fwDrop s g.group, fwHit s g.group)

/-! ### entry points -/

/-- onPodGroupAdd / onPodGroupUpdate after the gang lookup -/
def pgApply (s : State) (id : GangId) (c : Cfg) : State :=
  attachInfo { s with gangs := updGang s.gangs id (fun g => applyCfg s.dflt g c false) } id

def pgAdd (s : State) (id : GangId) (c : Cfg) : State := pgApply (ensureGang s id) id c

def pgUpd (s : State) (id : GangId) (c : Cfg) : State :=
  match findGang s.gangs id with
  | none => s
  | some _ => pgApply s id c

def pgDel (s : State) (id : GangId) : State :=
  match findGang s.gangs id with
  | none => s
  | some g => removeGang s g

/-- onPodAddInternal (onPodAdd, and onPodUpdate of a non-terminated pod).
    `anno = some (minOK, cfg)`: the pod has no PodGroup label, i.e. the annotation way. -/
def podEvt (s : State) (p : Pod) (id : GangId) (hasNode : Bool) (anno : Option (Bool × Cfg)) : State :=
  let s0 := ensureGang s id
  let s1 := match anno with
    | none => s0
    | some (minOK, c) =>
      attachInfo { s0 with gangs := updGang s0.gangs id (fun g =>
        if g.init = false ∧ minOK = true then applyCfg s.dflt g c true else g) } id
  let s2 := { s1 with gangs := updGang s1.gangs id (fun g => g.setChild p hasNode) }
  if hasNode then satGang { s2 with gangs := updGang s2.gangs id (fun g => g.addBound p) } id
  else s2

/-- onPodDelete -/
def podDel (s : State) (p : Pod) (id : GangId) : State :=
  match findGang s.gangs id with
  | none => s
  | some g =>
    let g' := g.deletePod p
    let s1 := { s with gangs := updGang s.gangs id (fun g => g.deletePod p) }
    if g'.fromAnno = true ∧ g'.ps.children = [] then removeGang s1 g' else s1

/-- core.go Permit + coscheduling.go Permit (AllowGangGroup on Success) + the framework parking
    the pod on Wait. -/
def permit (s : State) (p : Pod) (id : GangId) : State × Out :=
  match findGang s.gangs id with
  | none => (s, { verdict := 2 })
  | some g =>
    let s1 := { s with gangs := updGang s.gangs id (fun g => g.addAssumed p) }
    if allValid s1 g.group then
      (fwDrop s1 g.group, { verdict := 0, allowed := fwHit s1 g.group })
    else
      ({ s1 with fw := (p, id) :: s1.fw.filter (fun e => e.1 != p) }, { verdict := 1 })

/-- the exemption tested by Unreserve and AfterPostFilter -/
def exempt (s : State) (g : Gang) : Bool := g.policy == 2 && infoSat s g.info

/-- Unreserve (the framework has removed the pod from its waiting map before) -/
def unreserve (s : State) (p : Pod) (id : GangId) : State × Out :=
  let s0 := fwRemove s p
  match findGang s0.gangs id with
  | none => (s0, {})
  | some g =>
    let s1 := { s0 with gangs := updGang s0.gangs id (fun g => g.delAssumed p) }
    if !(exempt s1 g) && g.strict then
      let r := rejectGroup s1 id
      (r.1, { rejected := r.2 })
    else (s1, {})

/-- PostBind -/
def postBind (s : State) (p : Pod) (id : GangId) : State :=
  let s0 := fwRemove s p
  match findGang s0.gangs id with
  | none => s0
  | some _ => satGang { s0 with gangs := updGang s0.gangs id (fun g => g.addBound p) } id

/-- AfterPostFilter -/
def postFilter (s : State) (id : GangId) : State × Out :=
  match findGang s.gangs id with
  | none => (s, {})
  | some g =>
    if exempt s g then (s, {})
    else if g.strict then
      let r := rejectGroup s id
      (r.1, { rejected := r.2 })
    else (s, {})

inductive Op where
  | pgAdd (g : GangId) (c : Cfg)
  | pgUpd (g : GangId) (c : Cfg)
  | pgDel (g : GangId)
  | podEvt (p : Pod) (g : GangId) (hasNode : Bool) (anno : Option (Bool × Cfg))
  | podDel (p : Pod) (g : GangId)
  | permit (p : Pod) (g : GangId)
  | unreserve (p : Pod) (g : GangId)
  | postBind (p : Pod) (g : GangId)
  | postFilter (p : Pod) (g : GangId)
  | nop                                  -- onPodUpdate of a terminated pod; pod without a gang
deriving Repr, DecidableEq

/-! ### informer delivery: client-go → the handler NewPodGroupManager registered → onPodDelete / onPodGroupDelete -/

/-- What a shared informer hands to `OnDelete`: 0 = the object itself; 1 = a `cache.DeletedFinalStateUnknown` BY VALUE
    around the last known object (a delete noticed on re-list); anything else = a shape the type switch at the head of
    onPodDelete / onPodGroupDelete does not understand (pointer to a tombstone, tombstone around another type or nil):
    logged and dropped. -/
def delUnderstood (shape : Nat) : Bool := decide (shape ≤ 1)

/-- core.go NewPodGroupManager, the handler handed to the informer.  wiring 0 = the `cache.ResourceEventHandlerFuncs`
    {AddFunc, UpdateFunc, DeleteFunc} literal itself: every informer call reaches the GangCache method (the code; a
    regenerated fact).  wiring 1 = the same literal behind a `cache.FilteringResourceEventHandler` whose filter wants an
    object of the resource's own type: a tombstone is not one, so `OnDelete(tombstone)` is dropped before onPodDelete. -/
def handlerForwardsDel (wiring shape : Nat) : Bool := wiring == 0 || shape == 0

/-- the delete event as the GangCache sees it -/
def deliverDel (wiring shape : Nat) (op : Op) : Op :=
  if handlerForwardsDel wiring shape && delUnderstood shape then op else .nop

/-! ### reservation informer → reserve pod → the pod handler (core.go NewPodGroupManager: the pod handler literal is
registered once more on the Reservation informer behind reservationutil.NewReservationToPodEventHandler, no filter) -/

/-- A Reservation that is a gang member (gang labels / annotations in spec.template or on the object), as far as
    NewReservePod + onPodAdd / onPodUpdate look at it:  `req` = spec.template.spec.nodeName is set (the node the user
    REQUESTED: NewReservePod moves it to the reservation-node annotation and clears spec.nodeName);  `sched` =
    status.nodeName is set (the scheduling RESULT: it becomes the reserve pod's spec.nodeName);  `phase` 0 = pending /
    available / waiting, 1 = succeeded, 2 = failed or expired (reserve pod phase Succeeded / Failed). -/
structure Rsv where
  req   : Bool
  sched : Bool
  phase : Nat
deriving Repr, DecidableEq

/-- "the reserve pod is already bound", as onPodAddInternal decides it.  rule 0 = the code: pod.Spec.NodeName, which
    NewReservePod fills from status.nodeName only.  rule 1 = a variant that falls back to the reservation-node annotation
    (GetReservePodNodeName), i.e. to the REQUESTED node. -/
def reservePodHasNode (rule : Nat) (r : Rsv) : Bool := r.sched || (rule == 1 && r.req)

/-- koordutil.IsPodTerminated on the reserve pod -/
def reservePodTerminated (r : Rsv) : Bool := r.phase != 0

/-- ReservationToPodEventHandler.OnAdd / OnUpdate → onPodAdd / onPodUpdate: the pod event the GangCache sees.
    onPodUpdate drops a terminated pod; onPodAdd does not look at the phase. -/
def deliverRsv (rule : Nat) (upd : Bool) (r : Rsv) (p : Pod) (g : GangId) (anno : Option (Bool × Cfg)) : Op :=
  if upd && reservePodTerminated r then .nop else .podEvt p g (reservePodHasNode rule r) anno

def step (s : State) : Op → State × Out
  | .pgAdd g c => (pgAdd s g c, {})
  | .pgUpd g c => (pgUpd s g c, {})
  | .pgDel g => (pgDel s g, {})
  | .podEvt p g n a => (podEvt s p g n a, {})
  | .podDel p g => (podDel s p g, {})
  | .permit p g => permit s p g
  | .unreserve p g => unreserve s p g
  | .postBind p g => (postBind s p g, {})
  | .postFilter _ g => postFilter s g
  | .nop => (s, {})

def run (s : State) : List Op → State
  | [] => s
  | o :: os => run (step s o).1 os

end KoordVerif.C04
