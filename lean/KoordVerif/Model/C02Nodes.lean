import KoordVerif.Model.C02Glue
/-
C02 — where the cluster total (the "parent has" of the top level) comes from: the node event handlers.
Model of pkg/scheduler/plugins/elasticquota/core/group_quota_manager.go
    OnNodeAdd / OnNodeUpdate / OnNodeDelete, UpdateClusterTotalResource / updateClusterTotalResourceNoLock
and of k8s.io/apiserver/pkg/quota/v1 Add / Subtract / Equals / IsZero on `v1.ResourceList`s.
A ResourceList is an association list resource name ↦ amount (`RL`, see Model/C02Glue); a key may be MISSING,
`list.Name(key)` of a missing key reads 0 (`rlGet`).  A Go map has pairwise distinct keys (`rlNodup`).
The system / default quota groups are not used in the harness (their `Used` is empty), so
`totalResourceExceptSystemAndDefaultUsed` = `totalResource` minus nothing.  Core-only.
-/
namespace KoordVerif.C02

def rlHas (l : RL) (d : Nat) : Bool := (rlFind l d).isSome

/-- `quotav1.Add(a, b)`: every key of `a` with `b`'s amount added when `b` names it, then the keys only `b` names. -/
def rlAdd (a b : RL) : RL :=
  a.map (fun p => (p.1, p.2 + rlGet b p.1)) ++ b.filter (fun p => !rlHas a p.1)

/-- `quotav1.Subtract(a, b)`: every key of `a` with `b`'s amount subtracted when `b` names it, then the keys only
    `b` names, NEGATED. -/
def rlSub (a b : RL) : RL :=
  a.map (fun p => (p.1, p.2 - rlGet b p.1)) ++ (b.filter (fun p => !rlHas a p.1)).map (fun p => (p.1, -p.2))

/-- a delta built by looping over the keys of `a` only (NOT what the source does — see
    `new_keys_only_delta_counterexample`): a key only `b` names is never subtracted. -/
def rlSubNewKeysOnly (a b : RL) : RL := a.map (fun p => (p.1, p.2 - rlGet b p.1))

/-- `quotav1.Equals(a, b)`: same number of keys, and every key of `a` is named by `b` with the same amount. -/
def rlEquals (a b : RL) : Bool :=
  a.length == b.length && a.all (fun p => rlFind b p.1 == some p.2)

/-- the keys of a Go map are pairwise distinct. -/
def rlNodup : RL → Bool
  | [] => true
  | p :: rest => !rlHas rest p.1 && rlNodup rest

/-- the manager's node bookkeeping: `nodeResourceMap` (names), `totalResource`, and the total last handed to the
    root calculator (`totalResourceExceptSystemAndDefaultUsed` / `setClusterTotalResource`). -/
structure NS where
  known  : List Nat := []
  total  : RL := []
  pushed : RL := []
deriving Repr, DecidableEq

/-- the raw handler calls. -/
inductive NEv where
  | add (n : Nat) (alloc : RL)              -- OnNodeAdd(node)
  | update (n : Nat) (old new : RL)         -- OnNodeUpdate(oldNode, newNode)
  | delete (n : Nat) (alloc : RL)           -- OnNodeDelete(node)
deriving Repr, DecidableEq

/-- `UpdateClusterTotalResource(delta)`: total += delta; the root calculator is told only when the new total differs
    from what it was told last (`!quotav1.IsZero(diffRes)`). -/
def NS.bump (s : NS) (delta : RL) : NS :=
  let t := rlAdd s.total delta
  { s with total := t, pushed := if rlIsZero (rlSub t s.pushed) then s.pushed else t }

/-- the three handlers; `sub` is how OnNodeUpdate builds its delta from (new, old) — `rlSub` in the source
    (tie_node_update_delta_is_full_subtract). -/
def NS.step (sub : RL → RL → RL) (s : NS) : NEv → NS
  | .add n a =>
    if s.known.contains n then s
    else { s with known := n :: s.known }.bump a
  | .update n o a =>
    if !s.known.contains n then { s with known := n :: s.known }.bump a
    else if rlEquals o a then s
    else s.bump (sub a o)
  | .delete n a =>
    if !s.known.contains n then s
    else { (s.bump (rlSub [] a)) with known := s.known.erase n }

def NS.run (sub : RL → RL → RL) (s : NS) (evs : List NEv) : NS := evs.foldl (NS.step sub) s

/-! the node set as an informer would hold it: the last object seen per node. -/

abbrev Store := List (Nat × RL)

def stFind (st : Store) (n : Nat) : Option RL :=
  match st with
  | [] => none
  | (k, v) :: rest => if k = n then some v else stFind rest n

def stSet (st : Store) (n : Nat) (a : RL) : Store :=
  match st with
  | [] => [(n, a)]
  | (k, v) :: rest => if k = n then (k, a) :: rest else (k, v) :: stSet rest n a

def stErase (st : Store) (n : Nat) : Store :=
  match st with
  | [] => []
  | (k, v) :: rest => if k = n then rest else (k, v) :: stErase rest n

/-- what the node set is after an event. -/
def stStep (st : Store) : NEv → Store
  | .add n a => if (stFind st n).isSome then st else (n, a) :: st
  | .update n _ a => if (stFind st n).isSome then stSet st n a else (n, a) :: st
  | .delete n _ => stErase st n

/-- an event as an informer hands it over: the old object of an update / the object of a delete is the object the
    node set holds for that node, a replayed add carries that same object; every list is a Go map. -/
def coherent (st : Store) : NEv → Bool
  | .add n a => rlNodup a && (match stFind st n with | none => true | some o => o == a)
  | .update n o a => rlNodup a && rlNodup o && (match stFind st n with | none => true | some o' => o' == o)
  | .delete n o => rlNodup o && (match stFind st n with | none => true | some o' => o' == o)

/-- every event of the history is coherent with the node set before it. -/
def coherentHist (st : Store) : List NEv → Bool
  | [] => true
  | e :: rest => coherent st e && coherentHist (stStep st e) rest

/-- from-scratch sum of one resource name over the current node set. -/
def stSum (st : Store) (d : Nat) : Int :=
  match st with
  | [] => 0
  | (_, a) :: rest => rlGet a d + stSum rest d

end KoordVerif.C02
