import KoordVerif.Model.C12
/-
C12 — the string layer below the value domains, modelled on `List Char`:
  strconv.ParseInt(s, 10, bits)                                   parseIntGo
  strings.Split / strings.Fields                                  splitOn / fields
  pkg/util/cpuset/cpuset.go      Parse, CPUSet.String, IsEqualStrCpus          parseCpuset, fmtCpuset, eqStrCpus
  pkg/koordlet/resourceexecutor/updater.go
      MergeConditionIfCPUSetIsLooser / IfValueIsLarger / IfCFSQuotaIsLarger    mcCpuset / mcValueLarger / mcCfsQuota
  pkg/koordlet/util/system/cgroup2.go  ParseCPUCFSQuotaV2                      parseCfsV2
as written (quirks kept: "5-3" parses to the empty set, a single element is not range-checked against
maxAvailableCPUCount, cgroup-v1 cfs quota does not accept "max" as OLD value, "+5" is a number).  Core-only.
-/
namespace KoordVerif.C12

/-! ### decimal numbers -/

def digitChar (d : Nat) : Char := Char.ofNat (48 + d)

def digitVal? (c : Char) : Option Nat := if 48 ≤ c.toNat ∧ c.toNat ≤ 57 then some (c.toNat - 48) else none

/-- all characters are ASCII digits, at least one (strconv rejects "" and any other rune in base 10). -/
def parseDecAux : List Char → Nat → Option Nat
  | [], acc => some acc
  | c :: cs, acc => match digitVal? c with
    | some d => parseDecAux cs (acc * 10 + d)
    | none => none

def parseDec (cs : List Char) : Option Nat := if cs = [] then none else parseDecAux cs 0

def showDecAux : Nat → Nat → List Char → List Char
  | 0, _, acc => acc
  | f + 1, n, acc =>
    let acc' := digitChar (n % 10) :: acc
    if n / 10 = 0 then acc' else showDecAux f (n / 10) acc'

/-- strconv.Itoa / FormatInt on a non-negative number. -/
def showDec (n : Nat) : List Char := showDecAux (n + 1) n []

/-- strconv.ParseInt(s, 10, bits): optional sign, decimal digits, range error outside [-2^(bits-1), 2^(bits-1)-1]. -/
def parseIntGo (bits : Nat) (cs : List Char) : Option Int :=
  match cs with
  | '+' :: r => match parseDec r with
    | some n => if n ≤ 2 ^ (bits - 1) - 1 then some (n : Int) else none
    | none => none
  | '-' :: r => match parseDec r with
    | some n => if n ≤ 2 ^ (bits - 1) then some (-(n : Int)) else none
    | none => none
  | _ => match parseDec cs with
    | some n => if n ≤ 2 ^ (bits - 1) - 1 then some (n : Int) else none
    | none => none

/-! ### splitting -/

/-- strings.Split(s, sep) for a one-character separator: k separators give k+1 parts. -/
def splitOn (sep : Char) : List Char → List (List Char)
  | [] => [[]]
  | c :: cs =>
    if c = sep then [] :: splitOn sep cs
    else match splitOn sep cs with
      | p :: ps => (c :: p) :: ps
      | [] => [[c]]

def isSpaceGo (c : Char) : Bool := c = ' ' || c = '\t' || c = '\n' || c = '\r' || c.toNat = 11 || c.toNat = 12

/-- strings.Fields on ASCII input. -/
def fieldsAux : List Char → List Char → List (List Char)
  | [], cur => if cur = [] then [] else [cur.reverse]
  | c :: cs, cur =>
    if isSpaceGo c then (if cur = [] then fieldsAux cs [] else cur.reverse :: fieldsAux cs [])
    else fieldsAux cs (c :: cur)

def fields (cs : List Char) : List (List Char) := fieldsAux cs []

/-! ### CPU sets (bitmasks) -/

/-- CPUs a..b inclusive; empty when a > b (`for e := start; e <= end; e++`). -/
def rangeMask (a b : Nat) : Nat := (2 ^ (b + 1 - a) - 1) <<< a

def maxAvailableCPUCount : Nat := 4096

/-- one comma-separated element of cpuset.Parse. -/
def parsePart (p : List Char) : Option Nat :=
  match splitOn '-' p with
  | [x] => match parseIntGo 32 x with
    | some e => if e < 0 then none /- unreachable: x holds no '-' -/ else some (1 <<< e.toNat)
    | none => none
  | [x, y] => match parseIntGo 32 x, parseIntGo 32 y with
    | some s, some e =>
      if e > (maxAvailableCPUCount : Int) then none
      else if s < 0 ∨ e < 0 then none /- unreachable -/ else some (rangeMask s.toNat e.toNat)
    | _, _ => none
  | _ => none

def parseParts : List (List Char) → Nat → Option Nat
  | [], acc => some acc
  | p :: ps, acc => match parsePart p with
    | some m => parseParts ps (acc ||| m)
    | none => none

/-- cpuset.Parse -/
def parseCpuset (s : List Char) : Option Nat := if s = [] then some 0 else parseParts (splitOn ',' s) 0

/-- maximal runs of set bits of `m` among the bits i, i+1, …, i+n-1 (CPUSet.String builds the same ranges from
    the sorted elements). -/
def runsFrom (m : Nat) : Nat → Nat → List (Nat × Nat)
  | _, 0 => []
  | i, n + 1 =>
    if m.testBit i then
      match runsFrom m (i + 1) n with
      | (a, b) :: rest => if a = i + 1 then (i, b) :: rest else (i, i) :: (a, b) :: rest
      | [] => [(i, i)]
    else runsFrom m (i + 1) n

def fmtRange (r : Nat × Nat) : List Char := if r.1 = r.2 then showDec r.1 else showDec r.1 ++ '-' :: showDec r.2

def joinComma : List (List Char) → List Char
  | [] => []
  | [p] => p
  | p :: q :: ps => p ++ ',' :: joinComma (q :: ps)

/-- CPUSet.String() of the set with bitmask `m` (< 2^w). -/
def fmtCpusetW (m w : Nat) : List Char := joinComma ((runsFrom m 0 w).map fmtRange)
def fmtCpuset (m : Nat) : List Char := fmtCpusetW m (m.log2 + 1)

/-- cpuset.IsEqualStrCpus -/
def eqStrCpus (a b : List Char) : Bool :=
  match parseCpuset a, parseCpuset b with
  | some x, some y => x == y
  | _, _ => false

/-- MergeConditionIfCPUSetIsLooser(old, new) = (mergedValue, needMerge) or error. -/
def mcCpuset (old new : List Char) : Option (List Char × Bool) :=
  match parseCpuset new with
  | none => none
  | some v => match parseCpuset old with
    | none => none
    | some o =>
      if v == o then some (new, false)
      else if (v ||| o) == o then some (new, false)
      else some (fmtCpuset (v ||| o), true)

/-! ### limits -/

def maxInt64 : Int := 9223372036854775807

/-- "max" / "-1" ⇒ MaxInt64, else ParseInt 64. -/
def parseLimNew (s : List Char) : Option Int :=
  if s = ['m', 'a', 'x'] ∨ s = ['-', '1'] then some maxInt64 else parseIntGo 64 s

/-- MergeConditionIfValueIsLarger -/
def mcValueLarger (old new : List Char) : Option (List Char × Bool) :=
  match parseLimNew new with
  | none => none
  | some n => match parseLimNew old with
    | none => none
    | some o => some (new, decide (n > o))

/-- sysutil.ParseCPUCFSQuotaV2: "max 100000" / "100000 100000". -/
def parseCfsV2 (s : List Char) : Option Int :=
  match fields s with
  | [q, _] => if q = ['m', 'a', 'x'] then some (-1) else parseIntGo 64 q
  | _ => none

/-- MergeConditionIfCFSQuotaIsLarger -/
def mcCfsQuota (v2 : Bool) (old new : List Char) : Option (List Char × Bool) :=
  match parseLimNew new with
  | none => none
  | some n =>
    let o? : Option Int :=
      if v2 then (parseCfsV2 old).map fun o => if o = -1 then maxInt64 else o
      else if old = ['-', '1'] then some maxInt64 else parseIntGo 64 old
    match o? with
    | none => none
    | some o => some (new, decide (n > o))

/-- elements of a bitmask, ascending (driver output). -/
def maskElems (m : Nat) : List Nat := (List.range (m.log2 + 1)).filter fun i => m.testBit i

end KoordVerif.C12
