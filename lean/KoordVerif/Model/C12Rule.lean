import KoordVerif.Model.C12
/-
C12 — the values the callers of LeveledUpdateBatch ask for (the TARGET assignment of their batches).
  pkg/koordlet/runtimehooks/hooks/batchresource/batch_resource.go   SetPodCFSQuota / SetContainerCFSQuota
  pkg/koordlet/runtimehooks/hooks/cpunormalization/cpu_normalization.go  adjustPodCFSQuota / adjustContainerCFSQuota
  pkg/koordlet/util/system/cgroup.go                                 MilliCPUToQuota
  pkg/koordlet/qosmanager/plugins/cgreconcile/cgroup_reconcile.go    calculatePodResources / calculateContainerResources /
                                                                     updateCgroupSummaryForQoS / completeCgroupSummaryForQoS
The float step `int64(math.Ceil(float64(q) / ratio))` is the parameter `scale` (Float: BUILDING.md); limits in
milli-cpu, memory in bytes, percents 0..100.  The quota functions are linked into the driver (`pq` / `nq` lines, harnesses
`quota` / `normquota`, `scale` = Lean Float); `prot` / `lowImproved` are used by theorems only (the `cgreconcile` harness
recomputes them in Go and hands the resulting batch to the model).  Core-only.
-/
namespace KoordVerif.C12

/-- MilliCPUToQuota: `milli * CFSBasePeriodValue / 1000`, ≤ 0 ⇒ -1 (unlimited), below CFSQuotaMinValue ⇒ 1000. -/
def baseQuota (milli : Int) : Int :=
  let q := milli * 100000 / 1000
  if q ≤ 0 then -1 else if q < 1000 then 1000 else q

/-- `if cfsQuota > 0 && ratio > 1.0 { cfsQuota = ceil(cfsQuota / ratio) }` (ratio ≤ 1 or unset: `scale = id`). -/
def scaledQuota (scale : Int → Int) (q : Int) : Int := if q > 0 then scale q else q

/-- SetContainerCFSQuota with the cfs quota enabled: a limit ≤ 0 / absent (-1) counts as 0 milli-cpu. -/
def ctrQuota (scale : Int → Int) (lim : Int) : Int := scaledQuota scale (baseQuota (if lim > 0 then lim else 0))

/-- SetPodCFSQuota with the cfs quota enabled: unlimited once one container is (`containerLimit <= 0`), else the sum. -/
def podQuota (scale : Int → Int) (lims : List Int) : Int :=
  scaledQuota scale (baseQuota (if lims.all (fun l => decide (l > 0)) then lims.sum else -1))

/-- cgreconcile: protection of one cgroup = request * percent / 100 (Go integer division, operands ≥ 0). -/
def prot (req pct : Int) : Int := req * pct / 100

/-- calculatePodResources / calculateContainerResources "values improved": memory.low is raised to memory.min
    when `0 < low < min`. -/
def lowImproved (mn low : Int) : Int := if low > 0 ∧ low < mn then mn else low

end KoordVerif.C12
