import KoordVerif.Model.C06
import KoordVerif.Model.C06Pick
import KoordVerif.Model.C06Alloc
/-
C06, NodeResourceTopology object → TopologyOptions (extension round 4).  Executable model, core-only, of

  pkg/scheduler/plugins/nodenumaresource/topology_options.go
      NewTopologyOptions       reservedCPUs = static-pod cpusets ∪ kubelet reserved ∪ node-reservation CPUs
                               ∪ system-QoS cpuset (only when exclusive);
                               per zone: cpu -= 1000 · |KeepOnly(reservedCPUs).CPUsInNUMANodes(zone id)|
                               (a zone whose cpu amount is zero / absent is skipped; no clamp at zero)
      extractNUMANodeResources zones of type "Node" named "node-<int>", sorted by id
      getPodAllocsCPUSet       only pods managed by kubelet with a uid and a non-empty, well-formed cpuset
  pkg/scheduler/plugins/nodenumaresource/cpu_topology.go
      CPUTopologyBuilder.AddCPUInfo / convertCPUTopology   coreID = socket<<16 | core; NumNodes counts
                               (socket, node) pairs, NumCores (socket, node, core) triples, NumSockets sockets

NUMA node ids are whatever the report names: NOTHING here may index a table by a NUMA id.
Cells are `zone id * 16 + dim` (dim 0 = cpu milli, 1 = memory).
-/
namespace KoordVerif.C06

/-- one entry of the `pod-cpu-allocs` annotation as `getPodAllocsCPUSet` reads it. -/
structure StaticPod where
  managed : Bool          -- ManagedByKubelet
  hasUID  : Bool          -- UID != ""
  cpusOK  : Bool          -- the cpuset string parses
  cpus    : List Nat
deriving Repr, DecidableEq

/-- topology_options.go `getPodAllocsCPUSet`. -/
def podAllocsCPUs (ps : List StaticPod) : List Nat :=
  (ps.filter (fun p => p.managed && p.hasUID && p.cpusOK && !p.cpus.isEmpty)).flatMap (·.cpus)

/-- `reservedCPUs` of `NewTopologyOptions` (a set: duplicate-free, order irrelevant). -/
def nrtReserved (static : List StaticPod) (kubelet nodeRsv sysq : List Nat) (sysqExcl : Bool) : List Nat :=
  dedupNat (podAllocsCPUs static ++ kubelet ++ nodeRsv ++ (if sysqExcl then sysq else []))

/-- `cpuTopology.CPUDetails.KeepOnly(reservedCPUs).CPUsInNUMANodes(nd).Size()`: the reserved CPUs of the
    topology whose NUMA id is `nd` (a reserved id the topology does not list counts nowhere). -/
def reservedOnNode (topo : List CpuI) (reserved : List Nat) (nd : Nat) : Nat :=
  (topo.filter (fun i => i.node == nd && reserved.contains i.cpu)).length

/-- the cpu amount `NewTopologyOptions` stores for the zone with NUMA id `nd` (`raw` = the reported
    allocatable, milli; `IsZero` ⇒ untouched). -/
def zoneCPUCapacity (topo : List CpuI) (reserved : List Nat) (nd : Nat) (raw : Int) : Int :=
  if raw = 0 then raw else raw - 1000 * (reservedOnNode topo reserved nd : Int)

/-- the shape that must NOT be: one pass over the reserved CPUs into a counter slice indexed by the NUMA id
    and sized `NumNodes`, with bounds guards on both the write and the read. -/
def reservedOnNodeIndexed (topo : List CpuI) (reserved : List Nat) (numNodes : Nat) (nd : Nat) : Nat :=
  if nd < numNodes then reservedOnNode topo reserved nd else 0

def zoneCPUCapacityIndexed (topo : List CpuI) (reserved : List Nat) (numNodes : Nat) (nd : Nat) (raw : Int) : Int :=
  if raw = 0 then raw else raw - 1000 * (reservedOnNodeIndexed topo reserved numNodes nd : Int)

/-- one `Zone` of the report: `kind` 0 = type "Node" and name "node-<id>"; 1 = another type; 2 = a name
    without the prefix; 3 = a non-numeric suffix (all dropped).  `cpu` / `mem` = allocatable, `none` = the
    resource is not listed. -/
structure Zone where
  kind : Nat
  id   : Nat
  cpu  : Option Int
  mem  : Option Int
deriving Repr, DecidableEq

/-- `extractNUMANodeResources` + the reserved-CPU loop, flattened to cells (sorted by zone id: the ids of the
    generated reports are distinct, so the sort has one result). -/
def nrtCaps (topo : List CpuI) (reserved : List Nat) (zones : List Zone) : List (Nat × Int) :=
  let good := isortLt (fun (a b : Zone) => decide (a.id < b.id)) (zones.filter (·.kind == 0))
  good.flatMap fun z =>
    (match z.cpu with
     | some v => [(z.id * 16, zoneCPUCapacity topo reserved z.id v)]
     | none => []) ++
    (match z.mem with
     | some v => [(z.id * 16 + 1, v)]
     | none => [])

/-- `convertCPUTopology`: NumSockets / NumNodes / NumCores as the builder counts them. -/
def nrtNumSockets (topo : List CpuI) : Nat := (dedupNat (topo.map (·.socket))).length
def nrtNumNodes (topo : List CpuI) : Nat := (dedupNat (topo.map fun i => i.socket * 65536 + i.node)).length
def nrtNumCores (topo : List CpuI) : Nat :=
  ((topo.map fun i => (i.socket, i.node, i.core)).eraseDups).length

/-- the `NodeCfg` the scheduler works with after the NodeResourceTopology event (MaxRefCount 1, no cpu
    amplification annotation). -/
def nrtCfg (topo : List CpuI) (most : Bool) (reserved : List Nat) (zones : List Zone) : NodeCfg :=
  let n := topo.length
  { topo := topo, cpc := n / max (nrtNumCores topo) 1, cpn := n / max (nrtNumNodes topo) 1,
    cps := n / max (nrtNumSockets topo) 1, maxRef := 1, most := most, reserved := reserved,
    caps := nrtCaps topo reserved zones, num := 0, den := 1 }

end KoordVerif.C06
