/-
C10 — best-effort CPU suppression.  Model of
  pkg/koordlet/qosmanager/plugins/cpusuppress/cpu_suppress.go
      calculateBESuppressCPU, adjustByCPUSet, calculateBESuppressCPUSetPolicy, adjustByCfsQuota,
      getSystemQOSExclusiveCPU (as the effective exclusive list), applyCPUSetWithNonePolicy (empty set skipped)
  pkg/koordlet/qosmanager/helpers/calculator.go
      CalculateFilterPodsUsed, NonBEPodFilter, NonBEHostAppFilter, GetNodeResourceReserved
All CPU amounts are milli-CPUs (`Int`).  The float64 computations of the Go code enter through
`FloatOps` (the driver instantiates it with Lean's IEEE binary64 `Float`).  Core-only.
The model mirrors the code as written (bucket key collisions, last-pod-wins pool map, empty
result => cgroup left untouched, ...).
-/
namespace KoordVerif.C10

/-! ### constants of cpu_suppress.go / util/system (tied in Ties/C10.lean) -/
def beMinCPUSetCores : Int := 2
def beMinQuota : Int := 2000
def beUnsetQuota : Int := -1
def cfsPeriod : Int := 100000

/-- the float64 computations, as parameters. -/
structure FloatOps where
  /-- `int64(float64(m)/1000*1000)`: node reservation milli -> cores -> milli. -/
  rt        : Int → Int
  /-- `int32(math.Ceil(float64(m)/1000))`. -/
  ceilMilli : Int → Int
  /-- `int32(math.Ceil(float64(n)*beMaxIncreaseCPUPercent))`. -/
  stepCpus  : Int → Int
  /-- `math.Abs(float64(new)-float64(cur)) < float64(cores)*float64(period)*0.01`. -/
  bypassLt  : Int → Int → Int → Bool
  /-- `float64(new)-float64(cur) > float64(cores)*float64(period)*0.1`. -/
  stepGt    : Int → Int → Int → Bool
  /-- `int64(float64(cores)*float64(period)*0.1)`. -/
  stepInc   : Int → Int

/-! ### QoS label enum of the line protocol -/
def qNone : Int := 0
def qLSE : Int := 1
def qLSR : Int := 2
def qLS : Int := 3
def qBE : Int := 4
def qSystem : Int := 5

/-! ### 1. budget — calculateBESuppressCPU -/

/-- one entry of the pod metric map (`podMetrics[uid]`), with what the code looks up for it. -/
structure PodU where
  hasMeta : Bool   -- uid present in podMetas
  qos     : Int    -- GetPodQoSClassRaw
  kubeBE  : Bool   -- GetKubeQosClass == BestEffort
  used    : Int    -- milli
deriving Repr, DecidableEq

/-- helpers.CalculateFilterPodsUsed: meta-missing pods count as filtered; else NonBEPodFilter. -/
def PodU.counted (p : PodU) : Bool := !p.hasMeta || (p.qos != qBE && !p.kubeBE)

/-- one host application of the NodeSLO that has a metric. base: 0 = CgroupPath nil,
    1 = CgroupBaseTypeKubeBesteffort, 2 = another base. -/
structure AppU where
  qos  : Int
  base : Int
  used : Int
deriving Repr, DecidableEq

/-- helpers.NonBEHostAppFilter. -/
def AppU.counted (a : AppU) : Bool := a.qos != qBE || a.base == 0 || a.base != 1

/-- util.GetNodeReservationFromAnnotation, CPU part in milli.  Annotation shape: 0 = absent, 1 = `resources.cpu` only,
    2 = `resources.cpu` and a parsable `reservedCPUs` (its size overrides the amount), 3 = malformed JSON,
    4 = `resources.cpu` and an UNPARSABLE `reservedCPUs` (error: the whole annotation is dropped, the amount too),
    5 = resources without a cpu entry. -/
def annoReserved (kind resMilli nCpus : Int) : Int :=
  if kind == 1 then resMilli else if kind == 2 then nCpus * 1000 else 0

/-- … together with the annotation's `applyPolicy` (0 = absent, 1 = `""`, 2 = `Default`, 3 = `ReservedCPUsOnly`,
    4 = a value the API does not define).  util.GetNodeReservationFromAnnotation -> GetNodeReservationResources and
    helpers.GetNodeResourceReserved never read the field (only TrimNodeAllocatableByNodeReservation, a scheduler-side
    helper, does): the koordlet budget reserves the amount under EVERY policy. -/
def annoReservedP (_policy kind resMilli nCpus : Int) : Int := annoReserved kind resMilli nCpus

/-- helpers.GetNodeResourceReserved: max(max(capacity - allocatable, 0), annotation reservation). -/
def nodeReserved (cap alloc anno : Int) : Int :=
  let k := cap - alloc
  let k := if k < 0 then 0 else k
  if k < anno then anno else k

/-- the system part of helpers.CalculateFilterPodsUsed, converted to milli as in calculateBESuppressCPU. -/
def systemUsed (f : FloatOps) (nodeUsed podsAll appsAll reserved : Int) : Int :=
  let s := nodeUsed - podsAll - appsAll
  let s := if s < 0 then 0 else s
  if s < reserved then f.rt reserved else s

/-- calculateBESuppressCPU on the aggregates. -/
def budgetAgg (f : FloatOps) (cap thr : Int) (minPct : Option Int) (reserved nodeUsed podsAll podsF appsAll appsF : Int) : Int :=
  let b0 := Int.tdiv (cap * thr) 100 - podsF - appsF - systemUsed f nodeUsed podsAll appsAll reserved
  match minPct with
  | none => b0
  | some m =>
    let bm := Int.tdiv (cap * m) 100
    if b0 < bm then bm else b0

def podsAll (pods : List PodU) : Int := (pods.map (·.used)).sum
def podsCounted (pods : List PodU) : Int := ((pods.filter (·.counted)).map (·.used)).sum
def appsAll (apps : List AppU) : Int := (apps.map (·.used)).sum
def appsCounted (apps : List AppU) : Int := ((apps.filter (·.counted)).map (·.used)).sum

def budget (f : FloatOps) (cap alloc anno thr : Int) (minPct : Option Int) (nodeUsed : Int)
    (pods : List PodU) (apps : List AppU) : Int :=
  budgetAgg f cap thr minPct (nodeReserved cap alloc anno) nodeUsed
    (podsAll pods) (podsCounted pods) (appsAll apps) (appsCounted apps)

/-! ### 2. CPU selection — calculateBESuppressCPUSetPolicy -/

structure Proc where
  cpu    : Int
  core   : Int
  socket : Int
  node   : Int
deriving Repr, DecidableEq, Inhabited

def cpusOf (b : List Proc) : List Int := b.map (·.cpu)

/-- `getNodeIndex`: (NodeID + numProcessors) * (SocketID + 1) — as written (collisions possible). -/
def bucketKey (n : Int) (p : Proc) : Int := (p.node + n) * (p.socket + 1)

/-- `cpuBucketOfNode[idx] = append(cpuBucketOfNode[idx], p)`. -/
def addToBucket (k : Int) (p : Proc) : List (Int × List Proc) → List (Int × List Proc)
  | [] => [(k, [p])]
  | (k', b) :: rest => if k' = k then (k', b ++ [p]) :: rest else (k', b) :: addToBucket k p rest

def groupBuckets (n : Int) (ps : List Proc) : List (Int × List Proc) :=
  ps.foldl (fun acc p => addToBucket (bucketKey n p) p acc) []

def insertBy {α} (lt : α → α → Bool) (x : α) : List α → List α
  | [] => [x]
  | y :: ys => if lt x y then x :: y :: ys else y :: insertBy lt x ys

/-- `sort.Slice` with a comparator that is a strict total order on the elements present. -/
def isortBy {α} (lt : α → α → Bool) : List α → List α
  | [] => []
  | x :: xs => insertBy lt x (isortBy lt xs)

/-- in-bucket comparator: (CoreID, CPUID). -/
def procLt (a b : Proc) : Bool := if a.core == b.core then a.cpu < b.cpu else a.core < b.core

def headCpu : List Proc → Int
  | [] => 0
  | p :: _ => p.cpu

/-- bucket comparator: longer first, then smaller first CPUID. -/
def bucketLt (a b : List Proc) : Bool :=
  if a.length == b.length then headCpu a < headCpu b else a.length > b.length

def sortedBuckets (ps : List Proc) : List (List Proc) :=
  isortBy bucketLt ((groupBuckets ps.length ps).map (fun kb => isortBy procLt kb.2))

/-- loop state: `needCPUs`, `CPUSets` (`usedCpu[c]` ⇔ `c ∈ out`). -/
structure St where
  need : Int
  out  : List Int
deriving Repr, DecidableEq

/-- pass 1 inner loop: leftmost unused `j < len-1` with `core j = core (j+1)`. -/
def findPair (used : List Int) : List Proc → Option (Int × Int)
  | a :: b :: rest =>
    if !(used.contains a.cpu) && a.core == b.core then some (a.cpu, b.cpu) else findPair used (b :: rest)
  | _ => none

/-- pass 2 inner loop: leftmost unused. -/
def findFree (used : List Int) : List Proc → Option Int
  | [] => none
  | a :: rest => if !(used.contains a.cpu) then some a.cpu else findFree used rest

/-- one sweep `i = idx, idx+1, …, len-1` of pass 1; `some i` = broke at bucket `i` on `needCPUs <= 1`. -/
def sweep1 : List (List Proc) → Nat → St → St × Option Nat
  | [], _, st => (st, none)
  | b :: bs, idx, st =>
    if st.need ≤ 1 then (st, some idx) else
    match findPair st.out b with
    | some (x, y) => sweep1 bs (idx + 1) { need := st.need - 2, out := st.out ++ [x, y] }
    | none => sweep1 bs (idx + 1) st

/-- pass 1: cyclic sweeps until `needCPUs <= 1` or a full cycle picked nothing; returns the
    loop index `i` at the break.  `fuel` only makes the recursion structural (`k.toNat+1` suffices). -/
def pass1 (bs : List (List Proc)) : Nat → St → St × Nat
  | 0, st => (st, 0)
  | fuel + 1, st =>
    if st.need ≤ 1 then (st, 0) else
    match sweep1 bs 0 st with
    | (st', some idx) => (st', idx)
    | (st', none) => if st'.need == st.need then (st', 0) else pass1 bs fuel st'

def sweep2 : List (List Proc) → St → St
  | [], st => st
  | b :: bs, st =>
    if st.need ≤ 0 then st else
    match findFree st.out b with
    | some x => sweep2 bs { need := st.need - 1, out := st.out ++ [x] }
    | none => sweep2 bs st

/-- pass 2: cyclic sweeps starting at `startIndex` (the caller rotates the bucket list). -/
def pass2 (bs : List (List Proc)) : Nat → St → St
  | 0, st => st
  | fuel + 1, st =>
    if st.need ≤ 0 then st else
    let st' := sweep2 bs st
    if st'.need == st.need then st' else pass2 bs fuel st'

def rot {α} (i : Nat) (l : List α) : List α := l.drop i ++ l.take i

def policy (k : Int) (ps : List Proc) : List Int :=
  if (ps.length : Int) < k then [] else
  let bs := sortedBuckets ps
  let r1 := pass1 bs (k.toNat + 1) { need := k, out := [] }
  (pass2 (rot r1.2 bs) (k.toNat + 1) r1.1).out

/-! ### 3. adjustByCPUSet -/

/-- a pod of `GetAllPods()`; `valid` = resource-status annotation parses, cpuset non-empty and parses.
    `life` is the pod's lifecycle state as the harness encodes it (0 phase unset, 1 Running,
    2 Running + deletionTimestamp, 3 Pending, 4 Succeeded, 5 Failed, 6 Failed + deletionTimestamp).
    Neither the pool map of adjustByCPUSet nor the exclusive map of calcBECPUSet consults it:
    every pod that is still in the list counts (theorem `life_irrelevant`). -/
structure PodC where
  valid : Bool
  qos   : Int
  cpus  : List Int
  life  : Int := 0
deriving Repr, DecidableEq

/-- shape of the resource-status annotation (`apiext.GetResourceStatus` + `cpuset.Parse`):
    0 = JSON with a cpuset string, 1 = no annotation, 2 = malformed JSON, 3 = `"cpuset": ""`,
    4 = unparsable cpuset string.  A pod enters the maps iff the JSON parses, the string is
    non-empty (kind 0 with an empty list renders as "") and parses. -/
def annoValid (kind : Int) (cpus : List Int) : Bool := kind == 0 && !cpus.isEmpty

/-- `cpuIdToPool[c]` after the loop over pods: the last valid pod listing `c` wins; `qNone` if none. -/
def poolOf (pods : List PodC) (c : Int) : Int :=
  pods.foldl (fun acc p => if p.valid && p.cpus.contains c then p.qos else acc) qNone

def eligible (reserved sysExcl : List Int) (p : Proc) : Bool :=
  !(reserved.contains p.cpu || sysExcl.contains p.cpu)

def lsrPool (pods : List PodC) (reserved sysExcl : List Int) (procs : List Proc) : List Proc :=
  procs.filter (fun p => eligible reserved sysExcl p && poolOf pods p.cpu == qLSR)

def lsPool (pods : List PodC) (reserved sysExcl : List Int) (procs : List Proc) : List Proc :=
  procs.filter (fun p => eligible reserved sysExcl p && !(poolOf pods p.cpu == qLSR) && poolOf pods p.cpu != qLSE)

/-- number of CPUs wanted: ceil, floor at 2, step limit against the current BE cpuset size. -/
def targetCpus (f : FloatOps) (budgetMilli oldN n : Int) : Int :=
  let c := f.ceilMilli budgetMilli
  let c := if c < beMinCPUSetCores then beMinCPUSetCores else c
  let inc := f.stepCpus n
  if c - oldN > inc then oldN + inc else c

/-- Go integer division: panics on a zero divisor, truncates otherwise. -/
def goDiv (a b : Int) : Option Int := if b = 0 then none else some (Int.tdiv a b)

inductive Outcome where
  | panic
  | untouched
  | write (cpus : List Int)
deriving Repr, DecidableEq

/-- applyBESuppressCPUSet / applyCPUSetWithNonePolicy: an empty set is skipped, anything else is written. -/
def applyResult (out : List Int) : Outcome := if out.isEmpty then .untouched else .write out

def adjustCPUSet (f : FloatOps) (budgetMilli : Int) (oldN : Nat) (procs : List Proc) (pods : List PodC)
    (reserved sysExcl : List Int) : Outcome :=
  let lsr := lsrPool pods reserved sysExcl procs
  let ls := lsPool pods reserved sysExcl procs
  if lsr.length + ls.length = 0 then .untouched else
  let cpus := targetCpus f budgetMilli oldN procs.length
  match goDiv (cpus * lsr.length) ((lsr.length : Int) + ls.length) with
  | none => .panic
  | some lsrNum =>
    let a := if lsrNum > 0 then policy lsrNum lsr else []
    let b := if cpus - lsrNum > 0 then policy (cpus - lsrNum) ls else []
    applyResult (a ++ b)

/-- `apiext.GetReservedCPUs` + `cpuset.Parse` on the topology's node-reservation annotation:
    0 = absent, 1 = `reservedCPUs` string that parses, 2 = unparsable cpuset string, 3 = malformed JSON.
    Only shape 1 protects anything. -/
def effReserved (kind : Int) (cpus : List Int) : List Int := if kind == 1 then cpus else []

/-- `getSystemQOSExclusiveCPU`: 0 = annotation absent, 1 = cpuset given and `cpusetExclusive` absent
    (exclusive by default), 2 = `cpusetExclusive: true`, 3 = `cpusetExclusive: false` (shared: NOT protected),
    4 = malformed JSON, 5 = exclusive (by default or explicitly) cpuset string that `cpuset.Parse` rejects
    ("6, 7", "a", "0-": the function returns an error, the callers log it and carry on with an empty set),
    6 = exclusive reversed range ("3-1": parses without error to the empty set), 7 = `cpusetExclusive: false`
    with a rejected string (never parsed).  Only shapes 1 and 2 protect anything, and no shape has any effect
    on the reserved CPUs (`effReserved`): adjustByCPUSet and calcBECPUSet read the two sources one after the
    other and neither error handler leaves the function (Ties: `tie_node_sources_independent`). -/
def effSysExcl (kind : Int) (cpus : List Int) : List Int := if kind == 1 || kind == 2 then cpus else []

/-! ### 3b. calcBECPUSet (recover path) and the kubelet-policy dispatch of applyBESuppressCPUSet -/

/-- calcBECPUSet's `exclusiveCPUID` contribution of the pods: ANY valid LSE pod naming the CPU
    (no last-pod-wins here, unlike `poolOf`). -/
def lseClaimed (pods : List PodC) (c : Int) : Bool :=
  pods.any (fun p => p.valid && p.qos == qLSE && p.cpus.contains c)

/-- calcBECPUSet: all CPUs of the processor list minus system-exclusive, reserved and LSE-claimed ones. -/
def calcBESet (procs : List Proc) (pods : List PodC) (reserved sysExcl : List Int) : List Int :=
  (cpusOf procs).filter (fun c => !(sysExcl.contains c || reserved.contains c || lseClaimed pods c))

/-- kubelet CPU-manager policy annotation of the NodeResourceTopology:
    0 = absent / "none" / any other parsable value, 1 = "static", 2 = malformed JSON (error). -/
def kpNone : Int := 0
def kpStatic : Int := 1
def kpBad : Int := 2

/-- what one round leaves in the BE cgroup tree; `none` = that level is not written.
    root = kubepods-besteffort, pod = its pod-level children, cont = container-level dirs. -/
structure Written where
  root : Option (List Int)
  pod  : Option (List Int)
  cont : Option (List Int)
deriving Repr, DecidableEq

def Written.nothing : Written := ⟨none, none, none⟩

/-- adjustByCPUSet including `topo == nil`, the zero-pool return and applyBESuppressCPUSet's dispatch:
    policy none  -> the selection is written to every level (empty selection: skipped);
    policy static -> recoverCPUSetIfNeed(pod depth) writes calcBECPUSet to root + pod dirs FIRST
                     (also when the selection is empty), then the selection goes to the container dirs only;
    malformed policy annotation -> error, nothing written.   Result `none` = panic. -/
def adjustFull (f : FloatOps) (kp : Int) (topoNil : Bool) (budgetMilli : Int) (oldN : Nat) (procs : List Proc)
    (pods : List PodC) (reserved sysExcl : List Int) : Option Written :=
  if topoNil then some .nothing else
  if (lsrPool pods reserved sysExcl procs).length + (lsPool pods reserved sysExcl procs).length = 0 then some .nothing else
  match adjustCPUSet f budgetMilli oldN procs pods reserved sysExcl with
  | .panic => none
  | .untouched =>
    if kp = kpStatic then
      let r := calcBESet procs pods reserved sysExcl
      some ⟨some r, some r, none⟩
    else some .nothing
  | .write cs =>
    if kp = kpBad then some .nothing
    else if kp = kpStatic then
      let r := calcBESet procs pods reserved sysExcl
      some ⟨some r, some r, some cs⟩
    else some ⟨some cs, some cs, some cs⟩

/-! ### 4. adjustByCfsQuota -/

inductive QOutcome where
  | bypass
  | write (q : Int)
deriving Repr, DecidableEq

/-- `Quantity.Value()` of a milli amount: rounded up to whole cores. -/
def coresOf (capMilli : Int) : Int := (capMilli + 999) / 1000

def targetQuota (budgetMilli : Int) : Int :=
  let q := Int.tdiv (budgetMilli * cfsPeriod) 1000
  if q < beMinQuota then beMinQuota else q

def adjustQuota (f : FloatOps) (budgetMilli cur capMilli : Int) : QOutcome :=
  let q := targetQuota budgetMilli
  let cores := coresOf capMilli
  if f.bypassLt q cur cores && q != beMinQuota && cur != beUnsetQuota then .bypass else
  if f.stepGt q cur cores && cur != beUnsetQuota then .write (cur + f.stepInc cores) else .write q

/-! ### 5. one round of suppressBECPU: feature switch, mode dispatch, recovery of the other mode -/

/-- the BE cgroup files plus the one piece of agent state the round reads
    (`suppressPolicyStatuses[cfsQuota] == recovered`). -/
structure RState where
  root : List Int
  pod  : List Int
  cont : List Int
  quota : Int
  quotaRecovered : Bool
deriving Repr, DecidableEq

/-- what a round sees.  `sloKind`: 0 NodeSLO nil, 1 threshold strategy without `enable` (both: error, return),
    2 `enable: false`, 3 `enable: true`.  `budget` is calculateBESuppressCPU's value on this round's inputs. -/
structure RoundIn where
  sloKind     : Int
  quotaMode   : Bool
  nodeNil     : Bool
  nPodMetas   : Nat
  nodeMetric  : Bool
  infoMissing : Bool
  budget      : Int
  capMilli    : Int
  procs       : List Proc
  pods        : List PodC
  reserved    : List Int
  sysExcl     : List Int
  topoNil     : Bool
  kp          : Int

/-- recoverCFSQuotaIfNeed: write −1 unless the status map already says "recovered". -/
def recoverQuota (st : RState) : RState :=
  if st.quotaRecovered then st else { st with quota := beUnsetQuota, quotaRecovered := true }

/-- recoverCPUSetIfNeed(container depth): calcBECPUSet (needs NodeCPUInfo and the topology object) to every level. -/
def recoverCpusetAll (st : RState) (i : RoundIn) : RState :=
  if i.infoMissing || i.topoNil then st else
  let r := calcBESet i.procs i.pods i.reserved i.sysExcl
  { st with root := r, pod := r, cont := r }

/-- suppressBECPU (BECPUManager gate off).  `none` = panic. -/
def roundStep (f : FloatOps) (st : RState) (i : RoundIn) : Option RState :=
  if i.sloKind ≤ 1 then some st
  else if i.sloKind = 2 then some (recoverCpusetAll (recoverQuota st) i)
  else if i.nodeNil || i.nPodMetas == 0 || !i.nodeMetric || i.infoMissing then some st
  else if i.quotaMode then
    let st1 := match adjustQuota f i.budget st.quota i.capMilli with
      | .bypass => st
      | .write q => { st with quota := q }
    some (recoverCpusetAll { st1 with quotaRecovered := false } i)
  else
    match adjustFull f i.kp i.topoNil i.budget st.root.length i.procs i.pods i.reserved i.sysExcl with
    | none => none
    | some w =>
      some (recoverQuota { st with root := w.root.getD st.root, pod := w.pod.getD st.pod, cont := w.cont.getD st.cont })

end KoordVerif.C10
