/-
C16 — migration arbitrator (M-arb).  Core-only.

Mirrors, as written today:
  pkg/descheduler/controllers/migration/arbitrator/arbitrator.go  doOnceArbitrate, filtering, updatePassedJob,
                                                                   updateFailedJob, Filter
  pkg/descheduler/controllers/migration/arbitrator/filter.go      forEachAvailableMigrationJobs, existingPodMigrationJob,
      filterMaxMigratingGlobally/PerNode/PerNamespace, filterMaxMigratingOrUnavailablePerWorkload,
      filterExpectedReplicas, retryablePodFilter / nonRetryablePodFilter (initFilters)
  pkg/descheduler/controllers/migration/util/util.go              GetMaxUnavailable / GetMaxMigrating
Pods, jobs, nodes, namespaces, workloads are small naturals (ids ≥ 1; 0 = "none").
-/
namespace KoordVerif.C16

structure PodA where
  id : Nat
  node : Nat      -- 0 = not assigned
  ns : Nat
  wl : Nat        -- controller owner (0 = no ownerReference)
  ready : Bool    -- k8spodutil.IsPodReady: the PodReady condition is True
  ann : Bool      -- carries descheduler.alpha.kubernetes.io/evict
  term : Bool := false   -- metadata.deletionTimestamp is set (terminating)
  phase : Nat := 0       -- status.phase: 0 Running · 1 Pending · 2 Succeeded · 3 Failed
deriving Repr, DecidableEq

/-- kubecontroller.IsPodActive: `PodSucceeded != phase && PodFailed != phase && DeletionTimestamp == nil` -/
def podActive (q : PodA) : Bool := q.phase != 2 && q.phase != 3 && !q.term

/-- the `continue` condition of getUnavailablePods: `IsPodActive(pod) && IsPodReady(pod)` -/
def podAvail (q : PodA) : Bool := podActive q && q.ready

/-- phase: 0 "" · 1 Pending · 2 Running · 3 Succeeded · 4 Failed · 5 Aborted -/
structure JobA where
  id : Nat
  pod : Nat       -- Spec.PodRef.{Namespace,Name} as the id of the pod so named (0 = PodRef nil; an id that no pod
                  -- has = a namespace/name that resolves to nothing, e.g. the empty name of a UID-only reference)
  ns : Nat        -- Spec.PodRef.Namespace (0 = empty)
  phase : Nat
  passedAnn : Bool  -- annotation descheduler.koordinator.sh/passed-arbitration
  uid : Nat       -- Spec.PodRef.UID as the id of the pod that has this UID (a pod's UID is its id; 0 = empty UID,
                  -- an id that no pod has = a stale UID)
deriving Repr, DecidableEq

/-- limits: a negative value stands for a nil pointer. -/
structure ArbCfg where
  maxGlobal : Int
  maxNode : Int
  maxNs : Int
  maxMigr : Int     -- MaxMigratingPerWorkload (int form)
  maxUnav : Int     -- MaxUnavailablePerWorkload (int form)
  replicas : List (Nat × Nat)   -- workload → expectedReplicas (controller finder)
  mmKind : Nat := 0   -- form of MaxMigratingPerWorkload: 0 nil / Int (sign of maxMigr) · 1 String "<maxMigr>%" · 2 malformed String
  muKind : Nat := 0   -- same for MaxUnavailablePerWorkload
  skip : List Nat := []      -- SkipEvictionGates (codes below; other gates are irrelevant for generated pods)
  skipCER : Bool := false    -- SkipCheckExpectedReplicas
deriving Repr

/-- gate codes: 1 MaxUnavailablePerWorkload · 2 MaxMigratingPerWorkload · 3 MaxMigratingPerNode ·
    4 MaxMigratingPerNamespace · 5 MaxMigratingGlobally · 6 ExpectedReplicas · 7 BarePods
    (8 PVC · 9 LocalStorage · 10 SystemCritical · 11 PriorityThreshold · 12 LabelSelector · 13 Namespaces · 14 NodeFit:
     accepted, no effect on the pods of this model).  filter.isEvictionGateSkipped -/
def gateSkipped (cfg : ArbCfg) (g : Nat) : Bool := cfg.skip.contains g

structure ArbSt where
  pods : List PodA := []
  jobs : List JobA := []
  arbitrated : List Nat := []   -- filter.arbitratedPodMigrationJobs
  waiting : List Nat := []      -- arbitratorImpl.waitingCollection
deriving Repr

def findPod (st : ArbSt) (id : Nat) : Option PodA := st.pods.find? fun p => p.id == id
def findJob (st : ArbSt) (id : Nat) : Option JobA := st.jobs.find? fun j => j.id == id

def lookup (m : List (Nat × Nat)) (k : Nat) : Nat :=
  match m.find? fun e => e.1 == k with
  | some e => e.2
  | none => 0

/-- forEachAvailableMigrationJobs: Running always; ""/Pending always without arbitration context,
    only when marked passed in the filter's map with it (`checkArb`, used while a round is running). -/
def live (arb : List Nat) (checkArb : Bool) (j : JobA) : Bool :=
  j.phase == 2 || ((j.phase == 0 || j.phase == 1) && (!checkArb || arb.contains j.id))

/-- util.GetMaxUnavailable(replicas, intOrPercent) for nil (`arg < 0`) or an int value. -/
def getMax (replicas : Nat) (arg : Int) : Nat :=
  let v : Nat := if arg < 0 then 0 else if arg = 0 then 1 else arg.toNat
  let v := if v = 0 then
      (if replicas > 10 then replicas * 10 / 100 else if replicas ≥ 4 then 2 else 1)
    else v
  if v > replicas then replicas else v

/-- util.GetMaxUnavailable / GetMaxMigrating for every form of the argument; `none` = the error of
    intstr.GetScaledValueFromIntOrPercent (a String that is not "<n>%").  Percent: floor(v·replicas/100)
    (roundUp = false), 0 ⇒ 1, then capped by replicas. -/
def getMaxK (replicas : Nat) (kind : Nat) (arg : Int) : Option Nat :=
  if kind = 2 then none
  else if kind = 1 then
    let v := arg.toNat * replicas / 100
    let v := if v = 0 then 1 else v
    some (if v > replicas then replicas else v)
  else some (getMax replicas arg)

def limitOff (m : Int) : Bool := m ≤ 0

/-- jobs counted by filterMaxMigratingGlobally for pod `p` -/
def globalJobs (st : ArbSt) (ca : Bool) (p : PodA) : List JobA :=
  st.jobs.filter fun j => live st.arbitrated ca j && j.pod != 0 && j.uid != p.id

def passGlobal (cfg : ArbCfg) (st : ArbSt) (ca : Bool) (p : PodA) : Bool :=
  gateSkipped cfg 5 || limitOff cfg.maxGlobal || decide (((globalJobs st ca p).length : Int) < cfg.maxGlobal)

/-- existingPodMigrationJob(v), first lookup: the available jobs under IndexJobByPodUID = string(pod.UID),
    `podRef != nil && podRef.UID == pod.UID` -/
def hasJobByUID (st : ArbSt) (ca : Bool) (v : PodA) : Bool :=
  st.jobs.any fun j => live st.arbitrated ca j && j.pod != 0 && j.uid == v.id

/-- existingPodMigrationJob(v), second lookup: the available jobs under IndexJobPodNamespacedName = "ns/name",
    `podRef.Namespace == pod.Namespace && podRef.Name == pod.Name` (whatever the job's PodRef.UID is) -/
def hasJobByName (st : ArbSt) (ca : Bool) (v : PodA) : Bool :=
  st.jobs.any fun j => live st.arbitrated ca j && j.pod == v.id

/-- existingPodMigrationJob(v): by pod UID, and `if !existing` by namespace/name (a fall-back, not an else) -/
def hasJob (st : ArbSt) (ca : Bool) (v : PodA) : Bool :=
  if hasJobByUID st ca v then true else hasJobByName st ca v

/-- pods counted by filterMaxMigratingPerNode for pod `p` -/
def nodePods (st : ArbSt) (ca : Bool) (p : PodA) : List PodA :=
  st.pods.filter fun v => v.id != p.id && v.node == p.node && hasJob st ca v

def passNode (cfg : ArbCfg) (st : ArbSt) (ca : Bool) (p : PodA) : Bool :=
  gateSkipped cfg 3 || p.node == 0 || limitOff cfg.maxNode
    || (st.pods.filter fun v => v.node == p.node).isEmpty
    || decide (((nodePods st ca p).length : Int) < cfg.maxNode)

def nsJobs (st : ArbSt) (ca : Bool) (p : PodA) : List JobA :=
  st.jobs.filter fun j => live st.arbitrated ca j && j.pod != 0 && j.uid != p.id && j.ns == p.ns

def passNs (cfg : ArbCfg) (st : ArbSt) (ca : Bool) (p : PodA) : Bool :=
  gateSkipped cfg 4 || limitOff cfg.maxNs || decide (((nsJobs st ca p).length : Int) < cfg.maxNs)

def addNew (xs : List Nat) (x : Nat) : List Nat := if xs.contains x then xs else xs ++ [x]

/-- migratingPods of filterMaxMigratingOrUnavailablePerWorkload: distinct pods of the same workload
    (found in the API by the job's PodRef namespace/name) that have an available job in the pod's namespace; jobs
    carrying the pod's own UID are skipped (`podRef.UID == pod.UID`), as in the global and per-namespace counts. -/
def migrating (st : ArbSt) (ca : Bool) (p : PodA) : List Nat :=
  (st.jobs.filter fun j =>
      live st.arbitrated ca j && j.ns == p.ns && j.pod != 0 && j.uid != p.id &&
      (match findPod st j.pod with
       | some q => q.wl != 0 && q.wl == p.wl
       | none => false)).foldl (fun acc j => addNew acc j.pod) []

/-- getUnavailablePods over the controller finder's pod list (same owner, same namespace). -/
def unavailable (st : ArbSt) (p : PodA) : List Nat :=
  (st.pods.filter fun q => q.wl == p.wl && q.ns == p.ns && !podAvail q).map (·.id)

/-- filterMaxMigratingOrUnavailablePerWorkload, in the order of the code: both gates skipped ⇒ pass; no
    controller ⇒ pass; GetMaxMigrating / GetMaxUnavailable error ⇒ refuse; migrating test (unless its gate is
    skipped); unavailable gate skipped ⇒ pass; unavailable-or-migrating test. -/
def passWorkload (cfg : ArbCfg) (st : ArbSt) (ca : Bool) (p : PodA) : Bool :=
  let skipM := gateSkipped cfg 2
  let skipU := gateSkipped cfg 1
  if skipM && skipU then true else
  if p.wl = 0 then true else
  let r := lookup cfg.replicas p.wl
  match (if skipM then some 0 else getMaxK r cfg.mmKind cfg.maxMigr) with
  | none => false
  | some mm =>
    match (if skipU then some 0 else getMaxK r cfg.muKind cfg.maxUnav) with
    | none => false
    | some mu =>
      let mig := migrating st ca p
      if !skipM && mig.length > 0 && mig.length ≥ mm then false
      else if skipU then true
      else
        let un := mig.foldl addNew (unavailable st p)
        !(un.length ≥ mu)

/-- filterExpectedReplicas: gate skipped ⇒ pass; no controller ⇒ pass; a limit that cannot be evaluated ⇒
    reject; unless SkipCheckExpectedReplicas: replicas = 1 or = maxMigrating or = maxUnavailable ⇒ reject. -/
def expectedReplicasOK (cfg : ArbCfg) (p : PodA) : Bool :=
  if gateSkipped cfg 6 then true else
  if p.wl = 0 then true else
  let r := lookup cfg.replicas p.wl
  match getMaxK r cfg.mmKind cfg.maxMigr, getMaxK r cfg.muKind cfg.maxUnav with
  | some mm, some mu => cfg.skipCER || !(r == 1 || r == mm || r == mu)
  | _, _ => false

/-- nonRetryablePodFilter on the pods the harness builds: of EvictorFilter only the ownerRef constraint
    (dropped when the BarePods gate is skipped) and "pod is terminating" can fail; then filterExpectedReplicas. -/
def nonRetryable (cfg : ArbCfg) (p : PodA) : Bool :=
  p.ann || ((p.wl != 0 || gateSkipped cfg 7) && !p.term && expectedReplicasOK cfg p)

def retryableChecks (cfg : ArbCfg) (st : ArbSt) (ca : Bool) (p : PodA) : Bool :=
  passGlobal cfg st ca p && passNode cfg st ca p && passNs cfg st ca p && passWorkload cfg st ca p

/-- retryablePodFilter = HaveEvictAnnotation ∨ all limit checks -/
def retryable (cfg : ArbCfg) (st : ArbSt) (ca : Bool) (p : PodA) : Bool :=
  p.ann || retryableChecks cfg st ca p

/-- arbitratorImpl.Filter (used before a job is created; the pod is not marked arbitrating). -/
def arbFilter (cfg : ArbCfg) (st : ArbSt) (p : PodA) : Bool :=
  !hasJob st false p && nonRetryable cfg p && retryable cfg st false p

def setJob (js : List JobA) (id : Nat) (f : JobA → JobA) : List JobA :=
  js.map fun j => if j.id == id then f j else j

inductive Verdict where
  | passed | passFailedUpdate | failed | waitingV | gone
deriving Repr, DecidableEq

/-- updatePassedJob: annotate + client.Update; on success mark arbitrated and drop from waiting;
    on error (scripted: `updFail`) nothing changes. -/
def markPassed (st : ArbSt) (updFail : Bool) (jid : Nat) : ArbSt × Verdict :=
  if updFail then (st, .passFailedUpdate)
  else ({ st with jobs := setJob st.jobs jid (fun j => { j with passedAnn := true }),
                  arbitrated := jid :: st.arbitrated,
                  waiting := st.waiting.erase jid }, .passed)

/-- one iteration of the loop in doOnceArbitrate. -/
def processJob (cfg : ArbCfg) (updFail : List Nat) (st : ArbSt) (jid : Nat) : ArbSt × Verdict :=
  match findJob st jid with
  | none => (st, .gone)
  | some j =>
    match (if j.pod = 0 then none else findPod st j.pod) with
    | none => markPassed st (updFail.contains jid) jid   -- filtering(nil) ⇒ isPassed
    | some p =>
      if !nonRetryable cfg p then
        ({ st with jobs := setJob st.jobs jid (fun j => { j with phase := 4 }),
                   waiting := st.waiting.erase jid }, .failed)
      else if !retryable cfg st true p then (st, .waitingV)
      else markPassed st (updFail.contains jid) jid

/-- doOnceArbitrate over the (already sorted) job order. -/
def round (cfg : ArbCfg) (updFail : List Nat) (st : ArbSt) (order : List Nat) : ArbSt :=
  order.foldl (fun s jid => (processJob cfg updFail s jid).1) st

end KoordVerif.C16
