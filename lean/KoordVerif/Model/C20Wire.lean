import KoordVerif.Model.C20HistQ
/-
C20 (round-5 extension) — the controller's WIRING: between the informer and the event handler sits whatever predicate
SetupWithManager puts on the watch.  Model of
  pkg/slo-controller/nodeslo/nodeslo_controller.go   NodeSLOReconciler.SetupWithManager
      For(&NodeSLO{}, WithPredicates(GenerationChangedPredicate{})) . Watches(&Node{}, EnqueueRequestForNode) .
      Watches(&ConfigMap{}, configMapCacheHandler)        -- NO predicate on the ConfigMap and Node watches
A predicate on the ConfigMap watch sees the old and the new object; as far as the property is concerned it is a function of
the two Data identities (`Ident`).  An event the predicate drops never reaches the handler: the API content has changed, the
cache has not.  The pinned source has no predicate (`WatchPred.none`); `WatchPred.generationChanged` is
predicate.GenerationChangedPredicate{} on a ConfigMap, whose metadata.generation the API server never changes.
Core-only.
-/
namespace KoordVerif.C20

structure WatchPred where
  create : Ident → Bool                -- ConfigMap watch: CreateFunc on the new object
  update : Ident → Ident → Bool        -- ConfigMap watch: UpdateFunc on (old, new)
  nodeUpdate : Labels → Labels → Bool  -- Node watch: UpdateFunc on (old labels, new labels)

/-- no predicate on the watch (the pinned source). -/
def WatchPred.none : WatchPred := { create := fun _ => true, update := fun _ _ => true, nodeUpdate := fun _ _ => true }

/-- predicate.GenerationChangedPredicate{} on a ConfigMap: Create passes, every Update is dropped. -/
def WatchPred.generationChanged : WatchPred :=
  { create := fun _ => true, update := fun _ _ => false, nodeUpdate := fun _ _ => true }

/-- a generation-comparing predicate on the NODE watch (a Node's generation does not change with its labels). -/
def WatchPred.nodeGenerationChanged : WatchPred :=
  { create := fun _ => true, update := fun _ _ => true, nodeUpdate := fun _ _ => false }

/-- predicates that can only drop what the handlers would drop anyway: ConfigMap Updates whose Data did not change, Node
    Updates whose labels did not change. -/
def WatchPred.Sound (pr : WatchPred) : Prop :=
  (∀ i, pr.create i = true) ∧ (∀ o n, o ≠ n → pr.update o n = true) ∧ (∀ o n, o ≠ n → pr.nodeUpdate o n = true)

/-- the API change always happens; the event reaches `qevent` only through the watch's predicate. -/
def wevent (pr : WatchPred) (d : Defaults) (parse : Ident → CM) (x : QWorld) : HStep → QWorld
  | .cmCreate i =>
    if pr.create i then qevent d parse x (.cmCreate i) else { x with w := { x.w with cm := some i } }
  | .cmUpdate i =>
    match x.w.cm with
    | some old =>
      if pr.update old i then qevent d parse x (.cmUpdate i) else { x with w := { x.w with cm := some i } }
    | none => qevent d parse x (.cmUpdate i)
  | .nodeUpdate n ls =>
    match lookupA x.w.nodes n with
    | some old =>
      if pr.nodeUpdate old ls then qevent d parse x (.nodeUpdate n ls)
      else { x with w := { x.w with nodes := setA x.w.nodes n ls } }
    | none => qevent d parse x (.nodeUpdate n ls)
  | s => qevent d parse x s

def wstep (pr : WatchPred) (d : Defaults) (parse : Ident → CM) (x : QWorld) : QStep → QWorld
  | .ev s => wevent pr d parse x s
  | .reco n => qstep d parse x (.reco n)
  | .recoFail n => qstep d parse x (.recoFail n)

def wrun (pr : WatchPred) (d : Defaults) (parse : Ident → CM) (x : QWorld) (ss : List QStep) : QWorld :=
  ss.foldl (wstep pr d parse) x

end KoordVerif.C20
