import KoordVerif.Model.C07Hist
/-
C07 extension 6 — devicehandler_gpu.go fillGPUTotalMem over a WHOLE GPU allocation (several devices).

  for i, allocation := range gpuAllocations {
      gpuDevice, ok := gpuTotalDevices[int(allocation.Minor)]
      if !ok || gpuDevice == nil || quotav1.IsZero(gpuDevice) { return error }
      both present -> continue
      gpuMemExists -> ratio := memoryBytesToRatio(gpuMem, gpuDevice[gpu-memory])
      else         -> gpu-memory := memoryRatioToBytes(gpuMemRatio, gpuDevice[gpu-memory])     (ratio absent: the zero Quantity)
  }

Every entry is converted with the memory size of the device THE ENTRY IS ON (GPUs of one node may differ in size).
GPU dimensions: 0 gpu-core, 1 gpu-memory, 2 gpu-memory-ratio.  Core Lean only.
-/
namespace KoordVerif.C07

/-- one entry, as the loop body writes it (`fillMem` of Model/C07Hist.lean, with the no-memory-dimension case as written:
gpu-memory := 0 * tot / 100, the ratio stays absent) -/
def fillEntry (b2r : Int → Int → Int) (tot : Int) (req : RL) : RL :=
  match rlAt req 1, rlAt req 2 with
  | some _, some _ => req
  | some b, none => [rlAt req 0, some b, some (b2r b tot)]
  | none, some r => [rlAt req 0, some (r * tot / 100), some r]
  | none, none => [rlAt req 0, some (0 * tot / 100), none]

/-- the whole allocation: error (none) at the first entry whose device is unknown or zero (unhealthy) -/
def fillGPU (b2r : Int → Int → Int) (total : DevRes) : List (Nat × RL) → Option (List (Nat × RL))
  | [] => some []
  | e :: rest =>
    match drGet total e.1 with
    | none => none
    | some t =>
      if rlIsZero t then none
      else match fillGPU b2r total rest with
        | none => none
        | some out => some ((e.1, fillEntry b2r (rlVal t 1) e.2) :: out)

/-- every entry converted with the memory size `T m` of minor m -/
def fillWith (b2r : Int → Int → Int) (T : Nat → Int) (al : List (Nat × RL)) : List (Nat × RL) :=
  al.map (fun e => (e.1, fillEntry b2r (T e.1) e.2))

/-- the fifth-round seeded change: the memory size is looked up ONCE, from the first device of the allocation -/
def fillFirst (b2r : Int → Int → Int) (total : DevRes) (al : List (Nat × RL)) : List (Nat × RL) :=
  match al with
  | [] => []
  | e0 :: _ => fillWith b2r (fun _ => drVal total e0.1 1) al

end KoordVerif.C07
