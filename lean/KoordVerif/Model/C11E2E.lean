import KoordVerif.Model.C11
import KoordVerif.Model.C11Decode
/-
C11 — Part E: `memoryEvict()` end to end.  Model of
  pkg/koordlet/qosmanager/plugins/memoryevict/memory_evict.go
      memoryEvict (feature loop BEMemoryEvict, MemoryAllocatableEvict, MemoryEvict), buildEvictTask,
      generateConfigCheck / isAllocatableThresholdConfigValid, calculateReleaseByUsedThresholdPercent,
      calculateReleaseByAllocatableThresholdPercent (its float64 comparison and product are the parameter
      `allocF`), the three list builders (Part B) and KillAndEvictPods (Part A).
Resource ids: 1 memory, 3 batch-memory, 5 mid-memory.  Release targets: 0 podUsed, 1 podResourceRequest.
A feature is `on` when its koordlet feature gate is enabled and `features.IsFeatureDisabled(nodeSLO, f)` says
no (strategy present, `enable: true`).  Core-only.
-/
namespace KoordVerif.C11

structure MemCfg where
  beOn     : Bool
  allocOn  : Bool
  memOn    : Bool
  thr      : Option Int     -- MemoryEvictThresholdPercent
  lower    : Option Int     -- MemoryEvictLowerPercent
  prioThr  : Option Int     -- EvictEnabledPriorityThreshold
  aThr     : Option Int     -- MemoryAllocatableEvictThresholdPercent
  aLower   : Option Int     -- MemoryAllocatableEvictLowerPercent
  aPrioThr : Option Int     -- AllocatableEvictPriorityThreshold
  capacity : Int            -- node.Status.Capacity.Memory().Value()
  nodeUsed : Option Int     -- int64(node memory usage metric); none = the query failed
  allocMem   : Option Int   -- node.Status.Allocatable[memory] (none = absent)
  allocBatch : Option Int   -- … [batch-memory]
  allocMid   : Option Int   -- … [mid-memory]
deriving Repr, DecidableEq

/-- memoryReleaseBufferPercent -/
def memBuffer : Int := 2

/-- `generateConfigCheck` common part (BEMemoryEvict). -/
def MemCfg.commonOK (c : MemCfg) : Bool :=
  match c.thr with
  | none => false
  | some t => decide (0 ≤ t) && decide (c.lower.getD (t - memBuffer) < t)

/-- `generateConfigCheck(MemoryEvict)` -/
def MemCfg.memOK (c : MemCfg) : Bool := c.commonOK && c.prioThr.isSome

/-- `isAllocatableThresholdConfigValid` (PriorityMidValueMax = 7999: koord-prod pods are never killed). -/
def MemCfg.allocOK (c : MemCfg) : Bool :=
  match c.aThr, c.aLower, c.aPrioThr with
  | some t, some lo, some pt => decide (0 ≤ t) && decide (lo < t) && decide (pt ≤ 7999)
  | _, _, _ => false

/-- `calculateReleaseByUsedThresholdPercent`: the target list (`none` = empty, no task). -/
def MemCfg.usedTarget (c : MemCfg) : Option (List (Nat × Int)) :=
  match c.nodeUsed, c.thr with
  | some u, some t => (usedThresholdTarget c.capacity u t c.lower memBuffer).map fun v => [(1, v)]
  | _, _ => none

/-- resource a pod's request is accounted under (`GetRequestTypeAndValueFromPod`). -/
def resOfCls : PCls → Nat
  | .mid => 5
  | .batch => 3
  | _ => 1

def addAssoc : List (Nat × Int) → Nat → Int → List (Nat × Int)
  | [], k, v => [(k, v)]
  | (k', v') :: l, k, v => if k' = k then (k', v' + v) :: l else (k', v') :: addAssoc l k v

/-- `requestedOnNode`: requests of ALL pods (any phase, label or opt-out) with defaulted priority ≤ threshold. -/
def requestedOnNode (pt : Int) : List RawPod → List (Nat × Int)
  | [] => []
  | rp :: rest =>
    let acc := requestedOnNode pt rest
    if priorityWithDefault rp.specPrio rp.cls > pt then acc
    else addAssoc acc (resOfCls rp.cls) (decodePod rp).request

def MemCfg.allocatableOf (c : MemCfg) (res : Nat) : Option Int :=
  if res = 1 then c.allocMem else if res = 3 then c.allocBatch else if res = 5 then c.allocMid else none

def insAssoc (kv : Nat × Int) : List (Nat × Int) → List (Nat × Int)
  | [] => [kv]
  | x :: xs => if kv.1 < x.1 then kv :: x :: xs else x :: insAssoc kv xs

/-- `calculateReleaseByAllocatableThresholdPercent`: `allocF rq sum thr lower` is the float64 part
    (`rq/sum > thr/100` ⇒ `int64((rq/sum - lower/100)*sum)`).  Keys sorted (a Go map). -/
def MemCfg.allocTarget (c : MemCfg) (allocF : Int → Int → Int → Int → Option Int) (pods : List RawPod) :
    List (Nat × Int) :=
  match c.aThr, c.aLower, c.aPrioThr with
  | some t, some lo, some pt =>
    let req := requestedOnNode pt pods
    let out := req.filterMap fun (res, rq) =>
      match c.allocatableOf res with
      | none => some (res, rq)
      | some nq => if nq = 0 then some (res, rq) else (allocF rq nq t lo).map fun v => (res, v)
    out.foldr insAssoc []
  | _, _, _ => []

def rawById (pods : List RawPod) (id : Nat) : Option RawPod := pods.find? fun rp => rp.id = id

/-- the PodEvictInfo fields the three GetPodResourceFuncs read: [MemoryUsed, mid-memory request if the
    allocatable task releases mid-memory and the pod is koord-mid, batch-memory likewise]. -/
def memEntry (pods : List RawPod) (midIn batchIn : Bool) (i : Info) : Entry :=
  let cls := ((rawById pods i.pod.id).map RawPod.cls).getD .none
  let req := ((rawById pods i.pod.id).map fun rp => (decodePod rp).request).getD 0
  { pod := i.pod.id,
    fields := [i.used, if cls = .mid ∧ midIn then req else 0, if cls = .batch ∧ batchIn then req else 0] }

inductive MemFeature | be | alloc | mem
deriving Repr, DecidableEq

/-- the policy name `string(feature)` handed to IsEvictionPolicyAllowed (codes of `policyElemsFor`). -/
def MemFeature.code : MemFeature → Nat
  | .be => 10
  | .alloc => 11
  | .mem => 12

/-- does the allocatable task release mid-memory / batch-memory (`prioritiesMp`)?  Its GetPodResourceFunc
    reads the POD (class and request), so it reports the same for an entry of any task's list. -/
def MemCfg.allocKeys (c : MemCfg) (allocF : Int → Int → Int → Int → Option Int) (pods : List RawPod) : Bool × Bool :=
  if c.allocOK then ((c.allocTarget allocF pods).any (·.1 = 5), (c.allocTarget allocF pods).any (·.1 = 3))
  else (false, false)

/-- `buildEvictTask(feature, …)`: `none` = invalid config or nothing to release. -/
def memTask (allocF : Int → Int → Int → Int → Option Int) (c : MemCfg) (pods : List RawPod) :
    MemFeature → Option Task
  | .be =>
    if !c.commonOK then none else
    c.usedTarget.map fun to =>
      { target := 0, toRelease := to, fn := [(1, 0)],
        pods := (selectBEMem (pods.map (decodePodFor 10))).map
                  (memEntry pods (c.allocKeys allocF pods).1 (c.allocKeys allocF pods).2) }
  | .mem =>
    if !c.memOK then none else
    match c.usedTarget, c.prioThr with
    | some to, some pt =>
      some { target := 0, toRelease := to, fn := [(1, 0)],
             pods := (selectPrioMem pt false (pods.map (decodePodFor 12))).map
                      (memEntry pods (c.allocKeys allocF pods).1 (c.allocKeys allocF pods).2) }
    | _, _ => none
  | .alloc =>
    if !c.allocOK then none else
    let to := c.allocTarget allocF pods
    if to.isEmpty then none else
    match c.aPrioThr with
    | some pt =>
      some { target := 1, toRelease := to, fn := [(5, 1), (3, 2)],
             pods := (selectPrioMem pt true (pods.map (decodePodFor 11))).map
                      (memEntry pods (c.allocKeys allocF pods).1 (c.allocKeys allocF pods).2) }
    | none => none

def MemCfg.on (c : MemCfg) : MemFeature → Bool
  | .be => c.beOn
  | .alloc => c.allocOn
  | .mem => c.memOn

/-- the task list `memoryEvict` hands to KillAndEvictPods, with the feature of each task. -/
def memTasks (allocF : Int → Int → Int → Int → Option Int) (c : MemCfg) (pods : List RawPod) :
    List (MemFeature × Task) :=
  if c.capacity ≤ 0 then [] else
  [MemFeature.be, .alloc, .mem].filterMap fun f =>
    if c.on f then (memTask allocF c pods f).map fun t => (f, t) else none

/-- `memoryEvict()` (past the cooling check): `none` = nothing to do. -/
def memoryEvict (allocF : Int → Int → Int → Int → Option Int) (c : MemCfg) (pods : List RawPod)
    (isEv : Nat → Bool) (script : List Bool) : Option St :=
  let ts := memTasks allocF c pods
  if ts.isEmpty then none else some (killAndEvict isEv script (ts.map (·.2)))

/-! ### `cpuEvict()` end to end
  pkg/koordlet/qosmanager/plugins/cpuevict/cpu_evict.go
      cpuEvict (feature loop BECPUEvict, CPUAllocatableEvict, CPUEvict), buildEvictTask, isSatisfactionConfigValid,
      isUsedThresholdConfigValid, isAllocatableThresholdConfigValid, calculateMilliReleaseByUsedThresholdPercent,
      calculateMilliReleaseByAllocatableThresholdPercent (float64 part = parameter `allocF`),
      calculateMilliReleaseByBESatisfaction (all float64: its result is the field `beTarget`).
Resource ids: 0 cpu (milli), 2 batch-cpu, 4 mid-cpu. -/

structure CpuCfg where
  beOn     : Bool
  allocOn  : Bool
  cpuOn    : Bool
  lowP     : Option Int     -- CPUEvictBESatisfactionLowerPercent
  upP      : Option Int     -- CPUEvictBESatisfactionUpperPercent
  beTarget : Option Int     -- what calculateMilliReleaseByBESatisfaction puts under batch-cpu (none = nothing)
  thr      : Option Int     -- CPUEvictThresholdPercent
  lower    : Option Int     -- CPUEvictLowerPercent
  prioThr  : Option Int     -- EvictEnabledPriorityThreshold
  aThr     : Option Int     -- CPUAllocatableEvictThresholdPercent
  aLower   : Option Int     -- CPUAllocatableEvictLowerPercent
  aPrioThr : Option Int     -- AllocatableEvictPriorityThreshold
  capacity : Int            -- node.Status.Capacity.Cpu().MilliValue()
  nodeUsed : Option Int     -- int64(node cpu usage metric * 1000); none = the query failed
  allocCpu   : Option Int   -- node.Status.Allocatable[cpu].MilliValue() (none = absent)
  allocBatch : Option Int   -- … [batch-cpu].Value()
  allocMid   : Option Int   -- … [mid-cpu].Value()
deriving Repr, DecidableEq

/-- cpuReleaseBufferPercent -/
def cpuBuffer : Int := 2

/-- `isSatisfactionConfigValid`: lower ∈ (0, 60], upper ∈ (0, 100), lower ≤ upper. -/
def CpuCfg.satOK (c : CpuCfg) : Bool :=
  match c.lowP, c.upP with
  | some lo, some up => !(decide (lo > 60) || decide (lo ≤ 0)) && !(decide (up ≥ 100) || decide (up ≤ 0)) && !decide (up < lo)
  | _, _ => false

/-- `isUsedThresholdConfigValid` -/
def CpuCfg.usedOK (c : CpuCfg) : Bool :=
  match c.thr with
  | none => false
  | some t => decide (0 ≤ t) && decide (c.lower.getD (t - cpuBuffer) < t) && c.prioThr.isSome

/-- `isAllocatableThresholdConfigValid` (cpuevict) -/
def CpuCfg.allocOK (c : CpuCfg) : Bool :=
  match c.aThr, c.aLower, c.aPrioThr with
  | some t, some lo, some pt => decide (0 ≤ t) && decide (lo < t) && decide (pt ≤ 7999)
  | _, _, _ => false

def CpuCfg.usedTarget (c : CpuCfg) : Option (List (Nat × Int)) :=
  match c.nodeUsed, c.thr with
  | some u, some t => (usedThresholdTarget c.capacity u t c.lower cpuBuffer).map fun v => [(0, v)]
  | _, _ => none

def cpuResOfCls : PCls → Nat
  | .mid => 4
  | .batch => 2
  | _ => 0

def cpuRequestedOnNode (pt : Int) : List RawPod → List (Nat × Int)
  | [] => []
  | rp :: rest =>
    let acc := cpuRequestedOnNode pt rest
    if priorityWithDefault rp.specPrio rp.cls > pt then acc
    else addAssoc acc (cpuResOfCls rp.cls) (decodePod rp).request

def CpuCfg.allocatableOf (c : CpuCfg) (res : Nat) : Option Int :=
  if res = 0 then c.allocCpu else if res = 2 then c.allocBatch else if res = 4 then c.allocMid else none

/-- `calculateMilliReleaseByAllocatableThresholdPercent`: `allocF rq sum thr lower` is the float64 part
    (`rq/sum > thr/100` ⇒ `int64(rq - lower/100*sum)`).  The amount is stored with
    `resource.NewQuantity(…, DecimalSI)` for EVERY resource, so under the native `cpu` key a milli amount
    becomes that many whole cores (×1000 in milli units, as written). -/
def CpuCfg.allocTarget (c : CpuCfg) (allocF : Int → Int → Int → Int → Option Int) (pods : List RawPod) :
    List (Nat × Int) :=
  match c.aThr, c.aLower, c.aPrioThr with
  | some t, some lo, some pt =>
    let req := cpuRequestedOnNode pt pods
    let out := req.filterMap fun (res, rq) =>
      match c.allocatableOf res with
      | none => some (res, rq)
      | some nq => if nq = 0 then some (res, rq)
                   else (allocF rq nq t lo).map fun v => (res, if res = 0 then v * 1000 else v)
    out.foldr insAssoc []
  | _, _, _ => []

def CpuCfg.allocKeys (c : CpuCfg) (allocF : Int → Int → Int → Int → Option Int) (pods : List RawPod) : Bool × Bool :=
  if c.allocOK then ((c.allocTarget allocF pods).any (·.1 = 4), (c.allocTarget allocF pods).any (·.1 = 2))
  else (false, false)

/-- fields the GetPodResourceFuncs read: [MilliCPUUsed, Σ batch-cpu of the containers (BECPUEvict), mid-cpu
    request if the allocatable task releases mid-cpu and the pod is koord-mid, batch-cpu likewise]. -/
def cpuEntry (pods : List RawPod) (midIn batchIn : Bool) (i : Info) : Entry :=
  let cls := ((rawById pods i.pod.id).map RawPod.cls).getD .none
  let req := ((rawById pods i.pod.id).map fun rp => (decodePod rp).request).getD 0
  let breq := ((rawById pods i.pod.id).map fun rp => rp.batchReq).getD 0
  { pod := i.pod.id,
    fields := [i.used, breq, if cls = .mid ∧ midIn then req else 0, if cls = .batch ∧ batchIn then req else 0] }

inductive CpuFeature | be | alloc | cpu
deriving Repr, DecidableEq

def cpuTask (usage : Int → Int → Int) (allocF : Int → Int → Int → Int → Option Int) (c : CpuCfg) (pods : List RawPod) :
    CpuFeature → Option Task
  | .be =>
    if !c.satOK then none else
    c.beTarget.map fun v =>
      { target := 1, toRelease := [(2, v)], fn := [(2, 1)],
        pods := (selectBECpu usage (pods.map (decodePodFor 13))).map
                  (cpuEntry pods (c.allocKeys allocF pods).1 (c.allocKeys allocF pods).2) }
  | .cpu =>
    if !c.usedOK then none else
    match c.usedTarget, c.prioThr with
    | some to, some pt =>
      some { target := 0, toRelease := to, fn := [(0, 0)],
             pods := (selectPrio pt false (pods.map (decodePodFor 15))).map
                      (cpuEntry pods (c.allocKeys allocF pods).1 (c.allocKeys allocF pods).2) }
    | _, _ => none
  | .alloc =>
    if !c.allocOK then none else
    let to := c.allocTarget allocF pods
    if to.isEmpty then none else
    match c.aPrioThr with
    | some pt =>
      some { target := 1, toRelease := to, fn := [(4, 2), (2, 3)],
             pods := (selectPrio pt true (pods.map (decodePodFor 14))).map
                      (cpuEntry pods (c.allocKeys allocF pods).1 (c.allocKeys allocF pods).2) }
    | none => none

def CpuCfg.on (c : CpuCfg) : CpuFeature → Bool
  | .be => c.beOn
  | .alloc => c.allocOn
  | .cpu => c.cpuOn

def cpuTasks (usage : Int → Int → Int) (allocF : Int → Int → Int → Int → Option Int) (c : CpuCfg) (pods : List RawPod) :
    List (CpuFeature × Task) :=
  if c.capacity ≤ 0 then [] else
  [CpuFeature.be, .alloc, .cpu].filterMap fun f =>
    if c.on f then (cpuTask usage allocF c pods f).map fun t => (f, t) else none

/-- `cpuEvict()` (past the cooling check). -/
def cpuEvict (usage : Int → Int → Int) (allocF : Int → Int → Int → Int → Option Int) (c : CpuCfg) (pods : List RawPod)
    (isEv : Nat → Bool) (script : List Bool) : Option St :=
  let ts := cpuTasks usage allocF c pods
  if ts.isEmpty then none else some (killAndEvict isEv script (ts.map (·.2)))

end KoordVerif.C11
