/-
C05, owner CONTROLLER references: model of `MatchReservationControllerReference` (pkg/util/reservation/reservation.go)
as written - the part of a reservation owner entry that names the pod's controller - evaluated on the pod's
metadata.ownerReferences.  Core Lean only (linked into the driver).

Strings are small integers handed over by the harness: 0 = the empty string, anything else = one distinct non-empty
string.  The `controller` flag (a *bool in Go) is 0 = nil, 1 = &true, 2 = &false.  `BlockOwnerDeletion` is ignored by the
code and is not modelled.
-/
namespace KoordVerif.C05

/-- one metav1.OwnerReference, of the owner spec (ReservationControllerReference.OwnerReference) or of the pod -/
structure CtlRef where
  flag : Int
  uid  : Int
  name : Int
  kind : Int
  api  : Int
deriving DecidableEq, Repr

/-- `len(spec.X) == 0 || spec.X == podOwner.X` -/
def ctlFieldOk (s p : Int) : Bool := s == 0 || s == p

/-- `controllerRef.Controller == nil || podOwner.Controller != nil && *controllerRef.Controller == *podOwner.Controller`
    (&& binds tighter than ||) -/
def ctlFlagOk (s p : Int) : Bool := s == 0 || (p != 0 && s == p)

/-- the condition inside the loop over pod.OwnerReferences -/
def ctlRefMatch (s p : CtlRef) : Bool :=
  ctlFlagOk s.flag p.flag && ctlFieldOk s.uid p.uid && ctlFieldOk s.name p.name && ctlFieldOk s.kind p.kind &&
    ctlFieldOk s.api p.api

/-- MatchReservationControllerReference for a NON-nil controllerRef (nil = true is the caller's `ctrl` boolean of
    `matchOwners`): the extended namespace field first, then any of the pod's ownerReferences -/
def matchControllerRef (specNs podNs : Int) (s : CtlRef) (refs : List CtlRef) : Bool :=
  if specNs != 0 && specNs != podNs then false else refs.any (ctlRefMatch s)

end KoordVerif.C05
