import KoordVerif.Model.C12Static
/-
C12 — model of the CALLER of applyBESuppressCPUSet and of the two readers of "the current BE cpuset"
  pkg/koordlet/qosmanager/plugins/cpusuppress/cpu_suppress.go   adjustByCPUSet
  pkg/koordlet/util/node.go                                     GetBECgroupCurCPUSet
as written: adjustByCPUSet takes the OLD cpuset from
    r.cgroupReader.ReadCPUSet(koordletutil.GetPodQoSRelativePath(corev1.PodQOSBestEffort))
i.e. the content of the besteffort ROOT dir's own file, and hands it to applyBESuppressCPUSet as oldCPUSet.
koordletutil.GetBECgroupCurCPUSet() is the OTHER reader (used by the BE resource collector): the narrowest
cpuset among the container dirs and the root.  It is modelled only to state why it must not be the old set
(adjust_old_narrowest_counterexample).  `GetNodeTopo() == nil` returns before anything is written (kind 0); the new
set (calculateBESuppressCPUSetPolicy - the subject of C10) is an input.  Core-only.
-/
namespace KoordVerif.C12

/-- what adjustByCPUSet reads as oldCPUSet: the file of the besteffort root dir. -/
def adjustOld (root : Nat) (s : St Nat) : Nat := s.files root

/-- adjustByCPUSet from the read of the old set on: `err = r.applyBESuppressCPUSet(beCPUSet, oldCPUSet)`. -/
def adjustByCPUSet (kind : Nat) (expired : Bool) (paths : List Nat) (depth : Nat → Nat) (rec : Option Nat)
    (cpus root : Nat) (s : St Nat) : St Nat × List (Write Nat) :=
  applyBESuppress kind expired paths depth rec cpus (adjustOld root s) s

/-- an outside writer (container runtime, kubelet cpu manager, a runtime hook) sets a cpuset file: the file changes,
    the executor's ResourceCache does not learn about it. -/
def extWrite (n v : Nat) (s : St Nat) : St Nat := { s with files := setAt s.files n v }

/-- number of CPUs of a bitmask (`len(curCpus)`), fuel = number of bits looked at. -/
def popc : Nat → Nat → Nat
  | 0, _ => 0
  | fuel + 1, m => m % 2 + popc fuel (m / 2)

/-- GetBECgroupCurCPUSet: `containerPaths = GetBECPUSetPathsByTargetDepth(ContainerDepth)` then the root appended;
    `if targetCpus == nil || len(curCpus) < len(targetCpus) { targetCpus = curCpus }` - the first narrowest wins. -/
def narrowestOld (paths : List Nat) (depth : Nat → Nat) (root : Nat) (s : St Nat) : Nat :=
  let cands := (paths.filter fun n => depth n == ctrDepth) ++ [root]
  match cands with
  | [] => 0
  | c :: cs => cs.foldl (fun best n => if popc 64 (s.files n) < popc 64 best then s.files n else best) (s.files c)

end KoordVerif.C12
