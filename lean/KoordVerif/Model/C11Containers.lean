import KoordVerif.Model.C11Decode
/-
C11 — Part G: where the extended-resource request of a pod comes from.  Model of the container loops of
  pkg/koordlet/qosmanager/plugins/util/evict.go   GetRequestTypeAndValueFromPod (koord-mid / koord-batch classes)
  pkg/koordlet/qosmanager/plugins/cpuevict/cpu_evict.go   getBEPodEvictInfoAndSort / calculateMilliReleaseByBESatisfaction
      (Σ batch-cpu of the containers)
  pkg/util/pod_resources_utils.go   IsSidecarContainer
A container is (kind, mid, batch): kind 0 = regular container, 1 = init container that runs to completion, 2 = init
container with restartPolicy Always (sidecar); mid / batch = what `GetContainer{Mid,Batch}…Request` reads off its
requests (-1 = the resource name is absent).  The native class uses k8s `resourcehelper.PodRequests` (trusted; the
harness keeps the native request on one regular container).  Core-only.
-/
namespace KoordVerif.C11

structure Ctr where
  kind  : Nat
  mid   : Int
  batch : Int
deriving Repr, DecidableEq

/-- `if containerReq <= 0 { containerReq = 0 }` -/
def clamp0 (v : Int) : Int := if v ≤ 0 then 0 else v

/-- the two loops of `getPodResourceFunc`: every regular container, then every init container that is a sidecar. -/
def ctrSum (get : Ctr → Int) (cs : List Ctr) : Int :=
  ((cs.filter fun c => c.kind = 0).foldl (fun acc c => acc + clamp0 (get c)) 0) +
  ((cs.filter fun c => c.kind = 2).foldl (fun acc c => acc + clamp0 (get c)) 0)

/-- the pod as the list builders and target formulas see it when its containers are `cs`: mid / batch request of
    the class's resource; `cpu` = the cpu evictor, where the BE path's Σ batch-cpu is the same sum. -/
def RawPod.withCtrs (rp : RawPod) (cpu : Bool) (cs : List Ctr) : RawPod :=
  { rp with reqMid := ctrSum Ctr.mid cs, reqBatch := ctrSum Ctr.batch cs,
            batchReq := if cpu then ctrSum Ctr.batch cs else rp.batchReq }

end KoordVerif.C11
