import KoordVerif.Proofs.C01Inv
/-
C01: an executable check of the local equations (used by the driver on informer-consistent histories, so that a
gap between the theorem's preconditions and the histories the harness calls "strict" would show up as a
disagreement), with its soundness proof.  Core-only.
-/
namespace KoordVerif.C01

def checkQ (s : State) (q : Quota) : Bool :=
  decide (q.selfRequest = podSum (fun _ => true) q.pods) &&
  decide (q.selfNpRequest = podSum (fun p => p.np) q.pods) &&
  decide (dCR s q.name q = 0) && decide (dNpReq s q.name q = 0) &&
  (decide (q.name = rootName) || decide (q.request = lendRule q q.childRequest)) &&
  decide (q.selfUsed = podSum (fun p => p.assigned) q.pods) &&
  decide (q.selfNpUsed = podSum (fun p => p.assigned && p.np) q.pods) &&
  decide (dUsed s q.name q = 0) && decide (dNpUsed s q.name q = 0)

def checkInv (s : State) : Bool := s.all (checkQ s)

theorem checkInv_sound {s : State} (h : checkInv s = true) : LocalInv s := by
  have hq : ∀ m q, get? s m = some q → checkQ s q = true := by
    intro m q hq
    exact List.all_eq_true.mp h q (get?_mem hq)
  constructor
  · intro m q hget
    have := hq m q hget
    have hn := get?_name hget
    simp only [checkQ, Bool.and_eq_true, Bool.or_eq_true, decide_eq_true_eq, hn] at this
    obtain ⟨⟨⟨⟨⟨⟨⟨⟨a, b⟩, c⟩, d⟩, e⟩, _⟩, _⟩, _⟩, _⟩ := this
    exact ⟨a, b, c, d, fun hr => by rcases e with e | e; exact absurd e hr; exact e⟩
  · intro m q hget
    have := hq m q hget
    have hn := get?_name hget
    simp only [checkQ, Bool.and_eq_true, Bool.or_eq_true, decide_eq_true_eq, hn] at this
    obtain ⟨⟨⟨⟨_, f⟩, g⟩, i⟩, j⟩ := this
    exact ⟨f, g, i, j⟩

end KoordVerif.C01
