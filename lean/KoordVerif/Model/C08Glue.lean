import KoordVerif.Model.C08
/-
C08 — the glue between a *corev1.Pod and the projection `PodDesc` the cache model works on.  Model of
  apis/extension/priority.go        GetPodPriorityClassRaw, getPriorityClassByPriority
  apis/extension/priority_utils.go  GetPodPriorityClassWithDefault, GetPodPriorityClassWithQoS
  apis/extension/qos_utils.go       GetPodQoSClassWithDefault, GetPodQoSClassWithKubeQoS (GetKubeQosClass itself — Status.QOSClass
                                    or k8s' computed class — is an input)
  apis/extension/load_aware.go      GetCustomEstimatedScalingFactors, GetCustomEstimatedSecondsAfter{PodScheduled,Initialized}
  k8s.io/component-helpers/resource PodRequests / PodLimits with PodResourcesOptions{} (containers, init containers,
                                    restartable init containers = sidecars, pod-level resources, overhead), per resource name
Core-only.  Amounts are integers in the unit the estimator reads, for the resource name the pod's class translates to.
-/
namespace KoordVerif.C08

/-- what the class derivation reads from the pod -/
structure ClassShape where
  prioLabel : Nat      -- label koordinator.sh/priority-class: 0 absent, 1 koord-prod, 2 koord-mid, 3 koord-batch, 4 koord-free, 5 other text
  prio : Option Int    -- Spec.Priority
  qosLabel : Nat       -- label koordinator.sh/qosClass: 0 absent, 1 LSE, 2 LSR, 3 LS, 4 BE, 5 SYSTEM, 6 other text
  kubeQos : Nat        -- GetKubeQosClass: 1 Guaranteed, 2 Burstable, 3 BestEffort
deriving Repr, DecidableEq

/-- getPriorityClassByPriority with the default ranges; 0 = PriorityNone -/
def classByPriority (p : Int) : Nat :=
  if 9000 ≤ p ∧ p ≤ 9999 then 1
  else if 7000 ≤ p ∧ p ≤ 7999 then 2
  else if 5000 ≤ p ∧ p ≤ 5999 then 3
  else if 3000 ≤ p ∧ p ≤ 3999 then 4
  else 0

/-- GetPodPriorityClassRaw: a priority-class label, known or not, hides Spec.Priority -/
def classRaw (s : ClassShape) : Nat :=
  if s.prioLabel != 0 then (if s.prioLabel ≤ 4 then s.prioLabel else 0)
  else match s.prio with
    | none => 0
    | some p => classByPriority p

/-- GetPodQoSClassWithDefault: 1 LSE, 2 LSR, 3 LS, 4 BE, 5 SYSTEM, 0 none; an unknown label text falls through to the kube class -/
def qosOf (s : ClassShape) : Nat :=
  if s.qosLabel != 0 && s.qosLabel ≤ 5 then s.qosLabel
  else if s.kubeQos == 1 then 2 else if s.kubeQos == 2 then 3 else if s.kubeQos == 3 then 4 else 0

/-- GetPodPriorityClassWithQoS -/
def classByQos (q : Nat) : Nat := if q == 4 then 3 else if q == 0 then 0 else 1

/-- GetPodPriorityClassWithDefault (1 prod, 2 mid, 3 batch, 4 free, 0 none) -/
def resolveClass (s : ClassShape) : Nat :=
  let c := classRaw s
  if c != 0 then c else classByQos (qosOf s)

/-- one init container's amount of one resource; `always` = RestartPolicy Always (a sidecar) -/
structure InitC where
  always : Bool
  v : Int
deriving Repr, DecidableEq

/-- AggregateContainerRequests / AggregateContainerLimits for one resource name:
sum of the containers and sidecars, but at least what any init container needs while it runs
(its own amount + the sidecars started before it). State of the loop: (total, sidecars so far, max init use). -/
def aggInit (acc : Int × Int × Int) (c : InitC) : Int × Int × Int :=
  if c.always then (acc.1 + c.v, acc.2.1 + c.v, if acc.2.1 + c.v > acc.2.2 then acc.2.1 + c.v else acc.2.2)
  else (acc.1, acc.2.1, if c.v + acc.2.1 > acc.2.2 then c.v + acc.2.1 else acc.2.2)

def aggregate (cs : List Int) (inits : List InitC) : Int :=
  let r := inits.foldl aggInit (cs.foldl (· + ·) 0, 0, 0)
  if r.2.2 > r.1 then r.2.2 else r.1

/-- PodRequests: a pod-level request replaces the aggregate; the overhead is added. -/
def podRequest (cs : List Int) (inits : List InitC) (podLevel : Option Int) (overhead : Int) : Int :=
  (match podLevel with | some q => q | none => aggregate cs inits) + overhead

/-- PodLimits: the overhead is added to a non-zero limit only. -/
def podLimit (cs : List Int) (inits : List InitC) (podLevel : Option Int) (overhead : Int) : Int :=
  let l := match podLevel with | some q => q | none => aggregate cs inits
  if l != 0 then l + overhead else l

/-- GetCustomEstimatedScalingFactors: kind 0 = annotation absent or "", 1 = a JSON object of integers (per vector index,
none = key absent; `{}`, `null` and objects with foreign keys only have no entry), 2 = anything encoding/json rejects
for map[ResourceName]int64 (bad syntax, string / fractional / out-of-range values, an array) -/
def parseFactors (kind : Nat) (fs : List (Option Int)) : List (Option Int) :=
  if kind == 1 then fs else fs.map (fun _ => none)

/-- GetCustomEstimatedSecondsAfter…: kind 0 absent or "", 1 = strconv.ParseInt accepts it, 2 = it does not -/
def parseSecs (kind : Nat) (v : Int) : Int := if kind == 1 then v else -1

/-- the raw shape of a pod as far as the plugin reads it -/
structure PodShape where
  cls : ClassShape
  specId : Nat                          -- identity of the PodSpec (OnUpdate compares specs with DeepEqual)
  fKind : Nat
  fs : List (Option Int)
  sKind : Nat
  sVal : Int
  iKind : Nat
  iVal : Int
  containers : List (List (Int × Int))  -- per container, per vector index: (request, limit)
  inits : List (Bool × List (Int × Int))
  overhead : List Int
  podLevel : List (Option Int × Option Int)
deriving Repr, DecidableEq

def PodShape.res (s : PodShape) (d : Nat) : List (Int × Int) :=
  (List.range d).map fun i =>
    let cr := s.containers.map fun c => (c.getD i (0, 0)).1
    let cl := s.containers.map fun c => (c.getD i (0, 0)).2
    let ir := s.inits.map fun c => (⟨c.1, (c.2.getD i (0, 0)).1⟩ : InitC)
    let il := s.inits.map fun c => (⟨c.1, (c.2.getD i (0, 0)).2⟩ : InitC)
    let pl := s.podLevel.getD i (none, none)
    let ov := s.overhead.getD i 0
    (podRequest cr ir pl.1 ov, podLimit cl il pl.2 ov)

/-- overwrite the derived fields of a pod description by what the glue computes from the raw shape -/
def PodShape.apply (s : PodShape) (d : Nat) (p : PodDesc) : PodDesc :=
  let cls := resolveClass s.cls
  { p with cls := cls, specId := some s.specId,
           customFactors := parseFactors s.fKind s.fs, customSched := parseSecs s.sKind s.sVal,
           customInit := parseSecs s.iKind s.iVal,
           -- a free-class pod has no translated resource name: nothing is read
           res := if cls == 4 then (List.range d).map (fun _ => (0, 0)) else s.res d }

end KoordVerif.C08
