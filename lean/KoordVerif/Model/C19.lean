/-
C19 — scheduler allocation state survives a restart.  Core-only executable model of

  pkg/util/cpuset/cpuset.go                      CPUSet.String, Parse            (text level, bytes)
  pkg/scheduler/plugins/nodenumaresource/
      plugin.go            preBindObject         (persist: PodAllocation -> ResourceStatus record)
      pod_eventhandler.go  updatePod, deletePod  (restore + informer event handling)
      node_allocation.go   update, addPodAllocation, release, getAvailableCPUs (the ledger)

The deviceshare and reservation ledgers live in Model/C19Dev.lean and Model/C19Rsv.lean.
A CPU-set text is a `List Nat` of bytes (Go strings are byte strings); a CPU set is a strictly
ascending `List Nat` (CPU ids are non-negative).
-/
namespace KoordVerif.C19

/-! ## 1. CPU-set text codec (pkg/util/cpuset/cpuset.go) -/

abbrev Text := List Nat

def cComma : Nat := 44
def cDash  : Nat := 45
def cPlus  : Nat := 43

/-- `maxAvailableCPUCount` -/
def maxCPU : Nat := 4096
/-- `strconv.ParseInt(_, 10, 32)` upper bound -/
def maxInt32 : Nat := 2147483647

/-- `strconv.Itoa` for a non-negative value: most significant digit first. -/
def itoaAux (n : Nat) (acc : Text) : Text :=
  if n < 10 then (48 + n) :: acc else itoaAux (n / 10) ((48 + n % 10) :: acc)
termination_by n
decreasing_by omega

def itoa (n : Nat) : Text := itoaAux n []

/-- digit loop of `strconv.ParseUint(s, 10, _)` (base 10: no underscores allowed). -/
def parseAcc : Nat → Text → Option Nat
  | a, [] => some a
  | a, c :: cs => if 48 ≤ c ∧ c ≤ 57 then parseAcc (a * 10 + (c - 48)) cs else none

/-- `strconv.ParseInt(s, 10, 32)` restricted to what `Parse` can hand it: the piece never contains
    `-` (it was split on `-`), so only an optional `+` sign is possible.  `none` = any error
    (syntax, empty, out of int32 range). -/
def parseInt32 (s : Text) : Option Nat :=
  let body := match s with
    | c :: r => if c = cPlus then r else s
    | [] => s
  if body = [] then none else
  match parseAcc 0 body with
  | some v => if v ≤ maxInt32 then some v else none
  | none => none

/-- `strings.Split(s, sep)` for a one-byte separator: always at least one piece. -/
def splitOn (sep : Nat) : Text → List Text
  | [] => [[]]
  | c :: cs =>
    if c = sep then [] :: splitOn sep cs else
    match splitOn sep cs with
    | [] => [[c]]
    | p :: ps => (c :: p) :: ps

/-- `[s, s+1, …, e]` (empty when `e < s`): the loop `for e := start; e <= end; e++`. -/
def rangeList (s e : Nat) : List Nat := List.range' s (e + 1 - s)

/-- set insert into a strictly ascending list (the builder's map, read back by `ToSlice`). -/
def insertSet (x : Nat) : List Nat → List Nat
  | [] => [x]
  | y :: ys => if x < y then x :: y :: ys else if x = y then y :: ys else y :: insertSet x ys

def toSet (xs : List Nat) : List Nat := xs.foldl (fun s x => insertSet x s) []

/-- one comma-separated piece of `Parse`: the elements it adds, `none` = error. -/
def parsePiece (p : Text) : Option (List Nat) :=
  match splitOn cDash p with
  | [a] => (parseInt32 a).map (fun x => [x])
  | [a, b] =>
    match parseInt32 a with
    | none => none
    | some s =>
      match parseInt32 b with
      | none => none
      | some e => if e > maxCPU then none else some (rangeList s e)
  | _ => none

def parsePieces : List Text → Option (List Nat)
  | [] => some []
  | p :: ps =>
    match parsePiece p with
    | none => none
    | some xs =>
      match parsePieces ps with
      | none => none
      | some ys => some (xs ++ ys)

/-- `cpuset.Parse`: `none` = error, otherwise the set (ascending). -/
def parseText (t : Text) : Option (List Nat) :=
  if t = [] then some [] else (parsePieces (splitOn cComma t)).map toSet

structure Rng where
  start : Nat
  stop  : Nat
deriving Repr, DecidableEq

/-- range compression loop of `CPUSet.String` over the sorted elements. -/
def compressGo (s e : Nat) : List Nat → List Rng
  | [] => [⟨s, e⟩]
  | x :: xs => if x = e + 1 then compressGo s x xs else ⟨s, e⟩ :: compressGo x x xs

def compress : List Nat → List Rng
  | [] => []
  | x :: xs => compressGo x x xs

def fmtRng (r : Rng) : Text :=
  if r.start = r.stop then itoa r.start else itoa r.start ++ cDash :: itoa r.stop

def joinComma : List Text → Text
  | [] => []
  | [p] => p
  | p :: q :: ps => p ++ cComma :: joinComma (q :: ps)

/-- `CPUSet.String` of an ascending set. -/
def formatText (s : List Nat) : Text := joinComma ((compress s).map fmtRng)

/-! ## 2. NUMA ledger (node_allocation.go) -/

/-- one `NUMANodeResource`: node id, cpu (milli), memory (bytes); a missing key is 0. -/
structure NumaRes where
  node : Nat
  cpu  : Int
  mem  : Int
deriving Repr, DecidableEq

/-- `PodAllocation` (UID, CPUSet, CPUExclusivePolicy enum, NUMANodeResources in slice order). -/
structure PodAlloc where
  uid  : Nat
  cpus : List Nat
  excl : Nat
  numa : List NumaRes
deriving Repr, DecidableEq

/-- `NodeAllocation`.  `allocatedCPUs : map cpu -> {RefCount, ExclusivePolicy}` is kept as the
    multiset `bag` of CPU ids (RefCount c = multiplicity of c; the entry is deleted at 0) plus the
    last-writer list `mark` (the newest `cpuInfo.ExclusivePolicy = …` assignment first).
    `sharedNode` / `singleNUMANode : map node -> set uid` are sets of (node, uid) pairs. -/
structure St where
  pods   : List PodAlloc
  bag    : List Nat
  mark   : List (Nat × Nat)
  res    : List (Nat × Int × Int)
  shared : List (Nat × Nat)
  single : List (Nat × Nat)
deriving Repr, DecidableEq

def St.init : St := { pods := [], bag := [], mark := [], res := [], shared := [], single := [] }

def findPod (uid : Nat) : List PodAlloc → Option PodAlloc
  | [] => none
  | p :: ps => if p.uid = uid then some p else findPod uid ps

def erasePod (uid : Nat) : List PodAlloc → List PodAlloc
  | [] => []
  | p :: ps => if p.uid = uid then ps else p :: erasePod uid ps

/-- `cpuTopology.CPUDetails[cpu].NodeID` (0 for a CPU the topology does not know). -/
def nodeOf (topo : List Nat) (cpu : Nat) : Nat := topo.getD cpu 0

def getRes (m : List (Nat × Int × Int)) (k : Nat) : Int × Int :=
  match m with
  | [] => (0, 0)
  | (k', v) :: r => if k' = k then v else getRes r k

def hasRes (m : List (Nat × Int × Int)) (k : Nat) : Bool := m.any (fun e => e.1 == k)

def setRes (m : List (Nat × Int × Int)) (k : Nat) (v : Int × Int) : List (Nat × Int × Int) :=
  match m with
  | [] => [(k, v)]
  | (k', v') :: r => if k' = k then (k, v) :: r else (k', v') :: setRes r k v

/-- `res.Resources = quotav1.Add(res.Resources, numaNodeRes.Resources)` (entry created if nil). -/
def addRes (m : List (Nat × Int × Int)) (r : NumaRes) : List (Nat × Int × Int) :=
  let v := getRes m r.node
  setRes m r.node (v.1 + r.cpu, v.2 + r.mem)

def clamp0 (x : Int) : Int := if x > 0 then x else 0

/-- `if res != nil { res.Resources = quotav1.SubtractWithNonNegativeResult(res.Resources, …) }` -/
def subRes (m : List (Nat × Int × Int)) (r : NumaRes) : List (Nat × Int × Int) :=
  if hasRes m r.node then
    let v := getRes m r.node
    setRes m r.node (clamp0 (v.1 - r.cpu), clamp0 (v.2 - r.mem))
  else m

def insertPair (p : Nat × Nat) (s : List (Nat × Nat)) : List (Nat × Nat) :=
  if s.contains p then s else p :: s

def dedupNat : List Nat → List Nat
  | [] => []
  | x :: xs => if xs.contains x then dedupNat xs else x :: dedupNat xs

/-- `addPodAllocation` -/
def addPod (topo : List Nat) (s : St) (a : PodAlloc) : St :=
  match findPod a.uid s.pods with
  | some _ => s
  | none =>
    let used := dedupNat (a.cpus.map (nodeOf topo))
    let sh := if used.length > 1 then used.foldl (fun acc ni => insertPair (ni, a.uid) acc) s.shared else s.shared
    let si := match used with
      | [ni] => insertPair (ni, a.uid) s.single
      | _ => s.single
    { pods := a :: s.pods
      bag := a.cpus ++ s.bag
      mark := a.cpus.map (fun c => (c, a.excl)) ++ s.mark
      res := a.numa.foldl addRes s.res
      shared := sh
      single := si }

/-- `release` -/
def release (topo : List Nat) (s : St) (uid : Nat) : St :=
  match findPod uid s.pods with
  | none => s
  | some a =>
    -- CPUs of the pod that still have an entry (`if !ok { continue }`)
    let present := a.cpus.filter (fun c => s.bag.contains c)
    let used := dedupNat (present.map (nodeOf topo))
    let drop := fun (l : List (Nat × Nat)) => l.filter (fun p => !(used.contains p.1 && p.2 == uid))
    { pods := erasePod uid s.pods
      bag := a.cpus.foldl (fun b c => b.erase c) s.bag
      mark := s.mark
      res := a.numa.foldl subRes s.res
      shared := drop s.shared
      single := drop s.single }

/-- `update` = `release` then `addPodAllocation` -/
def update (topo : List Nat) (s : St) (a : PodAlloc) : St := addPod topo (release topo s a.uid) a

/-! ## 3. persist / restore (plugin.go preBindObject, pod_eventhandler.go updatePod) -/

/-- the `ResourceStatus` record below JSON: CPU-set text + NUMA records with `int32` node ids. -/
structure Annot where
  text : Text
  numa : List NumaRes
deriving Repr, DecidableEq

/-- `int32(nodeRes.Node)` then `int(numaNodeRes.Node)`: identity below 2^31 (the model keeps
    node ids natural and the harness generates small ones; wrap-around is out of scope). -/
def persist (a : PodAlloc) : Annot := { text := formatText a.cpus, numa := a.numa }

/-- restore of one annotated object: `none` = the handler returns without touching the cache
    (unparsable CPU set, or nothing allocated). -/
def restore (uid excl : Nat) (an : Annot) : Option PodAlloc :=
  match parseText an.text with
  | none => none
  | some cpus =>
    if an.numa.length = 0 ∧ cpus = [] then none
    else some { uid := uid, cpus := cpus, excl := excl, numa := an.numa }

/-- the `PreferredCPUExclusivePolicy` a handler will read back from the object after PreBind
    (plugin.go `appendResourceSpecIfMissed`, util/reservation `NewReservePod`).  `kind` 0 = pod,
    1 = Reservation whose resource-spec annotation sits on the Reservation itself, 2 = Reservation whose
    resource-spec annotation sits on `spec.template`.  `appendResourceSpecIfMissed` starts from the
    object's own spec annotation, or (since commit 50a5eb3) from the template's when a Reservation has
    none of its own, and only fills in bind-policy fields, so the written-back spec keeps the exclusive
    policy for every kind. -/
def persistedExcl (_kind : Nat) (a : PodAlloc) : Nat := a.excl

/-- an object as the API server holds it. -/
structure Obj where
  uid      : Nat
  assigned : Bool      -- spec.nodeName ≠ ""
  term     : Bool      -- util.IsPodTerminated
  excl     : Nat       -- resourceSpec.PreferredCPUExclusivePolicy (annotation of the object)
  annot    : Option Annot  -- resource-status annotation (none = absent)
deriving Repr, DecidableEq

/-- `podEventHandler.updatePod(oldPod, pod)`; `old` = the old object of an update event. -/
def onUpdate (topo : List Nat) (s : St) (old : Option Obj) (o : Obj) : St :=
  if !o.assigned then
    match old with
    | some od => if od.assigned then release topo s od.uid else s
    | none => s
  else if o.term then release topo s o.uid
  else
    -- GetResourceStatus on a missing annotation yields the empty status
    let an := o.annot.getD { text := [], numa := [] }
    match restore o.uid o.excl an with
    | none => s
    | some a => update topo s a

/-- `podEventHandler.deletePod` -/
def onDelete (topo : List Nat) (s : St) (o : Obj) : St :=
  if !o.assigned then s else release topo s o.uid

/-- `podEventHandler.updatePod` on a resourceManager whose topologyOptionsManager has no valid CPU topology for
    the node yet (`valid = false`: the NodeResourceTopology has not been delivered): `resourceManager.Update`
    returns before touching the ledger (`!topologyOptions.CPUTopology.IsValid()`), so the record branch is a
    no-op; `Release` does not look at the topology options, so the release branches are unchanged. -/
def onUpdateT (valid : Bool) (topo : List Nat) (s : St) (old : Option Obj) (o : Obj) : St :=
  if valid then onUpdate topo s old o
  else if !o.assigned then
    match old with
    | some od => if od.assigned then release topo s od.uid else s
    | none => s
  else if o.term then release topo s o.uid
  else s

/-- the same object before the bind: `spec.nodeName = ""`, annotations (PreBind wrote them first) unchanged. -/
def Obj.unbound (o : Obj) : Obj := { o with assigned := false }

/-! ## 4. canonical observations -/

def insertSorted (x : Nat) : List Nat → List Nat
  | [] => [x]
  | y :: ys => if x ≤ y then x :: y :: ys else y :: insertSorted x ys

def sortNat (xs : List Nat) : List Nat := xs.foldr insertSorted []

def refCount (s : St) (c : Nat) : Nat := s.bag.count c

def markOf (m : List (Nat × Nat)) (c : Nat) : Nat :=
  match m with
  | [] => 0
  | (c', e) :: r => if c' = c then e else markOf r c

/-- `GetAvailableCPUs` with no reserved / preferred CPUs: topology CPUs whose RefCount < maxRef. -/
def availCPUs (topo : List Nat) (maxRef : Nat) (s : St) : List Nat :=
  (List.range topo.length).filter (fun c => refCount s c < maxRef)

end KoordVerif.C19
