import KoordVerif.Model.C06
import KoordVerif.Model.C06Pick
import KoordVerif.Model.C06Alloc
/-
C06, reservation restore arithmetic on the NUMA level (extension round 4).  Executable model, core-only, of

  pkg/scheduler/plugins/nodenumaresource/reservation.go
      Plugin.RestoreReservation (filterFn: allocatable = the reserve pod's ledger record, allocated = Σ records of
          the assigned owner pods, remained = allocatable − allocated, SIGNED: subtractAllocated(…, false))
      mergeReservationAllocations (mergedUnmatchedUsed = Σ max(allocatable − remained, 0),
          mergedMatchedAllocated = Σ allocated)
      tryAllocateFromReusable (Default / Aligned policy: reusable = unmatchedUsed + matchedAllocated + remained of
          the nominated reservation; a failure is final - no fall back to the node)
      allocateWithNominated / getNominatedReusableAlloc (the nominated reservation must be in restoreState.matched)
  pkg/scheduler/plugins/nodenumaresource/plugin.go
      tryAllocateFromNode (reusable = unmatchedUsed + matchedAllocated), Plugin.Allocate (the Filter-time probe:
          any matched reservation, else the node), Reserve → allocate
  pkg/scheduler/plugins/nodenumaresource/node_allocation.go
      getAvailableNUMANodeResources with reusable resources:
          available = max(capacity − max(recorded − reusable, 0), 0)

`clamp = false` is the code as it is; `clamp = true` is the shape subtractAllocated(…, true) for `remained`.
Only pods without cpu bind (no CPU ids), no cpu amplification, allocate policy Default / Aligned.
-/
namespace KoordVerif.C06

def sumI (l : List Int) : Int := l.foldr (· + ·) 0

/-- the amount a flattened NUMA allocation names for cell `k`. -/
def numaAt : List (Nat × Int) → Nat → Int
  | [], _ => 0
  | e :: l, k => (if e.1 = k then e.2 else 0) + numaAt l k

/-- `resourceManager.GetAllocatedNUMAResource(node, uid)` read on one cell (no record ⇒ 0). -/
def recAt (L : Ledger) (uid : Nat) (k : Nat) : Int :=
  match findPod L.pods uid with
  | some p => numaAt p.numa k
  | none => 0

/-- a reservation on the node: the uid of its reserve pod and the uids of `rInfo.AssignedPods`. -/
structure Rsv where
  uid    : Nat
  owners : List Nat
deriving Repr, DecidableEq

/-- filterFn keeps a reservation only if its reserve pod has a non-empty NUMA record (no CPU sets here). -/
def rsvIn (L : Ledger) (r : Rsv) : Bool :=
  match findPod L.pods r.uid with
  | some p => !p.numa.isEmpty
  | none => false

/-- the reserve pod's record names cell `k` (the resource is a key of `allocatable[node]`). -/
def recHas (L : Ledger) (uid : Nat) (k : Nat) : Bool :=
  match findPod L.pods uid with
  | some p => p.numa.any (·.1 == k)
  | none => false

/-- one cell of one reservation: `r` = allocatable (the reserve pod's record), `o` = allocated (owners' records),
    `has` = the cell is a key of the reserve pod's record. -/
structure RC where
  r   : Int
  o   : Int
  has : Bool := true
deriving Repr, DecidableEq

def rcOf (L : Ledger) (x : Rsv) (k : Nat) : RC :=
  { r := recAt L x.uid k, o := sumI (x.owners.map fun u => recAt L u k), has := recHas L x.uid k }

/-- `remained` on one cell. -/
def rcRemained (clamp : Bool) (x : RC) : Int := if clamp then max (x.r - x.o) 0 else x.r - x.o

/-- mergeReservationAllocations, unmatched: `SubtractWithNonNegativeResult(allocatable, remained)` - which ranges
    over the keys of `allocatable` only: a cell the reserve pod's record does not name comes out as zero, whatever
    (negative) amount `remained` carries for it. -/
def rcUsed (clamp : Bool) (x : RC) : Int := if x.has then max (x.r - rcRemained clamp x) 0 else 0

/-- `mergedUnmatchedUsed + mergedMatchedAllocated` on one cell (`um` / `m` = cell views of the kept unmatched /
    matched reservations). -/
def reuseNodeCell (clamp : Bool) (um m : List RC) : Int :=
  sumI (um.map (rcUsed clamp)) + sumI (m.map (·.o))

/-- tryAllocateFromReusable: `… + alloc.remained` of the nominated reservation `n` (which is one of `m`). -/
def reuseRsvCell (clamp : Bool) (um m : List RC) (n : RC) : Int :=
  reuseNodeCell clamp um m + rcRemained clamp n

def reusableNode (clamp : Bool) (L : Ledger) (m um : List Rsv) (k : Nat) : Int :=
  reuseNodeCell clamp ((um.filter (rsvIn L)).map (rcOf L · k)) ((m.filter (rsvIn L)).map (rcOf L · k))

def reusableRsv (clamp : Bool) (L : Ledger) (m um : List Rsv) (n : Rsv) (k : Nat) : Int :=
  reuseRsvCell clamp ((um.filter (rsvIn L)).map (rcOf L · k)) ((m.filter (rsvIn L)).map (rcOf L · k)) (rcOf L n k)

/-- node_allocation.go `getAvailableNUMANodeResources` on one cell with reusable resources (no amplification). -/
def availableCellReuse (cap : Int) (L : Ledger) (reuse : Nat → Int) (k : Nat) : Int :=
  if nodeHasEntry L.res (k / 16) then max (cap - max (getI L.res k - reuse k) 0) 0 else max cap 0

def freeForReuse (cfg : NodeCfg) (L : Ledger) (reuse : Nat → Int) (d nd : Nat) : Int :=
  let k := nd * 16 + d
  match cfg.capacity.find? (·.1 == k) with
  | none => 0
  | some e => availableCellReuse e.2 L reuse k

/-- a pod without cpu bind: cpu is split in milli, everything else in whole units. -/
def plainReq (uid : Nat) (hint : List Nat) (reqs : List (Nat × Int)) : AllocReq :=
  { uid := uid, excl := 0, bind := 0, required := false, cpuBind := false, ncpu := 0, hint := some hint, reqs := reqs }

/-- resourceManager.Allocate for a pod without cpu bind, with `options.reusableResources = reuse`. -/
def allocateReuse (cfg : NodeCfg) (L : Ledger) (reuse : Nat → Int) (uid : Nat) (hint : List Nat)
    (reqs : List (Nat × Int)) : Option PodAlloc :=
  if cfg.caps.isEmpty then none else
  let req := plainReq uid hint reqs
  let cells := reqs.foldl (fun acc r =>
    match acc with
    | none => none
    | some cells =>
      let o := numaSplit (modeFor cfg req r.1) (declaredDim cfg L r.1) (freeForReuse cfg L reuse r.1) hint r.2
      if o.failed then none else some (cells ++ o.allocs.map (fun a => (a.1 * 16 + r.1, a.2)))) (some [])
  cells.map fun c => { uid := uid, excl := 0, cpus := [], numa := c }

structure RsvReq where
  uid       : Nat
  hint      : List Nat
  reqs      : List (Nat × Int)
  matched   : List Rsv
  unmatched : List Rsv
  nominated : Option Nat      -- uid of the reserve pod of the nominated reservation
deriving Repr

/-- Reserve → allocate → allocateWithNominated / tryAllocateFromNode. -/
def reserveRsv (clamp : Bool) (cfg : NodeCfg) (L : Ledger) (q : RsvReq) : Option PodAlloc :=
  match q.nominated.bind (fun n => (q.matched.filter (rsvIn L)).find? (·.uid == n)) with
  | some n => allocateReuse cfg L (reusableRsv clamp L q.matched q.unmatched n) q.uid q.hint q.reqs
  | none => allocateReuse cfg L (reusableNode clamp L q.matched q.unmatched) q.uid q.hint q.reqs

/-- Filter → FilterByNUMANode → Plugin.Allocate: some matched reservation admits the pod, or the node does. -/
def filterRsv (clamp : Bool) (cfg : NodeCfg) (L : Ledger) (q : RsvReq) : Bool :=
  ((q.matched.filter (rsvIn L)).any fun n =>
      (allocateReuse cfg L (reusableRsv clamp L q.matched q.unmatched n) q.uid q.hint q.reqs).isSome) ||
    (allocateReuse cfg L (reusableNode clamp L q.matched q.unmatched) q.uid q.hint q.reqs).isSome

end KoordVerif.C06
