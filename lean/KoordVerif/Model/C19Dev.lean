import KoordVerif.Common.Proto
import KoordVerif.Model.C19DevVF
import KoordVerif.Model.C19Boot
/-
C19 (deviceshare part): model of the per-node device ledger of the scheduler's deviceshare plugin,
as it is driven by Reserve/Unreserve and by the pod informer handlers, and of the rebuild of a
fresh cache from the surviving annotated pods.

Go code mirrored (pkg/scheduler/plugins/deviceshare):
  device_cache.go      nodeDevice.updateCacheUsed / isValid / updateDeviceUsed / resetDeviceFree /
                       updateAllocateSet
  eventhandler_pod.go  onPodAdd / onPodUpdate / onPodDelete -> updatePod / deletePod
  plugin.go            Reserve (updateCacheUsed add), Unreserve (updateCacheUsed remove),
                       preBindObject (apiext.SetDeviceAllocations; the JSON codec is exercised by the
                       harness, not modelled)

Value semantics: a missing map key is the quantity 0 (the harness prints only non-zero values), so
`delete(deviceUsed, minor)` when the remainder IsZero and the zero-valued keys left behind by
quotav1.SubtractWithNonNegativeResult are not represented.  Quantities are integers >= 0 (the
driver answers `bad-op` to a negative amount or total and to a duplicate dimension in one item:
a corev1.ResourceList is a map).

Quirks kept as written:
  * isValid is evaluated per (device type, pod): an add for a pod already in allocateSet[type] is
    skipped entirely (whatever allocation it carries); a remove for a pod not in it is skipped.
  * a remove subtracts the allocation CARRIED BY THE EVENT (pod annotation), not the recorded one,
    item by item, each subtraction clamped at 0 (SubtractWithNonNegativeResult) - and the clamp is
    applied to every dimension present for that minor, not only to the subtracted ones.
  * an add sums every item into deviceUsed (duplicate minors in one list are added twice) while
    allocateSet records one ResourceList per minor, last write wins.
  * deviceFree[type] is recomputed from scratch after every accepted add/remove of that type as
    total - used clamped at 0 (resetDeviceFree); since every write to deviceUsed[type] is followed
    by resetDeviceFree(type) under the same lock, the model derives free from total and used.
  * onPodUpdate(old, new) with both annotated = remove(old allocation) then add(new allocation).

The VF ledger (nodeDevice.vfAllocations) lives in Model/C19DevVF.lean; section "pairing with the VF
ledger" below runs it next to `St` under the SAME isValid guard (updateCacheVFAllocations is called
at the end of updateDeviceUsed), and the sub-driver at the end of this file runs the paired model.
-/
namespace KoordVerif.C19.Dev
open KoordVerif.Proto

/-- (node, device type, minor, resource dimension) -/
abbrev Slot := Int × Int × Int × Int
/-- (node, device type, pod): the key of `nodeDevice.allocateSet[type][pod]` on one node -/
abbrev GKey := Int × Int × Int
/-- a corev1.ResourceList restricted to the known dimensions: (dimension, amount) -/
abbrev RL := List (Int × Int)
/-- one apiext.DeviceAllocation: (minor, resources) -/
abbrev Item := Int × RL
abbrev Tab := List (Slot × Int)

/-- the allocation of one pod for one device type: `DeviceAllocations[type]` plus where it lives -/
structure Group where
  node : Int
  ty : Int
  pod : Int
  items : List Item
deriving DecidableEq, Repr

def Group.key (g : Group) : GKey := (g.node, g.ty, g.pod)

/-- map lookup, missing = 0 -/
def get : Tab → Slot → Int
  | [], _ => 0
  | (k', v) :: t, k => if k' = k then v else get t k

/-- `m[k] += d`, creating the key -/
def bump : Tab → Slot → Int → Tab
  | [], k, d => [(k, d)]
  | (k', v) :: t, k, d => if k' = k then (k', v + d) :: t else (k', v) :: bump t k d

/-- amount of dimension `d` in a resource list -/
def rlSum : RL → Int → Int
  | [], _ => 0
  | (d', a) :: r, d => (if d' = d then a else 0) + rlSum r d

def slotMatches (n t m : Int) (k : Slot) : Bool := k.1 = n ∧ k.2.1 = t ∧ k.2.2.1 = m

/-- what one DeviceAllocation of (node n, type t) takes at slot `k` -/
def itemAmt (n t : Int) (it : Item) (k : Slot) : Int :=
  if slotMatches n t it.1 k then rlSum it.2 k.2.2.2 else 0

/-- device_cache.go updateDeviceUsed, add branch, one allocation:
    `deviceUsed[minor] = quotav1.Add(deviceUsed[minor], allocation.Resources)` -/
def addItem (n t : Int) (u : Tab) (it : Item) : Tab :=
  it.2.foldl (fun u e => bump u (n, t, it.1, e.1) e.2) u

/-- device_cache.go updateDeviceUsed, remove branch, one allocation:
    `used := quotav1.SubtractWithNonNegativeResult(deviceUsed[minor], allocation.Resources)`:
    every key present for that minor becomes max(0, v - b[key]) (b[key] = 0 when absent). -/
def rmItem (n t : Int) (u : Tab) (it : Item) : Tab :=
  u.map fun e => if slotMatches n t it.1 e.1 then (e.1, max 0 (e.2 - rlSum it.2 e.1.2.2.2)) else e

/-- device_cache.go updateAllocateSet, add branch: `resources[minor] = allocation.Resources` in list
    order, last write wins. -/
def recordItems (items : List Item) : List Item :=
  items.foldl (fun r it => r.filter (fun x => x.1 ≠ it.1) ++ [it]) []

structure St where
  total : Tab
  used : Tab
  aset : List (GKey × List Item)
deriving Repr

def St.init (total : Tab) : St := { total := total, used := [], aset := [] }

/-- `_, ok := n.allocateSet[deviceType][pod]` -/
def recorded (aset : List (GKey × List Item)) (k : GKey) : Bool := aset.any (fun e => e.1 = k)

/-- device_cache.go updateCacheUsed(add = true) for one device type: isValid guard,
    updateDeviceUsed, (resetDeviceFree: derived), updateAllocateSet. -/
def addGroup (st : St) (g : Group) : St :=
  if recorded st.aset g.key then st else
  { st with used := g.items.foldl (addItem g.node g.ty) st.used,
            aset := st.aset ++ [(g.key, recordItems g.items)] }

/-- device_cache.go updateCacheUsed(add = false) for one device type. -/
def rmGroup (st : St) (g : Group) : St :=
  if recorded st.aset g.key then
    { st with used := g.items.foldl (rmItem g.node g.ty) st.used,
              aset := st.aset.filter (fun e => e.1 ≠ g.key) }
  else st

/-- events at (pod, device type) granularity.  A pod event is the list of its per-type events
    (`updateCacheUsed` loops over the types; the state of different types is disjoint). -/
inductive Ev where
  | add (g : Group)   -- Reserve / onPodAdd / onPodUpdate(unassigned, assigned)
  | del (g : Group)   -- Unreserve / onPodDelete / update to a terminated pod; carries g
  | upd (g : Group)   -- onPodUpdate(old, new) both carrying g: remove then add
deriving Repr

def Ev.grp : Ev → Group
  | .add g => g | .del g => g | .upd g => g

/-- eventhandler_pod.go updatePod / deletePod, plugin.go Reserve / Unreserve -/
def step (st : St) : Ev → St
  | .add g => addGroup st g
  | .del g => rmGroup st g
  | .upd g => addGroup (rmGroup st g) g

def run (st : St) (h : List Ev) : St := h.foldl step st

/-- a fresh cache fed one add event per group -/
def build (total : Tab) (l : List Group) : St := l.foldl addGroup (St.init total)

/-- the harness' bookkeeping of what the API server holds (independent of the cache) -/
def liveStep (L : List Group) : Ev → List Group
  | .add g => if L.any (fun x => x.key = g.key) then L else L ++ [g]
  | .del g => L.filter (fun x => x.key ≠ g.key)
  | .upd g => L.filter (fun x => x.key ≠ g.key) ++ [g]

def survivors (h : List Ev) : List Group := h.foldl liveStep []

/-! ### pairing with the VF ledger (Model/C19DevVF.lean) -/

/-- a group together with the `Extension.VirtualFunctions` of its DeviceAllocations: one entry
    (minor, bus ids) per allocation in list order, `[]` for an allocation without VFs -/
structure VGroup where
  g : Group
  vfs : List VItem
deriving DecidableEq, Repr

def VGroup.key (v : VGroup) : GKey := v.g.key

/-- what the allocation holds in the VF ledger (after getVFAllocations) -/
def VGroup.ents (v : VGroup) : List VEnt := vfEnts v.g.node v.g.ty v.vfs

structure StV where
  st : St
  vf : VFTab
deriving Repr

def StV.init (total : Tab) : StV := { st := St.init total, vf := [] }

/-- device_cache.go updateCacheUsed(add = true) for one device type, with the VF bookkeeping:
    isValid guard, updateDeviceUsed (ends with updateCacheVFAllocations -> updateVFAllocations),
    updateAllocateSet.  A skipped add does not touch the VF ledger either. -/
def addGroupV (s : StV) (v : VGroup) : StV :=
  if recorded s.st.aset v.g.key then s else
  { st := addGroup s.st v.g, vf := vfAdd v.g.node v.g.ty s.vf v.vfs }

/-- device_cache.go updateCacheUsed(add = false) for one device type, with the VF bookkeeping: the
    VFs removed are those CARRIED BY THE EVENT. -/
def rmGroupV (s : StV) (v : VGroup) : StV :=
  if recorded s.st.aset v.g.key then
    { st := rmGroup s.st v.g, vf := vfRemove v.g.node v.g.ty s.vf v.vfs }
  else s

inductive VEv where
  | add (v : VGroup)
  | del (v : VGroup)
  | upd (v : VGroup)
deriving Repr

def VEv.grp : VEv → VGroup
  | .add v => v | .del v => v | .upd v => v

/-- forgetting the VFs -/
def VEv.ev : VEv → Ev
  | .add v => .add v.g | .del v => .del v.g | .upd v => .upd v.g

def stepV (s : StV) : VEv → StV
  | .add v => addGroupV s v
  | .del v => rmGroupV s v
  | .upd v => addGroupV (rmGroupV s v) v

def runV (s : StV) (h : List VEv) : StV := h.foldl stepV s

/-- a fresh cache fed one add event per allocation -/
def buildV (total : Tab) (l : List VGroup) : StV := l.foldl addGroupV (StV.init total)

/-- what the API server holds (as `liveStep`, with the VFs) -/
def vliveStep (L : List VGroup) : VEv → List VGroup
  | .add v => if L.any (fun x => x.key = v.key) then L else L ++ [v]
  | .del v => L.filter (fun x => x.key ≠ v.key)
  | .upd v => L.filter (fun x => x.key ≠ v.key) ++ [v]

def vsurvivors (h : List VEv) : List VGroup := h.foldl vliveStep []

/-! ### observations (value based) -/

def usedAt (st : St) (k : Slot) : Int := get st.used k

/-- device_cache.go resetDeviceFree: `SubtractWithNonNegativeResult(total[minor], used[minor])` -/
def freeAt (st : St) (k : Slot) : Int := max 0 (get st.total k - get st.used k)

def asetAt (st : St) (k : GKey) : Option (List Item) :=
  match st.aset.find? (fun e => e.1 = k) with
  | some e => some e.2
  | none => none

/-- value of allocateSet[type][pod][minor][dim] -/
def recAmt (r : List Item) (minor dim : Int) : Int :=
  match r.find? (fun x => x.1 = minor) with
  | some it => rlSum it.2 dim
  | none => 0

/-! ### rendering over a fixed universe of keys (computed from the case's op lines) -/

def lexLt : List Int → List Int → Bool
  | [], [] => false
  | [], _ :: _ => true
  | _ :: _, [] => false
  | a :: as, b :: bs => if a < b then true else if b < a then false else lexLt as bs

def insSorted (k : List Int) : List (List Int) → List (List Int)
  | [] => [k]
  | x :: xs => if k = x then x :: xs else if lexLt k x then k :: x :: xs else x :: insSorted k xs

def sortDedup (ks : List (List Int)) : List (List Int) := ks.foldl (fun acc k => insSorted k acc) []

structure Univ where
  slots : List Slot                      -- sorted
  gkeys : List GKey                      -- sorted
  akeys : List (GKey × Int × Int)        -- sorted (node,ty,pod,minor,dim)

def render (un : Univ) (st : St) : List String :=
  (un.slots.filterMap fun k =>
      let v := usedAt st k
      if v ≠ 0 then some s!"u {k.1} {k.2.1} {k.2.2.1} {k.2.2.2} {v}" else none)
  ++ (un.slots.filterMap fun k =>
      let v := freeAt st k
      if v ≠ 0 then some s!"f {k.1} {k.2.1} {k.2.2.1} {k.2.2.2} {v}" else none)
  ++ (un.gkeys.filterMap fun k =>
      match asetAt st k with
      | some _ => some s!"p {k.1} {k.2.1} {k.2.2}"
      | none => none)
  ++ (un.akeys.filterMap fun (k, m, d) =>
      match asetAt st k with
      | some r =>
        let v := recAmt r m d
        if v ≠ 0 then some s!"a {k.1} {k.2.1} {k.2.2} {m} {d} {v}" else none
      | none => none)
  ++ ["end"]

/-! ### driver: op lines of one case

  dev inv <node> <ty> <minor> <t0> <t1> <t2>
  dev pod <p> <node> <n> (<ty> <minor> <nres> (<dim> <amt>)^nres)^n [(<nvf> <bus>^nvf)^n]
        the optional tail lists the VirtualFunctions (bus ids) of the n allocations in the same order;
        without it no allocation has VFs
  dev add <p> <via> | dev del <p> <via> | dev upd <p>      live cache, each followed by a block
  dev fresh | dev radd <p> | dev rupd <p> | dev rdel <p> | dev rend     fresh cache, block at rend
  dev boot <gated> <k0> <p>^k0 <k1> <p>^k1    start-up of a fresh plugin behind the handlers-sync barrier (Model/C19Boot.lean)
  block: `u`/`f`/`p`/`a` lines (render), `vf <node> <ty> <minor> <bus>*` lines (vfRender), `end`
-/

structure Pod where
  id : Int
  groups : List VGroup

structure Drv where
  inv : Tab := []
  pods : List Pod := []
  live : StV := StV.init []
  liveStarted : Bool := false
  fresh : StV := StV.init []
  out : List String := []

def parseRL : Nat → List Int → Option (RL × List Int)
  | 0, rest => some ([], rest)
  | n+1, d :: a :: rest =>
    match parseRL n rest with
    | some (rl, rest') => some ((d, a) :: rl, rest')
    | none => none
  | _, _ => none

/-- n allocations `<ty> <minor> <nres> (<dim> <amt>)^nres`, returns the unread tail -/
def parseItemsR : Nat → List Int → Option (List (Int × Item) × List Int)
  | 0, rest => some ([], rest)
  | n+1, ty :: minor :: nres :: rest =>
    if nres < 0 then none else
    match parseRL nres.toNat rest with
    | some (rl, rest') =>
      match parseItemsR n rest' with
      | some (more, tail) => some ((ty, (minor, rl)) :: more, tail)
      | none => none
    | none => none
  | _, _ => none

/-- n bus-id lists `<nvf> <bus>^nvf`, nothing may follow -/
def parseVFs : Nat → List Int → Option (List (List Int))
  | 0, [] => some []
  | 0, _ => none
  | n+1, nvf :: rest =>
    if nvf < 0 ∨ rest.length < nvf.toNat then none else
    match parseVFs n (rest.drop nvf.toNat) with
    | some more => some (rest.take nvf.toNat :: more)
    | none => none
  | _, _ => none

def nodupInts : List Int → Bool
  | [] => true
  | x :: xs => !xs.contains x && nodupInts xs

def itemOK (it : Item) : Bool := it.2.all (fun e => decide (0 ≤ e.2)) && nodupInts (it.2.map (·.1))

def dedupInts (xs : List Int) : List Int := xs.foldl (fun acc x => if acc.contains x then acc else acc ++ [x]) []

/-- `DeviceAllocations[type]` per type (first-occurrence order of the types), each allocation with
    its bus-id list -/
def mkVGroups (pod node : Int) (items : List ((Int × Item) × List Int)) : List VGroup :=
  (dedupInts (items.map (·.1.1))).map fun ty =>
    let mine := items.filter (fun x => x.1.1 = ty)
    { g := { node := node, ty := ty, pod := pod, items := mine.map (·.1.2) },
      vfs := mine.map fun x => (x.1.2.1, x.2) }

def Drv.univ (d : Drv) : Univ :=
  let gs := d.pods.flatMap (fun p => p.groups.map (·.g))
  let slotKeys := d.inv.map (fun e => [e.1.1, e.1.2.1, e.1.2.2.1, e.1.2.2.2])
    ++ gs.flatMap (fun g => g.items.flatMap fun it => it.2.map fun e => [g.node, g.ty, it.1, e.1])
  let gk := gs.map fun g => [g.node, g.ty, g.pod]
  let ak := gs.flatMap (fun g => g.items.flatMap fun it => it.2.map fun e => [g.node, g.ty, g.pod, it.1, e.1])
  { slots := (sortDedup slotKeys).filterMap fun
      | [a, b, c, e] => some (a, b, c, e)
      | _ => none
    gkeys := (sortDedup gk).filterMap fun
      | [a, b, c] => some (a, b, c)
      | _ => none
    akeys := (sortDedup ak).filterMap fun
      | [a, b, c, m, e] => some ((a, b, c), m, e)
      | _ => none }

def Drv.vuniv (d : Drv) : VUniv :=
  let vs := d.pods.flatMap (·.groups)
  let ks := vs.flatMap fun v => v.vfs.map fun it => [v.g.node, v.g.ty, it.1]
  let bs := vs.flatMap fun v => v.vfs.flatMap fun it => it.2.map fun b => [b]
  { keys := (sortDedup ks).filterMap fun
      | [a, b, c] => some (a, b, c)
      | _ => none
    buses := (sortDedup bs).filterMap fun
      | [b] => some b
      | _ => none }

/-- one observation block -/
def Drv.block (d : Drv) (s : StV) : List String :=
  (render d.univ s.st).dropLast ++ vfRender d.vuniv s.vf ++ ["end"]

def Drv.podGroups (d : Drv) (p : Int) : Option (List VGroup) :=
  match d.pods.find? (fun x => x.id = p) with
  | some x => some x.groups
  | none => none

def Drv.bad (d : Drv) : Drv := { d with out := d.out ++ ["bad-op"] }

/-- the live cache gets its inventory (updateNodeDevice) before the first live op -/
def Drv.startLive (d : Drv) : Drv :=
  if d.liveStarted then d else { d with live := StV.init d.inv, liveStarted := true }

def Drv.liveOp (d : Drv) (p : Int) (mk : List VGroup → List VEv) : Drv :=
  match d.podGroups p with
  | none => d.bad
  | some gs =>
    let d := d.startLive
    let s := runV d.live (mk gs)
    { d with live := s, out := d.out ++ d.block s }

def Drv.freshOp (d : Drv) (p : Int) (mk : List VGroup → List VEv) : Drv :=
  match d.podGroups p with
  | none => d.bad
  | some gs => { d with fresh := runV d.fresh (mk gs) }

/-- `dev pod` (redef = false: a new pod id) / `dev repod` (redef = true: replaces the definition of a known pod) -/
def Drv.definePod (d : Drv) (redef : Bool) (rest : List String) : Drv :=
  match ints? rest with
  | some (p :: node :: n :: more) =>
    if n < 0 ∨ (d.podGroups p).isSome ≠ redef then d.bad else
    match parseItemsR n.toNat more with
    | some (items, tail) =>
      let vfs? := if tail.isEmpty then some (items.map fun _ => []) else parseVFs n.toNat tail
      match vfs? with
      | some vfs =>
        if items.all (fun x => itemOK x.2) && vfs.all (fun l => l.all (fun b => decide (0 ≤ b))) then
          { d with pods := d.pods.filter (fun x => x.id ≠ p) ++ [{ id := p, groups := mkVGroups p node (items.zip vfs) }] }
        else d.bad
      | none => d.bad
    | none => d.bad
  | _ => d.bad

def stepLine (d : Drv) (line : String) : Drv :=
  match toks line with
  | "dev" :: "inv" :: rest =>
    match ints? rest with
    | some [n, t, m, v0, v1, v2] =>
      if v0 < 0 ∨ v1 < 0 ∨ v2 < 0 ∨ d.liveStarted then d.bad else
      -- buildDeviceResources: nodeDeviceResource[type][minor] = resources (a later line overwrites)
      let inv := d.inv.filter (fun e => !(slotMatches n t m e.1))
      { d with inv := inv ++ [((n, t, m, 0), v0), ((n, t, m, 1), v1), ((n, t, m, 2), v2)] }
    | _ => d.bad
  | "dev" :: "pod" :: rest => d.definePod false rest
  -- ext5: `dev repod <p> …` (same shape as `dev pod`): the NEXT scheduling cycle of pod p, which is not in any cache
  -- at this point (its previous cycle was unreserved), allocates something else
  | "dev" :: "repod" :: rest => d.definePod true rest
  | ["dev", "add", p, via] =>
    match int? p, int? via with
    | some p, some v => if v < 0 ∨ v > 2 then d.bad else d.liveOp p (fun gs => gs.map VEv.add)
    | _, _ => d.bad
  | ["dev", "del", p, via] =>
    match int? p, int? via with
    | some p, some v => if v < 0 ∨ v > 3 then d.bad else d.liveOp p (fun gs => gs.map VEv.del)
    | _, _ => d.bad
  | ["dev", "upd", p] =>
    match int? p with
    -- updatePod: updateCacheUsed(old, remove) over all types, then updateCacheUsed(new, add)
    | some p => d.liveOp p (fun gs => gs.map VEv.del ++ gs.map VEv.add)
    | none => d.bad
  | ["dev", "fresh"] => { d with fresh := StV.init d.inv }
  | ["dev", "radd", p] =>
    match int? p with
    | some p => d.freshOp p (fun gs => gs.map VEv.add)
    | none => d.bad
  | ["dev", "rupd", p] =>
    match int? p with
    | some p => d.freshOp p (fun gs => gs.map VEv.del ++ gs.map VEv.add)
    | none => d.bad
  | ["dev", "rdel", p] =>
    match int? p with
    -- a (late / stale) delete event delivered to the fresh cache
    | some p => d.freshOp p (fun gs => gs.map VEv.del)
    | none => d.bad
  | ["dev", "rend"] => { d with out := d.out ++ d.block d.fresh }
  | "dev" :: "boot" :: rest =>
    -- start-up stream (ext2): `dev boot <gated> <k0> <p>^k0 <k1> <p>^k1`: a fresh plugin is wired with the REAL
    -- registerDeviceEventHandler / registerPodEventHandler; registration 0 = pod informer (initial list p^k0),
    -- 1 = Reservation informer (p^k1); <gated> = the registration whose listener is pinned (2 = none).  As the
    -- code is written BOTH go through ForceSyncFromInformer, i.e. are collected for WaitForHandlersSync
    -- (Ties/C19.lean tie_boot_*).  -> `held <0|1>` `opened <0|1>` + the block the first scheduling cycle sees
    match ints? rest with
    | some (g :: k0 :: more) =>
      if g < 0 ∨ g > 2 ∨ k0 < 0 ∨ more.length < k0.toNat + 1 then d.bad else
      let l0 := more.take k0.toNat
      match more.drop k0.toNat with
      | k1 :: l1 =>
        if k1 < 0 ∨ l1.length ≠ k1.toNat then d.bad else
        let regs : List Boot.RegInfo := [{ inBarrier := true, gated := g = 0 }, { inBarrier := true, gated := g = 1 }]
        let (held, opened, seen) := Boot.bootSeen regs [l0, l1]
        match seen.mapM d.podGroups with
        | none => d.bad
        | some gss =>
          let s := runV (StV.init d.inv) (gss.flatMap (fun gs => gs.map VEv.add))
          { d with out := d.out ++ [s!"held {b2i held}", s!"opened {b2i opened}"] ++ d.block s }
      | [] => d.bad
    | _ => d.bad
  | _ => d.bad

def runCase (lines : List String) : List String := (lines.foldl stepLine {}).out

end KoordVerif.C19.Dev
