import KoordVerif.Model.C09Plugin
/-
C09 — the NodeResource object threaded through one reconcile.  Model of
  pkg/slo-controller/noderesource/framework/noderesource.go   NodeResource (Resources are *resource.Quantity POINTERS,
      Resets, Annotations), NewNodeResource / Set
  pkg/slo-controller/noderesource/plugins/util/util.go        PrepareNodeForResource as a function
      (node, nr) ↦ (node', nr'): what it writes THROUGH the stored pointer (`q.Set(q.Value())` on a non-amplified
      quantity) and what it does on a local copy (`newQuantity := MultiplyMilliQuant(*q, ratio); q = &newQuantity`),
      getCPUNormalizationRatio (strconv.ParseFloat of the NodeResource annotation, `ratio > 1.0` guard)
  pkg/slo-controller/noderesource/plugins/cpunormalization/plugin.go   Prepare (copies the annotation), NeedSyncMeta
  apis/extension/cpu_normalization.go                          GetCPUNormalizationRatio, IsCPUNormalizationRatioDifferent
  pkg/slo-controller/noderesource/resource_calculator.go       updateNodeResource / updateNodeStatus / updateNodeMeta:
      prepareNodeResource runs ONCE PER CALL SITE on the same NodeResource — for the need-sync check, again on the
      freshly read node before Status().Update, again before the meta patch (call sites counted by Ties/C09)
  pkg/slo-controller/noderesource/plugins_profile.go           prepare order: cpunormalization, midresource, batchresource
Stored quantities are in milli units (an integer quantity v is 1000·v), so the in-place rounding is visible.
Core-only.
-/
namespace KoordVerif.C09

/-- the cpu-normalization ratio annotation as the code parses it (strconv.ParseFloat). -/
inductive RatioAnno
  | absent
  | bad                 -- ParseFloat fails
  | pct (r : Int)       -- parsed value × 100 (the plugin writes FormatFloat(ratio,'f',2)); any sign
deriving Repr, DecidableEq

/-- util.go getCPUNormalizationRatio: the ratio handed to the `ratio > 1.0` guard (`none`: −1, never amplifies). -/
def RatioAnno.amp : RatioAnno → Option Int
  | .pct r => some r
  | _ => none

/-- framework.NodeResource, the parts the Prepare chain reads and writes. -/
structure NRes where
  bc : Option Int       -- Resources[batch-cpu], milli value of the stored quantity; none = nil pointer
  bm : Option Int
  mc : Option Int
  mm : Option Int
  resetB : Bool         -- Resets[batch-cpu] = Resets[batch-memory] (both items come from one Calculate / Reset call)
  resetM : Bool
  ratio : RatioAnno     -- Annotations[node.koordinator.sh/cpu-normalization-ratio]
deriving Repr, DecidableEq

/-- `q.Set(q.Value())`: the stored quantity becomes its rounded-up integer value. -/
def roundMilli (m : Int) : Int := 1000 * milliToValue m

/-- util.go PrepareNodeForResource, one resource: (what lands on the node, the stored quantity afterwards).
    `amp` is `some r` only for batch-cpu.  Amplified: the product is a LOCAL quantity (rounded locally), the stored one
    is untouched.  Not amplified: a non-integer stored quantity is rounded up in place (AsInt64 fails for it). -/
def prepareStored (F : FloatOps) (amp : Option Int) (q : Option Int) (reset : Bool) : Ext × Option Int :=
  match q with
  | none => (none, none)
  | some m =>
    if reset then (none, some m)
    else match amp with
      | some r =>
        if r > 100 then (some (milliToValue (F.mulPct m r)), some m)
        else (some (milliToValue m), some (roundMilli m))
      | none => (some (milliToValue m), some (roundMilli m))

/-- batchresource Plugin.Prepare after the two PrepareNodeForResource calls: origin annotation, third-party
    allocations (the tail of `batchPrepare`). -/
def batchFinish (annoNil : Bool) (tp : ThirdParty) (c m : Ext) : BatchPrepared :=
  let bc := c.getD (-1)
  let bm := m.getD (-1)
  let oc := max bc 0
  let om := max bm 0
  let origin := if annoNil then none else some (oc, om)
  if bc < 0 ∨ bm < 0 then { cpu := c, mem := m, origin := origin }
  else match tp with
    | .absent | .bad => { cpu := c, mem := m, origin := origin }
    | .some tc tm => { cpu := some (max (oc - tc.getD 0) 0), mem := some (max (om - tm.getD 0) 0), origin := origin }

/-- batchresource Plugin.Prepare on the NodeResource object. -/
def batchPrepareNR (F : FloatOps) (annoNil : Bool) (tp : ThirdParty) (nr : NRes) : BatchPrepared × NRes :=
  let c := prepareStored F nr.ratio.amp nr.bc nr.resetB
  let m := prepareStored F none nr.bm nr.resetB
  (batchFinish annoNil tp c.1 m.1, { nr with bc := c.2, bm := m.2 })

/-- RunNodePrepareExtenders in registration order (cpunormalization touches the annotation only, then midresource,
    then batchresource) on a node with non-nil annotations and no third-party allocations. -/
def prepareAll (F : FloatOps) (nr : NRes) : Pub × NRes :=
  let c := prepareStored F none nr.mc nr.resetM
  let m := prepareStored F none nr.mm nr.resetM
  let b := batchPrepareNR F false .absent { nr with mc := c.2, mm := m.2 }
  ({ bc := b.1.cpu, bm := b.1.mem, mc := c.1, mm := m.1 }, b.2)

/-- cpunormalization Plugin.Prepare: the NodeResource annotation, when there is one, replaces the node's. -/
def prepareRatio (nr : NRes) (old : RatioAnno) : RatioAnno :=
  match nr.ratio with
  | .absent => old
  | a => a

/-- extension.GetCPUNormalizationRatio(node) returns an error: unparsable or ≤ 0. -/
def RatioAnno.nodeErr : RatioAnno → Bool
  | .bad => true
  | .pct r => decide (r ≤ 0)
  | .absent => false

/-- IsCPUNormalizationRatioDifferent with epsilon 0.01, in percent units (exact unless |o − n| = 1). -/
def ratioDiff (o n : Int) : Bool := decide (o > n + 1) || decide (o < n - 1)

/-- cpunormalization Plugin.NeedSyncMeta, guards in source order. -/
def needSyncMeta (old new : RatioAnno) : Bool :=
  if old.nodeErr then true
  else if new.nodeErr then false
  else match old, new with
    | .pct o, .pct n => ratioDiff o n
    | .absent, .absent => false
    | .absent, _ => true
    | _, .absent => true
    | _, _ => false

/-- the node object as far as this property goes: status amounts + last sync (RState), the ratio annotation and the
    originExtendedAllocatable annotation (batch amounts before third-party allocations, for out-of-tree consumers). -/
structure NState where
  r : RState
  ratio : RatioAnno
  origin : Option (Int × Int) := none
deriving Repr, DecidableEq

def NState.init : NState := { r := RState.init, ratio := .absent, origin := none }

/-- the origin annotation batchresource Plugin.Prepare puts on the node copy (annotations non-nil, no third party). -/
def prepareOrigin (F : FloatOps) (nr : NRes) : Option (Int × Int) := (batchPrepareNR F false .absent nr).1.origin

/-- updateNodeResource with the NodeResource threaded through every prepareNodeResource call site:
    (1) updateNodeResource, on nodeCopy, for isNodeResourceSyncNeeded;
    (2) updateNodeStatus, on the freshly read node, whose status is then written;
    (3) updateNodeMeta, on the freshly read node, whose metadata is then patched (the status part of the patch is dropped
        by the API server: Node has a status subresource).  Annotations travel ONLY with (3): the origin annotation
        reaches the API object when — and only when — a meta-check plugin (here: the ratio annotation) asks for a patch;
        batchresource has no NeedSyncMeta of its own.  When (3) runs the node copy's annotation map is non-nil (the old
        ratio annotation exists, or cpunormalization's Prepare has just created the map), so the origin is never lost. -/
def reconcileNR (F : FloatOps) (D : DiffOps) (thr interval now : Int) (st : NState) (nr : NRes) : NState × NRes :=
  let p1 := prepareAll F nr
  let needStatus := commonNeedSync st.r.lastSync now interval || pluginsNeedSync D thr st.r.pub p1.1
  let needMeta := needSyncMeta st.ratio (prepareRatio nr st.ratio)
  let s2 : RState × NRes :=
    if needStatus then
      let p2 := prepareAll F p1.2
      ({ pub := p2.1, lastSync := some now }, p2.2)
    else (st.r, p1.2)
  let s3 : RatioAnno × Option (Int × Int) × NRes :=
    if needMeta then (prepareRatio s2.2 st.ratio, prepareOrigin F s2.2, (prepareAll F s2.2).2) else (st.ratio, st.origin, s2.2)
  ({ r := s2.1, ratio := s3.1, origin := s3.2.1 }, s3.2.2)

/-- how many times one reconcile runs the prepare chain on its NodeResource. -/
def prepareCalls (needStatus needMeta : Bool) : Nat := 1 + (if needStatus then 1 else 0) + (if needMeta then 1 else 0)

/-- the quantity a plugin stores for an integer amount v: resource.NewQuantity(v, …). -/
def storeInt (v : Int) : Int := 1000 * v

/-- calculateNodeResource / resetNodeResource: the NodeResource built from the plugins' items
    (cpunormalization's annotation item, then mid, then batch; a disabled config runs only the Reset extenders,
    and cpunormalization's Reset returns nothing). -/
def nresOf (F : FloatOps) (k : PrioConsts) (df : MidDefaults) (enabled : Bool) (s : Strategy) (ms : MidStrategy)
    (n : NodeIn) (allocNil : Bool) (hs : List HostApp) (pods : List PodIn) (mets : List Metric) (mm : MidMetric)
    (hasUpdateTime : Bool) (now upd : Int) (ratio : RatioAnno) : NRes :=
  if !enabled then { bc := none, bm := none, mc := none, mm := none, resetB := true, resetM := true, ratio := .absent } else
  let (mc, mmem, rm) : Option Int × Option Int × Bool :=
    match midCalculate F k df ms s.degradeMin n allocNil hs pods mm hasUpdateTime now upd with
    | .error => (none, none, false)
    | .degraded => (none, none, true)
    | .mid c m => (some (storeInt c), some (storeInt m), false)
  let (qc, qm, rb) := batchOutQuantities (calculate F k s n hs pods mets [] hasUpdateTime now upd)
  { bc := qc.map storeInt, bm := qm.map storeInt, mc := mc, mm := mmem, resetB := rb, resetM := rm, ratio := ratio }

/-- `computedPub` with the cpu-normalization ratio of the NodeResource (`computedPub` is the case `.absent`). -/
def computedPubR (F : FloatOps) (k : PrioConsts) (df : MidDefaults) (enabled : Bool) (s : Strategy) (ms : MidStrategy)
    (n : NodeIn) (allocNil : Bool) (hs : List HostApp) (pods : List PodIn) (mets : List Metric) (mm : MidMetric)
    (hasUpdateTime : Bool) (now upd : Int) (ratio : RatioAnno) : Pub :=
  if !enabled then Pub.empty else
  let (mc, mmem) := midPrepare (midCalculate F k df ms s.degradeMin n allocNil hs pods mm hasUpdateTime now upd)
  let (qc, qm, rs) := batchOutQuantities (calculate F k s n hs pods mets [] hasUpdateTime now upd)
  let b := batchPrepare F ratio.amp false .absent qc qm rs
  { bc := b.cpu, bm := b.mem, mc := mc, mm := mmem }

/-- a history with the NodeResource of every round; each round starts from a fresh NodeResource. -/
structure RoundNR where
  thr : Int
  interval : Int
  now : Int
  nr : NRes
deriving Repr

def runHistNR (F : FloatOps) (D : DiffOps) : NState → List RoundNR → NState
  | st, [] => st
  | st, r :: rest => runHistNR F D (reconcileNR F D r.thr r.interval r.now st r.nr).1 rest

/-- batchresource PreUpdate → prepareForNodeResourceTopology → UpdateNRTZoneListIfNeeded on the per-zone batch amounts
    (cpu, memory) stored in the NodeResourceTopology object.  `zcalc` = nr.ZoneResources (`none`: the empty map — degraded,
    disabled, or no zone resources reported).  With calculated zone amounts they are merged into the stored ones by the
    diff-threshold / sync-interval rule `upd` (not modelled: a parameter).  Without: the early return is taken ONLY when
    the batch items are not Reset; on Reset every zone misses in the empty map and is written back as zero
    (repaired by 437c681: the early return ignored Resets and the zeroing wrote to a range copy). -/
def preUpdateZones (upd : List (Int × Int) → List (Int × Int) → List (Int × Int)) (resetB : Bool)
    (zcalc : Option (List (Int × Int))) (old : List (Int × Int)) : List (Int × Int) :=
  match zcalc with
  | some new => upd old new
  | none => if resetB then old.map (fun _ => (0, 0)) else old

/-! the seeded variant, kept for the counterexample only: amplification written through the stored pointer
    (`*q = MultiplyMilliQuant(*q, ratio)`), then rounded in place. -/
def prepareStoredInPlace (F : FloatOps) (amp : Option Int) (q : Option Int) (reset : Bool) : Ext × Option Int :=
  match q with
  | none => (none, none)
  | some m =>
    if reset then (none, some m)
    else match amp with
      | some r =>
        if r > 100 then (some (milliToValue (F.mulPct m r)), some (roundMilli (F.mulPct m r)))
        else (some (milliToValue m), some (roundMilli m))
      | none => (some (milliToValue m), some (roundMilli m))

end KoordVerif.C09
