import KoordVerif.Model.C10
/-
C10 — the resource-update executor between cpusuppress and the cgroup files, and whole rounds of suppressBECPU over
individual cgroup files with outside writers, missing files and the executor's cache.  Model of
  pkg/koordlet/resourceexecutor/executor.go      Update, UpdateBatch, update, updateByCache, needUpdate, isUpdateErrIgnored
  pkg/koordlet/resourceexecutor/cgroup.go        cgroupFileWriteIfDifferent (missing dir / file => ErrCgroupDir, an IGNORED error)
  pkg/koordlet/qosmanager/plugins/cpusuppress/cpu_suppress.go
      writeBECgroupsCPUSet (UpdateBatch(true, ...): cacheable), applyCPUSetWithNonePolicy (merged set top-down, target bottom-up),
      applyCPUSetWithStaticPolicy, recoverCPUSetIfNeed, adjustByCfsQuota / recoverCFSQuotaIfNeed (Update(false, ...): direct)
  pkg/koordlet/util/node.go                      GetBECPUSetPathsByMaxDepth / ...ByTargetDepth (walk over the existing directories)
Core-only.  Which write is cacheable and whether an ignored error reaches the cache Set are parameters (`ExecShape`);
`codeShape` is what the source does (tied in Ties/C10.lean), the other shapes carry the counterexamples.
-/
namespace KoordVerif.C10

/-- canonical form of a cpuset value (`CPUSet.String()` writes it, `cpuset.Parse` identifies values by it): ascending, distinct. -/
def canon (xs : List Int) : List Int := (isortBy (fun a b => decide (a < b)) xs).eraseDups

/-- the four facts about the write paths the rounds depend on. -/
structure ExecShape where
  /-- adjustByCfsQuota: `r.executor.Update(<this>, updater)`. -/
  adjustQuotaCacheable  : Bool
  /-- recoverCFSQuotaIfNeed: `r.executor.Update(<this>, updater)`. -/
  recoverQuotaCacheable : Bool
  /-- writeBECgroupsCPUSet: `r.executor.UpdateBatch(<this>, updaters...)`. -/
  cpusetCacheable       : Bool
  /-- updateByCache: does an IGNORED write error (cgroup dir / file missing, resource unsupported) still reach `ResourceCache.SetDefault`? -/
  cacheOnIgnored        : Bool
deriving Repr, DecidableEq

/-- the source as it is: quota writes direct on both paths, cpuset writes cacheable, the cache Set only after a successful write. -/
def codeShape : ExecShape := ⟨false, false, true, false⟩

/-- one cgroup file as the executor sees it.  `content = none`: the file (or its directory) does not exist, a write fails with
    the ignored ErrCgroupDir.  `cache = some (v, fresh)`: `ResourceCache[path]` holds an updater with value `v`; `fresh` = its
    `lastUpdateTimestamp` is younger than `ResourceForceUpdateSeconds` (60 s). -/
structure XFile (α : Type) where
  content : Option α
  cache   : Option (α × Bool) := none
deriving Repr, DecidableEq

/-- executor.needUpdate. -/
def needUpdate {α} [DecidableEq α] (x : XFile α) (v : α) : Bool :=
  match x.cache with
  | none => true
  | some (c, fresh) => !(decide (c = v)) || !fresh

/-- executor.Update / one element of UpdateBatch.
    direct (`update`): write if the file exists, the cache is not touched at all;
    cacheable (`updateByCache`): nothing unless `needUpdate`; then write; on an ignored error return before the cache Set
    (`cacheOnIgnored = false`) — or store the never-written value (`cacheOnIgnored = true`, NOT what the code does). -/
def execWrite {α} [DecidableEq α] (cacheable cacheOnIgnored : Bool) (x : XFile α) (v : α) : XFile α :=
  if cacheable then
    if needUpdate x v then
      match x.content with
      | none => if cacheOnIgnored then { x with cache := some (v, true) } else x
      | some _ => { content := some v, cache := some (v, true) }
    else x
  else
    match x.content with
    | none => x
    | some _ => { x with content := some v }

/-- `ResourceForceUpdateSeconds` pass without a write: every cache entry becomes stale (the 2-minute expiry of the cache
    itself is later than that and makes no further difference: a stale entry and no entry both mean "write"). -/
def XFile.age {α} (x : XFile α) : XFile α :=
  { x with cache := x.cache.map (fun cv => (cv.1, false)) }

/-- a `cpuset.cpus` file of the BE tree.  level 0 = kubepods-besteffort, 1 = pod directory, 2 = container directory.
    `listed` = the directory exists, so the walk of GetBECPUSetPaths… yields it and an updater is made (a directory without
    the file gives the ignored error; a missing directory is not attempted at all). -/
structure XF where
  level  : Nat
  listed : Bool
  f      : XFile (List Int)
deriving Repr, DecidableEq

/-- the BE cgroup files plus `suppressPolicyStatuses[cfsQuota] == recovered`.  `files.head` is the BE root. -/
structure XState where
  files : List XF
  quota : XFile Int
  quotaRecovered : Bool
deriving Repr, DecidableEq

def rootOf (st : XState) : Option (List Int) :=
  match st.files with
  | [] => none
  | x :: _ => x.f.content

/-- one writeBECgroupsCPUSet call on one file: `val level` = the value for that depth (`none`: depth not in the path list). -/
def writeOne (sh : ExecShape) (val : Nat → Option (List Int)) (x : XF) : XF :=
  if !x.listed then x else
  match val x.level with
  | none => x
  | some v => { x with f := execWrite sh.cpusetCacheable sh.cacheOnIgnored x.f (canon v) }

def writeCpusets (sh : ExecShape) (val : Nat → Option (List Int)) (fs : List XF) : List XF := fs.map (writeOne sh val)

/-- recoverCPUSetIfNeed(maxDepth): calcBECPUSet to every directory down to that depth. -/
def recoverCpusetX (sh : ExecShape) (maxLevel : Nat) (st : XState) (i : RoundIn) : XState :=
  if i.infoMissing || i.topoNil then st else
  let r := calcBESet i.procs i.pods i.reserved i.sysExcl
  { st with files := writeCpusets sh (fun l => if l ≤ maxLevel then some r else none) st.files }

/-- recoverCFSQuotaIfNeed. -/
def recoverQuotaX (sh : ExecShape) (st : XState) : XState :=
  if st.quotaRecovered then st else
  { st with quota := execWrite sh.recoverQuotaCacheable sh.cacheOnIgnored st.quota beUnsetQuota, quotaRecovered := true }

/-- adjustByCfsQuota: reads the current quota from the FILE (error => return), decides as `adjustQuota`, writes through the executor. -/
def adjustQuotaX (f : FloatOps) (sh : ExecShape) (st : XState) (i : RoundIn) : XState :=
  match st.quota.content with
  | none => st
  | some cur =>
    match adjustQuota f i.budget cur i.capMilli with
    | .bypass => st
    | .write q => { st with quota := execWrite sh.adjustQuotaCacheable sh.cacheOnIgnored st.quota q }

/-- adjustByCPUSet + applyBESuppressCPUSet on the files: the current BE root set is read from the FILE (error => return);
    policy none: the union of old and new to every directory (top-down), then the new set to every directory (bottom-up);
    static: recover set to root + pod directories, selection to the container directories.  `none` = panic. -/
def adjustCpusetX (f : FloatOps) (sh : ExecShape) (st : XState) (i : RoundIn) : Option XState :=
  match rootOf st with
  | none => some st
  | some old =>
    match adjustFull f i.kp i.topoNil i.budget old.length i.procs i.pods i.reserved i.sysExcl with
    | none => none
    | some w =>
      if i.kp = kpStatic then
        let fs1 := writeCpusets sh (fun l => if l ≤ 1 then w.root else none) st.files
        some { st with files := writeCpusets sh (fun l => if l = 2 then w.cont else none) fs1 }
      else
        match w.root with
        | none => some st
        | some cs =>
          let fs1 := writeCpusets sh (fun _ => some (old ++ cs)) st.files
          some { st with files := writeCpusets sh (fun _ => some cs) fs1 }

/-- suppressBECPU over the files (BECPUManager gate off); same dispatch as `roundStep`. -/
def roundStepX (f : FloatOps) (sh : ExecShape) (st : XState) (i : RoundIn) : Option XState :=
  if i.sloKind ≤ 1 then some st
  else if i.sloKind = 2 then some (recoverCpusetX sh 2 (recoverQuotaX sh st) i)
  else if i.nodeNil || i.nPodMetas == 0 || !i.nodeMetric || i.infoMissing then some st
  else if i.quotaMode then
    some (recoverCpusetX sh 2 { (adjustQuotaX f sh st i) with quotaRecovered := false } i)
  else
    match adjustCpusetX f sh st i with
    | none => none
    | some st1 => some (recoverQuotaX sh st1)

/-! outside events between rounds -/

def setAtIdx {α} (l : List α) (k : Nat) (g : α → α) : List α :=
  match l, k with
  | [], _ => []
  | x :: xs, 0 => g x :: xs
  | x :: xs, k + 1 => x :: setAtIdx xs k g

/-- somebody else (kubelet, runtime, admin) creates / removes / rewrites the cpuset file `k`; the executor's cache knows nothing of it. -/
def extCpuset (st : XState) (k : Nat) (listed : Bool) (content : Option (List Int)) : XState :=
  { st with files := setAtIdx st.files k (fun x => { x with listed := listed, f := { x.f with content := content.map canon } }) }

/-- somebody else rewrites the BE quota file. -/
def extQuota (st : XState) (q : Int) : XState := { st with quota := { st.quota with content := some q } }

/-- more than ResourceForceUpdateSeconds pass. -/
def ageAll (st : XState) : XState :=
  { st with files := st.files.map (fun x => { x with f := x.f.age }), quota := st.quota.age }

end KoordVerif.C10
