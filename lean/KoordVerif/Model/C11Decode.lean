import KoordVerif.Model.C11
/-
C11 — Part D: decoding of the pod attributes the eviction filters read.  Model of
  apis/extension/evict.go           PodEvictEnabled, GetPodEvictionPriority (strconv.ParseInt(value, 10, 32))
  apis/extension/priority.go        GetPodPriorityClassByName, GetPodPriorityClassRaw, getPriorityClassByPriority
  apis/extension/priority_utils.go  GetPodPriorityClassWithDefault, GetPodPriorityClassWithQoS,
                                    GetPodPriorityValueWithDefault, GetDefaultPriorityByPriorityClass
  apis/extension/qos.go, qos_utils.go  GetPodQoSClassByName, GetPodQoSClassRaw, GetPodQoSClassWithDefault,
                                    GetPodQoSClassWithKubeQoS
  pkg/koordlet/qosmanager/plugins/util/evict.go  IsEvictionPolicyAllowed (json.Unmarshal into []string),
                                    GetPodPriorityLabel (strconv.Atoi), GetRequestTypeAndValueFromPod (class switch)
  pkg/util/pod.go                   IsPodInactive
Strings are classified by the harness into the shapes the code distinguishes (which label value, what
kind of number text, what kind of JSON); everything the code DOES with the shape is modelled here.
Core-only.
-/
namespace KoordVerif.C11

inductive QoS | none | be | ls | lsr | lse | system
deriving Repr, DecidableEq

inductive PCls | none | prod | mid | batch | free
deriving Repr, DecidableEq

/-- the text of a numeric label / annotation. -/
inductive NumText
  | absent                 -- key absent (or the map is nil)
  | literal (v : Int)      -- optional sign and decimal digits only; `v` is the number written
  | malformed              -- anything else: "", " 5", "1.5", "0x10", "1_000", "abc", …
deriving Repr, DecidableEq

/-- `strconv.ParseInt(s, 10, bits)`: syntax error or value out of range ⇒ error. -/
def parseBits (bits : Nat) : NumText → Option Int
  | .literal v => if -(2 ^ (bits - 1) : Int) ≤ v ∧ v < (2 ^ (bits - 1) : Int) then some v else none
  | _ => none

/-- `GetPodEvictionPriority`: implicit 0 when missing, 0 (plus an ignored error) when invalid. -/
def evictionPriority (t : NumText) : Int := (parseBits 32 t).getD 0

/-- `GetPodPriorityLabel(pod, default)`: `strconv.Atoi` (64-bit int); `none` = the caller's default. -/
def priorityLabel (t : NumText) : Option Int := parseBits 64 t

/-- `GetPodQoSClassByName` on the label shape: 0 absent, 1 "BE", 2 "LS", 3 "LSR", 4 "LSE", 5 "SYSTEM",
    anything else an unknown string. -/
def qosByLabel : Nat → QoS
  | 1 => .be | 2 => .ls | 3 => .lsr | 4 => .lse | 5 => .system | _ => .none

/-- `GetPodQoSClassWithKubeQoS`: 0 Guaranteed (QoSClassForGuaranteed = LSR), 1 Burstable, 2 BestEffort. -/
def qosByKube : Nat → QoS
  | 0 => .lsr | 1 => .ls | 2 => .be | _ => .none

/-- `GetPodQoSClassWithDefault` -/
def qosWithDefault (qosLabel kubeQoS : Nat) : QoS :=
  if qosByLabel qosLabel ≠ .none then qosByLabel qosLabel else qosByKube kubeQoS

/-- `GetPodPriorityClassByName` on the label shape: 1 koord-prod, 2 koord-mid, 3 koord-batch, 4 koord-free,
    anything else (label present) an unknown string. -/
def clsByName : Nat → PCls
  | 1 => .prod | 2 => .mid | 3 => .batch | 4 => .free | _ => .none

/-- `getPriorityClassByPriority` (DefaultPriorityClass = PriorityNone). -/
def clsByPriority (p : Int) : PCls :=
  if 9000 ≤ p ∧ p ≤ 9999 then .prod
  else if 7000 ≤ p ∧ p ≤ 7999 then .mid
  else if 5000 ≤ p ∧ p ≤ 5999 then .batch
  else if 3000 ≤ p ∧ p ≤ 3999 then .free
  else .none

/-- `GetPodPriorityClassRaw`: a PRESENT label decides alone (an unknown value gives PriorityNone without
    looking at spec.priority). -/
def clsRaw (clsLabel : Nat) (spec : Option Int) : PCls :=
  if clsLabel ≠ 0 then clsByName clsLabel else
  match spec with
  | none => .none
  | some p => clsByPriority p

/-- `GetPodPriorityClassWithQoS` -/
def clsByQoS : QoS → PCls
  | .system | .lse | .lsr | .ls => .prod
  | .be => .batch
  | .none => .none

/-- `GetPodPriorityClassWithDefault` -/
def clsWithDefault (clsLabel : Nat) (spec : Option Int) (qosLabel kubeQoS : Nat) : PCls :=
  if clsRaw clsLabel spec ≠ .none then clsRaw clsLabel spec else clsByQoS (qosWithDefault qosLabel kubeQoS)

/-- `GetDefaultPriorityByPriorityClass` -/
def defaultPrio : PCls → Int
  | .prod => 9500 | .mid => 7500 | .batch => 5500 | .free => 3500 | .none => 0

/-- `GetPodPriorityValueWithDefault`: a non-zero spec.priority is taken as is; nil and the explicit 0 read
    as the default of the pod's (defaulted) priority class. -/
def priorityWithDefault (spec : Option Int) (cls : PCls) : Int :=
  match spec with
  | some p => if p ≠ 0 then p else defaultPrio cls
  | none => defaultPrio cls

/-- `IsEvictionPolicyAllowed`'s reading of the annotation.  `top`: 0 key absent (or no annotations),
    1 not JSON, 2 JSON `null`, 3 JSON array, 4 any other JSON value (object, string, number, bool).
    Array elements: 0 the evaluated policy name, 1 another string, 2 `null` (decodes to ""), 3 not a string
    (json.Unmarshal reports a type error even if other elements match). -/
def policyOf (top : Nat) (elems : List Nat) : PolicyAnno :=
  match top with
  | 0 => .absent
  | 2 => .others
  | 3 => if elems.any (fun x => decide (x ≥ 3)) then .malformed
         else if elems.contains 0 then .lists else .others
  | _ => .malformed

/-- a pod as the harness describes it: label / annotation shapes, not decoded values. -/
structure RawPod where
  id         : Nat
  name       : Nat
  qosLabel   : Nat          -- koordinator.sh/qosClass
  kubeQoS    : Nat          -- status.qosClass (or what GetPodQOS computes)
  phase      : Nat          -- 0 Pending 1 Running 2 Succeeded 3 Failed 4 Unknown
  specPrio   : Option Int   -- spec.priority
  clsLabel   : Nat          -- koordinator.sh/priority-class
  evictLabel : Nat          -- koordinator.sh/eviction-enabled: 0 absent, 1 "true", other = another string
  evictPrio  : NumText      -- koordinator.sh/eviction-priority
  prioLabel  : NumText      -- koordinator.sh/priority
  policyTop  : Nat
  policyElems : List Nat
  hasMetric  : Bool
  used       : Int
  reqNative  : Int          -- native cpu / memory request
  reqMid     : Int          -- mid-cpu / mid-memory request
  reqBatch   : Int          -- batch-cpu / batch-memory request
  batchReq   : Int          -- batch-cpu request (BE CPU path)
deriving Repr, DecidableEq

def RawPod.cls (rp : RawPod) : PCls := clsWithDefault rp.clsLabel rp.specPrio rp.qosLabel rp.kubeQoS

/-- what the filters of Part B read off a pod. -/
def decodePod (rp : RawPod) : Pod :=
  { id := rp.id, name := rp.name,
    qosBE := decide (qosByLabel rp.qosLabel = .be),
    active := decide (rp.phase ≤ 1),
    policy := policyOf rp.policyTop rp.policyElems,
    specPrio := rp.specPrio,
    effPrio := some (priorityWithDefault rp.specPrio rp.cls),
    evictLbl := decide (rp.evictLabel = 1),
    evictPrio := evictionPriority rp.evictPrio,
    labelPrio := priorityLabel rp.prioLabel,
    hasMetric := rp.hasMetric, used := rp.used,
    request := match rp.cls with
      | .mid => rp.reqMid
      | .batch => rp.reqBatch
      | _ => rp.reqNative,
    batchReq := rp.batchReq }

/-- end-to-end runs evaluate several policies over one annotation: element codes ≥ 10 are policy NAMES
    (10 BEMemoryEvict, 11 MemoryAllocatableEvict, 12 MemoryEvict, 13 BECPUEvict, 14 CPUAllocatableEvict,
    15 CPUEvict); for the policy `f` being evaluated its own name is "the evaluated policy" (0), the other
    names are "another string" (1). -/
def policyElemsFor (f : Nat) (elems : List Nat) : List Nat :=
  elems.map fun x => if x = f then 0 else if x ≥ 10 then 1 else x

def decodePodFor (f : Nat) (rp : RawPod) : Pod :=
  decodePod { rp with policyElems := policyElemsFor f rp.policyElems }

end KoordVerif.C11
