/-
C16 — descheduler eviction caps (M-evict).  Core-only (linked into drv_c16).

Mirrors, as written today:
  pkg/descheduler/evictions/evictions.go          PodEvictor.{NodeLimitExceeded,NamespaceLimitExceeded,Evict}
  pkg/descheduler/evictions/eviction_limiter.go   EvictionLimiter.{AllowEvict,Done}
  pkg/descheduler/framework/runtime/evictor_proxy.go  evictorProxy.Evict
Names (nodes, namespaces) are small naturals; node 0 is the empty node name "" (pod not assigned).
-/
namespace KoordVerif.C16

/-- counter maps `map[string]uint` as association lists (missing key = 0). -/
abbrev Cnt := List (Nat × Nat)

def cget : Cnt → Nat → Nat
  | [], _ => 0
  | (k, v) :: r, x => if k = x then v else cget r x

/-- `m[k]++` -/
def cinc : Cnt → Nat → Cnt
  | [], x => [(x, 1)]
  | (k, v) :: r, x => if k = x then (k, v + 1) :: r else (k, v) :: cinc r x

/-- maxPodsToEvictPerNode / PerNamespace / Total (`*uint`, `none` = nil pointer). -/
structure Caps where
  node : Option Nat
  ns : Option Nat
  total : Option Nat
deriving Repr, DecidableEq

/-- nodepodCount / namespacePodCount / totalCount -/
structure Ctr where
  node : Cnt := []
  ns : Cnt := []
  total : Nat := 0
deriving Repr, DecidableEq

structure Pod where
  node : Nat
  ns : Nat
deriving Repr, DecidableEq

/-- the three increments at the end of PodEvictor.Evict / EvictionLimiter.Done:
    `if pod.Spec.NodeName != "" { nodeCount[node]++ }; nsCount[ns]++; total++`. -/
def count (s : Ctr) (p : Pod) : Ctr :=
  { node := if p.node = 0 then s.node else cinc s.node p.node,
    ns := cinc s.ns p.ns,
    total := s.total + 1 }

/-- PodEvictor.NodeLimitExceeded: `count == *max` (equality, as written). -/
def eqHit (cap : Option Nat) (c : Nat) : Bool :=
  match cap with
  | none => false
  | some m => c == m

/-- EvictionLimiter.AllowEvict: `count+1 > *max`. -/
def overHit (cap : Option Nat) (c : Nat) : Bool :=
  match cap with
  | none => false
  | some m => decide (c + 1 > m)

/-- PodEvictor.Evict's two early returns (node first, then namespace; no total cap exists).
    For node "" the map entry is never incremented, so the test reads 0. -/
def peRefuse (caps : Caps) (s : Ctr) (p : Pod) : Bool :=
  eqHit caps.node (cget s.node p.node) || eqHit caps.ns (cget s.ns p.ns)

/-- ¬ EvictionLimiter.AllowEvict -/
def elRefuse (caps : Caps) (s : Ctr) (p : Pod) : Bool :=
  (p.node != 0 && overHit caps.node (cget s.node p.node))
    || overHit caps.ns (cget s.ns p.ns) || overHit caps.total s.total

structure EvOut where
  ok : Bool       -- return value of Evict
  called : Bool   -- an eviction API call / evict-plugin call was issued
deriving Repr, DecidableEq

/-- PodEvictor.Evict (whole body is one critical section under pe.lock).
    `apiOk` is the scripted answer of the API server. Dry-run: no call and NO count. -/
def peEvict (caps : Caps) (dry : Bool) (s : Ctr) (p : Pod) (apiOk : Bool) : Ctr × EvOut :=
  if peRefuse caps s p then (s, ⟨false, false⟩)
  else if dry then (s, ⟨true, false⟩)
  else if !apiOk then (s, ⟨false, true⟩)
  else (count s p, ⟨true, true⟩)

/-- evictorProxy.Evict: AllowEvict; dry-run skips the plugin but still calls Done; a failed plugin
    call returns before Done.  `lim = none` ⇔ no EvictionLimiter configured (nothing counted). -/
def pxEvict (lim : Option Caps) (dry : Bool) (s : Ctr) (p : Pod) (plugOk : Bool) : Ctr × EvOut :=
  let refused := match lim with | none => false | some c => elRefuse c s p
  let done := match lim with | none => s | some _ => count s p
  if refused then (s, ⟨false, false⟩)
  else if dry then (done, ⟨true, false⟩)
  else if !plugOk then (s, ⟨false, true⟩)
  else (done, ⟨true, true⟩)

/-! ## Small-step semantics of N concurrent callers over the extracted critical-section shape -/

inductive Act where
  | check   -- read the counters and compare with the caps (early return when hit)
  | call    -- the external eviction call
  | count   -- write the counters
deriving Repr, DecidableEq

/-- a maximal run of actions executed while one lock acquisition is held (`locked`) or with no lock. -/
structure Block where
  locked : Bool
  acts : List Act
deriving Repr, DecidableEq

abbrev Prog := List Block

/-- facts come as blocks `(lock held, [act codes])`, act 0/1/2 = check/call/count; a new block starts
    at every lock acquisition / release (consecutive equal acts are collapsed by the extractor). -/
def actOf : Nat → Option Act
  | 0 => some .check
  | 1 => some .call
  | 2 => some .count
  | _ => none

def toProg (bs : List (Bool × List Nat)) : Prog :=
  bs.map fun b => ⟨b.1, b.2.filterMap actOf⟩

/-- what actually is atomic: a locked block as a whole; every action of an unlocked block alone. -/
def atomize : Prog → Prog
  | [] => []
  | b :: r => if b.locked then b :: atomize r else b.acts.map (fun a => ⟨false, [a]⟩) ++ atomize r

/-- check, call and count happen inside ONE lock acquisition, in this order. -/
def oneSection (p : Prog) : Bool := p == [⟨true, [.check, .call, .count]⟩]

structure Th where
  pod : Pod
  apiOk : Bool
  rest : List Block
deriving Repr, DecidableEq

structure CS where
  ctr : Ctr
  issued : List Pod     -- successful eviction calls
  ths : List Th
deriving Repr, DecidableEq

/-- run the actions of one atomic block; `false` = the caller returned early. -/
def runActs (refuse : Caps → Ctr → Pod → Bool) (caps : Caps) (p : Pod) (apiOk : Bool) :
    List Act → Ctr → List Pod → Ctr × List Pod × Bool
  | [], c, i => (c, i, true)
  | .check :: r, c, i => if refuse caps c p then (c, i, false) else runActs refuse caps p apiOk r c i
  | .call :: r, c, i => if apiOk then runActs refuse caps p apiOk r c (p :: i) else (c, i, false)
  | .count :: r, c, i => runActs refuse caps p apiOk r (count c p) i

def stepTh (refuse : Caps → Ctr → Pod → Bool) (caps : Caps) (c : Ctr) (iss : List Pod) (t : Th) :
    Ctr × List Pod × Th :=
  match t.rest with
  | [] => (c, iss, t)
  | b :: r =>
    let res := runActs refuse caps t.pod t.apiOk b.acts c iss
    (res.1, res.2.1, { t with rest := if res.2.2 then r else [] })

def stepAt (refuse : Caps → Ctr → Pod → Bool) (caps : Caps) (c : Ctr) (iss : List Pod) :
    List Th → Nat → Ctr × List Pod × List Th
  | [], _ => (c, iss, [])
  | t :: ts, 0 => let r := stepTh refuse caps c iss t; (r.1, r.2.1, r.2.2 :: ts)
  | t :: ts, i + 1 => let r := stepAt refuse caps c iss ts i; (r.1, r.2.1, t :: r.2.2)

/-- one scheduler step: thread `i` executes its next atomic block (no-op if finished / out of range). -/
def step (refuse : Caps → Ctr → Pod → Bool) (caps : Caps) (s : CS) (i : Nat) : CS :=
  let r := stepAt refuse caps s.ctr s.issued s.ths i
  ⟨r.1, r.2.1, r.2.2⟩

def run (refuse : Caps → Ctr → Pod → Bool) (caps : Caps) (s : CS) (sched : List Nat) : CS :=
  sched.foldl (step refuse caps) s

/-- N callers, each about to execute `prog` on its own pod. -/
def initCS (prog : Prog) (pods : List (Pod × Bool)) : CS :=
  ⟨{}, [], pods.map fun pa => ⟨pa.1, pa.2, atomize prog⟩⟩

def quiescent (s : CS) : Bool := s.ths.all fun t => t.rest.isEmpty

/-- successful evictions of `iss` whose key (node or namespace) is `k`. -/
def issuedBy (f : Pod → Nat) (iss : List Pod) (k : Nat) : Nat :=
  (iss.filter fun p => f p == k).length

def capLe (cap : Option Nat) (c : Nat) : Prop :=
  match cap with
  | none => True
  | some m => c ≤ m

/-! ## One descheduling cycle (pkg/descheduler/descheduler.go deschedulerOnce) -/

/-- the evictions a phase of a cycle attempts, in execution order, each through `handle.Evictor().Evict`
    (`evictorProxy.Evict`); `(pod, answer of the evict plugin / API)`.  Returns the counters and one result per attempt. -/
def pxSeq (lim : Option Caps) (dry : Bool) : Ctr → List (Pod × Bool) → Ctr × List EvOut
  | s, [] => (s, [])
  | s, (p, ok) :: r =>
    let a := pxEvict lim dry s p ok
    let b := pxSeq lim dry a.1 r
    (b.1, a.2 :: b.2)

/-- deschedulerOnce as the sequence of its limiter-relevant events in source order (re-extracted from the source on
    every run: Generated.C16.cycleEvents).  1 = `d.evictionLimiter.Reset()` outside every loop, 2 = the same inside a
    loop, 3 = the Deschedule phase (the loop over the profiles calling RunDeschedulePlugins: attempts `ph1`),
    4 = the Balance phase (RunBalancePlugins: attempts `ph2`); helpers of the package are inlined at their call sites. -/
def runCycleEvents (lim : Option Caps) (dry : Bool) : List Nat → Ctr → List (Pod × Bool) → List (Pod × Bool) → Ctr × List EvOut
  | [], s, _, _ => (s, [])
  | e :: r, s, ph1, ph2 =>
    if e = 1 ∨ e = 2 then runCycleEvents lim dry r {} ph1 ph2
    else if e = 3 then
      let a := pxSeq lim dry s ph1
      let b := runCycleEvents lim dry r a.1 ph1 ph2
      (b.1, a.2 ++ b.2)
    else if e = 4 then
      let a := pxSeq lim dry s ph2
      let b := runCycleEvents lim dry r a.1 ph1 ph2
      (b.1, a.2 ++ b.2)
    else runCycleEvents lim dry r s ph1 ph2

/-- deschedulerOnce as written: Reset once, then the Deschedule phase of all profiles, then the Balance phase -/
def cycleShape : List Nat := [1, 3, 4]

/-- one cycle from the counters `s` left by the previous one -/
def cycle (lim : Option Caps) (dry : Bool) (s : Ctr) (ph1 ph2 : List (Pod × Bool)) : Ctr × List EvOut :=
  runCycleEvents lim dry cycleShape s ph1 ph2

/-- the evictions actually issued by a list of attempts: result ok and a call was made -/
def issuedOf : List (Pod × Bool) → List EvOut → List Pod
  | (p, _) :: r, o :: os => if o.ok && o.called then p :: issuedOf r os else issuedOf r os
  | _, _ => []

end KoordVerif.C16
