import KoordVerif.Model.C11Decode
/-
C11 — Part F: where `hasMetric` / `used` of a pod come from.  Model of the metric glue the eviction code calls:
  pkg/koordlet/qosmanager/helpers/metrics_query.go
      CollectPodMetricLast  (GenerateQueryParamsLast(2*collectInterval), CollectPodMetric, result.Value(last))
      CollectAllPodMetrics  (per pod: query error / Count()==0 / Value error ⇒ the pod has NO map entry)
  pkg/koordlet/metriccache/tsdb_storage.go   Querier(start, end): the points with start ≤ t ≤ end
  pkg/koordlet/metriccache/util.go           fieldLastOfMetricList: empty input ⇒ error "metric input is empty",
                                             else the value of the point with the greatest timestamp
A series is the list of its points in storage (time) order.  A point is (age, milli): age = query end − point
time in milliseconds (negative = later than the query end), milli = int64(value*1000).  Core-only.
-/
namespace KoordVerif.C11

structure Sample where
  age   : Int
  milli : Int
deriving Repr, DecidableEq

/-- the querier returns the points with `end − window ≤ t ≤ end`. -/
def Sample.inWindow (window : Int) (s : Sample) : Bool := decide (0 ≤ s.age) && decide (s.age ≤ window)

/-- `fieldLastOfMetricList` on a non-empty list: `if timestamp > lastTime { last = this }`, i.e. the first
    point of the greatest timestamp (= smallest age). -/
def lastFrom (best : Sample) : List Sample → Sample
  | [] => best
  | x :: xs => lastFrom (if x.age < best.age then x else best) xs

/-- `AggregateResult.Value(AggregationTypeLast)`: `none` = the error "metric input is empty". -/
def lastOf : List Sample → Option Sample
  | [] => none
  | s :: rest => some (lastFrom s rest)

/-- `CollectPodMetricLast`: `none` = an error is returned (the querier failed, or NO point of the pod lies in the
    window: the empty result is an ERROR, not the value 0), `some m` = int64(value*1000) of the latest point. -/
def podMetricLast (queryErr : Bool) (window : Int) (series : List Sample) : Option Int :=
  if queryErr then none else (lastOf (series.filter (Sample.inWindow window))).map Sample.milli

/-- what the list builders see of a pod whose usage series is `series`: the priority paths skip the pod when
    `CollectPodMetricLast` errs (step "4. filter no metrics"), the BE paths read usage 0 (memory: no entry in the
    map of CollectAllPodMetricsLast; cpu: `MilliCPUUsed` stays 0). -/
def RawPod.withMetric (rp : RawPod) (m : Option Int) : RawPod :=
  { rp with hasMetric := m.isSome, used := m.getD 0 }

def RawPod.withSeries (rp : RawPod) (queryErr : Bool) (window : Int) (series : List Sample) : RawPod :=
  rp.withMetric (podMetricLast queryErr window series)

end KoordVerif.C11
