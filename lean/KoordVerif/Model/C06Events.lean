import KoordVerif.Model.C06
/-
C06 — informer glue in front of the ledger (extension round 3).  Executable, core-only.

  pkg/scheduler/plugins/nodenumaresource/pod_eventhandler.go      podEventHandler.OnAdd / OnUpdate / OnDelete,
                                                                  updatePod, deletePod
  pkg/scheduler/plugins/nodenumaresource/topology_eventhandler.go nodeResourceTopologyEventHandler (only what the
                                                                  ledger can see of it: is the stored CPU topology valid?)
  pkg/scheduler/plugins/nodenumaresource/resource_manager.go      Update (drops the call while the node has no valid CPU
                                                                  topology), Release, the nodeName -> NodeAllocation map

Cluster nodes are numbers, 0 = `spec.nodeName == ""`.  A pod object is reduced to what updatePod reads.
-/
namespace KoordVerif.C06

/-- what `updatePod` / `deletePod` read of a `*corev1.Pod`. -/
structure PodObj where
  uid  : Nat
  node : Nat            -- spec.nodeName, 0 = ""
  term : Bool           -- util.IsPodTerminated: phase Succeeded or Failed
  st   : Nat            -- resource-status annotation: 0 absent, 1 does not unmarshal, 2 parsed
  sp   : Nat            -- resource-spec annotation:   0 absent, 1 does not unmarshal, 2 parsed
  cs   : Nat            -- 0: resourceStatus.CPUSet parses (cpuset.Parse), otherwise it does not
  excl : Nat            -- resourceSpec.PreferredCPUExclusivePolicy (enum; 0 when the annotation is absent)
  cpus : List Nat       -- the parsed CPUSet
  numa : List (Nat × Int)  -- resourceStatus.NUMANodeResources, flattened to cells
deriving Repr, DecidableEq

/-- a call the handler makes on the ResourceManager. -/
inductive MOp where
  | update (node : Nat) (p : PodAlloc)     -- resourceManager.Update(nodeName, allocation)
  | release (node : Nat) (uid : Nat)       -- resourceManager.Release(nodeName, podUID)
deriving Repr, DecidableEq

/-- extension.GetResourceStatus with an absent annotation returns the empty status. -/
def PodObj.statusCpus (o : PodObj) : List Nat := if o.st = 2 then o.cpus else []
def PodObj.statusNuma (o : PodObj) : List (Nat × Int) := if o.st = 2 then o.numa else []

/-- the allocation `updatePod` builds from the annotations. -/
def PodObj.alloc (o : PodObj) : PodAlloc :=
  { uid := o.uid, excl := (if o.sp = 2 then o.excl else 0), cpus := o.statusCpus, numa := o.statusNuma }

/-- the annotations carry a well-formed, non-empty allocation: every early `return` of updatePod after the
    terminated check is passed. -/
def PodObj.annOK (o : PodObj) : Bool :=
  o.st != 1 && o.sp != 1 && (o.st != 2 || o.cs == 0) && !(o.statusNuma.isEmpty && o.statusCpus.isEmpty)

/-- pod_eventhandler.go `deletePod`. -/
def decodeDelete (o : PodObj) : List MOp :=
  if o.node = 0 then [] else [.release o.node o.uid]

/-- pod_eventhandler.go `updatePod(oldPod, pod)`, guard by guard. -/
def decodeUpdate (old : Option PodObj) (new : PodObj) : List MOp :=
  if new.node = 0 then
    match old with
    | some o => if o.node ≠ 0 then [.release o.node o.uid] else []
    | none => []
  else if new.term then decodeDelete new
  else if new.st = 1 then []              -- GetResourceStatus error
  else if new.sp = 1 then []              -- GetResourceSpec error
  else if new.st = 2 && new.cs ≠ 0 then []   -- cpuset.Parse error
  else if new.statusNuma.isEmpty && new.statusCpus.isEmpty then []
  else [.update new.node new.alloc]

/-- one informer notification. -/
inductive Event where
  | podAdd (new : PodObj)                 -- OnAdd                      = updatePod(nil, new)
  | podUpdate (old new : PodObj)          -- OnUpdate                   = updatePod(old, new); with a changed UID:
                                          --                              deletePod(old) then updatePod(nil, new)
  | podDelete (obj : PodObj)              -- OnDelete, plain or tombstone = deletePod(obj)
  | topo (node : Nat) (valid : Bool)      -- NodeResourceTopology add / update / delete: the stored topology is (in)valid now
  | other                                 -- an object of another type: every handler returns at its type assertion
deriving Repr

def decode : Event → List MOp
  | .podAdd n => decodeUpdate none n
  | .podUpdate o n => if o.uid ≠ n.uid then decodeDelete o ++ decodeUpdate none n else decodeUpdate (some o) n
  | .podDelete o => decodeDelete o
  | .topo _ _ => []
  | .other => []

/-- resourceManager.nodeAllocations (an absent entry reads as the empty ledger: getOrCreateNodeAllocation) and, per
    node, `topologyOptionsManager.GetTopologyOptions(node).CPUTopology.IsValid()`. -/
structure Mgr where
  L     : Nat → Ledger
  valid : Nat → Bool

def Mgr.empty : Mgr := { L := fun _ => Ledger.empty, valid := fun _ => false }

def Mgr.setL (M : Mgr) (n : Nat) (l : Ledger) : Mgr := { M with L := fun m => if m = n then l else M.L m }

/-- resource_manager.go `Update` (returns before touching the ledger when the topology is not valid) / `Release`. -/
def Mgr.apply (M : Mgr) : MOp → Mgr
  | .update n p => if M.valid n then M.setL n (updatePod (M.L n) p) else M
  | .release n u => M.setL n (releasePod (M.L n) u)

/-- CPUTopology.IsValid after NewTopologyOptions: the NodeResourceTopology exists and its cpu-topology annotation lists at
    least one CPU (convertCPUTopology counts sockets / nodes / cores / cpus from the details). -/
def topoValid (present : Bool) (ncpus : Nat) : Bool := present && decide (0 < ncpus)

def handle (M : Mgr) (e : Event) : Mgr :=
  match e with
  | .topo n v => { M with valid := fun m => if m = n then v else M.valid m }
  | e => (decode e).foldl Mgr.apply M

def runEvents (evs : List Event) : Mgr := evs.foldl handle Mgr.empty

end KoordVerif.C06
