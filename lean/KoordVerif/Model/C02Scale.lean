/-
C02 — min-quota scaling when the children's minimums exceed the parent's resource.  Model of
  pkg/scheduler/plugins/elasticquota/core/scale_minquota_when_over_root_res.go
    ScaleMinQuotaManager.update / remove / getScaledMinQuota
One resource dimension, amounts as the int64 values of getQuantityValue.  The proportional share
`int64(float64(avail) * float64(min) / float64(enableSum))` is a parameter `share` (float64 in Go).
Core-only.
-/
namespace KoordVerif.C02

/-- per child: (original min, enableScale). -/
structure SMChild where
  name   : Nat
  min    : Int
  enable : Bool
deriving Repr, DecidableEq

/-- state for ONE parent: recorded children and the two running sums. -/
structure SM where
  children   : List SMChild
  enableSum  : Int
  disableSum : Int
  /-- whether update() was ever called for this parent (the two sum maps have an entry) -/
  known      : Bool
deriving Repr, DecidableEq

def SM.init : SM := { children := [], enableSum := 0, disableSum := 0, known := false }

def smFind (cs : List SMChild) (n : Nat) : Option SMChild := cs.find? (fun c => c.name == n)

/-- `quotav1.SubtractWithNonNegativeResult` on one dimension. -/
def subNonNeg (a b : Int) : Int := if a - b < 0 then 0 else a - b

/-- `update(parent, sub, min, enable)` -/
def SM.update (s : SM) (n : Nat) (min : Int) (enable : Bool) : SM :=
  let (e1, d1) :=
    match smFind s.children n with
    | some old => if old.enable then (subNonNeg s.enableSum old.min, s.disableSum)
                  else (s.enableSum, subNonNeg s.disableSum old.min)
    | none => (s.enableSum, s.disableSum)
  let (e2, d2) := if enable then (e1 + min, d1) else (e1, d1 + min)
  { children := { name := n, min := min, enable := enable } :: s.children.filter (fun c => c.name != n),
    enableSum := e2, disableSum := d2, known := true }

/-- `remove(parent, sub)`: an unknown child reads as enable = false, min = 0 (Go zero values). -/
def SM.remove (s : SM) (n : Nat) : SM :=
  let (en, m) := match smFind s.children n with
    | some old => (old.enable, old.min)
    | none => (false, 0)
  let s' := if !s.known then s
    else if en then { s with enableSum := subNonNeg s.enableSum m }
    else { s with disableSum := subNonNeg s.disableSum m }
  { s' with children := s'.children.filter (fun c => c.name != n) }

/-- `getScaledMinQuota(total, parent, sub)`: `none` = (false, nil); `some m` = (true, m). -/
def SM.scaled (share : Int → Int → Int → Int) (s : SM) (total : Int) (n : Nat) : Option Int :=
  match smFind s.children n with
  | none => none
  | some c =>
    if !s.known then none
    else if !c.enable then none
    else if !(total < s.disableSum + s.enableSum) then some c.min
    else
      let avail := total - s.disableSum
      if avail ≤ 0 then some 0
      else if s.enableSum > 0 then some (share avail c.min s.enableSum) else some 0

/-- exact (rational-floor) instance of the share, used in the theorems. -/
def exactShare (avail min enableSum : Int) : Int := avail * min / enableSum

end KoordVerif.C02
