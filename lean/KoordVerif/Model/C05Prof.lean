import KoordVerif.Model.C05
/-
C05 — several scheduler PROFILES, each with its own reservation cache, fed by the same Reservation informer.
Model of
  pkg/scheduler/frameworkext/reservation_cache.go            SetReservationCache / GetAllReservationCaches (one cache per profile)
  pkg/scheduler/frameworkext/eventhandlers/reservation_handler.go
        reservationEventHandlers (toReservation), addReservation, updateReservation (the case analysis),
        deleteReservation, updateReservationInSchedulerCache, deleteReservationFromSchedulerCache
        (ONLY their effect on the reservation caches; the kube scheduler cache / queue side is not modelled)
  pkg/scheduler/plugins/reservation/eventhandler.go          reservationEventHandler.OnAdd/OnUpdate/OnDelete per profile
One informer event is delivered to the scheduler-wide handler ("global", role 0) and to every profile's plugin
handler (role i ≥ 1); every listener runs on its own goroutine, so the order between them is arbitrary.
Core-only.
-/
namespace KoordVerif.C05

/-- the object shapes a handler can be handed: 0 = *Reservation, 1 = DeletedFinalStateUnknown{*Reservation},
    2 = DeletedFinalStateUnknown{something else}, 3 = something else.
    eventhandlers.toReservation reads kinds 0 and 1 … -/
def toRsv (kind : Nat) : Bool := kind ≤ 1
/-- … the plugin's OnAdd / OnUpdate assert `obj.(*Reservation)` (kind 0 only); its OnDelete reads kinds 0 and 1 -/
def isRsvPtr (kind : Nat) : Bool := kind == 0

/-- IsReservationFailed || IsReservationSucceeded -/
def RObj.terminated (o : RObj) : Bool := o.phase == 3 || o.phase == 4
/-- eventhandlers.isReservationActive (NOT reservationutil.IsReservationActive): unassigned and not terminated -/
def RObj.unassigned (o : RObj) : Bool := o.node == 0 && !o.terminated

/-- one informer event for a reservation; `valid` = reservationutil.ValidateReservation(new object) == nil -/
inductive REv where
  | add (kind : Nat) (valid : Bool) (o : RObj)
  | upd (ko kn : Nat) (valid : Bool) (o n : RObj)
  | del (kind : Nat) (o : RObj)
  | bcast (f : Cache → Cache)   -- something every profile applies to its own cache (pod informer events)

/-- what the plugin handler of ONE profile does to ITS cache -/
def plugEv (c : Cache) : REv → Cache
  | .add kind _ o => if isRsvPtr kind then onAdd c o else c
  | .upd ko kn _ _ n => if isRsvPtr ko && isRsvPtr kn then onUpdate c n else c
  | .del kind o => if toRsv kind then onDelete c o else c
  | .bcast f => f c

/-- eventhandlers.updateReservation: does the case analysis end in deleteReservationFromSchedulerCache(oldR)?
    case 0 terminated -> terminated: no; case 1 available -> available: only when uid or node differ
    (updateReservationInSchedulerCache: delete-then-add); case 2 unassigned -> available: no; case 3 available ->
    terminated: yes; case 4 available -> unassigned: yes; cases 5, 6 and the unexpected transitions: no.
    An invalid new object returns before the case analysis. -/
def gUpdateDeletes (valid : Bool) (o n : RObj) : Bool :=
  valid && !(o.terminated && n.terminated) &&
  (if o.available && n.available then (o.uid != n.uid || o.node != n.node)
   else if o.unassigned && n.available then false
   else if o.available && n.terminated then true
   else if o.available && n.unassigned then true
   else false)

/-- the object (uid, node) the scheduler-wide handler passes to DeleteReservation of EVERY registered cache, if any.
    deleteReservationFromSchedulerCache returns at once when Status.NodeName == "". -/
def globTarget : REv → Option (Nat × Nat)
  | .add _ _ _ => none
  | .upd ko kn valid o n =>
    if toRsv ko && toRsv kn && gUpdateDeletes valid o n && o.node != 0 then some (o.uid, o.node) else none
  | .del kind o => if toRsv kind && o.node != 0 then some (o.uid, o.node) else none
  | .bcast _ => none

/-- the effect of the scheduler-wide handler on ONE of the registered caches (the loop body) -/
def globEv (c : Cache) (e : REv) : Cache :=
  match globTarget e with
  | some (u, n) => deleteReservation c u n
  | none => c

/-- one profile's cache after both listeners processed the event; `gfirst` = the global handler ran first -/
def evStep (gfirst : Bool) (c : Cache) (e : REv) : Cache :=
  if gfirst then plugEv (globEv c e) e else globEv (plugEv c e) e

/-- all profiles: deleteReservationFromSchedulerCache loops over EVERY cache of GetAllReservationCaches();
    `gf i` = the order in which profile i's cache saw the two listeners -/
def deliverFrom (e : REv) (gf : Nat → Bool) : Nat → List Cache → List Cache
  | _, [] => []
  | i, c :: t => evStep (gf i) c e :: deliverFrom e gf (i + 1) t

def deliverAll (cs : List Cache) (e : REv) (gf : Nat → Bool) : List Cache := deliverFrom e gf 0 cs

def runProfiles (cs : List Cache) (es : List (REv × (Nat → Bool))) : List Cache :=
  es.foldl (fun cs x => deliverAll cs x.1 x.2) cs

/-! ### the seeded shape: the loop stops at the first cache that returns a ReservationInfo -/

/-- the scheduler-wide handler with `break` after the first cache that knew the reservation -/
def globBreak (u n : Nat) : List Cache → List Cache
  | [] => []
  | c :: t => if (findInfo c u).isSome then deleteReservation c u n :: t else deleteReservation c u n :: globBreak u n t

/-- canonical order (every plugin handler first, then the global one) with the early break -/
def deliverBreak (cs : List Cache) (e : REv) : List Cache :=
  let cs := cs.map (fun c => plugEv c e)
  match globTarget e with
  | some (u, n) => globBreak u n cs
  | none => cs

/-! ### one listener at a time (a listener may lag behind the others by whole events) -/

def modifyAt (f : Cache → Cache) : Nat → List Cache → List Cache
  | _, [] => []
  | 0, c :: t => f c :: t
  | i + 1, c :: t => c :: modifyAt f i t

/-- ONE listener processes event `e`: role 0 = the scheduler-wide handler (its loop touches every cache),
    role i ≥ 1 = the plugin handler of profile i (its own cache only) -/
def deliverTo (cs : List Cache) (e : REv) (role : Nat) : List Cache :=
  if role == 0 then cs.map (fun c => globEv c e) else modifyAt (fun c => plugEv c e) (role - 1) cs

/-! ### driver helpers -/

/-- position of role `x` in the delivery order (length if absent) -/
def posOf (ord : List Nat) (x : Nat) : Nat := ord.findIdx (fun y => y == x)

/-- the drawn delivery order as the per-profile flag: did role 0 come before role i+1 ? -/
def gfOfOrder (ord : List Nat) : Nat → Bool := fun i => decide (posOf ord 0 < posOf ord (i + 1))

/-- Reserve in the scheduling cycle of profile `i` (0-based): assumePods on that profile's cache only -/
def assumeAt : Nat → List Cache → Nat → List Pod → List Cache × Nat
  | _, [], _, _ => ([], 9)
  | 0, c :: t, ru, ps => let (c', e) := addPods c ru ps; (c' :: t, e)
  | i + 1, c :: t, ru, ps => let (t', e) := assumeAt i t ru ps; (c :: t', e)

end KoordVerif.C05
