/-
C18 — low-node-load balancing.  Model of
  pkg/descheduler/framework/plugins/loadaware/low_node_load.go
      processOneNodePool, filterRealAbnormalNodes, resetNodesAsNormal, tryMarkNodesAsNormal,
      continueEvictionCond, newThresholds (defaulting only; see Driver for the float part)
  pkg/descheduler/framework/plugins/loadaware/utilization_util.go
      classifyNodes, isNodeOverutilized, isNodeUnderutilized, evictPodsFromSourceNodes,
      targetAvailableUsage, balancePods, classifyPods, podFitsAnyNodeWithThreshold, evictPods
  pkg/descheduler/utils/anomaly/basic_detector.go   Mark, Reset, currentState, setState, counters
Quantities are integers (CPU in milli-units, everything else in base units) over the list of
tracked resources of the node pool (`resourceNames`); a `Vec` has one entry per tracked resource.
Threshold *quantities* are inputs of this model (the float64 percent→quantity step lives in the
driver), so everything below is float-free.  Sort orders (nodes by score, pods by usage) are inputs
(`order`), DESIGN §2.4.  The anomaly detector's wall-clock timeout is not modelled (no expiry
inside a history).  Core-only.
-/
namespace KoordVerif.C18

abbrev Vec := List Int

def vadd : Vec → Vec → Vec
  | a :: as, b :: bs => (a + b) :: vadd as bs
  | _, _ => []

def vsub : Vec → Vec → Vec
  | a :: as, b :: bs => (a - b) :: vsub as bs
  | _, _ => []

def vmin : Vec → Vec → Vec
  | a :: as, b :: bs => (if a > b then b else a) :: vmin as bs
  | _, _ => []

/-- isNodeOverutilized: at least one resource strictly above its threshold. -/
def over : Vec → Vec → Bool
  | a :: as, b :: bs => decide (a > b) || over as bs
  | _, _ => false

/-- isNodeUnderutilized: every resource at or below its threshold. -/
def under : Vec → Vec → Bool
  | a :: as, b :: bs => decide (a ≤ b) && under as bs
  | _, _ => true

/-- continueEvictionCond, second half: every tracked resource still has headroom
    (`quantity.CmpInt64(0) < 1 ⇒ stop`). -/
def allPos : Vec → Bool
  | [] => true
  | a :: as => decide (a > 0) && allPos as

structure Pod where
  id        : Nat
  prod      : Bool   -- koordinator priority class is koord-prod
  hasMetric : Bool   -- the NodeMetric carries a PodMetricInfo for it
  metric    : Vec    -- what evictPods subtracts (the `pods` resource counts 1)
  fitMetric : Vec    -- what podFitsAnyNodeWithThreshold adds (the `pods` resource counts 0)
  filt1     : Bool   -- pl.podFilter at classification time
  filt2     : Bool   -- pl.podFilter right before eviction
  evictOK   : Bool   -- answer of Evictor.Evict
deriving Repr, DecidableEq

structure Node where
  id        : Nat
  unsched   : Bool
  noFit     : Bool   -- nodeutil.NodeFit reports an error for every pod (untolerated taint)
  usage     : Vec
  prodUsage : Vec
  low       : Vec
  high      : Vec
  plow      : Vec
  phigh     : Vec
  pods      : List Pod  -- in the order returned by GetPodsAssignedToNodeFunc
deriving Repr, DecidableEq

inductive Cls where
  | low | high | prodLow | prodHigh | bothLow | normal
deriving Repr, DecidableEq

def lowFilter (n : Node) : Bool := !n.unsched && under n.usage n.low
def prodLowFilter (n : Node) : Bool := !n.unsched && under n.prodUsage n.plow
def highFilter (n : Node) : Bool := over n.usage n.high
def prodHighFilter (n : Node) : Bool := over n.prodUsage n.phigh

/-- classifyNodes, one node. -/
def classify (n : Node) : Cls :=
  if lowFilter n then
    if prodHighFilter n then .prodHigh
    else if prodLowFilter n then .bothLow
    else .low
  else if highFilter n then .high
  else if prodHighFilter n then .prodHigh
  else if prodLowFilter n then .prodLow
  else .normal

def Cls.code : Cls → Nat
  | .low => 0 | .high => 1 | .prodLow => 2 | .prodHigh => 3 | .bothLow => 4 | .normal => 5

/-! ### anomaly detector (basic_detector.go), timeouts not modelled -/

structure Det where
  anomaly : Bool
  cAbn    : Nat
  cNorm   : Nat
deriving Repr, DecidableEq

/-- LoadAnomalyCondition: (ConsecutiveAbnormalities, ConsecutiveNormalities). -/
structure Cond where
  abn  : Nat
  norm : Nat
deriving Repr, DecidableEq

def Det.fresh : Det := ⟨false, 0, 0⟩

/-- currentState: an anomalous detector whose normal-condition already holds falls back to OK
    (setState ⇒ toNewGeneration ⇒ counters cleared). -/
def Det.current (c : Cond) (d : Det) : Det :=
  if d.anomaly && decide (d.cNorm > c.norm) then Det.fresh else d

/-- Mark(false). -/
def Det.markAbn (c : Cond) (d : Det) : Det :=
  let d := d.current c
  let d := if d.anomaly then { d with cAbn := d.cAbn + 1, cNorm := 0 }
           else if d.cAbn + 1 > c.abn then ⟨true, 0, 0⟩
           else { d with cAbn := d.cAbn + 1, cNorm := 0 }
  d.current c

/-- Mark(true). -/
def Det.markNorm (c : Cond) (d : Det) : Det :=
  let d := d.current c
  let d := if d.anomaly then
             (if d.cNorm + 1 > c.norm then Det.fresh else { d with cNorm := d.cNorm + 1, cAbn := 0 })
           else { d with cNorm := d.cNorm + 1, cAbn := 0 }
  d.current c

/-- Reset(): setState(OK) — a no-op (counters kept!) when the state already is OK. -/
def Det.reset (d : Det) : Det := if d.anomaly then Det.fresh else d

abbrev Dets := List (Nat × Det)

def Dets.get? : Dets → Nat → Option Det
  | [], _ => none
  | (k, d) :: rest, n => if k = n then some d else Dets.get? rest n

def Dets.set : Dets → Nat → Det → Dets
  | [], n, d => [(n, d)]
  | (k, x) :: rest, n, d => if k = n then (k, d) :: rest else (k, x) :: Dets.set rest n d

/-- filterRealAbnormalNodes over the (id-ordered) source list; `none`/abn = 1 ⇒ pass-through
    without touching any detector. -/
def filterAbnormal (c : Cond) : Dets → List Node → List Node × Dets
  | ds, [] => ([], ds)
  | ds, n :: ns =>
    let d := ((Dets.get? ds n.id).getD Det.fresh).markAbn c
    let ds := Dets.set ds n.id d
    let (r, ds) := filterAbnormal c ds ns
    (if d.anomaly then n :: r else r, ds)

def filterRealAbnormal (c : Option Cond) (ds : Dets) (src : List Node) : List Node × Dets :=
  match c with
  | none => (src, ds)
  | some c => if c.abn = 1 then (src, ds) else filterAbnormal c ds src

/-- resetNodesAsNormal. -/
def resetAll (ds : Dets) (ids : List Nat) : Dets :=
  ids.foldl (fun ds n => match Dets.get? ds n with
    | some d => Dets.set ds n d.reset
    | none => ds) ds

/-- tryMarkNodesAsNormal (the closures of the stored detector carry the pool's condition). -/
def markNormAll (c : Option Cond) (ds : Dets) (ids : List Nat) : Dets :=
  match c with
  | none => ds   -- no detector was ever created
  | some c => ids.foldl (fun ds n => match Dets.get? ds n with
      | some d => Dets.set ds n (d.markNorm c)
      | none => ds) ds

/-! ### eviction -/

/-- one Evictor.Evict call, with the running estimates the code compared right before it. -/
structure Ev where
  node  : Nat
  pod   : Nat
  prod  : Bool
  ok    : Bool
  usage : Vec   -- running (prod) usage of the source node at the call
  high  : Vec   -- its (prod) high threshold
  avail : Vec   -- remaining headroom of the underused nodes at the call
  moved : Bool  -- the call succeeded and the pod has a metric: the estimates are decremented by `metric`
  metric : Vec
deriving Repr, DecidableEq

structure LoopOut where
  evs      : List Ev
  avail    : Vec
  relieved : Bool   -- the loop ended because the node is no longer over its high threshold
deriving Repr, DecidableEq

/-- evictPods.  `cur` is `nodeInfo.usage` (or `prodUsage` in the prod pass): the only running
    usage the continue-condition reads in that pass. -/
def evictLoop (dry prod : Bool) (nid : Nat) (high : Vec) : Vec → Vec → List Pod → LoopOut
  | _, avail, [] => ⟨[], avail, false⟩
  | cur, avail, p :: ps =>
    if !over cur high then ⟨[], avail, true⟩
    else if !allPos avail then ⟨[], avail, false⟩
    else if !p.filt2 then evictLoop dry prod nid high cur avail ps
    else if dry then
      if p.hasMetric then evictLoop dry prod nid high (vsub cur p.metric) (vsub avail p.metric) ps
      else evictLoop dry prod nid high cur avail ps
    else
      let e : Ev := ⟨nid, p.id, prod, p.evictOK, cur, high, avail, p.evictOK && p.hasMetric, p.metric⟩
      let r := if p.evictOK && p.hasMetric
               then evictLoop dry prod nid high (vsub cur p.metric) (vsub avail p.metric) ps
               else evictLoop dry prod nid high cur avail ps
      { r with evs := e :: r.evs }

/-- a destination node as seen by podFitsAnyNodeWithThreshold. -/
structure Tgt where
  id    : Nat
  noFit : Bool
  used  : Vec
  thr   : Vec
deriving Repr, DecidableEq

/-- podFitsAnyNodeWithThreshold: first target that takes the pod keeps the pod's usage added. -/
def fitsAny (m : Vec) : List Tgt → Option (List Tgt)
  | [] => none
  | t :: ts =>
    if t.noFit || over (vadd t.used m) t.thr then (fitsAny m ts).map (t :: ·)
    else some ({ t with used := vadd t.used m } :: ts)

/-- classifyPods with the wrapped filter of balancePods (podFilter, then the NodeFit closure). -/
def removable (nodeFit : Bool) : List Tgt → List Pod → List Pod × List Tgt
  | tg, [] => ([], tg)
  | tg, p :: ps =>
    if !p.filt1 then removable nodeFit tg ps
    else if !nodeFit then
      let (r, tg') := removable nodeFit tg ps
      (p :: r, tg')
    else if !p.hasMetric then removable nodeFit tg ps
    else match fitsAny p.fitMetric tg with
      | none => removable nodeFit tg ps
      | some tg1 =>
        let (r, tg') := removable nodeFit tg1 ps
        (p :: r, tg')

/-- sort order fed through (§2.4): the observed pod ids first, the rest in list order. -/
def applyOrder (ord : List Nat) (ps : List Pod) : List Pod :=
  (ord.filterMap fun i => ps.find? (·.id = i)) ++ ps.filter (fun p => !ord.contains p.id)

structure BalOut where
  evs    : List Ev
  avail  : Vec
  resets : List Nat
deriving Repr, DecidableEq

/-- the source-node loop of balancePods (targets non-empty). -/
def balanceLoop (dry nodeFit prod : Bool) (order : Nat → List Nat) : List Tgt → Vec → List Node → BalOut
  | _, avail, [] => ⟨[], avail, []⟩
  | tg, avail, s :: ss =>
    let all := if prod then s.pods.filter (·.prod) else s.pods
    let (rem, tg') := removable nodeFit tg all
    if rem.isEmpty then balanceLoop dry nodeFit prod order tg' avail ss
    else
      let o := evictLoop dry prod s.id (if prod then s.phigh else s.high)
                 (if prod then s.prodUsage else s.usage) avail (applyOrder (order s.id) rem)
      let r := balanceLoop dry nodeFit prod order tg' o.avail ss
      ⟨o.evs ++ r.evs, r.avail, (if o.relieved then [s.id] else []) ++ r.resets⟩

def balancePods (dry nodeFit prod : Bool) (order : Nat → List Nat) (tg : List Tgt) (avail : Vec)
    (src : List Node) : BalOut :=
  if tg.isEmpty then ⟨[], avail, []⟩ else balanceLoop dry nodeFit prod order tg avail src

/-- targetAvailableUsage: Σ (high − usage) over the destination nodes. -/
def targetAvail (prod : Bool) (zero : Vec) (ns : List Node) : Vec :=
  ns.foldl (fun acc n => if prod then vsub (vadd acc n.phigh) n.prodUsage
                         else vsub (vadd acc n.high) n.usage) zero

def mkTgt (prod : Bool) (n : Node) : Tgt :=
  if prod then ⟨n.id, n.noFit, n.prodUsage, n.phigh⟩ else ⟨n.id, n.noFit, n.usage, n.high⟩

structure Cfg where
  cond          : Option Cond
  numberOfNodes : Int
  dryRun        : Bool
deriving Repr, DecidableEq

structure St where
  nodeDet : Dets
  prodDet : Dets
deriving Repr, DecidableEq

structure RoundIn where
  total   : Nat        -- len(nodes) of the pool, with or without usable metrics
  nodeFit : Bool
  dims    : Nat        -- number of tracked resources
  nodes   : List Node  -- the nodes that have a usable NodeMetric
  srcOrd  : List Nat   -- observed processing order of the source nodes (used to break ties only)
  podOrd  : Nat → List Nat  -- observed eviction order of the pods of a source node (ties only)
  nscore  : Nat → Int  -- sortNodesByUsage score of a node (by id) on its whole usage, `usageScore`
  pscore  : Nat → Int  -- … on its prod usage
  podKey  : Nat → List Int  -- sort key of a pod (by id) on its node, compared by `lexLe`

/-- which early exit ended the round (0 = went on to evict). -/
structure RoundOut where
  exit : Nat
  evs  : List Ev
  st   : St
  /-- source nodes whose eviction loop ended because the running usage was back at/under the high
      threshold (continueEvictionCond resets their detector): node pass / prod pass. -/
  nodeResets : List Nat := []
  prodResets : List Nat := []

def ofClass (c : Cls) (ns : List Node) : List Node := ns.filter (fun n => classify n = c)

/-- order the sources: observed ones first in observed order, the rest in list order. -/
def orderNodes (ord : List Nat) (ns : List Node) : List Node :=
  (ord.filterMap fun i => ns.find? (·.id = i)) ++ ns.filter (fun n => !ord.contains n.id)

/-! ### sort orders: sortNodesByUsage (sorter.ResourceUsageScorer) and sortPodsOnOneOverloadedNode
(sorter.PodSorter).  Go's sort.Slice / sort.Sort are not stable: elements with equal keys may come
in any order, so the OBSERVED processing order is used to order elements with equal keys — and for
nothing else. -/

/-- stable insertion sort (structural recursion, so it also evaluates inside the kernel). -/
def insertBy {α} (le : α → α → Bool) (x : α) : List α → List α
  | [] => [x]
  | y :: ys => if le x y then x :: y :: ys else y :: insertBy le x ys

def sortBy {α} (le : α → α → Bool) : List α → List α
  | [] => []
  | x :: xs => insertBy le x (sortBy le xs)

/-- sorter.mostRequestedScore: `(min(requested, capacity) * 1000) / capacity`, 0 for capacity 0
    (Go integer division truncates). -/
def mostRequestedScore (req cap : Int) : Int :=
  if cap = 0 then 0 else ((if req > cap then cap else req) * 1000).tdiv cap

/-- sorter.ResourceUsageScorer over the resources of the usage map — the tracked resources AND
    `pods`, which getNodeUsage always records — as (usage, capacity, weight) triples; the capacity is
    the RAW allocatable (`CapUse.nodeScore`); a resource without an entry in ResourceWeights weighs 0. -/
def usageScore (rs : List (Int × Int × Int)) : Int :=
  let num := rs.foldl (fun a x => a + mostRequestedScore x.1 x.2.1 * x.2.2) 0
  let den := rs.foldl (fun a x => a + x.2.2) 0
  if den = 0 then 0 else num.tdiv den

/-- sortNodesByUsage(…, ascending = false): highest score first; equal scores in observed order. -/
def sortSources (score : Nat → Int) (ord : List Nat) (ns : List Node) : List Node :=
  sortBy (fun a b => decide (score a.id ≥ score b.id)) (orderNodes ord ns)

/-- lexicographic "≤" on sort keys (MultiSorter.Less walks the comparators in order). -/
def lexLe : List Int → List Int → Bool
  | [], _ => true
  | _ :: _, [] => false
  | a :: as, b :: bs => if a < b then true else if b < a then false else lexLe as bs

/-- the processing order of ALL pods of a source node as pod ids: ascending by key, equal keys in
    observed order.  `applyOrder` then restricts it to the removable pods (a sublist of a sorted
    list is sorted).  Key layout (sorter.PodSorter + Reverse(PodUsage)), built by the driver:
    [koordinator priority-class rank, priority, deletion cost, eviction cost,
     1 if the pod has no metric, rank of the usage score (0 = highest)];
    Kubernetes / koordinator QoS class and creation timestamp are equal for all generated pods. -/
def podOrder (key : Nat → List Int) (obs : List Nat) (ps : List Pod) : List Nat :=
  (sortBy (fun a b => lexLe (key a.id) (key b.id)) (applyOrder obs ps)).map (·.id)

/-- evictPodsFromSourceNodes. -/
def evictFromSources (dry nodeFit : Bool) (dims : Nat) (podOrd : Nat → List Nat)
    (src low psrc plow both : List Node) : BalOut × BalOut :=
  let zero : Vec := List.replicate dims 0
  let totalAvail := targetAvail false zero low
  let prodAvail := targetAvail true zero plow
  let bothTotal := targetAvail false zero both
  let prodBoth := targetAvail true zero both
  let nodeTotal := vadd (vadd zero totalAvail) bothTotal
  let b1 := balancePods dry nodeFit false podOrd ((low ++ both).map (mkTgt false)) nodeTotal src
  let bothTotal' := vmin bothTotal b1.avail
  let prodTotal := vadd (vadd zero prodAvail) (vmin prodBoth bothTotal')
  let b2 := balancePods dry nodeFit true podOrd ((plow ++ both).map (mkTgt true)) prodTotal psrc
  (b1, b2)

/-- processOneNodePool. -/
def runRound (cfg : Cfg) (st : St) (r : RoundIn) : RoundOut :=
  if r.total = 0 then { exit := 1, evs := [], st := st } else
  let low := ofClass .low r.nodes
  let high := ofClass .high r.nodes
  let plow := ofClass .prodLow r.nodes
  let phigh := ofClass .prodHigh r.nodes
  let both := ofClass .bothLow r.nodes
  if high.isEmpty && phigh.isEmpty then { exit := 2, evs := [], st := st } else
  let (abn, nd) := filterRealAbnormal cfg.cond st.nodeDet high
  let (pabn, pd) := filterRealAbnormal cfg.cond st.prodDet phigh
  if abn.isEmpty && pabn.isEmpty then { exit := 3, evs := [], st := ⟨nd, pd⟩ } else
  if low.isEmpty && plow.isEmpty && both.isEmpty then { exit := 4, evs := [], st := ⟨nd, pd⟩ } else
  let nd := resetAll nd (low.map (·.id))
  let pd := resetAll pd (plow.map (·.id))
  let nd := resetAll nd (both.map (·.id))
  let allLow := low.length + plow.length + both.length
  if (allLow : Int) ≤ cfg.numberOfNodes then { exit := 5, evs := [], st := ⟨nd, pd⟩ } else
  if allLow = r.total then { exit := 6, evs := [], st := ⟨nd, pd⟩ } else
  let src := sortSources r.nscore r.srcOrd abn
  let psrc := sortSources r.pscore r.srcOrd pabn
  let pord : Nat → List Nat := fun nid => match r.nodes.find? (·.id = nid) with
    | some n => podOrder r.podKey (r.podOrd nid) n.pods
    | none => []
  let (b1, b2) := evictFromSources cfg.dryRun r.nodeFit r.dims pord src low psrc plow both
  let nd := resetAll nd b1.resets
  let pd := resetAll pd b2.resets
  let nd := markNormAll cfg.cond nd (src.map (·.id))
  let pd := markNormAll cfg.cond pd (psrc.map (·.id))
  ⟨0, b1.evs ++ b2.evs, ⟨nd, pd⟩, b1.resets, b2.resets⟩

/-- the harness reads `State()` of every cached detector after a round (currentState persists). -/
def observeDets (c : Option Cond) (ds : Dets) : Dets :=
  match c with
  | none => ds
  | some c => ds.map fun (k, d) => (k, d.current c)

/-! ### newThresholds: defaulting of the four percentage maps (percentages stay abstract: `α`) -/

structure PctIn (α : Type) where
  low : Option α
  high : Option α
  plow : Option α
  phigh : Option α

structure PctEff (α : Type) where
  low : α
  high : α
  plow : α
  phigh : α

/-- MaxResourcePercentage (static mode) / MinResourcePercentage (deviation mode): what
    newThresholds fills in for a resource without a low entry. -/
def dfltPct (deviation : Bool) : Int := if deviation then 0 else 100

/-- a resource is tracked when it is a key of any of the four maps, or is memory. -/
def tracked {α} (isMem : Bool) (p : PctIn α) : Bool :=
  isMem || p.low.isSome || p.high.isSome || p.plow.isSome || p.phigh.isSome

/-- `dflt` = 100 (static) or 0 (deviation); `zero` = the Go zero value a missing map key reads as.
    Note the quirks: a missing low entry overwrites a present high entry; a present low entry with a
    missing high entry leaves high = 0. -/
def newThresholds {α} (dflt zero : α) (p : PctIn α) : PctEff α :=
  let (l, h) := match p.low with
    | none => (dflt, dflt)
    | some l => (l, p.high.getD zero)
  let (pl, ph) := match p.plow with
    | none => (dflt, dflt)
    | some l => (l, p.phigh.getD zero)
  ⟨l, h, pl, ph⟩

end KoordVerif.C18
