import KoordVerif.Common.Proto
/-
C19 (elasticquota part): which quota group a pod is charged to, live and after a restart.

Go code mirrored (pkg/scheduler/plugins/elasticquota, feature gates at their defaults: MultiQuotaTree,
DisableDefaultQuota, ElasticQuotaIgnoreTerminatingPod, ElasticQuotaImmediateIgnoreTerminatingPod off,
so every quota lives in the default GroupQuotaManager, `shouldBeIgnored` is false and a pod is always
charged somewhere):
  plugin_helper.go   GetQuotaName (label, else the ElasticQuota named like the pod's namespace inside that
                     namespace, else the ElasticQuota whose `quota.scheduling.koordinator.sh/namespaces`
                     annotation lists the namespace, else koordinator-default-quota),
                     getPodAssociateQuotaNameAndTreeID (a name that is not a key of quotaToTreeMap =>
                     koordinator-default-quota), migrateDefaultQuotaGroupsPod
  pod_handler.go     OnPodAdd / OnPodUpdate (same ResourceVersion => ignored; both names resolved NOW) / OnPodDelete
  quota_handler.go   OnQuotaAdd / OnQuotaUpdate (quotaToTreeMap + QuotaInfo appear), OnQuotaDelete (both vanish,
                     the QuotaInfo takes its pod cache with it), ReplaceQuotas (a NEW manager: every pod charge is
                     dropped; quotaToTreeMap = {default, system} + the store)
  plugin.go          Reserve / Unreserve
  core/group_quota_manager.go  OnPodAdd (incl. the fail-over branch: NodeName set and not terminated => assigned
                     + used), OnPodUpdate (all branches), OnPodDelete, ReservePod, UnreservePod, MigratePod
  core/quota_info.go addPodIfNotPresent, refreshPodIfPresent (fix 7265fb2: the cached object follows the updates that
                     are routed to the quota that holds the pod), getCachedPod, UpdatePodIsAssigned,
                     SelfRequest / SelfUsed clamped at 0

Names: 0 = no label, 1 = koordinator-default-quota, 2 = koordinator-system-quota, >= 3 quotas of the case.
A namespace token n is the namespace whose name is the name of quota n.  Amounts: cpu milli (the harness
requests memory = 1024 * cpu, every quota declares cpu and memory, so the mask by the quota's max names is
the identity; the hierarchical figures are C01's subject and compared here by the Go oracle only).

Quirks kept as written:
  * the pod cache of a QuotaInfo keeps the object of the last update that was routed to it (the first object it saw
    before fix 7265fb2); migrateDefaultQuotaGroupsPod resolves the quota from THAT object and MigratePod moves ITS
    request; OnPodDelete gives back ITS request.
  * MigratePod subtracts the request from `out` whether or not `out` caches the pod; since fix 5a63beb it
    returns after that when `in` already caches the pod (the assigned flag of `out` is then NOT carried over).
  * OnPodDelete resolves the quota NOW; since fix 931f7a3 the default group is cleared as well.
  * OnPodUpdate with old and new resolving to the same quota that does not cache the pod adds it
    ("pod creation before quota creation") without looking at any other quota.
  * a pod that turns terminated keeps its assigned flag and its used (only OnPodAdd / the not-yet-assigned
    branch look at the phase).
-/
namespace KoordVerif.C19.Quota
open KoordVerif.Proto

structure PodObj where
  id : Nat
  label : Nat
  ns : Nat
  req : Int
  node : Bool
  term : Bool
  rv : Nat
  deriving DecidableEq, Repr, Inhabited

structure QObj where
  name : Nat
  own : Bool          -- metadata.namespace is the namespace named like the quota itself
  nss : List Nat      -- namespaces annotation
  deriving DecidableEq, Repr, Inhabited

structure Entry where
  q : Nat
  pid : Nat
  obj : PodObj
  assigned : Bool
  deriving DecidableEq, Repr, Inhabited

structure St where
  known : List Nat := [1, 2]
  store : List QObj := []
  cache : List Entry := []
  req : List (Nat × Int) := []
  used : List (Nat × Int) := []
  deriving Repr, Inhabited

def dflt : Nat := 1

/-- plugin_helper.go GetQuotaName (DisableDefaultQuota off) -/
def quotaNameOf (store : List QObj) (p : PodObj) : Nat :=
  if p.label ≠ 0 then p.label else
  match store.find? (fun q => q.name == p.ns && q.own) with
  | some q => q.name
  | none =>
    match store.find? (fun q => q.nss.contains p.ns) with
    | some q => q.name
    | none => dflt

/-- plugin_helper.go getPodAssociateQuotaNameAndTreeID -/
def resolve (s : St) (p : PodObj) : Nat :=
  let n := quotaNameOf s.store p
  if s.known.contains n then n else dflt

def getC (t : List (Nat × Int)) (q : Nat) : Int :=
  match t.find? (fun e => e.1 == q) with
  | some e => e.2
  | none => 0

/-- quota_info.go addRequestNonNegativeNoLock / addUsedNonNegativeNoLock (self figure, clamped at 0) -/
def bumpC (t : List (Nat × Int)) (q : Nat) (d : Int) : List (Nat × Int) :=
  (q, max 0 (getC t q + d)) :: t.filter (fun e => e.1 != q)

def hasE (s : St) (q pid : Nat) : Bool := s.cache.any (fun e => e.q == q && e.pid == pid)

def isAssigned (s : St) (q pid : Nat) : Bool := s.cache.any (fun e => e.q == q && e.pid == pid && e.assigned)

def addE (s : St) (q : Nat) (p : PodObj) : St :=
  if hasE s q p.id then s else { s with cache := { q := q, pid := p.id, obj := p, assigned := false } :: s.cache }

def delE (s : St) (q pid : Nat) : St :=
  { s with cache := s.cache.filter (fun e => !(e.q == q && e.pid == pid)) }

def setAsg (s : St) (q pid : Nat) (b : Bool) : St :=
  { s with cache := s.cache.map (fun e => if e.q == q && e.pid == pid then { e with assigned := b } else e) }

/-- quota_info.go refreshPodIfPresent (fix 7265fb2): the cached object of a pod the quota holds is replaced, the
    assigned flag is untouched -/
def refreshE (s : St) (q : Nat) (p : PodObj) : St :=
  { s with cache := s.cache.map (fun e => if e.q == q && e.pid == p.id then { e with obj := p } else e) }

/-- quota_info.go getCachedPod -/
def cachedObj (s : St) (q pid : Nat) : Option PodObj :=
  (s.cache.find? (fun e => e.q == q && e.pid == pid)).map (·.obj)

def reqD (s : St) (q : Nat) (d : Int) : St := if d = 0 then s else { s with req := bumpC s.req q d }
def usedD (s : St) (q : Nat) (d : Int) : St := if d = 0 then s else { s with used := bumpC s.used q d }

def bound (p : PodObj) : Bool := p.node && !p.term

/-- core OnPodAdd -/
def mgrPodAdd (s : St) (q : Nat) (p : PodObj) : St :=
  if !s.known.contains q || hasE s q p.id then s else
  let s := reqD (addE s q p) q p.req
  if bound p && !isAssigned s q p.id then usedD (setAsg s q p.id true) q p.req else s

/-- core OnPodUpdate -/
def mgrPodUpdate (s : St) (nq oq : Nat) (new old : PodObj) : St :=
  if oq = nq then
    if !s.known.contains nq then s else
    let s := if hasE s nq new.id then reqD s nq (new.req - old.req) else reqD (addE s nq new) nq new.req
    let s :=
      if isAssigned s nq new.id then usedD s nq (new.req - old.req)
      else if bound new then usedD (setAsg s nq new.id true) nq new.req else s
    refreshE s nq new
  else
    let s :=
      if s.known.contains oq && hasE s oq old.id then
        let s := if isAssigned s oq old.id then usedD s oq (- old.req) else s
        delE (reqD s oq (- old.req)) oq old.id
      else s
    if s.known.contains nq && !hasE s nq new.id then
      let s := reqD (addE s nq new) nq new.req
      if bound new && !isAssigned s nq new.id then usedD (setAsg s nq new.id true) nq new.req else s
    else s

/-- core OnPodDelete -/
def mgrPodDelete (s : St) (q : Nat) (p : PodObj) : St :=
  if !s.known.contains q || !hasE s q p.id then s else
  -- fix 7265fb2: the quota gives back the amounts of the object it CACHES, not of the delivered one
  let p := (cachedObj s q p.id).getD p
  let s := reqD s q (- p.req)
  let s := if isAssigned s q p.id then usedD s q (- p.req) else s
  delE s q p.id

def mgrReserve (s : St) (q : Nat) (p : PodObj) : St :=
  if !s.known.contains q || !hasE s q p.id || isAssigned s q p.id then s else
  usedD (setAsg s q p.id true) q p.req

def mgrUnreserve (s : St) (q : Nat) (p : PodObj) : St :=
  if !s.known.contains q || !hasE s q p.id || !isAssigned s q p.id then s else
  setAsg (usedD s q (- p.req)) q p.id false

/-- core MigratePod(pod, out, in); both QuotaInfos exist (checked by the caller) -/
def mgrMigrate (s : St) (p : PodObj) (out inn : Nat) : St :=
  let asg := isAssigned s out p.id
  let s := reqD s out (- p.req)
  let s := if asg then usedD s out (- p.req) else s
  let s := delE s out p.id
  -- fix 5a63beb: a pod event already filed the pod under `in`: nothing is added (and the flag is not carried over)
  if hasE s inn p.id then s else
  let s := addE s inn p
  let s := setAsg s inn p.id asg
  let s := reqD s inn p.req
  if asg then usedD s inn p.req else s

/-- plugin_helper.go migrateDefaultQuotaGroupsPod: the pods cached by the default group, resolved from
    the CACHED object (iteration order of the Go map: assumed irrelevant, the model uses list order). -/
def migrateAll (s : St) : St :=
  (s.cache.filter (fun e => e.q == dflt)).foldl (fun s e =>
    let n := resolve s e.obj
    if n = dflt then s else mgrMigrate s e.obj dflt n) s

/-- the same with MultiQuotaTree ON and the case's quotas (names >= 3) in a tree of their own: the target lives in
    another manager, so the pod is removed from the default manager (OnPodDelete) and ADDED to the other one
    (OnPodAdd with the cached object: the assigned flag is re-derived from NodeName/phase, not carried over).
    Everything else of the plugin behaves as in the single-manager model (a cross-tree OnPodUpdate is
    OnPodDelete + OnPodAdd = the `oq ≠ nq` branch of core OnPodUpdate).  Not covered by the theorems. -/
def migrateAllMT (s : St) : St :=
  (s.cache.filter (fun e => e.q == dflt)).foldl (fun s e =>
    let n := resolve s e.obj
    if n = dflt then s else
    if n < 3 then mgrMigrate s e.obj dflt n else mgrPodAdd (mgrPodDelete s dflt e.obj) n e.obj) s

def onPodAdd (s : St) (p : PodObj) : St := mgrPodAdd s (resolve s p) p

def onPodUpdate (s : St) (old new : PodObj) : St :=
  if old.rv = new.rv then s else mgrPodUpdate s (resolve s new) (resolve s old) new old

/-- pod_handler.go handlePodDelete (fix 931f7a3: the default group is cleared as well) -/
def onPodDelete (s : St) (p : PodObj) : St :=
  let q := resolve s p
  let s := mgrPodDelete s q p
  if q ≠ dflt then mgrPodDelete s dflt p else s

def reserve (s : St) (p : PodObj) : St := mgrReserve s (resolve s p) p
def unreserve (s : St) (p : PodObj) : St := mgrUnreserve s (resolve s p) p

def storePut (s : St) (q : QObj) : St := { s with store := q :: s.store.filter (fun x => x.name != q.name) }

/-- OnQuotaAdd / OnQuotaUpdate after the informer store was updated -/
def onQuotaPut (s : St) (q : QObj) : St :=
  let s := storePut s q
  if s.known.contains q.name then s else { s with known := q.name :: s.known }

/-- OnQuotaDelete after the informer store was updated: quotaToTreeMap entry and QuotaInfo (with its pod
    cache and self figures) vanish -/
def onQuotaDelete (s : St) (name : Nat) : St :=
  { s with store := s.store.filter (fun x => x.name != name),
           known := s.known.filter (fun x => x != name),
           cache := s.cache.filter (fun e => e.q != name),
           req := s.req.filter (fun e => e.1 != name),
           used := s.used.filter (fun e => e.1 != name) }

/-- ReplaceQuotas(store.List()) -/
def replaceQuotas (s : St) : St :=
  { s with known := (s.store.map (·.name)).foldl (fun k n => if k.contains n then k else n :: k) [1, 2],
           cache := [], req := [], used := [] }

inductive Op where
  | qstore (q : QObj)
  | qput (q : QObj)
  | qdel (name : Nat)
  | replace
  | padd (p : PodObj)
  | pupd (old new : PodObj)
  | pdel (p : PodObj)
  | resv (p : PodObj)
  | unresv (p : PodObj)
  | migrate
  deriving DecidableEq, Repr

def step (s : St) : Op → St
  | .qstore q => storePut s q
  | .qput q => onQuotaPut s q
  | .qdel n => onQuotaDelete s n
  | .replace => replaceQuotas s
  | .padd p => onPodAdd s p
  | .pupd o n => onPodUpdate s o n
  | .pdel p => onPodDelete s p
  | .resv p => reserve s p
  | .unresv p => unreserve s p
  | .migrate => migrateAll s

def run (s : St) (ops : List Op) : St := ops.foldl step s

/-! ## driver -/

def insSorted (x : Nat) : List Nat → List Nat
  | [] => [x]
  | y :: ys => if x ≤ y then x :: y :: ys else y :: insSorted x ys

def sortNat (l : List Nat) : List Nat := l.foldr insSorted []

def dedup (l : List Nat) : List Nat := l.foldl (fun acc x => if acc.contains x then acc else acc ++ [x]) []

/-- one line per known quota: name, self request, self used, number of cached pods, (pod, assigned)* -/
def dump (s : St) : List String :=
  (sortNat (dedup s.known)).map (fun q =>
    let es := s.cache.filter (fun e => e.q == q)
    let pids := sortNat (dedup (es.map (·.pid)))
    let body := pids.flatMap (fun pid => [toString pid, toString (b2i (isAssigned s q pid))])
    " ".intercalate ([s!"q {q} {getC s.req q} {getC s.used q} {pids.length}"] ++ body))

def parsePod : List Int → Option PodObj
  | [id, label, ns, req, node, term, rv] =>
    if id < 0 ∨ label < 0 ∨ ns < 0 ∨ rv < 0 then none else
    some { id := id.toNat, label := label.toNat, ns := ns.toNat, req := req, node := node ≠ 0, term := term ≠ 0, rv := rv.toNat }
  | _ => none

structure Drv where
  live : St := {}
  fresh : St := {}
  liveOps : List Op := []      -- everything applied to the live plugin (for `quota hyp`)
  freshOps : List Op := []     -- everything delivered to the fresh plugin since `quota fresh`
  multi : Bool := false        -- `quota mode 1`: MultiQuotaTree on, the case's quotas in their own tree
  out : List String := []

def Drv.bad (d : Drv) : Drv := { d with out := d.out ++ ["bad-op"] }

def Drv.app (d : Drv) (c : Int) (op : Op) : Drv :=
  if c = 0 then { d with live := step d.live op, liveOps := d.liveOps ++ [op] }
  else if c = 1 then { d with fresh := step d.fresh op, freshOps := d.freshOps ++ [op] } else d.bad

def toNats? (xs : List Int) : Option (List Nat) :=
  xs.mapM (fun x => if x < 0 then none else some x.toNat)

def parseOp (kind : String) (xs : List Int) : Option Op :=
  match kind, xs with
  | "qput", hnd :: name :: own :: k :: nss =>
    if name < 3 ∨ k < 0 ∨ nss.length ≠ k.toNat ∨ hnd < 0 ∨ hnd > 2 then none else
    (toNats? nss).map (fun nss =>
      let q : QObj := { name := name.toNat, own := own ≠ 0, nss := nss }
      if hnd = 0 then Op.qstore q else Op.qput q)
  | "qdel", [name] => if name < 3 then none else some (.qdel name.toNat)
  | "replace", [] => some .replace
  | "migrate", [] => some .migrate
  | "padd", p => (parsePod p).map .padd
  | "pdel", p => (parsePod p).map .pdel
  | "resv", p => (parsePod p).map .resv
  | "unresv", p => (parsePod p).map .unresv
  | "pupd", ps =>
    match parsePod (ps.take 7), parsePod (ps.drop 7) with
    | some o, some n => some (.pupd o n)
    | _, _ => none
  | _, _ => none

end KoordVerif.C19.Quota
