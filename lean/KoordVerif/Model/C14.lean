/-
C14 — batch pod cgroup values.  Model of
  pkg/koordlet/util/system/cgroup.go        MilliCPUToShares, MilliCPUToQuota
  pkg/koordlet/runtimehooks/hooks/batchresource/batch_resource.go
      SetPod{CPUShares,CFSQuota,MemoryLimit}, SetContainer{CPUShares,CFSQuota,MemoryLimit}
Amounts are the integers returned by util.GetBatch{MilliCPU,Memory}FromResourceList
(-1 when the list or the key is absent).  Core-only.
-/
namespace KoordVerif.C14

structure Consts where
  shareUnit : Int
  sharesMin : Int
  sharesMax : Int
  cfsPeriod : Int
  quotaMin  : Int
deriving Repr, DecidableEq

/-- the literals of the property statement ("standard conversion"). -/
def stdConsts : Consts := { shareUnit := 1024, sharesMin := 2, sharesMax := 262144, cfsPeriod := 100000, quotaMin := 1000 }

def milliCPUToShares (k : Consts) (m : Int) : Int :=
  if m ≤ 0 then k.sharesMin else
    let s := Int.tdiv (m * k.shareUnit) 1000
    let s := if s < k.sharesMin then k.sharesMin else s
    if s > k.sharesMax then k.sharesMax else s

def milliCPUToQuota (k : Consts) (m : Int) : Int :=
  let q := Int.tdiv (m * k.cfsPeriod) 1000
  if q ≤ 0 then -1 else if q < k.quotaMin then k.quotaMin else q

/-- one container of the extended-resource spec: batch-cpu request, batch-cpu limit,
    batch-memory limit; `-1` = not declared. -/
structure Ctr where
  req : Int
  lim : Int
  mem : Int
deriving Repr, DecidableEq

/-- rule state: CFS quota switch, and the CPU-normalisation scaling applied to a positive
    quota when the ratio is above 1 (`scale q = ⌈q / ratio⌉`, a float64 computation in Go). -/
structure Cfg where
  cfs      : Bool
  ratioGt1 : Bool
  scale    : Int → Int

def applyScale (cfg : Cfg) (q : Int) : Int :=
  if q > 0 && cfg.ratioGt1 then cfg.scale q else q

def ctrShares (k : Consts) (c : Ctr) : Int :=
  milliCPUToShares k (if c.req > 0 then c.req else 0)

def ctrQuota (k : Consts) (cfg : Cfg) (c : Ctr) : Int :=
  if !cfg.cfs then -1 else
    applyScale cfg (milliCPUToQuota k (if c.lim > 0 then c.lim else 0))

def ctrMem (c : Ctr) : Int :=
  let m := if c.mem > 0 then c.mem else 0
  if m ≤ 0 then -1 else m

/-- the pod-level request loop: skip non-positive entries. -/
def sumPos : List Int → Int
  | [] => 0
  | x :: xs => (if x ≤ 0 then 0 else x) + sumPos xs

/-- the pod-level limit loop `acc := 0; for x { if x <= 0 { acc = -1; break }; acc += x }`. -/
def sumOrUnlimitedLoop : Int → List Int → Int
  | acc, [] => acc
  | acc, x :: xs => if x ≤ 0 then -1 else sumOrUnlimitedLoop (acc + x) xs

def sumOrUnlimited (xs : List Int) : Int := sumOrUnlimitedLoop 0 xs

def podShares (k : Consts) (cs : List Ctr) : Int :=
  milliCPUToShares k (sumPos (cs.map (·.req)))

def podQuota (k : Consts) (cfg : Cfg) (cs : List Ctr) : Int :=
  if !cfg.cfs then -1 else
    applyScale cfg (milliCPUToQuota k (sumOrUnlimited (cs.map (·.lim))))

def podMem (cs : List Ctr) : Int := sumOrUnlimited (cs.map (·.mem))

structure Out where
  shares : Int
  quota  : Int
  mem    : Int
deriving Repr, DecidableEq

/-- the pod hook: `none` = response left untouched. -/
def podHook (k : Consts) (cfg : Cfg) (isBE hasSpec : Bool) (cs : List Ctr) : Option Out :=
  if !isBE then none else if !hasSpec then none else
    some { shares := podShares k cs, quota := podQuota k cfg cs, mem := podMem cs }

def ctrHook (k : Consts) (cfg : Cfg) (isBE hasSpec : Bool) (c : Ctr) : Option Out :=
  if !isBE then none else if !hasSpec then none else
    some { shares := ctrShares k c, quota := ctrQuota k cfg c, mem := ctrMem c }

/-! ### the plugin rule (rule.go): CFS switch and CPU-normalisation ratio, updated by callbacks -/

/-- ratios are in hundredths (the node annotation carries two decimals); `-100` is the code's
    `-1` = "no ratio configured".  `none` = never set. -/
structure Rule where
  cfs   : Option Bool
  ratio : Option Int
deriving Repr, DecidableEq

def Rule.init : Rule := { cfs := none, ratio := none }

inductive RuleEv where
  | nodeRatio (pct : Int)   -- parseRuleForNodeMeta with a valid annotation (pct > 0) or without one (pct = -100)
  | nodeBad                 -- annotation present but unparsable / non-positive: error, rule untouched
  | slo (cfsEnabled : Bool) -- parseRuleForNodeSLO
deriving Repr, DecidableEq

/-- `changed old new` models `math.Abs(old-new) >= ratioDiffEpsilon` (float64, epsilon 0.01). -/
def Rule.step (changed : Int → Int → Bool) (r : Rule) : RuleEv → Rule × Bool
  | .nodeRatio pct =>
    match r.ratio with
    | none => ({ r with ratio := some pct }, true)
    | some old => if changed old pct then ({ r with ratio := some pct }, true) else (r, false)
  | .nodeBad => (r, false)
  | .slo en =>
    match r.cfs with
    | none => ({ r with cfs := some en }, true)
    | some old => if old ≠ en then ({ r with cfs := some en }, true) else (r, false)

/-- `GetCFSQuotaScaleRatio`: (enabled, ratio in hundredths; -100 when unset or CFS quota disabled). -/
def Rule.effective (r : Rule) : Bool × Int :=
  let enabled := r.cfs.getD true
  let ratio := r.ratio.getD (-100)
  if enabled then (true, ratio) else (false, -100)

end KoordVerif.C14
