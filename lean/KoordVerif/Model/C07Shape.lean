/-
C07 — how a pod SPEC becomes "n devices, each with this much": the request-shape table.  Core-only.

  pkg/scheduler/plugins/deviceshare/utils.go
      GetPodDeviceRequests (RemoveZeros, Mask by DeviceResourceNames), ValidateDeviceRequest (DeviceResourceFlags,
      DeviceResourceValidators, ValidDeviceResourceCombinations + the three combination validators),
      ConvertDeviceRequest (ResourceCombinationsMapper), preparePod (skip / error / gpuRequirements)
  pkg/scheduler/plugins/deviceshare/devicehandler_gpu.go  calcDesiredRequestsAndCountForGPU

Restricted to the six GPU resource names the harness generates (the AMD / Hygon vendor names behave as nvidia.com/gpu,
the Huawei NPU names are not generated).  A quantity is a natural number; `none` = the name is absent from the pod's
requests.
-/
namespace KoordVerif.C07

/-- the GPU part of a pod's summed container requests -/
structure PodGPUReq where
  nv : Option Nat   -- nvidia.com/gpu
  kg : Option Nat   -- koordinator.sh/gpu
  sh : Option Nat   -- koordinator.sh/gpu-shared
  co : Option Nat   -- koordinator.sh/gpu-core
  me : Option Nat   -- koordinator.sh/gpu-memory
  ra : Option Nat   -- koordinator.sh/gpu-memory-ratio
deriving Repr, DecidableEq

/-- quotav1.RemoveZeros at one name -/
def nz : Option Nat → Option Nat
  | some 0 => none
  | x => x

def PodGPUReq.removeZeros (r : PodGPUReq) : PodGPUReq :=
  { nv := nz r.nv, kg := nz r.kg, sh := nz r.sh, co := nz r.co, me := nz r.me, ra := nz r.ra }

/-- ValidatePercentageResource: up to one device, or whole devices -/
def pctOK (v : Nat) : Bool := !(v > 100 && v % 100 != 0)

def optAll (o : Option Nat) (f : Nat → Bool) : Bool :=
  match o with
  | none => true
  | some v => f v

/-- ValidDeviceResourceCombinationsGPUShared for a present gpu-shared = s (> 0 after RemoveZeros):
    ValidateMultiple ∧ ValidateLessThan100Times on gpu-core and gpu-memory-ratio -/
def sharedOK (s : Nat) (co ra : Option Nat) : Bool :=
  optAll co (fun c => c % s == 0 && decide (c / s ≤ 100)) && optAll ra (fun x => x % s == 0 && decide (x / s ≤ 100))

/-- the device request after ConvertDeviceRequest: gpu-shared / gpu-core / gpu-memory / gpu-memory-ratio -/
structure DevReq where
  sh : Option Nat
  co : Option Nat
  me : Option Nat
  ra : Option Nat
deriving Repr, DecidableEq

inductive ShapeRes (α : Type) where
  | skip             -- the pod requests no GPU resource: the plugin skips it
  | err              -- UnschedulableAndUnresolvable: invalid unit / invalid combination
  | ok (x : α)
deriving Repr, DecidableEq

/-- ValidateDeviceRequest + ConvertDeviceRequest on a request without zero entries: the presence pattern of the names
    selects the row of ValidDeviceResourceCombinations / ResourceCombinationsMapper; a pattern without a row is an error -/
def convertNZ (r : PodGPUReq) : ShapeRes DevReq :=
  match r.nv, r.kg, r.sh, r.co, r.me, r.ra with
  | none, none, none, none, none, none => .skip
  | some n, none, none, none, none, none => .ok { sh := none, co := some (n * 100), me := none, ra := some (n * 100) }
  | none, some g, none, none, none, none =>
    if pctOK g then .ok { sh := none, co := some g, me := none, ra := some g } else .err
  | none, none, none, none, some m, none => .ok { sh := none, co := none, me := some m, ra := none }
  | none, none, none, none, none, some x => if pctOK x then .ok { sh := none, co := none, me := none, ra := some x } else .err
  | none, none, none, some c, some m, none => if pctOK c then .ok { sh := none, co := some c, me := some m, ra := none } else .err
  | none, none, none, some c, none, some x =>
    if pctOK c && pctOK x then .ok { sh := none, co := some c, me := none, ra := some x } else .err
  | none, none, some s, none, some m, none => .ok { sh := some s, co := none, me := some m, ra := none }
  | none, none, some s, none, none, some x =>
    if sharedOK s none (some x) then .ok { sh := some s, co := none, me := none, ra := some x } else .err
  | none, none, some s, some c, some m, none =>
    if sharedOK s (some c) none then .ok { sh := some s, co := some c, me := some m, ra := none } else .err
  | none, none, some s, some c, none, some x =>
    if sharedOK s (some c) (some x) then .ok { sh := some s, co := some c, me := none, ra := some x } else .err
  | _, _, _, _, _, _ => .err

/-- GetPodDeviceRequests for the GPU type (RemoveZeros first) -/
def convert (r : PodGPUReq) : ShapeRes DevReq := convertNZ r.removeZeros

/-- what the allocator is asked for -/
structure GPUShape where
  count  : Nat            -- numberOfGPUs
  shared : Bool           -- gpuShared
  co : Option Nat         -- requestsPerGPU
  me : Option Nat
  ra : Option Nat
deriving Repr, DecidableEq

/-- the device count a ratio asks for: whole multiples of 100 above 100 -/
def ratioCount : Option Nat → Nat
  | some x => if x > 100 && x % 100 == 0 then x / 100 else 1
  | none => 1

/-- calcDesiredRequestsAndCountForGPU: gpu-shared (> 0) names the count, else the ratio does -/
def desiredCount (d : DevReq) : Nat :=
  match d.sh with
  | some s => if s > 0 then s else ratioCount d.ra
  | none => ratioCount d.ra

def perGPU (d : DevReq) : GPUShape :=
  let n := desiredCount d
  let co := d.co.map (· / n)
  match d.ra with
  | some x => { count := n, shared := decide (x / n < 100), co := co, me := none, ra := some (x / n) }
  | none =>
    match d.me with
    | some m => { count := n, shared := true, co := co, me := some (m / n), ra := none }
    | none => { count := n, shared := false, co := co, me := none, ra := none }

/-- preparePod, as far as the request shape goes -/
def podShape (r : PodGPUReq) : ShapeRes GPUShape :=
  match convert r with
  | .skip => .skip
  | .err => .err
  | .ok d => .ok (perGPU d)

end KoordVerif.C07
