import KoordVerif.Model.C13
/-
C13 — the admission ENTRY POINTS: what the API server stores / which requests are validated.  Model of
  pkg/webhook/pod/mutating/mutating_handler.go      shouldIgnoreIfNotPod, PodMutatingHandler.Handle
        (dispatch on req.Operation, `mutated` flags, "no patch unless a step reports mutated"),
        handleCreate (first two steps and their flags), handleUpdate
  pkg/webhook/pod/mutating/extended_resource_spec.go mutateByExtendedResources incl. its `mutated` flag
  pkg/webhook/pod/mutating/cluster_colocation_profile.go shouldSkipProfile: the parse of spec.probability
        (k8s.io/apimachinery intstr.GetScaledValueFromIntOrPercent(v, 100, false): an int is taken as it is,
        a string must be "<strconv.Atoi text>%")
  pkg/webhook/pod/mutating/cluster_colocation_profile.go clusterColocationProfileMutatingPod: which profiles are kept
        by their namespaceSelector / selector (the evaluation of a selector is trusted, its outcome is an input)
  pkg/webhook/pod/validating/validating_handler.go  shouldIgnoreIfNotPod, validatingPodFn (the guards in
        front of the validators: sub-resource / foreign resource, DELETE without old object, decoding of
        object and old object), Handle
The object shapes that the handlers do NOT look at (metadata.deletionTimestamp of old / new object,
finalizers, a status-only update) are explicit inputs of `handleValidating`, so that "the verdict does
not depend on them" is a statement about the model (Props: handleValidating_shape_irrelevant) that
the correspondence run checks against the implementation on every generated case.
Core-only.
-/
namespace KoordVerif.C13

/-- admissionv1.Operation -/
inductive Op | create | update | delete | connect
deriving DecidableEq, Repr

/-- the parts of the AdmissionRequest envelope the handlers branch on. -/
structure Envelope where
  op : Op
  /-- len(req.SubResource) != 0 (status, ephemeralcontainers, binding, eviction, ...) -/
  subresource : Bool
  /-- req.Resource.Resource == "pods" -/
  isPods : Bool
  /-- len(req.Object.Raw) != 0 (a DELETE request carries no object) -/
  hasObject : Bool
  /-- len(req.OldObject.Raw) != 0 -/
  hasOld : Bool
deriving DecidableEq, Repr

/-- shouldIgnoreIfNotPod (the same function in both packages) -/
def shouldIgnore (e : Envelope) : Bool := e.subresource || !e.isPods

/-! ### spec.probability -/

/-- intstr.IntOrString: Type Int with IntVal, or Type String with the bytes of StrVal. -/
inductive IntOrStr
  | int (v : Int)
  | str (s : LStr)
deriving DecidableEq, Repr

def isDigit (b : Nat) : Bool := 48 ≤ b && b ≤ 57

/-- the decimal value of a list of ASCII digits -/
def digitsVal (ds : List Nat) : Nat := ds.foldl (fun acc b => acc * 10 + (b - 48)) 0

/-- strconv.Atoi on texts short enough not to overflow (the generator stays below 10 characters):
    an optional sign, then one or more digits, nothing else. -/
def atoi (s : LStr) : Option Int :=
  let (neg, ds) := match s with
    | 43 :: r => (false, r)      -- '+'
    | 45 :: r => (true, r)       -- '-'
    | r => (false, r)
  if ds.isEmpty || !ds.all isDigit then none
  else some (if neg then -(digitsVal ds : Int) else (digitsVal ds : Int))

/-- GetScaledValueFromIntOrPercent(v, 100, false); `none` = error.  A string must end in '%' (37); the
    percentage N of the total 100 is floor(N * 100 / 100) = N. -/
def scaledPercent (v : IntOrStr) : Option Int := match v with
  | .int n => some n
  | .str s => match s.reverse with
    | 37 :: r => atoi r.reverse
    | _ => none

/-- the `percent` of shouldSkipProfile as the pair (Profile.prob, Profile.probInvalid). -/
def probFields (v : Option IntOrStr) : Option Int × Bool := match v with
  | none => (none, false)
  | some x => match scaledPercent x with
    | some n => (some n, false)
    | none => (none, true)

def Profile.withProbability (pr : Profile) (v : Option IntOrStr) : Profile :=
  { pr with prob := (probFields v).1, probInvalid := (probFields v).2 }

/-! ### profile selectors -/

/-- what evaluating spec.namespaceSelector / spec.selector of a profile gives: the selector is nil, is empty (matches
    everything, no lookup), matches, does not match, or cannot be evaluated (invalid selector, namespace lookup fails). -/
inductive SelShape | absent | empty | matches | differs | errs
deriving DecidableEq, Repr

/-- `matched, err := h.match…Selector(…); if !matched && err == nil { continue }`: only a selector that evaluates
    to "no match" drops the profile; an evaluation error keeps it. -/
def selectorKeeps : SelShape → Bool
  | .differs => false
  | _ => true

/-- the loop that builds `matchedProfiles` in clusterColocationProfileMutatingPod -/
def Profile.withSelectors (pr : Profile) (ns obj : SelShape) : Profile :=
  { pr with matched := selectorKeeps ns && selectorKeeps obj }

/-! ### mutating entry point -/

/-- mutateByExtendedResources with its `mutated` flag (`none` = error). -/
def mutateByExtFlag (p : Pod) : Option (Pod × Bool) :=
  let new := specOf p.ctrs
  match p.annot with
  | .malformed => none
  | .absent => if new = [] then some (p, false) else some ({ p with annot := .spec new }, true)
  | .spec old => if new = old then some (p, false) else some ({ p with annot := .spec new }, true)

/-- handleCreate: the in-memory pod and `mutated` = the OR of the steps' flags (`none` = a step returned
    an error).  `gateNoExt` = feature gate DisableExtendedResourceSpec (extendedResourceSpecMutatingPod returns
    (false, nil) at once).  The two later steps (multi-quota-tree affinity, device resources) do not touch the
    pods in scope and report false. -/
def handleCreate (k : Ranges) (gateSkipRes gateNoExt : Bool) (rand : Int) (ps : List Profile) (p : Pod) : Option (Pod × Bool) :=
  if colocationFails true rand ps then none else
  let r1 := colocationMutate k true gateSkipRes rand ps p
  if gateNoExt then some (r1.1, r1.2) else
  match mutateByExtFlag r1.1 with
  | none => none
  | some (p2, m2) => some (p2, r1.2 || m2)

/-- PodMutatingHandler.Handle followed by the API server applying the response's JSON patch to the
    submitted object: the pod that is STORED (`none` = the request is rejected with an error).
    `if !mutated { return admission.Allowed("") }`: without a flag no patch is sent and the submitted
    pod is stored, whatever happened to the in-memory copy. -/
def handleMutating (k : Ranges) (e : Envelope) (gateSkipRes gateNoExt : Bool) (rand : Int) (ps : List Profile) (p : Pod) : Option Pod :=
  if shouldIgnore e then some p
  else if !e.hasObject then none                      -- Decoder.Decode: there is no content to decode
  else match e.op with
    | .create => match handleCreate k gateSkipRes gateNoExt rand ps p with
      | none => none
      | some (p2, mutated) => if mutated then some p2 else some p
    | .update => some p                               -- handleUpdate: (false, nil)
    | _ => some p

/-! ### validating entry point -/

/-- what a pod object carries besides the fields of `Pod` and the handlers ignore. -/
structure ObjShape where
  oldDeleting : Bool      -- old object has metadata.deletionTimestamp
  newDeleting : Bool      -- new object has metadata.deletionTimestamp
  finalizers : Bool       -- new object has finalizers
  oldFinalizers : Bool    -- old object has finalizers (finalizer removal: old yes, new no)
  statusOnly : Bool       -- the update changes status only
deriving DecidableEq, Repr

/-- validatingPodFn + Handle, restricted to the colocation validators (the other validators admit every
    generated pod: no reservation annotation, no quota, no device resource, gates at their defaults):
    is the request admitted?  (A violated rule and a decoding error both end in `admission.Errored`,
    i.e. not admitted.) -/
def handleValidating (k : Ranges) (e : Envelope) (_s : ObjShape) (gateSkipPriority : Bool) (old new : Pod) : Bool :=
  if shouldIgnore e then true
  else if e.op = .delete ∧ !e.hasOld then true
  else if !e.hasObject then false                     -- DecodeRaw(req.Object): there is no content to decode
  else if e.op = .update ∧ !e.hasOld then false        -- DecodeRaw(req.OldObject)
  else
    let opc : Nat := match e.op with | .create => 0 | .update => 1 | _ => 2
    validateAllowed k gateSkipPriority opc old new

end KoordVerif.C13
