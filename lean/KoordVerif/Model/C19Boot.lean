import KoordVerif.Common.Proto
import KoordVerif.Model.C19Adapter
/-
C19 extension 2 — two pieces of glue between "what is persisted" and "what the restarted scheduler holds
when it takes its first decision".  Core Lean only (linked into drv_c19).

## 1. reserve-pod annotation / label merge
pkg/util/reservation/reservation.go `NewReservePod` (the adapter every plugin's Reservation informer handler
goes through: ReservationToPodEventHandler.OnAdd/OnUpdate/OnDelete call it on every event):

    reservePod.ObjectMeta = *r.Spec.Template.ObjectMeta.DeepCopy()         -- template first
    for k, v := range r.Labels      { reservePod.Labels[k] = v }            -- the object's own labels overwrite
    for k, v := range r.Annotations { reservePod.Annotations[k] = v }       -- the object's own annotations overwrite
    reservePod.Annotations[AnnotationReservePod] = "true"
    reservePod.Annotations[AnnotationReservationName] = r.Name
    if r.Spec.PreAllocation { reservePod.Annotations[AnnotationIsPreAllocation] = "true" }
    if len(reservePod.Spec.NodeName) > 0 { reservePod.Annotations[AnnotationReservationNode] = reservePod.Spec.NodeName; … }

PreBindReservation writes resource-status / device-allocated onto the Reservation OBJECT, so the allocation
the restarted scheduler reads is right only because the object's own value wins over whatever the template
carries (a template copied from a running pod — the migration controller — carries that pod's stale values).

Maps are association lists over small key / value ids (the harness numbers the strings).  Key ids:
  0 resource-status  1 resource-spec  2 device-allocated  3 reservation-allocated
  4 another scheduling.koordinator.sh/ key  5, 6 keys of foreign domains
  10 AnnotationReservePod  11 AnnotationReservationName  12 AnnotationIsPreAllocation  13 AnnotationReservationNode
Value ids: 0 "true", 1 the Reservation's name, 2 the template's spec.nodeName, >= 3 other strings.

## 2. start-up order
cmd/koord-scheduler/app/server.go startInformersAndWaitForSync: the informer factories are started, their
stores sync, then `frameworkexthelper.WaitForHandlersSync` polls until every COLLECTED registration
(`ForceSyncFromInformer` / the force-sync kube factory collect them) reports HasSynced = its listener has
delivered the whole initial list; then the first scheduling cycle runs.  Model: registrations R with the
initial list each listener still has to deliver, the barrier watches the subset S; a listener may be pinned
(no progress while the gate is closed: the lagging listener).
-/
namespace KoordVerif.C19.Boot
open KoordVerif.Proto

/-! ### 1. merge -/

abbrev AMap := List (Nat × Nat)

/-- Go `m[k] = v` -/
def setKV (m : AMap) (k v : Nat) : AMap := (k, v) :: m.filter (fun e => e.1 ≠ k)

/-- Go `m[k]` -/
def getK : AMap → Nat → Option Nat
  | [], _ => none
  | (k', v) :: m, k => if k' = k then some v else getK m k

/-- `for k, v := range src { dst[k] = v }` -/
def overwrite (dst src : AMap) : AMap := src.foldl (fun m e => setKV m e.1 e.2) dst

def kReservePod : Nat := 10
def kReservationName : Nat := 11
def kPreAllocation : Nat := 12
def kReservationNode : Nat := 13
def vTrue : Nat := 0
def vName : Nat := 1
def vNode : Nat := 2

/-- the keys NewReservePod writes itself after the merge -/
def fixedKeys : List Nat := [kReservePod, kReservationName, kPreAllocation, kReservationNode]

structure RIn where
  tmpl     : AMap          -- spec.template.metadata.annotations
  own      : AMap          -- metadata.annotations of the Reservation object
  preAlloc : Bool := false -- spec.preAllocation
  specNode : Bool := false -- spec.template.spec.nodeName non-empty

/-- annotations of NewReservePod(r), statement by statement -/
def reservePodAnnots (i : RIn) : AMap :=
  let m0 := overwrite [] i.tmpl                       -- DeepCopy of the template's ObjectMeta
  let m1 := overwrite m0 i.own                        -- `objectMeta` overwrites `template.objectMeta`
  let m2 := setKV m1 kReservePod vTrue
  let m3 := setKV m2 kReservationName vName
  let m4 := if i.preAlloc then setKV m3 kPreAllocation vTrue else m3
  if i.specNode then setKV m4 kReservationNode vNode else m4

/-- labels of NewReservePod(r): template first, the object's own labels overwrite, nothing else -/
def reservePodLabels (tmpl own : AMap) : AMap := overwrite (overwrite [] tmpl) own

/-- the WRONG merge (kept for the counterexample): a key of the given domain that the template already
    declares keeps the template's value -/
def overwriteUnlessDeclared (inDomain : Nat → Bool) (dst src : AMap) : AMap :=
  src.foldl (fun m e => if inDomain e.1 && (getK m e.1).isSome then m else setKV m e.1 e.2) dst

/-! ### 2. start-up -/

/-- static description of one registration -/
structure RegInfo where
  inBarrier : Bool   -- collected for WaitForHandlersSync
  gated     : Bool   -- its listener is pinned while the gate is closed

/-- configuration: what each listener still has to deliver, the log of delivered events (registration, event) -/
structure Cfg (ε : Type) where
  queues   : List (List ε)
  log      : List (Nat × ε) := []
  gateOpen : Bool := false

inductive Act where
  | deliver (i : Nat)
  | openGate

def infoAt (regs : List RegInfo) (i : Nat) : RegInfo := regs.getD i { inBarrier := false, gated := false }

/-- one step; an action that is not enabled is a no-op -/
def step {ε : Type} (regs : List RegInfo) (c : Cfg ε) : Act → Cfg ε
  | .openGate => { c with gateOpen := true }
  | .deliver i =>
    match c.queues.getD i [] with
    | [] => c
    | e :: q =>
      if (infoAt regs i).gated && !c.gateOpen then c
      else { c with queues := c.queues.set i q, log := c.log ++ [(i, e)] }

def run {ε : Type} (regs : List RegInfo) (c : Cfg ε) (sched : List Act) : Cfg ε := sched.foldl (step regs) c

/-- WaitForHandlersSync's predicate: every collected registration has delivered its whole initial list -/
def barrierOpenAux {ε : Type} : List RegInfo → List (List ε) → Bool
  | r :: rs, q :: qs => (!r.inBarrier || q.isEmpty) && barrierOpenAux rs qs
  | _, _ => true

def barrierOpen {ε : Type} (regs : List RegInfo) (c : Cfg ε) : Bool := barrierOpenAux regs c.queues

/-- the start-up order the harness drives: every listener that can run delivers its list (registration order),
    the barrier is consulted; while it is closed the gate opens and the pinned listeners deliver; the events
    seen by the first scheduling cycle = the log at the first moment the barrier is open.
    Returns (the barrier held while the gate was closed, the barrier opened in the end, delivered events). -/
def drainAll {ε : Type} (regs : List RegInfo) (c : Cfg ε) : Cfg ε :=
  let n := c.queues.length
  let sched := (List.range n).flatMap (fun i => List.replicate (c.queues.getD i []).length (Act.deliver i))
  run regs c sched

def bootSeen {ε : Type} (regs : List RegInfo) (init : List (List ε)) : Bool × Bool × List ε :=
  let c1 := drainAll regs { queues := init }
  if barrierOpen regs c1 then (false, true, c1.log.map (·.2))
  else
    let c2 := drainAll regs (step regs c1 .openGate)
    (true, barrierOpen regs c2, c2.log.map (·.2))

/-! ### driver of the `rpod` harness (pkg/util/reservation)
  rpod <preAlloc> <specNode> <nT> (k v)^nT <nO> (k v)^nO <nTL> (k v)^nTL <nOL> (k v)^nOL
      -> `ann (k v)*` (sorted by key)   `lab (k v)*` -/

def insKV (e : Nat × Nat) : AMap → AMap
  | [] => [e]
  | x :: xs => if e.1 ≤ x.1 then e :: x :: xs else x :: insKV e xs

def sortKV (m : AMap) : AMap := m.foldl (fun acc e => insKV e acc) []

def showMap (m : AMap) : String := showNats ((sortKV m).flatMap (fun e => [e.1, e.2]))

def takePairs : Nat → List Nat → Option (AMap × List Nat)
  | 0, rest => some ([], rest)
  | n+1, k :: v :: rest =>
    match takePairs n rest with
    | some (m, rest') => some ((k, v) :: m, rest')
    | none => none
  | _, _ => none

def takeMap : List Nat → Option (AMap × List Nat)
  | n :: rest => takePairs n rest
  | [] => none

def withSp (tag rest : String) : String := if rest = "" then tag ++ " " else tag ++ " " ++ rest

/-- `rpod flt <del> <k> (<template> <owners> <expiry> <node> <phase>)^k` (harness `rflt`, Model/C19Adapter.lean)
    -> `calls <code>*` `present <0|1>` `fresh <0|1>` -/
def fltLine (args : List String) : List String :=
  match nats? args with
  | some (del :: k :: more) =>
    if del > 1 ∨ k = 0 ∨ more.length ≠ 5 * k then ["bad-op"] else
    let vs : List Adapter.RV := (chunks 5 more).filterMap fun
      | [t, o, e, n, ph] => some { tmpl := t ≠ 0, owners := o ≠ 0, expiry := e ≠ 0, node := n ≠ 0, phase := ph }
      | _ => none
    match vs with
    | [] => ["bad-op"]
    | v0 :: rest =>
      let last := Adapter.lastV v0 rest
      let cs := Adapter.calls v0 rest ++ (if del = 1 then Adapter.onDelete last else [])
      let fresh := if del = 1 then false else Adapter.presentAfter (Adapter.onAdd last)
      [withSp "calls" (showNats (cs.map Adapter.code)),
       s!"present {b2i (Adapter.presentAfter cs)}", s!"fresh {b2i fresh}"]
  | _ => ["bad-op"]

def stepLine (out : List String) (line : String) : List String :=
  match toks line with
  | "rpod" :: "flt" :: rest => out ++ fltLine rest
  | "rpod" :: rest =>
    match nats? rest with
    | some (pa :: sn :: r0) =>
      match takeMap r0 with
      | some (t, r1) =>
        match takeMap r1 with
        | some (o, r2) =>
          match takeMap r2 with
          | some (tl, r3) =>
            match takeMap r3 with
            | some (ol, []) =>
              if pa > 1 ∨ sn > 1 then out ++ ["bad-op"] else
              out ++ [withSp "ann" (showMap (reservePodAnnots { tmpl := t, own := o, preAlloc := pa = 1, specNode := sn = 1 })),
                      withSp "lab" (showMap (reservePodLabels tl ol))]
            | _ => out ++ ["bad-op"]
          | none => out ++ ["bad-op"]
        | none => out ++ ["bad-op"]
      | none => out ++ ["bad-op"]
    | _ => out ++ ["bad-op"]
  | _ => out ++ ["bad-op"]

def runCase (lines : List String) : List String := lines.foldl stepLine []

end KoordVerif.C19.Boot
