/-
C08 — load-aware filter and estimate cache.  Model of
  pkg/scheduler/plugins/loadaware/helper.go            ResourceVector.{Add,Sub,AddDelta,SubDelta}, profiles, isNodeMetricExpired
  pkg/scheduler/plugins/loadaware/pod_assign_cache.go  nodeInfo.{addPod,deletePod,updatePod,AddOrUpdatePod,DeletePod,
                                                       AddOrUpdateNodeMetric,DeleteNodeMetric}, assign/unAssign/OnUpdate/OnDelete,
                                                       GetNodeMetricAndEstimatedOfExisting, shouldEstimatePodDeadline
  pkg/scheduler/plugins/loadaware/load_aware.go        Filter, filterNodeUsage, addEstimatedOfIncoming, Reserve/Unreserve
  pkg/scheduler/plugins/loadaware/estimator/default_estimator.go  EstimatePod, estimatedUsedByResource, EstimateNode
Core-only.  Amounts are integers in the unit the code reads (cpu: milli, everything else: base
units); times are integer seconds relative to the harness' start; names are small naturals
(node 0 = "").  The two float64 computations (`round(q*f/100)`, `round(est/total*100)`) are
parameters (`FloatOps`).  Sequential semantics only (the locks are not modelled).
-/
namespace KoordVerif.C08

abbrev Vec := List Int

/-! ### helper.go: ResourceVector.  `v.Add(y)` walks the indices of `v`; all vectors of one
cache have the vectorizer's length, the shorter-`y` case (a Go panic) keeps the tail. -/

def vadd : Vec → Vec → Vec
  | [], _ => []
  | x :: xs, [] => x :: xs
  | x :: xs, y :: ys => (x + y) :: vadd xs ys

def vsub : Vec → Vec → Vec
  | [], _ => []
  | x :: xs, [] => x :: xs
  | x :: xs, y :: ys => (x - y) :: vsub xs ys

def pos (v : Int) : Int := if v > 0 then v else 0

/-- the amount `AddDelta(x, y)` adds / `SubDelta(x, y)` removes per index: max(0, x - y); `none` = Go nil. -/
def delta (x : Vec) : Option Vec → Vec
  | none => x.map pos
  | some y => (vsub x y).map pos

def vzero (d : Nat) : Vec := List.replicate d 0

def vEmpty (v : Vec) : Bool := v.all (· == 0)

/-! ### configuration (LoadAwareSchedulingArgs, the part the cache and the estimator read) -/

structure FloatOps where
  /-- `int64(math.Round(float64(q) * float64(f) / 100))` -/
  scale    : Int → Int → Int
  /-- `int64(math.Round(float64(est) / float64(total) * 100))` -/
  roundPct : Int → Int → Int

structure Cfg where
  d : Nat                       -- vectorizer length
  factors : List (Option Int)   -- EstimatedScalingFactors per vector index (none = key absent)
  allowCustom : Bool
  secSched : Int                -- EstimatedSecondsAfterPodScheduled (nil = -1)
  secInit : Int                 -- EstimatedSecondsAfterInitialized (nil = -1)
  prodIncludeSys : Bool
  fl : FloatOps

/-! ### pods -/

/-- a pod condition: status True?, LastTransitionTime (none = zero time). -/
structure Cond where
  isTrue : Bool
  time : Option Int
deriving Repr, DecidableEq

/-- the projection of a *corev1.Pod the plugin reads. `cls`: 1 prod, 2 mid, 3 batch, 4 free. -/
structure PodDesc where
  uid : Nat
  key : Nat                      -- namespace/name
  cls : Nat
  prioVariant : Nat              -- distinguishes Spec.Priority values inside one class
  term : Bool                    -- phase Succeeded/Failed
  rsv : Bool                     -- reserve pod
  specNode : Nat                 -- Spec.NodeName (0 = "")
  sched : Option Cond            -- PodScheduled condition
  init : Option Cond             -- Initialized condition
  customFactors : List (Option Int)   -- annotation load-estimated-scaling-factors per index
  customSched : Int              -- annotation seconds-after-pod-scheduled (-1 = absent)
  customInit : Int
  res : List (Int × Int)         -- per vector index: (request, limit) of the translated resource name
  specId : Option Nat := none    -- identity of the PodSpec when the pod comes as a raw shape (Model/C08Glue.lean);
                                 -- none: the spec is determined by (cls, prioVariant, specNode, res)
deriving Repr, DecidableEq

structure PodInfo where
  desc : PodDesc
  est : Option Vec               -- podAssignInfo.estimated (none = nil)
  ts : Int                       -- podAssignInfo.timestamp
  deadline : Option Int          -- estimatedDeadline (none = zero time)
deriving Repr, DecidableEq

def PodInfo.uid (p : PodInfo) : Nat := p.desc.uid
def PodInfo.key (p : PodInfo) : Nat := p.desc.key
def PodInfo.prod (p : PodInfo) : Bool := p.desc.cls == 1

/-! ### default_estimator.go -/

/-- the value returned for a zero quantity: the `switch resourceName` after translation by priority
class (prod: cpu/memory, batch: batch-cpu/batch-memory have defaults; mid-* and "" (free) do not).
Index 0 = cpu, 1 = memory. -/
def defaultOf (cls idx : Nat) : Int :=
  if cls == 1 || cls == 3 then
    (if idx == 0 then 250 else if idx == 1 then 200 * 1024 * 1024 else 0)
  else 0

/-- estimatedUsedByResource -/
def estimatedUsedByResource (fl : FloatOps) (cls idx : Nat) (req lim f : Int) : Int :=
  let q := if lim > req then lim else req
  if q == 0 then defaultOf cls idx else
    let e := fl.scale q f
    if lim > 0 && e > lim then lim else e

/-- EstimatePod: the factor table in force for this pod. -/
def factorsFor (cfg : Cfg) (p : PodDesc) : List (Option Int) :=
  if cfg.allowCustom && p.customFactors.any Option.isSome then
    (List.range cfg.d).map fun i =>
      match p.customFactors.getD i none with
      | some f => some f
      | none => cfg.factors.getD i none
  else cfg.factors

/-- EstimatePod followed by `vectorizer.ToFactorVec` (a missing key reads as 0). -/
def estimateVec (cfg : Cfg) (p : PodDesc) : Vec :=
  let fs := factorsFor cfg p
  (List.range cfg.d).map fun i =>
    match fs.getD i none with
    | none => 0
    | some f =>
      let (req, lim) := p.res.getD i (0, 0)
      estimatedUsedByResource cfg.fl p.cls i req lim f

/-! ### pod_assign_cache.go -/

structure Sums where
  prodUsage : Vec
  nodeDelta : Vec
  prodDelta : Vec
  nodeEst   : Vec
deriving Repr, DecidableEq

/-- one entry of Status.PodsMetric: kind 0 = usable, 1 = empty resource list, 2 = nil entry. -/
structure PodMetric where
  key : Nat
  prod : Bool
  kind : Nat
  usage : Vec
deriving Repr, DecidableEq

/-- one (duration, type) cell of Status.NodeMetric.AggregatedNodeUsages, list order kept. -/
structure AggEntry where
  typ : Nat
  dur : Nat
  present : Bool        -- false = empty resource list
  usage : Vec
deriving Repr, DecidableEq

/-- the NodeMetric object as reported. -/
structure Metric where
  hasUpd : Bool          -- Status.UpdateTime != nil
  updT : Int
  interval : Int         -- ReportIntervalSeconds, -1 = nil
  hasInfo : Bool         -- Status.NodeMetric != nil
  nodeUsage : Vec
  sysUsage : Vec
  aggs : List AggEntry
  pods : List PodMetric
deriving Repr, DecidableEq

structure Node where
  pods : List PodInfo           -- podInfos (a map by uid; order irrelevant)
  metric : Option Metric        -- nodeMetric
  updateTime : Option Int       -- none = zero time.Time
  sums : Sums
deriving Repr, DecidableEq

def emptyNode : Node := { pods := [], metric := none, updateTime := none, sums := ⟨[], [], [], []⟩ }

/-- what addPod/deletePod read from the nodeInfo besides the sums. -/
structure Ctx where
  podUsages : List (Nat × Vec)   -- first match wins
  prodPods : List Nat
  updateTime : Option Int
  interval : Int

/-- getNodeMetricReportInterval -/
def intervalOf (m : Metric) : Int := if m.interval < 0 then 60 else m.interval

/-- the PodsMetric loop of AddOrUpdateNodeMetric: later entries overwrite `podUsages[key]`,
`prodPods` only ever grows. -/
def podUsagesOf (m : Metric) : List (Nat × Vec) :=
  ((m.pods.filter (·.kind == 0)).map (fun e => (e.key, e.usage))).reverse

def prodPodsOf (m : Metric) : List Nat :=
  ((m.pods.filter (fun e => e.kind == 0 && e.prod)).map (·.key))

def ctxOf (m : Metric) (ut : Option Int) : Ctx :=
  { podUsages := podUsagesOf m, prodPods := prodPodsOf m, updateTime := ut, interval := intervalOf m }

def usageOf (ctx : Ctx) (key : Nat) : Option Vec :=
  (ctx.podUsages.find? (·.1 == key)).map (·.2)

/-- `should` of addPod/deletePod. -/
def shouldEstimate (ctx : Ctx) (u : Option Vec) (p : PodInfo) : Bool :=
  u.isNone ||
  (match ctx.updateTime with
   | none => true
   | some ut => ut - ctx.interval < p.ts) ||
  (match p.deadline with
   | none => false
   | some dl => match ctx.updateTime with
     | none => true
     | some ut => dl > ut)

/-- nodeInfo.addPod, statement by statement. -/
def addPod (ctx : Ctx) (s : Sums) (p : PodInfo) : Sums :=
  let u := usageOf ctx p.key
  let prod := p.prod
  let activeProd := prod && ctx.prodPods.contains p.key
  let s := if activeProd then { s with prodUsage := vadd s.prodUsage (u.getD []) } else s
  match p.est with
  | none => s
  | some e =>
    let should := shouldEstimate ctx u p
    let s := if should then { s with nodeDelta := vadd s.nodeDelta (delta e u) } else s
    let s := { s with nodeEst := vadd s.nodeEst e }
    if !prod then s else
      let reset := !activeProd && u.isSome
      let u2 := if reset then none else u
      let should2 := if reset then true else should
      if should2 then { s with prodDelta := vadd s.prodDelta (delta e u2) } else s

/-- nodeInfo.deletePod ("reverse procedure of addPod"), statement by statement. -/
def deletePod (ctx : Ctx) (s : Sums) (p : PodInfo) : Sums :=
  let u := usageOf ctx p.key
  let prod := p.prod
  let activeProd := prod && ctx.prodPods.contains p.key
  let s := if activeProd then { s with prodUsage := vsub s.prodUsage (u.getD []) } else s
  match p.est with
  | none => s
  | some e =>
    let should := shouldEstimate ctx u p
    let s := if should then { s with nodeDelta := vsub s.nodeDelta (delta e u) } else s
    let s := { s with nodeEst := vsub s.nodeEst e }
    if !prod then s else
      let reset := !activeProd && u.isSome
      let u2 := if reset then none else u
      let should2 := if reset then true else should
      if should2 then { s with prodDelta := vsub s.prodDelta (delta e u2) } else s

/-- the start values AddOrUpdateNodeMetric gives the sums. -/
def baseSums (cfg : Cfg) (m : Metric) : Sums :=
  let z := vzero cfg.d
  { prodUsage := if m.hasInfo && cfg.prodIncludeSys then vadd z m.sysUsage else z,
    nodeDelta := z, prodDelta := z, nodeEst := z }

/-- the from-scratch computation: reset, then `for _, pod := range n.podInfos { n.addPod(pod) }`. -/
def scratch (cfg : Cfg) (m : Metric) (ut : Option Int) (pods : List PodInfo) : Sums :=
  pods.foldl (addPod (ctxOf m ut)) (baseSums cfg m)

def isUid (uid : Nat) (p : PodInfo) : Bool := p.uid == uid

/-- nodeInfo.AddOrUpdatePod -/
def Node.addOrUpdatePod (n : Node) (p : PodInfo) : Node :=
  let old := n.pods.find? (isUid p.uid)
  let pods := n.pods.eraseP (isUid p.uid) ++ [p]
  let sums := match n.metric with
    | none => n.sums
    | some m =>
      let ctx := ctxOf m n.updateTime
      match old with
      | none => addPod ctx n.sums p
      | some o => addPod ctx (deletePod ctx n.sums o) p     -- updatePod
  { n with pods := pods, sums := sums }

/-- tryCleanup: an empty nodeInfo is dropped from the cache (a later event creates a new one). -/
def Node.cleanup (n : Node) : Node :=
  if n.metric.isNone && n.pods.isEmpty then emptyNode else n

/-- nodeInfo.DeletePod -/
def Node.deletePodByUid (n : Node) (uid : Nat) : Node :=
  let old := n.pods.find? (isUid uid)
  let pods := n.pods.eraseP (isUid uid)
  let sums := match n.metric, old with
    | some m, some o => deletePod (ctxOf m n.updateTime) n.sums o
    | _, _ => n.sums
  Node.cleanup { n with pods := pods, sums := sums }

/-- the report's time as the cache keeps it (`none` = zero time when Status.UpdateTime is nil). -/
def reportTime (m : Metric) : Option Int := if m.hasUpd then some m.updT else none

/-- nodeInfo.AddOrUpdateNodeMetric: everything, `updateTime` included, is taken from the new report. -/
def Node.setMetric (cfg : Cfg) (n : Node) (m : Metric) : Node :=
  let ut := reportTime m
  { n with metric := some m, updateTime := ut, sums := scratch cfg m ut n.pods }

/-- nodeInfo.DeleteNodeMetric -/
def Node.deleteMetric (n : Node) : Node :=
  Node.cleanup { n with metric := none }

/-! ### the cache: node name ↦ nodeInfo (absent = emptyNode) -/

abbrev Cache := List (Nat × Node)

def Cache.get (c : Cache) (k : Nat) : Node :=
  match c.find? (·.1 == k) with
  | some kn => kn.2
  | none => emptyNode

def Cache.set (c : Cache) (k : Nat) (n : Node) : Cache := (k, n) :: c

/-- shouldEstimatePodDeadline -/
def podDeadline (cfg : Cfg) (p : PodDesc) (ts : Int) : Option Int :=
  let aSched := if cfg.allowCustom then p.customSched else -1
  let aInit := if cfg.allowCustom then p.customInit else -1
  let aSched := if aSched < 0 then cfg.secSched else aSched
  let aInit := if aInit < 0 then cfg.secInit else aInit
  let fromInit : Option Int :=
    if aInit > 0 then
      match p.init with
      | some c => if c.isTrue then c.time.map (· + aInit) else none
      | none => none
    else none
  match fromInit with
  | some t => some t
  | none => if aSched > 0 then some (ts + aSched) else none

/-- podAssignCache.assign -/
def assign (cfg : Cfg) (c : Cache) (node : Nat) (p : PodDesc) (now : Int) : Cache :=
  if node == 0 || p.term || p.rsv then c else
    let v := estimateVec cfg p
    let est := if vEmpty v then none else some v
    let ts := match p.sched with
      | some cd => if cd.isTrue then cd.time.getD now else now
      | none => now
    let info : PodInfo := { desc := p, est := est, ts := ts, deadline := podDeadline cfg p ts }
    c.set node ((c.get node).addOrUpdatePod info)

/-- podAssignCache.unAssign -/
def unAssign (c : Cache) (node : Nat) (uid : Nat) : Cache :=
  if node == 0 then c else c.set node ((c.get node).deletePodByUid uid)

/-- `reflect.DeepEqual(&pod.Spec, &oldPodInfo.pod.Spec)`.  The class of a raw-shape pod can come from labels
(metadata), so for those only the spec identity and the node name count. -/
def specEq (a b : PodDesc) : Bool :=
  match a.specId, b.specId with
  | none, none => a.cls == b.cls && a.prioVariant == b.prioVariant && a.specNode == b.specNode && a.res == b.res
  | some x, some y => x == y && a.specNode == b.specNode
  | _, _ => false

def condEq (a b : PodDesc) : Bool := a.sched == b.sched && a.init == b.init

/-- podAssignCache.OnUpdate (`oldNode` = oldPod.Spec.NodeName, 0 when there is no old pod). -/
def onUpdate (cfg : Cfg) (c : Cache) (oldNode : Nat) (p : PodDesc) (now : Int) : Cache :=
  let c := if oldNode != 0 && oldNode != p.specNode then unAssign c oldNode p.uid else c
  let cached : Option PodInfo :=
    if p.specNode == 0 then none else (c.get p.specNode).pods.find? (isUid p.uid)
  match cached with
  | none => assign cfg c p.specNode p now
  | some o =>
    if p.term then unAssign c p.specNode p.uid
    else if !(specEq p o.desc) || !(condEq p o.desc) then assign cfg c p.specNode p now
    else c

inductive Ev where
  | reserve (node : Nat) (p : PodDesc) (now : Int)      -- Plugin.Reserve
  | unreserve (node : Nat) (uid : Nat)                  -- Plugin.Unreserve / forget handler
  | add (p : PodDesc) (now : Int)                       -- OnAdd
  | update (oldNode : Nat) (p : PodDesc) (now : Int)    -- OnUpdate
  | delete (specNode : Nat) (uid : Nat)                 -- OnDelete
  | metric (node : Nat) (m : Metric)                    -- NodeMetric add/update
  | delMetric (node : Nat)                              -- NodeMetric delete

def step (cfg : Cfg) (c : Cache) : Ev → Cache
  | .reserve node p now => assign cfg c node p now
  | .unreserve node uid => unAssign c node uid
  | .add p now => assign cfg c p.specNode p now
  | .update o p now => onUpdate cfg c o p now
  | .delete sn uid => unAssign c sn uid
  | .metric node m => c.set node ((c.get node).setMetric cfg m)
  | .delMetric node => c.set node (c.get node).deleteMetric

def run (cfg : Cfg) (evs : List Ev) : Cache := evs.foldl (step cfg) []

/-! ### GetNodeMetricAndEstimatedOfExisting -/

/-- the aggUsages table built by AddOrUpdateNodeMetric, looked up by getTargetAggregatedUsage. -/
def aggLookup (m : Metric) (typ dur : Nat) : Option Vec :=
  let cells := m.aggs.filter (·.present)
  let direct (d : Nat) : Option Vec :=
    (cells.reverse.find? (fun e => e.typ == typ && e.dur == d)).map (·.usage)
  if dur != 0 then direct dur else
    -- key {typ, 0}: overwritten by the entry of the maximal positive duration of that type
    let maxD := (cells.filter (·.typ == typ)).foldl (fun acc e => if e.dur > acc then e.dur else acc) 0
    direct maxD

def targetUsage (m : Metric) (aggTyp aggDur : Nat) : Option Vec :=
  let nodeUsage := if m.hasInfo then some m.nodeUsage else none
  if aggTyp != 0 then
    let agg := if m.hasInfo then aggLookup m aggTyp aggDur else none
    match agg with
    | some v => some v
    | none => if aggDur == 0 then nodeUsage else none
  else nodeUsage

def estimatedOfExisting (cfg : Cfg) (n : Node) (prodPod : Bool) (aggTyp aggDur : Nat) : Option (Metric × Vec) :=
  match n.metric with
  | none => none
  | some m =>
    let z := vzero cfg.d
    if prodPod then some (m, vadd (vadd z n.sums.prodUsage) n.sums.prodDelta)
    else match targetUsage m aggTyp aggDur with
      | some u => some (m, vadd (vadd z u) n.sums.nodeDelta)
      | none => some (m, vadd z n.sums.nodeEst)

/-! ### load_aware.go: Filter -/

structure AggProfile where
  thr : Vec
  typ : Nat
  dur : Nat
deriving Repr, DecidableEq

structure Profile where
  usage : Vec
  prod : Vec
  agg : Option AggProfile
deriving Repr, DecidableEq

/-- a threshold map: per vector index `none` = key absent. -/
abbrev ThrMap := List (Option Int)

def ThrMap.nonEmpty (t : ThrMap) : Bool := t.any Option.isSome
def ThrMap.vec (d : Nat) (t : ThrMap) : Vec := (List.range d).map fun i => (t.getD i none).getD 0

structure AggArgs where
  thr : ThrMap
  typ : Nat          -- 0 = ""
  dur : Nat
deriving Repr, DecidableEq

/-- thresholds as configured: plugin args and the node annotation (custom: 0 absent, 1 valid, 2 malformed). -/
structure ThrArgs where
  usage : ThrMap
  prod : ThrMap
  agg : Option AggArgs
deriving Repr, DecidableEq

/-- NewUsageThresholdsFilterProfile -/
def argsProfile (d : Nat) (a : ThrArgs) : Profile :=
  { usage := if a.usage.nonEmpty then a.usage.vec d else [],
    prod := if a.prod.nonEmpty then a.prod.vec d else [],
    agg := match a.agg with
      | some g => if g.thr.nonEmpty && g.typ != 0 then some ⟨g.thr.vec d, g.typ, g.dur⟩ else none
      | none => none }

/-- generateUsageThresholdsFilterProfile -/
def nodeProfile (d : Nat) (tfp : Profile) (customKind : Nat) (c : ThrArgs) : Profile :=
  if customKind != 1 then tfp else
    let cagg := match c.agg with
      | some g => if g.thr.nonEmpty && g.typ != 0 then some g else none
      | none => none
    if !c.usage.nonEmpty && !c.prod.nonEmpty && cagg.isNone then tfp else
      { usage := if c.usage.nonEmpty then c.usage.vec d else tfp.usage,
        prod := if c.prod.nonEmpty then c.prod.vec d else tfp.prod,
        agg := match cagg with
          | some g => some ⟨g.thr.vec d, g.typ, g.dur⟩
          | none => tfp.agg }

structure FilterQ where
  node : Nat
  hasNode : Bool
  daemon : Bool
  args : ThrArgs
  customKind : Nat
  custom : ThrArgs
  filterExpired : Int        -- *bool: -1 nil, 0 false, 1 true
  hasExp : Bool              -- NodeMetricExpirationSeconds != nil
  expSec : Int
  enableWhenExpired : Int    -- *bool
  alloc : Vec                -- node.Status.Allocatable
  rawKind : Nat              -- raw-allocatable annotation: 0 absent, 1 valid, 2 malformed
  raw : List (Option Int)
  pod : PodDesc

/-- isNodeMetricExpired, with `time.Since(t) >= s` read as `-t >= s` (clock = harness start). -/
def metricExpired (m : Metric) (expSec : Int) : Bool :=
  !m.hasUpd || (expSec > 0 && decide (-m.updT ≥ expSec))

/-- EstimateNode + ToVec -/
def allocOf (q : FilterQ) : Vec :=
  if q.rawKind != 1 || !(q.raw.any Option.isSome) then q.alloc else
    (List.range q.alloc.length).map fun i =>
      match q.raw.getD i none with
      | some v => v
      | none => q.alloc.getD i 0

/-- filterNodeUsage: true = some thresholded resource exceeds. -/
def exceeds (fl : FloatOps) : Vec → Vec → Vec → Bool
  | t :: ts, e :: es, a :: as =>
    (if t == 0 then false else if a == 0 then false else decide (fl.roundPct e a > t)) || exceeds fl ts es as
  | _, _, _ => false

/-- profile selection of Filter: (prodPod, thresholds, aggregated profile when that one is used). -/
def selProfile (cfg : Cfg) (q : FilterQ) : Bool × Vec × Option AggProfile :=
  let prof := nodeProfile cfg.d (argsProfile cfg.d q.args) q.customKind q.custom
  let prodPod := !vEmpty prof.prod && q.pod.cls == 1
  if prodPod then (true, prof.prod, none) else
    match prof.agg with
    | some a => (false, a.thr, some a)
    | none => (false, prof.usage, none)

def selTyp (s : Option AggProfile) : Nat := match s with | some a => a.typ | none => 0
def selDur (s : Option AggProfile) : Nat := match s with | some a => a.dur | none => 0

/-- the expiry switch is engaged for this query and report:
`FilterExpiredNodeMetrics && NodeMetricExpirationSeconds != nil && isNodeMetricExpired`. -/
def expirySkip (q : FilterQ) (m : Metric) : Bool :=
  q.filterExpired == 1 && q.hasExp && metricExpired m q.expSec

/-- the part of Filter after GetNodeMetricAndEstimatedOfExisting (`none` = NotFound).
verdicts: 0 pass, 1 usage exceeds, 2 aggregated usage exceeds, 3 metric expired, 4 error. -/
def verdict (cfg : Cfg) (q : FilterQ) (thr : Vec) (isAgg : Bool) : Option (Metric × Vec) → Nat
  | none => 0
  | some (m, est) =>
    if expirySkip q m then
      (if q.enableWhenExpired == 0 then 3 else 0)
    else if !m.hasInfo then 0
    else if exceeds cfg.fl thr (vadd est (estimateVec cfg q.pod)) (allocOf q) then
      (if isAgg then 2 else 1)
    else 0

/-- Plugin.Filter -/
def filter (cfg : Cfg) (c : Cache) (q : FilterQ) : Nat :=
  if !q.hasNode then 4 else
  if q.daemon then 0 else
  let sel := selProfile cfg q
  let thr := sel.2.1
  if vEmpty thr then 0 else
    verdict cfg q thr sel.2.2.isSome
      (estimatedOfExisting cfg (c.get q.node) sel.1 (selTyp sel.2.2) (selDur sel.2.2))

end KoordVerif.C08
