/-
C15 — admitted quota tree well-formed.  Model of the webhook's recorded quota topology
  pkg/webhook/elasticquota/quota_topology.go        ValidAddQuota / ValidUpdateQuota / ValidDeleteQuota
  pkg/webhook/elasticquota/quota_topology_check.go  validateQuotaSelfItem, validateQuotaTopology,
      checkIsParentChange, checkTreeID, checkParentQuotaInfo, checkSubAndParentGroupQuotaKey,
      checkMinQuotaValidate, getChildMinQuotaSumExceptSpecificChild
  pkg/webhook/elasticquota/quota_info.go            NewQuotaInfoFromQuota
  apis/extension/elastic_quota.go                   label / annotation accessors
Core-only.  Names are naturals: 0 = koordinator-root-quota, 1 = koordinator-system-quota,
2 = koordinator-default-quota, >= 3 ordinary.  Tree id 0 = "".  Namespaces are naturals.
A v1.ResourceList over the fixed dimension list is a `List (Option Int)` (position = dimension,
`none` = key absent); every dimension-wise check runs over the dimensions `k < d`.

Encoding of the Go maps (isomorphic, not tidied):
  quotaInfoMap                     info  : List QI          (at most one entry per name is an invariant, not assumed)
  quotaHierarchyInfo (keys)        hkeys : List Nat         (names that own a child set; root from the constructor)
  quotaHierarchyInfo (child sets)  kids  : List (parent × child)
  namespaceToQuotaMap              nsMap : List (ns × quota), first match wins
`QI.ns` is not part of Go's QuotaInfo: it is the namespaces annotation of the last accepted
API object (the API server hands it back as `oldQuota` on update and as the object on delete).
Feature gates are at their defaults (ElasticQuotaEnableUpdateResourceKey=false,
ElasticQuotaGuaranteeUsage=false).  Creating an object NAMED koordinator-root-quota (name 0; its
parent label "" is name 99) is run like any other create (validateQuotaTopology returns nil for it);
the `Forest` theorems exclude it by the hypothesis `NotRootAdd`, see Props/C15.lean.
-/
namespace KoordVerif.C15

abbrev RL := List (Option Int)

def RL.get (r : RL) (k : Nat) : Option Int :=
  match r[k]? with
  | some o => o
  | none => none

/-- quantity with "missing = 0" (quotav1.Add / Subtract semantics). -/
def RL.val (r : RL) (k : Nat) : Int := (r.get k).getD 0

def allD (d : Nat) (p : Nat → Bool) : Bool := (List.range d).all p

structure QI where
  name     : Nat
  parent   : Nat
  isParent : Bool
  tree     : Nat
  force    : Bool        -- label allow-force-update == "true"
  treeRoot : Bool        -- label is-root == "true"
  mn       : RL
  mx       : RL
  ns       : List Nat    -- annotation namespaces of the API object (parsed)
  -- representation of the compared fields (quotaFieldsCopy compares the RAW annotation string and the
  -- Spec maps with reflect.DeepEqual, so two spellings of the same content are "different"):
  parentEmpty : Bool := false  -- the parent label is absent or "" (same string for the comparison; differs from a written-out root)
  ipSpell  : Nat := 0    -- spelling of a FALSE is-parent label: 0 "false", 2 label absent, 3 another string
  nsShape  : Nat := 0    -- 0 canonical JSON (absent when empty), 1 another spelling of the same list, 2 malformed (parsed as nil)
  mnNil    : Bool := false   -- Spec.Min is a nil map (only without keys; nil != empty for DeepEqual)
  mxNil    : Bool := false
deriving Repr, DecidableEq

structure Topo where
  info  : List QI
  hkeys : List Nat
  kids  : List (Nat × Nat)
  nsMap : List (Nat × Nat)
deriving Repr, DecidableEq

/-- NewQuotaTopology -/
def init : Topo := { info := [], hkeys := [0], kids := [], nsMap := [] }

def find (info : List QI) (n : Nat) : Option QI := info.find? (fun q => q.name == n)

def nsGet (m : List (Nat × Nat)) (n : Nat) : Option Nat :=
  match m.find? (fun e => e.1 == n) with
  | some e => some e.2
  | none => none

def nsDel (m : List (Nat × Nat)) (n : Nat) : List (Nat × Nat) := m.filter (fun e => e.1 != n)
def nsSet (m : List (Nat × Nat)) (n q : Nat) : List (Nat × Nat) := (n, q) :: nsDel m n

def isKid (s : Topo) (p c : Nat) : Bool := s.kids.contains (p, c)
/-- len(quotaHierarchyInfo[n]) > 0 -/
def hasKids (s : Topo) (n : Nat) : Bool := s.kids.any (fun e => e.1 == n)

/-! ### validateQuotaSelfItem -/

/-- quotav1.IsNegative -/
def negD (d : Nat) (r : RL) : Bool := !(allD d (fun k => decide (0 ≤ r.val k)))

/-- every key of min is a key of max and min <= max there -/
def minInMax (d : Nat) (mn mx : RL) : Bool :=
  allD d (fun k => match mn.get k with
    | none => true
    | some a => match mx.get k with
      | none => false
      | some b => decide (a ≤ b))

/-- `swNeg`: the shared-weight annotation carries a negative value. -/
def selfOK (d : Nat) (q : QI) (swNeg : Bool) : Bool :=
  !(negD d q.mx) && !(negD d q.mn) && !swNeg && minInMax d q.mn q.mx

/-! ### validateQuotaTopology -/

/-- checkIsParentChange; `hasPods` = answer of hasQuotaBoundedPods (external). -/
def isParentChangeOK (s : Topo) (old : Option QI) (q : QI) (hasPods : Bool) : Bool :=
  match old with
  | none => true
  | some o =>
    if o.isParent == q.isParent then true
    else if hasKids s o.name && !q.isParent then false
    else if q.isParent && hasPods then false
    else true

/-- checkTreeID (a missing parent / child info is tolerated here, as in Go). -/
def treeCheck (s : Topo) (old : Option QI) (q : QI) : Bool :=
  (match old with
   | none => true
   | some o => o.tree == q.tree) &&
  (if q.parent = 0 then true else
     match find s.info q.parent with
     | none => true
     | some p => p.tree == q.tree) &&
  s.info.all (fun c => !(isKid s q.name c.name) || c.tree == q.tree)

/-- the upward walk added by the repair: `for i := 0; i <= len(map) && ancestor != root; i++`. -/
def hitsUp (info : List QI) (x : Nat) : Nat → Nat → Bool
  | 0, _ => false
  | f+1, cur =>
    if cur = 0 then false
    else if cur = x then true
    else match find info cur with
      | none => false
      | some a => hitsUp info x f a.parent

/-- checkParentQuotaInfo -/
def parentInfoOK (s : Topo) (name parent : Nat) : Bool :=
  if parent = 0 then true else
  match find s.info parent with
  | none => false
  | some p =>
    s.hkeys.contains parent && p.isParent && !(hitsUp s.info name (s.info.length + 1) parent)

def keysIncl (d : Nat) (p c : RL) : Bool :=
  allD d (fun k => !(c.get k).isSome || (p.get k).isSome)

def keysSame (d : Nat) (p c : RL) : Bool := keysIncl d c p && keysIncl d p c

/-- every recorded child of `p` (except `skip`) has an info entry ("out of sync" errors). -/
def kidsInInfo (s : Topo) (p : Nat) (skip : Option Nat) : Bool :=
  s.kids.all (fun e => e.1 != p || some e.2 == skip || (find s.info e.2).isSome)

/-- checkSubAndParentGroupQuotaKey with enableUpdateResourceKey = false.
    (`none` parent info would be a nil dereference in Go; unreachable after parentInfoOK.) -/
def keysCheck (d : Nat) (s : Topo) (q : QI) : Bool :=
  (if q.parent = 0 then true else
     match find s.info q.parent with
     | none => false
     | some p => keysSame d p.mx q.mx && keysIncl d p.mn q.mn) &&
  kidsInInfo s q.name none &&
  s.info.all (fun c => !(isKid s q.name c.name) || (keysSame d q.mx c.mx && keysIncl d q.mn c.mn))

/-- getChildMinQuotaSumExceptSpecificChild, dimension `k` (sum over the child set). -/
def minSum (s : Topo) (p : Nat) (skip : Option Nat) (k : Nat) : Int :=
  ((s.info.filter (fun c => isKid s p c.name && !(some c.name == skip))).map (fun c => c.mn.val k)).sum

/-- checkMinQuotaValidate -/
def minCheck (d : Nat) (s : Topo) (q : QI) : Bool :=
  if q.force then true
  else if q.treeRoot then true
  else
    (if q.parent = 0 then true else
       s.hkeys.contains q.parent && kidsInInfo s q.parent (some q.name) &&
       match find s.info q.parent with
       | none => false
       | some p => allD d (fun k => decide (minSum s q.parent (some q.name) k + q.mn.val k ≤ p.mn.val k))) &&
    (if !(hasKids s q.name) then true else
       kidsInInfo s q.name none &&
       allD d (fun k => decide (minSum s q.name none k ≤ q.mn.val k)))

def topoCheck (d : Nat) (s : Topo) (old : Option QI) (q : QI) (hasPods : Bool) : Bool :=
  if q.name = 0 then true
  else if !(isParentChangeOK s old q hasPods) then false
  else if !(treeCheck s old q) then false
  else if q.parent = 0 && !q.isParent then true
  else if !(parentInfoOK s q.name q.parent) then false
  else if !(keysCheck d s q) then false
  else minCheck d s q

/-! ### the three entry points -/

def nsDelAll (m : List (Nat × Nat)) (l : List Nat) : List (Nat × Nat) := l.foldl nsDel m
def nsSetAll (m : List (Nat × Nat)) (l : List Nat) (q : Nat) : List (Nat × Nat) :=
  l.foldl (fun m n => nsSet m n q) m

/-- ValidAddQuota.  Since the repair f812ecb the child set of the new name is created only when it
    is absent (`if qt.quotaHierarchyInfo[name] == nil`), so recorded children of that name are kept
    (before: `kids.filter (e.1 != q.name)`, which emptied the root's child set on a root-named create). -/
def validAdd (d : Nat) (s : Topo) (q : QI) (swNeg : Bool) : Topo × Bool :=
  if (find s.info q.name).isSome then (s, false)
  else if q.ns.any (fun n => (nsGet s.nsMap n).isSome) then (s, false)
  else if !(selfOK d q swNeg) then (s, false)
  else if !(topoCheck d s none q false) then (s, false)
  else
    ({ info := q :: s.info
       hkeys := q.parent :: q.name :: s.hkeys
       kids := (q.parent, q.name) :: s.kids
       nsMap := nsSetAll s.nsMap q.ns q.name }, true)

/-- quotaFieldsCopy equality (labels parent / is-parent / tree-id, annotation namespaces, spec). -/
def sameFields (o q : QI) : Bool :=
  o.parent == q.parent && o.isParent == q.isParent && o.tree == q.tree && o.ns == q.ns &&
  o.mn == q.mn && o.mx == q.mx && o.nsShape == q.nsShape && o.mnNil == q.mnNil && o.mxNil == q.mxNil &&
  o.parentEmpty == q.parentEmpty && o.ipSpell == q.ipSpell

def replace (info : List QI) (q : QI) : List QI :=
  info.map (fun c => if c.name = q.name then q else c)

/-- no namespace of the request is bound to another quota -/
def nsFree (s : Topo) (q : QI) : Bool :=
  !(q.ns.any (fun n => match nsGet s.nsMap n with | some o => o != q.name | none => false))

/-- ValidUpdateQuota; the old object is the last accepted one (its compared fields are the
    recorded ones), absent when the name is unknown. -/
def validUpdate (d : Nat) (s : Topo) (q : QI) (swNeg hasPods : Bool) : Topo × Bool :=
  let old := find s.info q.name
  if (match old with | some o => sameFields o q | none => false) then (s, true)
  else if q.name = 0 || q.name = 1 then (s, false)
  else if !(nsFree s q) then (s, false)
  else match old with
  | none => (s, false)
  | some o =>
    if !(selfOK d q swNeg) then (s, false)
    else if !(topoCheck d s (some o) q hasPods) then (s, false)
    else
      ({ info := replace s.info q
         hkeys := s.hkeys
         kids := if o.parent != q.parent
                 then (q.parent, q.name) :: s.kids.filter (fun e => e != (o.parent, q.name))
                 else s.kids
         nsMap := nsSetAll (nsDelAll s.nsMap o.ns) q.ns q.name }, true)

/-- ValidDeleteQuota; `labelPods` = the pod list by label.quotaName is non-empty (external). -/
def validDelete (s : Topo) (name : Nat) (labelPods : Bool) : Topo × Bool :=
  if name = 1 || name = 0 || name = 2 then (s, false)
  else match find s.info name with
  | none => (s, false)
  | some o =>
    if !(s.hkeys.contains name) then (s, false)
    else if hasKids s name then (s, false)
    else if labelPods then (s, false)
    else
      ({ info := s.info.filter (fun c => c.name != name)
         hkeys := s.hkeys.filter (fun n => n != name)
         kids := s.kids.filter (fun e => e != (o.parent, name) && e.1 != name)
         nsMap := nsDelAll s.nsMap o.ns }, true)

inductive Op where
  | add (q : QI) (swNeg : Bool)
  | upd (q : QI) (swNeg hasPods : Bool)
  | del (name : Nat) (labelPods : Bool)
deriving Repr

def step (d : Nat) (s : Topo) : Op → Topo × Bool
  | .add q sw => validAdd d s q sw
  | .upd q sw hp => validUpdate d s q sw hp
  | .del n lp => validDelete s n lp

def run (d : Nat) (s : Topo) : List Op → Topo
  | [] => s
  | op :: ops => run d (step d s op).1 ops

/-! ### request decoding — the glue in front of the three entry points
  apis/extension/elastic_quota.go  GetParentQuotaName, IsParentQuota, IsAllowForceUpdate, IsTreeRootQuota,
                                   GetAnnotationQuotaNamespaces (malformed JSON ⇒ nil)
  quota_topology_check.go          validateQuotaSelfItem (shared-weight annotation: "" skipped, malformed ⇒ error)
  pod_check.go                     hasQuotaBoundedPods (label, namespace named like the quota, old annotated namespaces)
  quota_topology.go                ValidDeleteQuota (pods by label); a failing List is an error return at the same place -/

/-- a boolean label: code 0 = "false", 1 = "true", 2 = label absent, 3 = any other string (e.g. "True").
    All accessors compare with the literal "true". -/
def labelTrue (code : Nat) : Bool := code == 1

/-- GetParentQuotaName: code 98 = label absent, 99 = label "", otherwise the named quota.  The empty name
    means the root, except on the object that is itself named root (its parent stays "" = 99). -/
def parentOf (name code : Nat) : Nat :=
  if code = 98 || code = 99 then (if name = 0 then 99 else 0) else code

/-- shared-weight annotation: 0 absent, 1 a negative amount, 2 malformed JSON, 3 non-negative amounts, 4 "" (skipped).
    Malformed JSON is an error return of validateQuotaSelfItem, like a negative amount. -/
def swBad (shape : Nat) : Bool := shape == 1 || shape == 2

structure Raw where
  name : Nat
  parentCode : Nat
  isParentCode : Nat
  tree : Nat
  forceCode : Nat
  rootCode : Nat
  swShape : Nat
  nsShape : Nat
  nsList : List Nat
  mnNil : Bool
  mxNil : Bool
  mn : RL
  mx : RL
deriving Repr

def noKeys (r : RL) : Bool := r.all (fun o => o.isNone)

/-- NewQuotaInfoFromQuota + the compared representation -/
def decodeQI (r : Raw) : QI :=
  { name := r.name, parent := parentOf r.name r.parentCode, isParent := labelTrue r.isParentCode, tree := r.tree,
    force := labelTrue r.forceCode, treeRoot := labelTrue r.rootCode, mn := r.mn, mx := r.mx,
    ns := if r.nsShape = 2 then [] else r.nsList,
    nsShape := r.nsShape, mnNil := r.mnNil && noKeys r.mn, mxNil := r.mxNil && noKeys r.mx,
    parentEmpty := r.parentCode = 98 || r.parentCode = 99,
    ipSpell := if r.isParentCode = 2 || r.isParentCode = 3 then r.isParentCode else 0 }

/-- a pod of the environment: nsKind 0 = some unrelated namespace, 1 = namespace ns<ns>, 2 = the namespace
    whose name equals quota <ns>'s name; label = quota-name label. -/
structure Pod where
  nsKind : Nat
  ns : Nat
  label : Option Nat
deriving Repr

/-- ValidDeleteQuota: pods listed by label.quotaName -/
def labelPods (pods : List Pod) (name : Nat) : Bool := pods.any (fun p => p.label == some name)

/-- hasQuotaBoundedPods -/
def hasBoundPods (pods : List Pod) (name : Nat) (oldNs : List Nat) : Bool :=
  labelPods pods name || pods.any (fun p => p.nsKind == 2 && p.ns == name) ||
  oldNs.any (fun n => pods.any (fun p => p.nsKind == 1 && p.ns == n))

/-- fillQuotaDefaultInformation (the mutating admission that runs before the validating one on create).
    `none` = error return (the create is denied before ValidAddQuota is reached).
    * root-named object: untouched;
    * parent label absent / "" ⇒ written-out root;
    * tree id "" and parent ≠ root ⇒ the parent must be recorded, its non-empty tree id is inherited;
    * shared weight absent / "" ⇒ := max; otherwise malformed JSON is an error, and fixedSharedWeight drops the
      keys max does not declare (the harness' negative weight is on cpu = dimension 0) and adds the missing ones. -/
def fill (s : Topo) (r : Raw) : Option Raw :=
  if r.name = 0 then some r else
  let pc := if r.parentCode = 98 || r.parentCode = 99 then 0 else r.parentCode
  let tree? : Option Nat :=
    if r.tree = 0 && pc != 0 then
      match find s.info pc with
      | none => none
      | some p => some p.tree
    else some r.tree
  match tree? with
  | none => none
  | some t =>
    if r.swShape = 2 then none
    else
      let sw := if r.swShape = 1 && (r.mx.get 0).isSome then 1 else 3
      some { r with parentCode := pc, tree := t, swShape := sw }

inductive RawOp where
  | add (r : Raw)
  | madd (r : Raw)                                         -- create through the mutating webhook first
  | upd (r : Raw) (listErr : Bool) (pods : List Pod)
  | del (name : Nat) (listErr : Bool) (pods : List Pod)
deriving Repr

/-- the old object's namespaces are those of the last accepted object (= the recorded ones).
    `none`: denied before an entry point is reached. -/
def decodeOp (s : Topo) : RawOp → Option Op
  | .add r => some (.add (decodeQI r) (swBad r.swShape))
  | .madd r =>
    match fill s r with
    | none => none
    | some r' => some (.add (decodeQI r') (swBad r'.swShape))
  | .upd r le pods =>
    let oldNs := match find s.info r.name with
      | some o => o.ns
      | none => []
    some (.upd (decodeQI r) (swBad r.swShape) (le || hasBoundPods pods r.name oldNs))
  | .del n le pods => some (.del n (le || labelPods pods n))

def stepRaw (d : Nat) (s : Topo) (r : RawOp) : Topo × Bool :=
  match decodeOp s r with
  | none => (s, false)
  | some op => step d s op

def runRaw (d : Nat) (s : Topo) : List RawOp → Topo
  | [] => s
  | r :: rs => runRaw d (stepRaw d s r).1 rs

end KoordVerif.C15
