/-
C09 — batch/mid reclaimed capacity.  Model of
  pkg/slo-controller/noderesource/plugins/batchresource/plugin.go
      Calculate, calculateOnNode, calculateOnNUMALevel, isDegradeNeeded, Reset
  pkg/slo-controller/noderesource/plugins/util/util.go
      CalculateBatchResourceByPolicy, GetNodeSafetyMargin, GetHostAppHPUsed, DivideResourceList,
      GetPodNUMARequestAndUsage, GetPodUnknownNUMAUsage, CalculateMidResourceByStaticMode,
      CalculateMidResourceByPolicy
  apis/extension/{priority,priority_utils,qos_utils}.go   priority / QoS class resolution
Resource lists are total (missing key = 0; all generated amounts are ≥ 0, where quotav1.Max's
"missing ≠ 0" quirk cannot be seen).  CPU is in milli-cores; memory in bytes at node level and in
milli-bytes at zone level (DivideResourceList works on MilliValue).  Core-only.
-/
namespace KoordVerif.C09

inductive Dim | cpu | mem
deriving DecidableEq, Repr

/-- `CalculatePolicy`; `unset` = nil pointer or an unknown string (the code's `else` branch). -/
inductive Policy | usage | request | maxUR | unset
deriving DecidableEq, Repr

/-- the float64 computations, parameters of the model (driver: Lean `Float`).
    `mulPct v k  = int64(float64(v) * (float64(k)/100))`   (MultiplyMilliQuant / MultiplyQuant / mid thresholds)
    `divCeil v n = int64(math.Ceil(float64(v)/float64(n)))` (DivideResourceList) -/
structure FloatOps where
  mulPct  : Int → Int → Int
  divCeil : Int → Int → Int

/-! ### priority / QoS class resolution (apis/extension) -/

inductive Prio | prod | mid | batch | free | none
deriving DecidableEq, Repr

inductive QoS | lse | lsr | ls | be | system | none
deriving DecidableEq, Repr

inductive KubeQoS | guaranteed | burstable | bestEffort
deriving DecidableEq, Repr

structure PrioConsts where
  prodMin : Int
  prodMax : Int
  midMin : Int
  midMax : Int
  batchMin : Int
  batchMax : Int
  freeMin : Int
  freeMax : Int
  prodDef : Int
  midDef : Int
  batchDef : Int
  freeDef : Int
  noneDef : Int
deriving Repr, DecidableEq

def stdPrio : PrioConsts :=
  { prodMin := 9000, prodMax := 9999, midMin := 7000, midMax := 7999, batchMin := 5000, batchMax := 5999,
    freeMin := 3000, freeMax := 3999, prodDef := 9500, midDef := 7500, batchDef := 5500, freeDef := 3500, noneDef := 0 }

/-- priority.go getPriorityClassByPriority -/
def prioByValue (k : PrioConsts) (p : Int) : Prio :=
  if p ≥ k.prodMin ∧ p ≤ k.prodMax then .prod
  else if p ≥ k.midMin ∧ p ≤ k.midMax then .mid
  else if p ≥ k.batchMin ∧ p ≤ k.batchMax then .batch
  else if p ≥ k.freeMin ∧ p ≤ k.freeMax then .free
  else .none

/-- priority.go GetPodPriorityClassRaw: a present label wins even when its value is unknown (`some .none`). -/
def prioRaw (k : PrioConsts) (label : Option Prio) (prioVal : Option Int) : Prio :=
  match label with
  | some l => l
  | none => match prioVal with
    | none => .none
    | some v => prioByValue k v

/-- qos_utils.go GetPodQoSClassWithDefault (label already mapped through GetPodQoSClassByName). -/
def qosDefault (label : QoS) (kube : KubeQoS) : QoS :=
  if label ≠ .none then label else
    match kube with
    | .guaranteed => .lsr
    | .burstable => .ls
    | .bestEffort => .be

/-- priority_utils.go GetPodPriorityClassWithQoS -/
def prioByQoS : QoS → Prio
  | .system | .lse | .lsr | .ls => .prod
  | .be => .batch
  | .none => .none

/-- priority_utils.go GetPodPriorityClassWithDefault -/
def prioDefault (k : PrioConsts) (label : Option Prio) (prioVal : Option Int) (qosLabel : QoS) (kube : KubeQoS) : Prio :=
  let r := prioRaw k label prioVal
  if r ≠ .none then r else prioByQoS (qosDefault qosLabel kube)

/-- priority_utils.go GetDefaultPriorityByPriorityClass -/
def prioValue (k : PrioConsts) : Prio → Int
  | .prod => k.prodDef | .mid => k.midDef | .batch => k.batchDef | .free => k.freeDef | .none => k.noneDef

/-- "HP" in plugin.go: priority is neither koord-batch nor koord-free. -/
def isHP (p : Prio) : Bool := p != .batch && p != .free

/-! ### inputs -/

structure Strategy where
  cpuThr : Int            -- CPUReclaimThresholdPercent
  memThr : Int
  cpuPol : Policy
  memPol : Policy
  cpuCap : Option Int     -- BatchCPUThresholdPercent
  memCap : Option Int
  degradeMin : Int
deriving Repr

def Strategy.thr (s : Strategy) : Dim → Int | .cpu => s.cpuThr | .mem => s.memThr
def Strategy.pol (s : Strategy) : Dim → Policy | .cpu => s.cpuPol | .mem => s.memPol
def Strategy.cap (s : Strategy) : Dim → Option Int | .cpu => s.cpuCap | .mem => s.memCap

structure NodeIn where
  capC : Int
  capM : Int
  allocC : Int
  allocM : Int
  annoC : Int
  annoM : Int
  sysC : Int
  sysM : Int
deriving Repr

def NodeIn.cap (n : NodeIn) : Dim → Int | .cpu => n.capC | .mem => n.capM
def NodeIn.alloc (n : NodeIn) : Dim → Int | .cpu => n.allocC | .mem => n.allocM
def NodeIn.anno (n : NodeIn) : Dim → Int | .cpu => n.annoC | .mem => n.annoM
def NodeIn.sys (n : NodeIn) : Dim → Int | .cpu => n.sysC | .mem => n.sysM

/-- util/node.go GetNodeReservationFromKubelet: max(capacity − allocatable, 0) -/
def kubeletReserved (n : NodeIn) (d : Dim) : Int := max (n.cap d - n.alloc d) 0

/-- plugin.go: nodeReserved := quotav1.Max(nodeKubeletReserved, nodeAnnoReserved) -/
def nodeReserved (n : NodeIn) (d : Dim) : Int := max (kubeletReserved n d) (n.anno d)

structure PodIn where
  key : Nat
  active : Bool     -- phase Running or Pending
  prio : Prio       -- GetPodPriorityClassWithDefault
  qos : QoS         -- GetPodQoSClassWithDefault
  reqC : Int
  reqM : Int
  numa : List Int   -- resource-status annotation NUMANodeResources[].Node
deriving Repr

structure Metric where
  key : Nat
  prio : Prio
  usedC : Int
  usedM : Int
deriving Repr

def Metric.used (m : Metric) : Dim → Int | .cpu => m.usedC | .mem => m.usedM

structure HostApp where
  prio : Prio
  usedC : Int
  usedM : Int
deriving Repr

def HostApp.used (h : HostApp) : Dim → Int | .cpu => h.usedC | .mem => h.usedM

/-- the `podMetricMap` built by assignment in list order: the last entry of a key wins. -/
def metricMap (ms : List Metric) : List Metric :=
  ms.foldr (fun m acc => if acc.any (fun x => x.key == m.key) then acc else m :: acc) []

def findMetric (mm : List Metric) (k : Nat) : Option Metric := mm.find? (fun m => m.key == k)

/-- a high-priority pod of the list in Running/Pending phase, with its metric looked up. -/
structure RPod where
  lse : Bool
  hasMetric : Bool
  reqC : Int
  reqM : Int
  usedC : Int
  usedM : Int
  numa : List Int
deriving Repr, DecidableEq

def RPod.req (p : RPod) : Dim → Int | .cpu => p.reqC | .mem => p.reqM
def RPod.used (p : RPod) : Dim → Int | .cpu => p.usedC | .mem => p.usedM

/-- the pod loop of calculateOnNode up to the priority filter. -/
def resolvePods (pods : List PodIn) (mm : List Metric) : List RPod :=
  (pods.filter (fun p => p.active && isHP p.prio)).map fun p =>
    match findMetric mm p.key with
    | none => { lse := p.qos == .lse, hasMetric := false, reqC := p.reqC, reqM := p.reqM, usedC := 0, usedM := 0, numa := p.numa }
    | some m => { lse := p.qos == .lse, hasMetric := true, reqC := p.reqC, reqM := p.reqM, usedC := m.usedC, usedM := m.usedM, numa := p.numa }

/-- `podMetricDanglingMap` after the pod loop, restricted to the entries that are charged:
    metrics whose key matches no Running/Pending pod of the list and whose own priority is HP. -/
def dangling (pods : List PodIn) (mm : List Metric) : List Metric :=
  mm.filter (fun m => !(pods.any (fun p => p.active && p.key == m.key)) && isHP m.prio)

/-- util.go GetHostAppHPUsed -/
def hostHPUsed (k : PrioConsts) (resPrio : Prio) (hs : List HostApp) (d : Dim) : Int :=
  ((hs.filter (fun h => !(prioValue k h.prio ≤ prioValue k resPrio))).map (fun h => h.used d)).sum

/-! ### node-level aggregation (calculateOnNode) -/

/-- what one HP pod adds to `podsHPUsed` -/
def chargeUsed (d : Dim) (p : RPod) : Int :=
  if !p.hasMetric then p.req d
  else if p.lse then (match d with | .cpu => p.req d | .mem => p.used d)
  else p.used d

/-- what one HP pod adds to `podsHPMaxUsedReq` -/
def chargeMax (d : Dim) (p : RPod) : Int :=
  if !p.hasMetric then p.req d else max (p.req d) (p.used d)

def hpReq (d : Dim) (ps : List RPod) : Int := (ps.map (fun p => p.req d)).sum
def hpUsed (d : Dim) (ps : List RPod) (dg : List Metric) : Int :=
  (ps.map (chargeUsed d)).sum + (dg.map (fun m => m.used d)).sum
def hpMax (d : Dim) (ps : List RPod) (dg : List Metric) : Int :=
  (ps.map (chargeMax d)).sum + (dg.map (fun m => m.used d)).sum

/-! ### util.go CalculateBatchResourceByPolicy (one dimension) -/

/-- which of the three candidates is published.  CPU supports only `usage` and `maxUsageRequest`
    (`request` falls into the usage branch, as written); memory supports all three. -/
def pickPolicy (d : Dim) (pol : Policy) (byUsage byReq byMax : Int) : Int :=
  match d, pol with
  | .cpu, .maxUR => byMax
  | .cpu, _ => byUsage
  | .mem, .request => byReq
  | .mem, .maxUR => byMax
  | .mem, _ => byUsage

def byPolicy (d : Dim) (pol : Policy) (capLimit : Option Int)
    (cap margin reserved sys hpReq hpUsed hpMax : Int) : Int :=
  let sysU := max sys reserved
  let byUsage := max (cap - margin - sysU - hpUsed) 0
  let byReq := max (cap - margin - reserved - hpReq) 0
  let byMax := max (cap - margin - sysU - hpMax) 0
  let base := pickPolicy d pol byUsage byReq byMax
  match capLimit with
  | none => base
  | some l => if base ≥ l then l else base     -- util.MinQuant

/-- util.go GetNodeSafetyMargin: cap * ((100 − threshold)/100) -/
def safetyMargin (F : FloatOps) (s : Strategy) (d : Dim) (cap : Int) : Int := F.mulPct cap (100 - s.thr d)

def capLimit (F : FloatOps) (s : Strategy) (d : Dim) (cap : Int) : Option Int := (s.cap d).map (F.mulPct cap)

/-- calculateOnNode, one dimension, on the resolved pods. -/
def nodeBatchR (F : FloatOps) (k : PrioConsts) (s : Strategy) (n : NodeIn) (hs : List HostApp)
    (ps : List RPod) (dg : List Metric) (d : Dim) : Int :=
  byPolicy d (s.pol d) (capLimit F s d (n.cap d)) (n.cap d) (safetyMargin F s d (n.cap d)) (nodeReserved n d)
    (n.sys d + hostHPUsed k .batch hs d) (hpReq d ps) (hpUsed d ps dg) (hpMax d ps dg)

def nodeBatch (F : FloatOps) (k : PrioConsts) (s : Strategy) (n : NodeIn) (hs : List HostApp)
    (pods : List PodIn) (ms : List Metric) (d : Dim) : Int :=
  let mm := metricMap ms
  nodeBatchR F k s n hs (resolvePods pods mm) (dangling pods mm) d

/-! ### degradation (isDegradeNeeded, Reset) — times in seconds -/

def isDegradeNeeded (hasUpdateTime : Bool) (now upd degradeMin : Int) : Bool :=
  !hasUpdateTime || now > upd + degradeMin * 60

/-! ### NUMA-zone level (calculateOnNUMALevel); all amounts in milli units -/

structure Zone where
  hasC : Bool
  hasM : Bool
  allocC : Int   -- milli-cores (0 when the zone has no cpu entry)
  allocM : Int   -- bytes
deriving Repr

def Zone.alloc (z : Zone) : Dim → Int | .cpu => z.allocC | .mem => z.allocM

/-- noderesourcetopology_event_handler.go isNRTResourcesCreated -/
def zonesCreated (zs : List Zone) : Bool := zs.any (fun z => z.hasC || z.hasM)

/-- value → milli value of the Quantity: CPU amounts are already milli, memory ×1000. -/
def milli (d : Dim) (x : Int) : Int := match d with | .cpu => x | .mem => 1000 * x

/-- util.go GetPodNUMARequestAndUsage: share of zone `i` of a pod-level milli amount `x`. -/
def zoneShare (F : FloatOps) (zoneNum : Nat) (numa : List Int) (i : Nat) (x : Int) : Int :=
  let valid := (numa.filter (fun id => id < (zoneNum : Int) && id ≥ 0)).length
  if valid = 0 then F.divCeil x zoneNum
  else if numa.contains (i : Int) then F.divCeil x valid else 0

def zReq (F : FloatOps) (zn i : Nat) (d : Dim) (p : RPod) : Int := zoneShare F zn p.numa i (milli d (p.req d))
def zUse (F : FloatOps) (zn i : Nat) (d : Dim) (p : RPod) : Int :=
  zoneShare F zn p.numa i (milli d (if p.hasMetric then p.used d else p.req d))

def zChargeUsed (F : FloatOps) (zn i : Nat) (d : Dim) (p : RPod) : Int :=
  if !p.hasMetric then zReq F zn i d p
  else if p.lse then (match d with | .cpu => zReq F zn i d p | .mem => zUse F zn i d p)
  else zUse F zn i d p

def zChargeMax (F : FloatOps) (zn i : Nat) (d : Dim) (p : RPod) : Int :=
  if !p.hasMetric then zReq F zn i d p else max (zUse F zn i d p) (zReq F zn i d p)

def zDangling (F : FloatOps) (zn : Nat) (d : Dim) (dg : List Metric) : Int :=
  (dg.map (fun m => F.divCeil (milli d (m.used d)) zn)).sum

def zoneBatchR (F : FloatOps) (k : PrioConsts) (s : Strategy) (n : NodeIn) (hs : List HostApp)
    (ps : List RPod) (dg : List Metric) (zn i : Nat) (z : Zone) (d : Dim) : Int :=
  byPolicy d (s.pol d) ((capLimit F s d (z.alloc d)).map (milli d)) (milli d (z.alloc d))
    (milli d (safetyMargin F s d (z.alloc d)))
    (F.divCeil (milli d (nodeReserved n d)) zn)
    (F.divCeil (milli d (n.sys d + hostHPUsed k .batch hs d)) zn)
    ((ps.map (zReq F zn i d)).sum)
    ((ps.map (zChargeUsed F zn i d)).sum + zDangling F zn d dg)
    ((ps.map (zChargeMax F zn i d)).sum + zDangling F zn d dg)

/-- index-carrying map (List.mapIdx written out; core-only and easy to reason about). -/
def mapIdxFrom {α β} (f : Nat → α → β) : Nat → List α → List β
  | _, [] => []
  | i, x :: xs => f i x :: mapIdxFrom f (i + 1) xs

/-- per zone (cpu milli, memory milli-bytes); `none` = zone resources not calculated. -/
def zoneBatch (F : FloatOps) (k : PrioConsts) (s : Strategy) (n : NodeIn) (hs : List HostApp)
    (pods : List PodIn) (ms : List Metric) (zs : List Zone) : Option (List (Int × Int)) :=
  if !zonesCreated zs then none else
  let mm := metricMap ms
  let ps := resolvePods pods mm
  let dg := dangling pods mm
  some (mapIdxFrom (fun i z => (zoneBatchR F k s n hs ps dg zs.length i z .cpu,
                               zoneBatchR F k s n hs ps dg zs.length i z .mem)) 0 zs)

/-! ### the plugin entry point -/

inductive Out
  | degraded                                            -- every item has Reset = true, no quantity
  | batch (cpu mem : Int) (zones : Option (List (Int × Int)))
deriving Repr, DecidableEq

def calculate (F : FloatOps) (k : PrioConsts) (s : Strategy) (n : NodeIn) (hs : List HostApp)
    (pods : List PodIn) (ms : List Metric) (zs : List Zone)
    (hasUpdateTime : Bool) (now upd : Int) : Out :=
  if isDegradeNeeded hasUpdateTime now upd s.degradeMin then .degraded
  else .batch (nodeBatch F k s n hs pods ms .cpu) (nodeBatch F k s n hs pods ms .mem)
         (zoneBatch F k s n hs pods ms zs)

/-! ### mid tier (util.go CalculateMidResourceByStaticMode / CalculateMidResourceByPolicy), one dimension.
    Percentages are already defaulted (getPercentFromStrategy). -/

/-- static mode: min(cap × reservedPct, cap × thresholdPct) written as the code's `if a > b then b`. -/
def midStatic (F : FloatOps) (cap reservedPct thrPct : Int) : Int :=
  let v := F.mulPct cap reservedPct
  let mx := F.mulPct cap thrPct
  if v > mx then mx else v

/-- policy mode: min(prodReclaimable, nodeUnused) clamped at 0, plus unallocated × pct, capped by threshold. -/
def midByPolicy (F : FloatOps) (cap unallocated nodeUnused reclaimable unallocPct thrPct : Int) : Int :=
  let a := if reclaimable > nodeUnused then nodeUnused else reclaimable
  let a := if a < 0 then 0 else a
  let v := a + F.mulPct unallocated unallocPct
  let mx := F.mulPct cap thrPct
  if v > mx then mx else v

end KoordVerif.C09
