import KoordVerif.Model.C20Hist
/-
C20 (extension) — the delivery model with an explicit WORK QUEUE: events only enqueue, requests are reconciled later, in
any order, interleaved with further API changes and events (Model/C20Hist.lean is the special case "drain after every
event").  Same Go code as Model/C20Hist.lean; the queue is controller-runtime's (a name is queued at most once: taking a
request removes the name from the queue; adding a queued name is a no-op, modelled as duplicates removed together).
Core-only (linked into drv_c20).
-/
namespace KoordVerif.C20

structure QWorld where
  w : World
  q : List Nat            -- queued request names
deriving Repr, DecidableEq

/-- Create handler body / tail of Update, without draining: sync; if the cache changed enqueue every node. -/
def qcmSync (d : Defaults) (parse : Ident → CM) (x : QWorld) (i : Ident) : QWorld :=
  let r := syncIfChanged d x.w (some (parse i))
  { w := r.1, q := x.q ++ (if r.2 then r.1.nodes.map (·.1) else []) }

/-- the ConfigMap's initial Create event after a restart, if the object exists. -/
def qcmEv (d : Defaults) (parse : Ident → CM) (x : QWorld) : QWorld :=
  match x.w.cm with
  | some i => qcmSync d parse x i
  | none => x

/-- one API change + the event it causes; nothing is reconciled. -/
def qevent (d : Defaults) (parse : Ident → CM) (x : QWorld) : HStep → QWorld
  | .cmCreate i => qcmSync d parse { x with w := { x.w with cm := some i } } i
  | .cmUpdate i =>
    if x.w.cm = some i then x else qcmSync d parse { x with w := { x.w with cm := some i } } i
  | .cmDelete => { x with w := { x.w with cm := none } }
  | .cmForeign => x
  | .nodeAdd n ls => { w := { x.w with nodes := setA x.w.nodes n ls }, q := x.q ++ [n] }
  | .nodeUpdate n ls =>
    match lookupA x.w.nodes n with
    | none => x
    | some old => { w := { x.w with nodes := setA x.w.nodes n ls }, q := if old = ls then x.q else x.q ++ [n] }
  | .nodeDelete n => { w := { x.w with nodes := delA x.w.nodes n }, q := x.q ++ [n] }
  | .restart _ =>
    -- new process: the old queue is gone; default cache, not available; the informers' initial events: the ConfigMap's
    -- Create (if it exists) and one request per Node and per NodeSLO
    let y := qcmEv d parse { w := { x.w with cfg := Cfg.default d, avail := false }, q := [] }
    { y with q := y.q ++ (x.w.nodes.map (·.1) ++ x.w.slos.map (·.1)) }

inductive QStep where
  | ev (s : HStep)
  | reco (n : Nat)         -- a worker reconciles request `n` (taken from the queue, or spurious: resync, self-event)
  | recoFail (n : Nat)     -- … but its API write (Create/Update/Delete of the NodeSLO) fails: Reconcile returns the error
                           --   (after the availability check) and the request is queued again
deriving Repr, DecidableEq

def qstep (d : Defaults) (parse : Ident → CM) (x : QWorld) : QStep → QWorld
  | .ev s => qevent d parse x s
  | .reco n => { w := reconcile d parse x.w n, q := x.q.filter (fun m => !(m == n)) }
  | .recoFail n => { w := ensureAvail d parse x.w, q := x.q ++ [n] }

def qrun (d : Defaults) (parse : Ident → CM) (x : QWorld) (ss : List QStep) : QWorld :=
  ss.foldl (qstep d parse) x

def QWorld.init (d : Defaults) : QWorld := { w := World.init d, q := [] }

end KoordVerif.C20
