import KoordVerif.Model.C06Events
/-
C06 — preemption dry run (extension round 6).  Executable, core-only.

  pkg/scheduler/plugins/nodenumaresource/preempt.go   preemptibleAlloc.{Accumulate, Subtract, AppendCPUSet} (CPU part),
                                                      Plugin.RemovePod / Plugin.AddPod (PreFilterExtensions), getPodAllocated
  pkg/scheduler/plugins/nodenumaresource/plugin.go    tryAllocateFromNode: preemptibleCPUs = nodeAlloc.AppendCPUSet(∅)
  pkg/scheduler/plugins/nodenumaresource/resource_manager.go / node_allocation.go
                                                      GetAvailableCPUs(node, preferred, preemptible): the preemptible CPUs are
                                                      given back once (RefCount--) before the available set is computed

A `cpuset.CPUSet` is a list of CPU ids read as a set (the driver prints it sorted).  Only the node-level state
(`preemptibleNodeState.nodeAlloc`) and only its CPU part are modelled: the pods of the dry-run stream carry no NUMA
amounts and no nominated reservation.
-/
namespace KoordVerif.C06

/-- cpuset.CPUSet.Intersection / Difference / Union. -/
def csInter (a b : List Nat) : List Nat := a.filter (fun c => b.contains c)
def csDiff (a b : List Nat) : List Nat := a.filter (fun c => !b.contains c)
def csUnion (a b : List Nat) : List Nat := a ++ b.filter (fun c => !a.contains c)

/-- preempt.go `preemptibleAlloc` (cpusToAdd, cpusToRemove). -/
structure PreAlloc where
  toAdd    : List Nat
  toRemove : List Nat
deriving Repr, DecidableEq

def PreAlloc.empty : PreAlloc := { toAdd := [], toRemove := [] }

/-- preempt.go `Accumulate`, CPU part, statement by statement: `cpusNotAdd` is computed once from the OLD cpusToRemove
    and the argument; both later writes use it. -/
def PreAlloc.accumulate (a : PreAlloc) (cpus : List Nat) : PreAlloc :=
  if cpus.isEmpty then a
  else if !a.toRemove.isEmpty then
    let notAdd := csInter a.toRemove cpus
    { toRemove := csDiff a.toRemove notAdd, toAdd := csUnion a.toAdd (csDiff cpus notAdd) }
  else { a with toAdd := csUnion a.toAdd cpus }

/-- preempt.go `Subtract`, CPU part: `cpusNotRemove` is computed once from the OLD cpusToAdd and the argument. -/
def PreAlloc.subtract (a : PreAlloc) (cpus : List Nat) : PreAlloc :=
  if cpus.isEmpty then a
  else if !a.toAdd.isEmpty then
    let notRemove := csInter a.toAdd cpus
    { toAdd := csDiff a.toAdd notRemove, toRemove := csUnion a.toRemove (csDiff cpus notRemove) }
  else { a with toRemove := csUnion a.toRemove cpus }

/-- preempt.go `AppendCPUSet`. -/
def PreAlloc.appendCPUSet (a : PreAlloc) (cpus : List Nat) : List Nat := csDiff (csUnion cpus a.toAdd) a.toRemove

/-- what tryAllocateFromNode hands to Allocate as `preemptibleCPUs` (no designated allocation, no reservation). -/
def PreAlloc.preemptible (a : PreAlloc) : List Nat := a.appendCPUSet []

/-- preempt.go `getPodAllocated`, CPU part: the CPUs the ledger records for the pod (none for an unknown pod). -/
def podAllocatedCPUs (M : Mgr) (node uid : Nat) : List Nat :=
  match findPod (M.L node).pods uid with
  | some p => p.cpus
  | none => []

/-- Plugin.RemovePod on the node-level state (a pod without recorded CPUs leaves the state untouched:
    `Accumulate` of the empty set is the identity, as is the early return). -/
def removePodDry (M : Mgr) (node : Nat) (a : PreAlloc) (uid : Nat) : PreAlloc :=
  a.accumulate (podAllocatedCPUs M node uid)

/-- Plugin.AddPod on the node-level state. -/
def addPodDry (M : Mgr) (node : Nat) (a : PreAlloc) (uid : Nat) : PreAlloc :=
  a.subtract (podAllocatedCPUs M node uid)

/-- resourceManager.GetAvailableCPUs(node, ∅, preemptible) as Allocate calls it in the dry run. -/
def dryAvailable (topo : List Nat) (maxRef : Int) (L : Ledger) (a : PreAlloc) : List Nat :=
  availableCPUs topo L.cpus maxRef [] [[], a.preemptible]

/-! ### abstract dry-run histories (used by the theorems) -/

inductive DOp where
  | rm (u : Nat)     -- Plugin.RemovePod(victim u)
  | ad (u : Nat)     -- Plugin.AddPod(u): the victim is reprieved
deriving Repr, DecidableEq

/-- `cpusOf u` = the CPUs the ledger records for pod `u` (fixed during a dry run: the ledger is not written). -/
def dstep (cpusOf : Nat → List Nat) (a : PreAlloc) : DOp → PreAlloc
  | .rm u => a.accumulate (cpusOf u)
  | .ad u => a.subtract (cpusOf u)

/-- the pods removed and not (yet) reprieved. -/
def dremoved (s : List Nat) : DOp → List Nat
  | .rm u => u :: s
  | .ad u => s.filter (fun v => v != u)

/-- the generic preemption loop removes a pod that is on the node and reprieves one it removed before. -/
def dok (s : List Nat) : DOp → Bool
  | .rm u => !s.contains u
  | .ad u => s.contains u

def drun (cpusOf : Nat → List Nat) : PreAlloc → List Nat → List DOp → Option (PreAlloc × List Nat)
  | a, s, [] => some (a, s)
  | a, s, o :: os => if dok s o then drun cpusOf (dstep cpusOf a o) (dremoved s o) os else none

end KoordVerif.C06
