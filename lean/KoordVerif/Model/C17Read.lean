import KoordVerif.Model.C17
/-
C17 — extended model of ONE `Reconciler.Reconcile` invocation: API READS are calls too.

Everything `Model/C17.lean` says about writes stays (the write primitives of `M` are reused); in addition
* every `Client.Get` (job, target pod, reservation, bound pod) and the `Evict` call are API calls: each call has a
  global index `nc` (reads, writes and Evict together, 0-based), and right before call `k` the scripted
  environment events `(k, op)` of the reconcile are applied (pod deleted / replaced, reservation deleted /
  re-created / changed, bound pod) — the environment can change BETWEEN two reads of one reconcile;
* every read has an index `nr` among the reads; bit `nr` of the read-fault mask set ⇒ the Get fails with an
  error that is not NotFound;
* `reservationInterpreter.GetReservation` (reservation/interpreter.go) is `Client.Get`, and on NotFound one more
  `APIReader.Get`: two reads, the environment may change in between;
* a reservation `Update` carries the resourceVersion it read: it fails (Conflict / NotFound) when a scripted event
  touched the reservation in between (`rver`); a reservation `Delete` of an object that vanished is NotFound.
Go sources as in Model/C17.lean (controller.go, reservation/interpreter.go).  Core-only.
-/
namespace KoordVerif.C17

/-- what the recording evictor sees at the instant of an `Evict` call (extended model) -/
structure XSnap where
  env : Env              -- the environment at that instant
  job0 : Job             -- the persisted job at the start of this reconcile
  mem : Job              -- the in-memory job handed to the evictor
  api : Job              -- the persisted job at that instant
  looks : List Nat       -- results of ALL reservation lookups of this reconcile so far: 0 found, 1 NotFound, 2 error
  gate : Option Resv     -- the reservation object doMigrate fetched for its gates (controller.go:343)
  last : Option Resv     -- the object returned by the most recent reservation lookup
  pod : Option Pod       -- the pod object handed to the evictor
deriving DecidableEq, Repr

structure X where
  m : M
  rf : Nat                   -- read-fault mask
  nr : Nat                   -- reads issued so far
  nc : Nat                   -- API calls issued so far
  evs : List (Nat × Op)      -- scripted events: (k, op) is applied right before API call k
  rver : Nat                 -- "resourceVersion" of the reservation
  looks : List Nat
  gate : Option Resv
  last : Option Resv
  xs : List XSnap

/-- environment events that may happen inside a reconcile -/
def envApply (e : Env) : Op → Env
  | .pod p => { e with pod := p }
  | .resv r => { e with resv := r }
  | .bpod k => { e with bpod := k }
  | _ => e

def isResvOp : Op → Bool
  | .resv _ => true
  | _ => false

/-- the events scheduled right before the next API call -/
def X.due (x : X) : List (Nat × Op) := x.evs.filter fun ev => ev.1 == x.nc

/-- the hook that runs right before every API call -/
def X.pre (x : X) : X :=
  { x with m := { x.m with env := x.due.foldl (fun e ev => envApply e ev.2) x.m.env },
           rver := x.rver + (x.due.filter fun ev => isResvOp ev.2).length,
           nc := x.nc + 1 }

def M.logwr (m : M) (k : ActK) (ok : Bool) : M := { m with w := m.w + 1, acts := m.acts ++ [⟨k, ok, 0⟩] }

/-- one `Get`: 0 found, 1 NotFound, 2 error (injected) -/
def X.read (x : X) (k : ActK) (present : Env → Bool) : Nat × X :=
  (if x.rf.testBit x.nr then 2 else if present x.pre.m.env then 0 else 1,
   { x.pre with nr := x.nr + 1,
                m := x.pre.m.logAct ⟨k, !(x.rf.testBit x.nr) && present x.pre.m.env,
                                      if x.rf.testBit x.nr then 2 else if present x.pre.m.env then 0 else 1⟩ })

def X.readPod (x : X) : Nat × X := x.read .getPod fun e => e.pod.isSome

/-- the plain `Client.Get` of a reservation -/
def X.readResv (x : X) : Nat × X := x.read .getResv fun e => e.resv.isSome

/-- `interpreterImpl.GetReservation`: Client.Get, on NotFound APIReader.Get; the object is `.2.last` -/
def X.getResv (x : X) : Nat × X :=
  ((if x.readResv.1 = 1 then x.readResv.2.readResv else x.readResv).1,
   { (if x.readResv.1 = 1 then x.readResv.2.readResv else x.readResv).2 with
       looks := x.looks ++ [(if x.readResv.1 = 1 then x.readResv.2.readResv else x.readResv).1],
       last := if (if x.readResv.1 = 1 then x.readResv.2.readResv else x.readResv).1 = 0
               then (if x.readResv.1 = 1 then x.readResv.2.readResv else x.readResv).2.m.env.resv else none })

def X.setStatus (x : X) (f : Status → Status) : X := { x with m := x.m.setStatus f }
def X.setSpec (x : X) (f : Spec → Spec) : X := { x with m := x.m.setSpec f }

def X.statusUpdate (x : X) : Bool × X := (x.pre.m.statusUpdate.1, { x.pre with m := x.pre.m.statusUpdate.2 })
def X.jobUpdate (x : X) : Bool × X := (x.pre.m.jobUpdate.1, { x.pre with m := x.pre.m.jobUpdate.2 })

/-- controller.go `updateCondition` (an API call only when the condition changed) -/
def X.updateCondition (x : X) (c : Cond) : Bool × X :=
  if (setCond x.m.mem.status.conds c).2 then
    ((C17.updateCondition x.pre.m c).1, { x.pre with m := (C17.updateCondition x.pre.m c).2 })
  else (true, { x with m := (C17.updateCondition x.m c).2 })

def X.abortWith (x : X) (reason : Nat) : X := { x.pre with m := C17.abortWith x.pre.m reason }

def X.evictCall (x : X) (p : Pod) : Bool × X :=
  (x.pre.m.wok,
   { x.pre with m := x.pre.m.logw .evict p.uid,
                xs := x.xs ++ [{ env := x.pre.m.env, job0 := x.m.job0, mem := x.m.mem, api := x.m.api,
                                 looks := x.looks, gate := x.gate, last := x.last, pod := some p }] })

inductive RX where
  | stop (x : X)
  | cont (x : X)

def RX.bind : RX → (X → RX) → RX
  | .stop x, _ => .stop x
  | .cont x, f => f x

def RX.x : RX → X
  | .stop x => x
  | .cont x => x

def okOrX (r : Bool × X) : RX := if r.1 then .cont r.2 else .stop r.2

/-! ### stages, in source order -/

/-- `deleteReservation` → `interpreterImpl.DeleteReservation`: 0 = nil, 1 = NotFound, 2 = other error -/
def deleteReservationX (x : X) : Nat × X :=
  if !x.m.mem.spec.resvRef then (0, x) else
  if x.getResv.1 ≠ 0 then x.getResv else
  if !x.getResv.2.pre.m.wok then (2, { x.getResv.2.pre with m := x.getResv.2.pre.m.logw .resvDelete }) else
  match x.getResv.2.pre.m.env.resv with
  | none => (1, { x.getResv.2.pre with m := x.getResv.2.pre.m.logwr .resvDelete false })
  | some _ =>
    (0, { x.getResv.2.pre with
            m := { x.getResv.2.pre.m.logw .resvDelete with env := { x.getResv.2.pre.m.env with resv := none } },
            rver := x.getResv.2.pre.rver + 1 })

/-- `abortJobIfTimeout` -/
def abortIfTimeoutX (x : X) : RX :=
  if x.m.mem.spec.ttl = 0 then .cont x else
  if x.m.env.now < x.m.mem.spec.ttl then .cont x else
  if (deleteReservationX x).1 = 2 then .stop (deleteReservationX x).2
  else .stop ((deleteReservationX x).2.abortWith Rs.timeout)

/-- `preparePendingJob` (+ `preparePodRef`) -/
def preparePendingX (x : X) : RX :=
  if x.m.mem.status.phase ≠ Ph.none ∧ x.m.mem.status.phase ≠ Ph.pending then .cont x else
  if !x.m.mem.spec.podRefValid then .stop (x.abortWith Rs.invalidPodRef) else
  if x.readPod.1 = 2 then .stop x.readPod.2 else
  match x.readPod.2.m.env.pod with
  | none => .stop (x.readPod.2.abortWith Rs.missingPod)
  | some p =>
    if ((x.readPod.2.setSpec fun s => { s with podUID := p.uid }).jobUpdate).1 then
      okOrX ((((x.readPod.2.setSpec fun s => { s with podUID := p.uid }).jobUpdate).2.setStatus
        fun s => { s with phase := Ph.running }).statusUpdate)
    else .stop ((x.readPod.2.setSpec fun s => { s with podUID := p.uid }).jobUpdate).2

/-- `requeueJobIfObjectLimiterFailed` (`getPodByJob`: an invalid PodRef or a failed Get ⇒ no requeue) -/
def limiterRequeueX (x : X) : Bool × X :=
  if x.m.mem.spec.evictAnno then (false, x) else
  if !x.m.mem.spec.podRefValid then (false, x) else
  if x.readPod.1 ≠ 0 then (false, x.readPod.2) else (x.readPod.2.m.env.limited, x.readPod.2)

/-- `abortJobIfReservationBoundByAnotherPod(ctx, job, pod)`: a failed lookup returns `true, err` ⇒ stop -/
def boundByOtherX (x : X) (pod : Option Pod) : RX :=
  if !x.m.mem.spec.resvRef then .cont x else
  if x.getResv.1 = 1 then .stop (x.getResv.2.abortWith Rs.missingResv) else
  if x.getResv.1 ≠ 0 then .stop x.getResv.2 else
  match x.getResv.2.last with
  | none => .stop x.getResv.2
  | some r =>
    if resvSucceeded r then
      match pod with
      | none => .stop (x.getResv.2.abortWith Rs.forbidden)
      | some p => if r.owner != 0 && r.owner == p.uid then .cont x.getResv.2 else .stop (x.getResv.2.abortWith Rs.forbidden)
    else .cont x.getResv.2

/-- the "pod is gone / replaced" branch of `evictPod` -/
def evictGoneX (x : X) : RX :=
  if x.m.mem.status.status ≠ CT.eviction then .stop (x.abortWith Rs.missingPod)
  else okOrX (x.updateCondition ⟨CT.eviction, true, Rs.evictComplete, 0⟩)

/-- `evictPod`: `.cont` = (true, _, nil) -/
def evictPodX (x : X) : RX :=
  if condTrue x.m.mem.status.conds CT.eviction then .cont x else
  if x.readPod.1 = 2 then .stop x.readPod.2 else
  match x.readPod.2.m.env.pod with
  | none => evictGoneX x.readPod.2
  | some p =>
    if x.m.mem.spec.podUID != 0 && x.m.mem.spec.podUID != p.uid then   -- a same-name replacement is not the target (df70d80)
      evictGoneX x.readPod.2
    else
    if condReasonIs x.m.mem.status.conds CT.eviction Rs.evicting then .stop x.readPod.2 else
    (boundByOtherX x.readPod.2 none).bind fun y =>
      if (y.evictCall p).1 then .stop ((y.evictCall p).2.updateCondition ⟨CT.eviction, false, Rs.evicting, 0⟩).2
      else .stop (y.evictCall p).2

/-- `evictPodDirectly` -/
def evictDirectX (x : X) : RX :=
  (evictPodX x).bind fun y =>
    .stop ((y.setStatus fun s => { s with phase := Ph.succeeded, status := CT.complete, reason := Rs.none }).statusUpdate).2

/-- `createReservation` (always returns).  `CreateReservation` of the interpreter: Client.Create, on AlreadyExists
    one plain Client.Get; any error ⇒ condition ReservationCreated=False/FailedCreateReservation. -/
def createReservationX (x : X) : X :=
  if x.readPod.1 = 2 then x.readPod.2 else
  match x.readPod.2.m.env.pod with
  | none => x.readPod.2.abortWith Rs.missingPod
  | some p =>
    if !x.readPod.2.pre.m.wok then
      (({ x.readPod.2.pre with m := x.readPod.2.pre.m.logw .resvCreate } : X).updateCondition ⟨CT.resvCreated, false, Rs.failedCreate, 0⟩).2
    else
    match x.readPod.2.pre.m.env.resv with
    | some _ =>
      if (({ x.readPod.2.pre with m := x.readPod.2.pre.m.logw .resvCreate } : X).readResv).1 ≠ 0 then
        ((({ x.readPod.2.pre with m := x.readPod.2.pre.m.logw .resvCreate } : X).readResv).2.updateCondition
          ⟨CT.resvCreated, false, Rs.failedCreate,
           if (({ x.readPod.2.pre with m := x.readPod.2.pre.m.logw .resvCreate } : X).readResv).1 = 1 then 51 else 0⟩).2
      else
        (((({ x.readPod.2.pre with m := x.readPod.2.pre.m.logw .resvCreate } : X).readResv).2.setSpec
          fun s => { s with resvRef := true }).jobUpdate).2
    | none =>
      ((({ x.readPod.2.pre with
            m := { x.readPod.2.pre.m.logw .resvCreate with env := { x.readPod.2.pre.m.env with resv := some (newResv p) } },
            rver := x.readPod.2.pre.rver + 1 } : X).setSpec fun s => { s with resvRef := true }).jobUpdate).2

/-- `setReservationOrder`: GetReservation, then (label missing) `Client.Update` of the object that was read -/
def setReservationOrderX (x : X) : RX :=
  if x.getResv.1 ≠ 0 then .stop x.getResv.2 else
  match x.getResv.2.last with
  | none => .stop x.getResv.2
  | some r =>
    if r.orderLabel then .cont x.getResv.2 else
    if !x.getResv.2.pre.m.wok then .stop { x.getResv.2.pre with m := x.getResv.2.pre.m.logw .resvUpdate } else
    if x.getResv.2.pre.rver ≠ x.getResv.2.rver then
      .stop { x.getResv.2.pre with m := x.getResv.2.pre.m.logwr .resvUpdate false }   -- Conflict / NotFound
    else
      .cont { x.getResv.2.pre with
                m := { x.getResv.2.pre.m.logw .resvUpdate with
                         env := { x.getResv.2.pre.m.env with resv := some { r with orderLabel := true } } },
                rver := x.getResv.2.pre.rver + 1 }

/-- `syncReservationScheduleFailed` -/
def syncScheduleFailedX (x : X) (r : Resv) : RX :=
  if condAbsentOrFalse x.m.mem.status.conds CT.resvScheduled then
    if r.sched = 3 then okOrX (x.updateCondition ⟨CT.resvScheduled, false, Rs.unschedulable, r.msg⟩) else .cont x
  else .cont x

/-- the `!IsReservationScheduled` block -/
def preemptGateX (x : X) (r : Resv) : RX :=
  if resvScheduled r then .cont x else
  if !r.needPreempt || x.m.env.preempt == 0 then .stop (x.abortWith Rs.unschedulable) else
  if x.m.env.preempt = 2 then .cont { x with m := x.m.logAct ⟨.preempt, x.m.env.preempt != 3, 0⟩ }
  else .stop { x with m := x.m.logAct ⟨.preempt, x.m.env.preempt != 3, 0⟩ }

/-- `prepareJobWithReservationScheduleSuccess` (+ `abortJobIfReserveOnSameNode`: a pod Get that fails with anything but
    NotFound returns the error — the check could not be made —, NotFound means there is no pod to compare with) -/
def prepareScheduleSuccessX (x : X) (r : Resv) : RX :=
  if r.node = 0 ∨ x.m.mem.status.node ≠ 0 then .cont x else
  if condTrue x.m.mem.status.conds CT.resvScheduled then .cont x else
  if x.readPod.1 = 2 then .stop x.readPod.2 else
  if x.readPod.1 = 0 ∧ sameNode x.readPod.2.m.env.pod r.node = true then .stop (x.readPod.2.abortWith Rs.forbidden) else
  okOrX ((x.readPod.2.setStatus fun s => { s with node := r.node }).updateCondition ⟨CT.resvScheduled, true, Rs.none, 0⟩)

def podScheduledDoneX (x : X) : X :=
  if (setCond x.m.mem.status.conds ⟨CT.podScheduled, true, Rs.none, 0⟩).2 then
    (x.setStatus fun s => { s with conds := (setCond x.m.mem.status.conds ⟨CT.podScheduled, true, Rs.none, 0⟩).1 }).statusUpdate.2
  else x.setStatus fun s => { s with conds := (setCond x.m.mem.status.conds ⟨CT.podScheduled, true, Rs.none, 0⟩).1 }

/-- `waitForPendingPodScheduled` (always returns) -/
def waitPendingPodX (x : X) : X :=
  if x.readPod.1 = 2 then x.readPod.2 else
  match x.readPod.2.m.env.pod with
  | none => x.readPod.2.abortWith Rs.missingPod
  | some p =>
    if p.sched = 0 ∨ p.sched = 1 then
      match boundByOtherX x.readPod.2 (some p) with
      | .stop y => y
      | .cont y => (y.updateCondition ⟨CT.podScheduled, false, Rs.unschedulable, if p.sched = 0 then 0 else p.schedMsg⟩).2
    else
      podScheduledDoneX (x.readPod.2.setStatus fun s => { s with phase := Ph.succeeded, status := CT.complete, reason := Rs.none })

/-- `waitForPodBindReservation` (works on the object fetched by doMigrate, no read) -/
def waitBindX (x : X) (r : Resv) : RX :=
  if condTrue x.m.mem.status.conds CT.podBound then .cont x else
  if r.owner = 0 then .stop (x.updateCondition ⟨CT.podBound, false, Rs.waitBind, 0⟩).2 else .cont x

/-- `handleReservationBoundSuccess` -/
def boundSuccessX (x : X) : RX :=
  if !x.m.mem.status.podRef || (setCond x.m.mem.status.conds ⟨CT.resvBound, true, Rs.none, 0⟩).2 then
    okOrX ((x.setStatus fun s => { s with conds := (setCond x.m.mem.status.conds ⟨CT.resvBound, true, Rs.none, 0⟩).1 }).setStatus
      fun s => { s with podRef := true }).statusUpdate
  else .cont (x.setStatus fun s => { s with conds := (setCond x.m.mem.status.conds ⟨CT.resvBound, true, Rs.none, 0⟩).1 })

/-- `waitForPodReady`: Get of the bound pod; NotFound ⇒ ready, other error ⇒ return -/
def waitReadyX (x : X) : RX :=
  if condTrue x.m.mem.status.conds CT.boundPodReady then .cont x else
  if (x.read .getBPod fun e => e.bpod != 0).1 = 2 then .stop (x.read .getBPod fun e => e.bpod != 0).2 else
  if (x.read .getBPod fun e => e.bpod != 0).2.m.env.bpod = 1 then
    .stop ((x.read .getBPod fun e => e.bpod != 0).2.updateCondition ⟨CT.boundPodReady, false, Rs.waitReady, 0⟩).2
  else .cont (x.read .getBPod fun e => e.bpod != 0).2

/-- the tail of doMigrate after `waitForPodReady` -/
def finishX (x : X) : RX :=
  (okOrX (x.updateCondition ⟨CT.boundPodReady, true, Rs.none, 0⟩)).bind fun y =>
    .stop ((y.setStatus fun s => { s with podRef := true, phase := Ph.succeeded, status := CT.complete, reason := Rs.none }).setStatus
      fun s => { s with conds := (setCond y.m.mem.status.conds ⟨CT.podBound, true, Rs.none, 0⟩).1 }).statusUpdate.2

/-- everything after the reservation object has been fetched; `r` is that object for the rest of the reconcile -/
def withReservationX (x : X) (r : Resv) : RX :=
  (syncScheduleFailedX x r).bind fun x =>
  if resvPending r then .stop x else
  if resvExpired r then .stop (x.abortWith Rs.resvExpired) else
  (preemptGateX x r).bind fun x =>
  (prepareScheduleSuccessX x r).bind fun x =>
  if r.pendingMode then .stop (waitPendingPodX x) else
  (evictPodX x).bind fun x =>
  (waitBindX x r).bind fun x =>
  (boundSuccessX x).bind fun x =>
  (waitReadyX x).bind fun x =>
  finishX x

/-- reservation-first mode -/
def reservationFirstX (x : X) : RX :=
  if !x.m.mem.spec.resvRef then .stop (createReservationX x) else
  (setReservationOrderX x).bind fun x =>
  (okOrX (x.updateCondition ⟨CT.resvCreated, true, Rs.none, 0⟩)).bind fun x =>
  if x.getResv.1 = 1 then .stop (x.getResv.2.abortWith Rs.missingResv) else
  if x.getResv.1 ≠ 0 then .stop x.getResv.2 else
  match x.getResv.2.last with
  | none => .stop x.getResv.2
  | some r => withReservationX { x.getResv.2 with gate := some r } r

/-- `doMigrate` -/
def doMigrateX (x : X) : X :=
  if x.m.mem.spec.paused then x else
  if !livePhase x.m.mem.status.phase then x else
  ((abortIfTimeoutX x).bind fun x =>
   (preparePendingX x).bind fun x =>
   if (limiterRequeueX x).1 then .stop (limiterRequeueX x).2 else
   (RX.cont (limiterRequeueX x).2).bind fun x =>
   if x.m.mem.spec.direct then evictDirectX x else reservationFirstX x).x

structure Script where
  f : Nat                    -- write-fault mask (bit = index among the writes, as in `reconcile`)
  rf : Nat                   -- read-fault mask (bit = index among the reads; read 0 is the Get of the job)
  evs : List (Nat × Op)      -- (k, event): applied right before API call k
deriving DecidableEq, Repr

structure OutX where
  acts : List Act
  evicts : List XSnap
deriving DecidableEq, Repr

def X.init (w : World) (s : Script) : X :=
  { m := M.init w s.f, rf := s.rf, nr := 0, nc := 0, evs := s.evs, rver := 0, looks := [], gate := none, last := none, xs := [] }

/-- `Reconcile`: Get the job (a failed Get ends the reconcile), skip foreign jobs, doMigrate -/
def reconcileX (w : World) (s : Script) : World × OutX :=
  if ((X.init w s).read .getJob fun _ => true).1 ≠ 0 then
    ({ w with env := ((X.init w s).read .getJob fun _ => true).2.m.env }, ⟨((X.init w s).read .getJob fun _ => true).2.m.acts, []⟩)
  else if w.job.spec.createdBy ≠ 0 ∧ w.job.spec.createdBy ≠ w.env.ctrl then
    ({ w with env := ((X.init w s).read .getJob fun _ => true).2.m.env }, ⟨((X.init w s).read .getJob fun _ => true).2.m.acts, []⟩)
  else
    ({ job := (doMigrateX ((X.init w s).read .getJob fun _ => true).2).m.api,
       env := (doMigrateX ((X.init w s).read .getJob fun _ => true).2).m.env },
     ⟨(doMigrateX ((X.init w s).read .getJob fun _ => true).2).m.acts, (doMigrateX ((X.init w s).read .getJob fun _ => true).2).xs⟩)

/-! ### histories with extended reconciles -/

inductive OpX where
  | env (op : Op)            -- an environment event between reconciles (a `.recon f` here means `reconX ⟨f, 0, []⟩`)
  | reconX (s : Script)
deriving DecidableEq, Repr

def stepX (w : World) : OpX → World × OutX
  | .env (.recon f) => reconcileX w ⟨f, 0, []⟩
  | .env op => ((step w op).1, ⟨[], []⟩)
  | .reconX s => reconcileX w s

def runX : World → List OpX → World × List XSnap
  | w, [] => (w, [])
  | w, op :: ops => ((runX (stepX w op).1 ops).1, (stepX w op).2.evicts ++ (runX (stepX w op).1 ops).2)

/-- `doMigrate`'s mode dispatch (controller.go:315): explicit `Spec.Mode` wins, an empty mode takes
    `args.DefaultJobMode`.  Codes: 0 = "", 1 = ReservationFirst, 2 = EvictDirectly. -/
def effDirect (mode dflt : Nat) : Bool := mode == 2 || (mode == 0 && dflt == 2)

end KoordVerif.C17
