import KoordVerif.Model.C20
/-
C20 (extension) — the DELIVERY path around the layering model: what reaches the NodeSLO objects over
histories of ConfigMap / node events.  Model of
  pkg/slo-controller/config/configmap_event_handler.go   EnqueueRequestForConfigMap.{Create,Update,Delete}
                                                         (name filter, reflect.DeepEqual(new.Data, old.Data) filter,
                                                          SyncCacheIfChanged, EnqueueRequest; Delete is EMPTY)
  pkg/slo-controller/nodeslo/nodeslo_cm_event_handler.go syncNodeSLOSpecIfChanged / updateCacheIfChanged (changed flag,
                                                         available := true), triggerAllNodeEnqueue, IsCfgAvailable
                                                         (first use: GetConfigMapForCache + syncConfig)
  pkg/slo-controller/nodeslo/nodeslo_controller.go       NodeSLOReconciler.Reconcile (create / update-if-different /
                                                         delete-orphan), initNodeSLO
  pkg/slo-controller/nodemetric/node_event_handler.go    EnqueueRequestForNode.{Create,Update,Delete} (isNodeUpdated: labels)
Core-only (linked into drv_c20).

`Ident` is what reflect.DeepEqual sees of ConfigMap.Data: a nil flag and, per key, the identity of its text
(the harness interns the texts); `parse : Ident → CM` is the reading of the five sections from those texts.
Nodes carry no bandwidth annotation here, so a delivered spec is the five selected sections (`nodeSpec`).
-/
namespace KoordVerif.C20

abbrev Ident := List Int

/-! ### association lists keyed by object name -/

def lookupA {α} (l : List (Nat × α)) (n : Nat) : Option α := (l.find? (fun e => e.1 == n)).map (·.2)

def delA {α} (l : List (Nat × α)) (n : Nat) : List (Nat × α) := l.filter (fun e => !(e.1 == n))

def setA {α} (l : List (Nat × α)) (n : Nat) (v : α) : List (Nat × α) := (n, v) :: delA l n

/-- the API server's content (ConfigMap, Nodes, NodeSLOs) and the controller's cache. -/
structure World where
  cfg : Cfg                          -- cfgCache.sloCfg
  avail : Bool                       -- cfgCache.available
  cm : Option Ident                  -- the slo-controller ConfigMap object (none: does not exist)
  nodes : List (Nat × Labels)        -- Node objects
  slos : List (Nat × List Flat)      -- NodeSLO objects: name ↦ spec (five sections)
deriving Repr, DecidableEq

/-- a freshly started controller on an empty cluster. -/
def World.init (d : Defaults) : World :=
  { cfg := Cfg.default d, avail := false, cm := none, nodes := [], slos := [] }

/-- IsCfgAvailable: the first call reads the ConfigMap through the client and runs syncConfig on it
    (syncConfig(nil) when it does not exist); `available` is set and never reset. -/
def ensureAvail (d : Defaults) (parse : Ident → CM) (w : World) : World :=
  if w.avail then w else { w with cfg := sync d w.cfg (w.cm.map parse), avail := true }

/-- the body of Reconcile after the availability check (cfg, nodes, ConfigMap untouched). -/
def reconcileCore (w : World) (n : Nat) : World :=
  match lookupA w.nodes n, lookupA w.slos n with
  | none, none => w
  | none, some _ => { w with slos := delA w.slos n }                       -- Client.Delete(nodeSLO)
  | some ls, none => { w with slos := setA w.slos n (nodeSpec w.cfg ls) }  -- initNodeSLO + Client.Create
  | some ls, some old =>
    let new := nodeSpec w.cfg ls                                           -- getNodeSLOSpec(node, &nodeSLO.Spec)
    if new = old then w else { w with slos := setA w.slos n new }          -- !reflect.DeepEqual ⇒ Client.Update

/-- NodeSLOReconciler.Reconcile(req{Name: n}) -/
def reconcile (d : Defaults) (parse : Ident → CM) (w : World) (n : Nat) : World :=
  reconcileCore (ensureAvail d parse w) n

/-- the work queue is drained: every enqueued request is reconciled. -/
def drain (d : Defaults) (parse : Ident → CM) (w : World) (q : List Nat) : World :=
  q.foldl (reconcile d parse) w

/-- syncNodeSLOSpecIfChanged + updateCacheIfChanged: new cache, `available := true`, changed flag. -/
def syncIfChanged (d : Defaults) (w : World) (cm : Option CM) : World × Bool :=
  let c := sync d w.cfg cm
  ({ w with cfg := c, avail := true }, decide (c ≠ w.cfg))

/-- Create handler body (also the tail of Update): sync; if the cache changed enqueue every node. -/
def cmSync (d : Defaults) (parse : Ident → CM) (w : World) (i : Ident) : World :=
  let r := syncIfChanged d w (some (parse i))
  drain d parse r.1 (if r.2 then r.1.nodes.map (·.1) else [])

/-- the initial Create event for the ConfigMap after a restart, if the object exists. -/
def cmEv (d : Defaults) (parse : Ident → CM) (x : World) : World :=
  match x.cm with
  | some i => cmSync d parse x i
  | none => x

inductive HStep where
  | cmCreate (i : Ident)        -- ConfigMap created in the API + Create event
  | cmUpdate (i : Ident)        -- ConfigMap updated in the API + Update event (old = the object before)
  | cmDelete                    -- ConfigMap deleted + Delete event (the handler's Delete is empty)
  | cmForeign                   -- Create/Update of a ConfigMap with another name: filtered out
  | nodeAdd (n : Nat) (ls : Labels)
  | nodeUpdate (n : Nat) (ls : Labels)   -- enqueued only if the labels differ (isNodeUpdated)
  | nodeDelete (n : Nat)
  | restart (cmFirst : Bool)    -- new controller process: default cache, not available; initial list events
deriving Repr, DecidableEq

def hstep (d : Defaults) (parse : Ident → CM) (w : World) : HStep → World
  | .cmCreate i => cmSync d parse { w with cm := some i } i
  | .cmUpdate i =>
    if w.cm = some i then w                                   -- reflect.DeepEqual(new.Data, old.Data): dropped
    else cmSync d parse { w with cm := some i } i
  | .cmDelete => { w with cm := none }
  | .cmForeign => w
  | .nodeAdd n ls => drain d parse { w with nodes := setA w.nodes n ls } [n]
  | .nodeUpdate n ls =>
    match lookupA w.nodes n with
    | none => w
    | some old =>
      let w' := { w with nodes := setA w.nodes n ls }
      if old = ls then w' else drain d parse w' [n]
  | .nodeDelete n => drain d parse { w with nodes := delA w.nodes n } [n]
  | .restart cmFirst =>
    let w0 := { w with cfg := Cfg.default d, avail := false }
    let all := w0.nodes.map (·.1) ++ w0.slos.map (·.1)       -- initial Node and NodeSLO Create events
    if cmFirst then drain d parse (cmEv d parse w0) all else cmEv d parse (drain d parse w0 all)

def hrun (d : Defaults) (parse : Ident → CM) (w : World) (hs : List HStep) : World :=
  hs.foldl (hstep d parse) w

end KoordVerif.C20
