import KoordVerif.Model.C11E2E
import KoordVerif.Model.C11Rounds
/-
C11 — Part H: SEVERAL PASSES of `memoryEvict()` / `cpuEvict()` against the real executor
(Evictor + DefaultEvictionExecutor, Model/C11Rounds.lean) while earlier victims are still TERMINATING.  Model of
  pkg/koordlet/qosmanager/plugins/memoryevict/memory_evict.go   memoryEvict, buildEvictTask, getSortedBEPodInfos,
                                                                getPodEvictInfoAndSortByPriority
  pkg/koordlet/qosmanager/plugins/cpuevict/cpu_evict.go         cpuEvict, buildEvictTask, getBEPodEvictInfoAndSort,
                                                                getPodEvictInfoAndSortByPriority
  pkg/koordlet/qosmanager/plugins/util/evict.go                 KillAndEvictPods (pending-release branch)
A pod of a pass is the pod object the statesinformer hands out in that pass: its raw shape (Model/C11Decode.lean)
plus whether it carries a `metadata.deletionTimestamp` (an eviction API call for it succeeded, the kubelet has not
finished it: still Running, still using its resources, still in the Evictor's record).  The list builders of both
packages never read the deletionTimestamp (only phase, labels, annotations, spec.priority, the usage metric), so the
candidate lists of a pass are those of the raw shapes: a terminating earlier victim STAYS a candidate, and that is
what lets the pending-release branch of KillAndEvictPods credit it (the branch only sees pods of the lists).
Core-only.
-/
namespace KoordVerif.C11

structure PassPod where
  raw         : RawPod
  terminating : Bool        -- metadata.deletionTimestamp != nil
deriving Repr, DecidableEq

/-- the pods the list builders and target calculators of a pass see: the deletionTimestamp is not read. -/
def passRaws (pps : List PassPod) : List RawPod := pps.map (·.raw)

/-- the task list of one `memoryEvict()` pass. -/
def memPassTasks (allocF : Int → Int → Int → Int → Option Int) (c : MemCfg) (pps : List PassPod) :
    List (MemFeature × Task) :=
  memTasks allocF c (passRaws pps)

/-- one `memoryEvict()` pass (past the cooling check) at time `now` with the stateful executor `x`;
    `none` = nothing to do (no task), the executor is not touched. -/
def memoryEvictPass (allocF : Int → Int → Int → Int → Option Int) (c : MemCfg) (pps : List PassPod)
    (x : Exec) (now : Int) (script : List Bool) : Option XSt :=
  let ts := memPassTasks allocF c pps
  if ts.isEmpty then none else some (runRound x { now := now, script := script, tasks := ts.map (·.2) })

def cpuPassTasks (usage : Int → Int → Int) (allocF : Int → Int → Int → Int → Option Int) (c : CpuCfg)
    (pps : List PassPod) : List (CpuFeature × Task) :=
  cpuTasks usage allocF c (passRaws pps)

/-- one `cpuEvict()` pass. -/
def cpuEvictPass (usage : Int → Int → Int) (allocF : Int → Int → Int → Int → Option Int) (c : CpuCfg)
    (pps : List PassPod) (x : Exec) (now : Int) (script : List Bool) : Option XSt :=
  let ts := cpuPassTasks usage allocF c pps
  if ts.isEmpty then none else some (runRound x { now := now, script := script, tasks := ts.map (·.2) })

end KoordVerif.C11
