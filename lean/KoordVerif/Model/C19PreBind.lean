import KoordVerif.Model.C19
/-
C19 (extension 5) — the WRITE side of the persisted allocation: what PreBind leaves on an object that may
already carry an allocation annotation (a pod / Reservation whose earlier scheduling attempt wrote the
annotation and then failed to bind), and what the deviceshare PreBind persists when third-party device-plugin
adapters run.  Core only.

  pkg/scheduler/plugins/nodenumaresource/plugin.go   preBindObject, Reserve, Unreserve
  pkg/scheduler/plugins/deviceshare/plugin.go        preBindObject
  pkg/scheduler/plugins/deviceshare/device_plugin_adapter.go   adaptForDevicePlugin, the vendors' Adapt
-/
namespace KoordVerif.C19

/-! ## 1. nodenumaresource: preBindObject on an object that already carries a resource-status annotation -/

/-- `preBindObject` (state.allocation ≠ nil): builds the ResourceStatus from `state.allocation` alone and calls
    `extension.SetResourceStatus(object, resourceStatus)`, which overwrites the annotation key.  `carried` = the
    resource-status annotation the object had when it reached PreBind (none = absent); it is not read. -/
def preBind (_carried : Option Annot) (a : PodAlloc) : Option Annot := some (persist a)

/-- one scheduling attempt of ONE object that got as far as PreBind and then failed to bind:
    Reserve (`resourceManager.Update`), PreBind (annotation written, patched), Bind fails, Unreserve
    (`resourceManager.Release(nodeName, pod.UID)`).  The object keeps the annotation. -/
def failedAttempt (topo : List Nat) (sc : St × Option Annot) (a : PodAlloc) : St × Option Annot :=
  (release topo (update topo sc.1 a) a.uid, preBind sc.2 a)

/-- the successful attempt: Reserve + PreBind (+ Bind). -/
def boundAttempt (topo : List Nat) (sc : St × Option Annot) (a : PodAlloc) : St × Option Annot :=
  (update topo sc.1 a, preBind sc.2 a)

/-- a retry history of one object: any number of failed attempts (each with its own allocation), then the one
    that binds.  Result: the live ledger and the annotation the API server holds. -/
def retryHistory (topo : List Nat) (s : St) (carried : Option Annot) (failed : List PodAlloc) (last : PodAlloc) :
    St × Option Annot :=
  boundAttempt topo (failed.foldl (failedAttempt topo) (s, carried)) last

/-- NOT the code: the write is skipped when the carried annotation's CPU-set text equals the new one's
    (`cpuset.IsEqualStrCpus` on the texts `String` produces = equality of the sets), NUMA records ignored.
    Only used to prove that independence from the carried annotation is needed. -/
def preBindKeepOnEqualCPUSet (carried : Option Annot) (a : PodAlloc) : Option Annot :=
  match carried with
  | some c => if c.text = formatText a.cpus then some c else some (persist a)
  | none => some (persist a)

/-! ## 2. deviceshare: preBindObject with device-plugin adapters -/

namespace DevPB

/-- one `DeviceAllocation` of the GPU list at the level the ledger sees it: minor and the three amounts
    (gpu-core, gpu-memory bytes, gpu-memory-ratio). -/
structure GAlloc where
  minor : Nat
  core  : Int
  mem   : Int
  ratio : Int
deriving Repr, DecidableEq

/-- what preBindObject leaves on the object: the device-allocated annotation and the keys the adapters own. -/
structure Obj where
  allocated : Option (List GAlloc)
  vendor    : List (Nat × List Int)   -- (key id, rendered value) written by the adapters
deriving Repr, DecidableEq

/-- vendors known to `gpuDevicePluginAdapterMap` (0 = none / unknown vendor) -/
inductive Vendor where
  | none | huawei | cambricon | metax
deriving Repr, DecidableEq

def cambriconUnit : Int := 256 * 1024 * 1024
def metaxUnit : Int := 1024 * 1024

/-- the vendor's `Adapt`: READS the allocation, returns the annotation values it writes (`none` = error).
    key 1 = CAMBRICON_DSMLU_PROFILE `<minor>_<vcore>_<vmemory>`, 2 = metax gpu-devices-allocated (compute, vRam)*,
    3 = huawei npu-core minors. -/
def adapt : Vendor → List GAlloc → Option (List (Nat × List Int))
  | .none, _ => some []
  | .huawei, al => some [(3, al.map (fun a => (a.minor : Int)))]
  | .cambricon, al =>
    match al with
    | [a] => if a.mem < cambriconUnit then none else some [(1, [a.minor, a.core, a.mem / cambriconUnit])]
    | _ => none
  | .metax, al =>
    if al.all (fun a => decide (metaxUnit ≤ a.mem)) then some [(2, al.flatMap (fun a => [a.core, a.mem / metaxUnit]))]
    else none

/-- deviceshare `preBindObject`: `SetDeviceAllocations(object, state.allocationResult)` FIRST, then (gate
    DevicePluginAdaption) `adaptForDevicePlugin`, which hands the same slice to the adapters; they write their own
    keys only.  `ok = false`: an adapter returned an error (PreBind fails, the cycle is unreserved) — the
    annotation is already on the object. -/
def preBind (gate : Bool) (v : Vendor) (_carried : Obj) (al : List GAlloc) : Obj × Bool :=
  if !gate then ({ allocated := some al, vendor := [] }, true) else
  match adapt v al with
  | some keys => ({ allocated := some al, vendor := keys }, true)
  | none => ({ allocated := some al, vendor := [] }, false)

/-- NOT the code: the cambricon adapter aligns gpu-memory down to its unit IN the allocation and the annotation is
    written after the adaption.  Only used for the counterexample. -/
def preBindAlignedAfterAdapt (al : List GAlloc) : Obj :=
  { allocated := some (al.map (fun a => { a with mem := a.mem / cambriconUnit * cambriconUnit })), vendor := [] }

end DevPB

end KoordVerif.C19
