import KoordVerif.Model.C19
/-
C19 (extension 5) — the WRITE side of the persisted allocation: what PreBind leaves on an object that may
already carry an allocation annotation (a pod / Reservation whose earlier scheduling attempt wrote the
annotation and then failed to bind), and what the deviceshare PreBind persists when third-party device-plugin
adapters run.  Core only.

  pkg/scheduler/plugins/nodenumaresource/plugin.go   preBindObject, Reserve, Unreserve
  pkg/scheduler/plugins/deviceshare/plugin.go        preBindObject
  pkg/scheduler/plugins/deviceshare/device_plugin_adapter.go   adaptForDevicePlugin, the vendors' Adapt
-/
namespace KoordVerif.C19

/-! ## 1. nodenumaresource: preBindObject on an object that already carries a resource-status annotation -/

/-- `preBindObject` (state.allocation ≠ nil): builds the ResourceStatus from `state.allocation` alone and calls
    `extension.SetResourceStatus(object, resourceStatus)`, which overwrites the annotation key.  `carried` = the
    resource-status annotation the object had when it reached PreBind (none = absent); it is not read. -/
def preBind (_carried : Option Annot) (a : PodAlloc) : Option Annot := some (persist a)

/-- one scheduling attempt of ONE object that got as far as PreBind and then failed to bind:
    Reserve (`resourceManager.Update`), PreBind (annotation written, patched), Bind fails, Unreserve
    (`resourceManager.Release(nodeName, pod.UID)`).  The object keeps the annotation. -/
def failedAttempt (topo : List Nat) (sc : St × Option Annot) (a : PodAlloc) : St × Option Annot :=
  (release topo (update topo sc.1 a) a.uid, preBind sc.2 a)

/-- the successful attempt: Reserve + PreBind (+ Bind). -/
def boundAttempt (topo : List Nat) (sc : St × Option Annot) (a : PodAlloc) : St × Option Annot :=
  (update topo sc.1 a, preBind sc.2 a)

/-- a retry history of one object: any number of failed attempts (each with its own allocation), then the one
    that binds.  Result: the live ledger and the annotation the API server holds. -/
def retryHistory (topo : List Nat) (s : St) (carried : Option Annot) (failed : List PodAlloc) (last : PodAlloc) :
    St × Option Annot :=
  boundAttempt topo (failed.foldl (failedAttempt topo) (s, carried)) last

/-- NOT the code: the write is skipped when the carried annotation's CPU-set text equals the new one's
    (`cpuset.IsEqualStrCpus` on the texts `String` produces = equality of the sets), NUMA records ignored.
    Only used to prove that independence from the carried annotation is needed. -/
def preBindKeepOnEqualCPUSet (carried : Option Annot) (a : PodAlloc) : Option Annot :=
  match carried with
  | some c => if c.text = formatText a.cpus then some c else some (persist a)
  | none => some (persist a)

/-! ## 2. deviceshare: preBindObject with device-plugin adapters -/

namespace DevPB

/-- one `DeviceAllocation` of the GPU list at the level the ledger sees it: minor and the three amounts
    (gpu-core, gpu-memory bytes, gpu-memory-ratio). -/
structure GAlloc where
  minor : Nat
  core  : Int
  mem   : Int
  ratio : Int
deriving Repr, DecidableEq

/-- what preBindObject leaves on the object: the device-allocated annotation and whatever the adapters wrote under
    their own keys (`π` = the adapters' payload; its shape is irrelevant to the allocation state). -/
structure Obj (π : Type) where
  allocated : Option (List GAlloc)
  vendor    : Option π

def cambriconUnit : Int := 256 * 1024 * 1024

/-- deviceshare `preBindObject`: `SetDeviceAllocations(object, state.allocationResult)` FIRST, then (gate
    DevicePluginAdaption) `adaptForDevicePlugin`, which hands the same slices to the general and the vendor's
    adapters.  An adapter is ANY function of the allocation (it READS it: harness oracle
    `C19:dev-adapter-rewrote-allocation`, tie `tie_dev_adapters_read_only`) that writes its own annotation keys / a
    node lock, or refuses (`none`: un-aligned or missing amounts, several shares, node still locked …).
    Result: the object and whether PreBind succeeded (`false`: the cycle is unreserved — the annotation is
    already on the object, which re-enters the scheduler annotated). -/
def preBind {π : Type} (gate : Bool) (adapt : List GAlloc → Option π) (_carried : Obj π) (al : List GAlloc) :
    Obj π × Bool :=
  if !gate then ({ allocated := some al, vendor := none }, true) else
  match adapt al with
  | some keys => ({ allocated := some al, vendor := some keys }, true)
  | none => ({ allocated := some al, vendor := none }, false)

/-- an instance: `cambriconGPUDevicePluginAdapter.Adapt` (one share only, gpu-memory ≥ one 256Mi sMLU unit;
    profile `<minor>_<vcore>_<vmemory>`; gpu-core presence is not modelled). -/
def cambriconAdapt : List GAlloc → Option (Nat × Int × Int)
  | [a] => if a.mem < cambriconUnit then none else some (a.minor, a.core, a.mem / cambriconUnit)
  | _ => none

/-- NOT the code: the adapter aligns gpu-memory down to its unit IN the allocation and the annotation is written
    after the adaption.  Only used for the counterexample. -/
def preBindAlignedAfterAdapt (al : List GAlloc) : Option (List GAlloc) :=
  some (al.map (fun a => { a with mem := a.mem / cambriconUnit * cambriconUnit }))

end DevPB

end KoordVerif.C19
