import KoordVerif.Model.C17
/-
C17 ext3 — the controller's assumed-cache and a LAGGING informer.
  pkg/descheduler/controllers/migration/controller.go     Reconcile: Get · isNewOrSameObj · created-by check · doMigrate ·
                                                          assumedCache.assume(job)   (AFTER doMigrate, the written object)
  pkg/descheduler/controllers/migration/assumed_cache.go  assume, isNewOrSameObj (reject iff read version < assumed version)
The API server keeps one resourceVersion per successful job write (Update / Status().Update both refresh the in-memory
object's resourceVersion); the informer cache the controller reads from may serve any version since the running
controller instance started (`olds`), a restarted controller LISTs (no lag across a restart).  The environment does
not write the job object in this model.  A write made with a stale resourceVersion is refused (conflict).
Core-only.
-/
namespace KoordVerif.C17

/-- when / with what `assume` is called: the shipped code (after doMigrate, with the object as written), or
    `defer assume(job.DeepCopy())` placed before doMigrate (the object AS READ) -/
inductive Policy where
  | afterWrite | asRead
deriving DecidableEq, Repr

structure CS where
  w : World
  ver : Nat              -- resourceVersion of `w.job` (the newest version)
  olds : List Job        -- the earlier versions since the controller started, newest first (version `ver-1`, `ver-2`, …)
  assumed : Option Nat   -- resourceVersion of the object in the assumed-cache
deriving DecidableEq, Repr

def isJobWrite (a : Act) : Bool := a.k == .jobUpdate || a.k == .statusUpdate

/-- write indices (= fault-mask bit numbers) of the SUCCESSFUL job writes in an action log -/
def jobWriteIdxs : List Act → Nat → List Nat
  | [], _ => []
  | a :: as, i =>
    if a.k == .preempt then jobWriteIdxs as i else
    (if isJobWrite a && a.ok then [i] else []) ++ jobWriteIdxs as (i + 1)

/-- the mask `f` below bit `i`, every write from bit `i` on (up to 64) failing -/
def failFrom (f i : Nat) : Nat := f % 2 ^ i + (2 ^ 64 - 2 ^ i)

/-- the job as persisted right after the write with index `i` of `reconcile w f` (= the run in which every later write
    fails: the prefix of the execution does not depend on later fault bits) -/
def versionAfter (w : World) (f i : Nat) : Job := (doMigrate (M.init w (failFrom f (i + 1)))).api

/-- a reconcile that read the NEWEST version: `reconcile`, plus the versions it leaves behind -/
def freshRun (cs : CS) (f : Nat) : CS × Out :=
  let m := doMigrate (M.init cs.w f)
  let idxs := jobWriteIdxs m.acts 0
  let inter := idxs.dropLast.map fun i => versionAfter cs.w f i
  ({ w := { job := m.api, env := m.env }, ver := cs.ver + idxs.length,
     olds := if idxs.isEmpty then cs.olds else inter.reverse ++ cs.w.job :: cs.olds,
     assumed := cs.assumed }, ⟨m.acts, m.evicts⟩)

/-- every job write of a run on a stale object is refused: fail, one after the other, each job write that succeeds -/
def conflictMask : Nat → M → Nat
  | 0, m => m.faults
  | n + 1, m =>
    match jobWriteIdxs (doMigrate m).acts 0 with
    | [] => m.faults
    | i :: _ => conflictMask n { m with faults := m.faults ||| 2 ^ i }

/-- a reconcile that works on an OLDER version `sj` of the job while the API server holds `cs.w.job` -/
def staleRun (cs : CS) (sj : Job) (f : Nat) : CS × Out :=
  let m0 : M := { M.init cs.w f with mem := sj }
  let m := doMigrate { m0 with faults := conflictMask 16 m0 }
  ({ cs with w := { job := m.api, env := m.env } }, ⟨m.acts, m.evicts⟩)

/-- what a cache lagging `k` versions serves: (how many versions back, the object) — never older than the oldest kept -/
def served (cs : CS) (k : Nat) : Nat × Job :=
  match min k cs.olds.length with
  | 0 => (0, cs.w.job)
  | j + 1 => (j + 1, cs.olds.getD j cs.w.job)

/-- `isNewOrSameObj` -/
def guardOK (assumed : Option Nat) (v : Nat) : Bool :=
  match assumed with
  | none => true
  | some a => !(v < a)

/-- `Reconcile` with a lagging read -/
def recLag (pol : Policy) (cs : CS) (k f : Nat) : CS × Out :=
  let b := (served cs k).1
  let sj := (served cs k).2
  let sv := cs.ver - b
  if !guardOK cs.assumed sv then (cs, ⟨[], []⟩) else
  if sj.spec.createdBy ≠ 0 ∧ sj.spec.createdBy ≠ cs.w.env.ctrl then (cs, ⟨[], []⟩) else
  let r := if b = 0 then freshRun cs f else staleRun cs sj f
  ({ r.1 with assumed := some (match pol with
                               | .afterWrite => if b = 0 then r.1.ver else sv
                               | .asRead => sv) }, r.2)

inductive OpC where
  | env (op : Op)          -- an environment event that does not write the job object
  | restart (u : Nat)      -- new controller instance: empty assumed-cache, the informer LISTs
  | lagrec (k f : Nat)
deriving DecidableEq, Repr

def envOK : Op → Bool
  | .recon _ => false
  | .pause _ => false
  | .restart _ => false
  | _ => true

def stepC (pol : Policy) (cs : CS) : OpC → CS × Out
  | .env op => if envOK op then ({ cs with w := (step cs.w op).1 }, ⟨[], []⟩) else (cs, ⟨[], []⟩)
  | .restart u => ({ cs with w := { cs.w with env := { cs.w.env with ctrl := u } }, olds := [], assumed := none }, ⟨[], []⟩)
  | .lagrec k f => recLag pol cs k f

def runC (pol : Policy) : CS → List OpC → CS × List Snap
  | cs, [] => (cs, [])
  | cs, op :: ops =>
    let r := stepC pol cs op
    let rest := runC pol r.1 ops
    (rest.1, r.2.evicts ++ rest.2)

/-! ### the order of `Reconcile` (tied to the source by Ties/C17.lean): the guard precedes doMigrate, `assume` is a plain
call AFTER doMigrate with the object doMigrate worked on -/
def reconcileCallOrder : List String := ["Get", "isNewOrSameObj", "doMigrate", "assume(job)"]

end KoordVerif.C17
