import KoordVerif.Model.C15
import KoordVerif.Model.C15Inf
/-
C15 — critical sections of ValidDeleteQuota against a concurrent request on the same topology.
  pkg/webhook/elasticquota/quota_topology.go   ValidDeleteQuota: `qt.lock.Lock(); defer qt.lock.Unlock()` first, then
      reserved names / exists / child set empty (the CHECK), the pod LIST through the client (a call that leaves the
      process and can take long), the REMOVAL from the three maps.  ValidAddQuota / ValidUpdateQuota and the informer
      handlers take the same write lock before they touch the maps (Ties: tie_lock_first, tie_handlers_lock_first).
Core-only.  Small-step model: the delete thread has a program counter, the other thread is ONE atomic action that is
enabled only while the delete thread does not hold the lock (lock; whole request; unlock — under mutual exclusion nothing
can observe the inside of that section, and the delete's pod list does not touch the maps).  A schedule is a list of
booleans: `false` = the delete thread tries its next step, `true` = the other thread tries to run its request; a thread
that cannot move (lock held by the other, or finished) stutters.
Two lock shapes:
  atomic  (the code)   lock · check · list · remove · unlock      — one section from the check to the removal
  split                [rlock · check · runlock] · list · [lock · still-exists? · remove · unlock]
                       (the check in a read-locked helper, the pod list outside any lock, the removal re-takes the write
                       lock and only re-checks that the quota still exists)
-/
namespace KoordVerif.C15

/-- ValidDeleteQuota, the checks in front of the pod list: not a reserved name, recorded, owns a child set, which is empty. -/
def delCheck (s : Topo) (n : Nat) : Bool :=
  !(n = 1 || n = 0 || n = 2) && (find s.info n).isSome && s.hkeys.contains n && !(hasKids s n)

/-- ValidDeleteQuota, the removal behind the pod list (parent name and namespaces of the recorded / last admitted object). -/
def delRemove (s : Topo) (n : Nat) : Topo :=
  match find s.info n with
  | none => s
  | some o =>
    { info := s.info.filter (fun c => c.name != n)
      hkeys := s.hkeys.filter (fun m => m != n)
      kids := s.kids.filter (fun e => e != (o.parent, n) && e.1 != n)
      nsMap := nsDelAll s.nsMap o.ns }

inductive LockShape where
  | atomic
  | split
deriving Repr, DecidableEq

/-- the concurrent activity: an admission request (raw, decoded against the state it meets) or an informer event. -/
inductive Other where
  | req (r : RawOp)
  | ev (e : Ev)
deriving Repr

/-- race configuration.  `pc` of the delete thread: 0 not started, 1 write lock taken (atomic shape only), 2 check
    passed — the pod list is in flight, 3 pod list returned without pods, 4 finished (`dres` = verdict).
    `ores` = verdict of the other request once it ran (an informer event counts as `true`). -/
structure RC where
  s    : Topo
  pc   : Nat := 0
  dres : Option Bool := none
  ores : Option Bool := none
deriving Repr

/-- the delete thread holds the topology lock. -/
def lockHeld (sh : LockShape) (pc : Nat) : Bool :=
  sh == .atomic && (pc == 1 || pc == 2 || pc == 3)

/-- one step of the delete thread (`lp` = the pod list is non-empty or fails). -/
def dstep (sh : LockShape) (n : Nat) (lp : Bool) (c : RC) : RC :=
  match c.pc with
  | 0 =>
    match sh with
    | .atomic => { c with pc := 1 }
    | .split => if delCheck c.s n then { c with pc := 2 } else { c with pc := 4, dres := some false }
  | 1 => if delCheck c.s n then { c with pc := 2 } else { c with pc := 4, dres := some false }
  | 2 => if lp then { c with pc := 4, dres := some false } else { c with pc := 3 }
  | 3 =>
    match sh with
    | .atomic => { c with s := delRemove c.s n, pc := 4, dres := some true }
    | .split =>
      if (find c.s.info n).isSome then { c with s := delRemove c.s n, pc := 4, dres := some true }
      else { c with pc := 4, dres := some false }
  | _ => c

/-- the other thread's whole request on the state it meets (an informer event is applied unchecked, "verdict" true). -/
def otherRun (d : Nat) (o : Other) (s : Topo) : Topo × Bool :=
  match o with
  | .req r => stepRaw d s r
  | .ev e => (applyEv s e, true)

/-- the other thread: its whole request, when it has not run yet and the lock is free. -/
def ostep (d : Nat) (sh : LockShape) (o : Other) (c : RC) : RC :=
  if c.ores.isSome || lockHeld sh c.pc then c
  else { c with s := (otherRun d o c.s).1, ores := some (otherRun d o c.s).2 }

def raceStep (d : Nat) (sh : LockShape) (n : Nat) (lp : Bool) (o : Other) (c : RC) (who : Bool) : RC :=
  if who then ostep d sh o c else dstep sh n lp c

def raceExec (d : Nat) (sh : LockShape) (n : Nat) (lp : Bool) (o : Other) (c : RC) (sched : List Bool) : RC :=
  sched.foldl (raceStep d sh n lp o) c

/-- the schedule the harness forces: the delete runs up to its pod list, the other request is launched while the list
    is in flight, the delete finishes, the other request (if it had to wait) runs. -/
def harnessSched : List Bool := [false, false, true, false, false, false, true]

/-- lock shape read off the extracted section structure of ValidDeleteQuota (harness/extract/facts_c15.go
    `delSections`: lock operations on qt.lock, calls of other quotaTopology methods, accesses of the three maps and the
    pod List, in source order, consecutive repetitions merged). -/
def shapeOf (sections : List String) : Option LockShape :=
  if sections = ["Lock", "defer Unlock", "state", "list", "state"] then some .atomic
  else if sections = ["call", "list", "Lock", "defer Unlock", "state"] then some .split
  else none

end KoordVerif.C15
