/-
C05 — reservations: ledger, restricted fit, allocate-once gate, owner matching, per-node indexes.
Model of
  pkg/scheduler/frameworkext/reservation_info.go   NewReservationInfo, UpdateReservation, AddAssignedPod,
                                                   RemoveAssignedPod, IsMatchable, MatchOwners
  pkg/scheduler/plugins/reservation/cache.go       updateReservation, updateReservationIfExists, DeleteReservation,
                                                   addPods, updatePod, deletePods, ForEachMatchableReservationOnNode
  pkg/scheduler/plugins/reservation/eventhandler.go / pod_eventhandler.go   (gating glue in front of the cache)
  pkg/scheduler/plugins/reservation/plugin.go      fitsReservation, fitsNodeAndReservation (policy switch),
                                                   FilterNominateReservation (allocate-once gate)
  pkg/scheduler/plugins/reservation/transformer.go checkReservationMatchedOrIgnored
  pkg/util/reservation/reservation.go              IsReservationActive/Available, ReservationRequests,
                                                   GetReservationRestrictedResources, MatchReservationOwners
Resource lists are total vectors `Nat → Int` over dimension indexes (missing key = 0; DESIGN §2.1);
the executable parts only look at dimensions `< dims`.  Names, nodes, pods are small naturals, node 0 = "".
Core-only.
-/
namespace KoordVerif.C05

abbrev Vec := Nat → Int
abbrev Mask := Nat → Bool

/-- dimensions enumerated by the loops of the code (cpu, memory, one scalar) -/
def dims : Nat := 3

def vzero : Vec := fun _ => 0
/-- quotav1.Add -/
def vadd (a b : Vec) : Vec := fun d => a d + b d
/-- quotav1.Mask -/
def vmask (m : Mask) (a : Vec) : Vec := fun d => if m d then a d else 0
/-- quotav1.SubtractWithNonNegativeResult -/
def vsubClamp (a b : Vec) : Vec := fun d => if a d - b d > 0 then a d - b d else 0

def anyDim (f : Nat → Bool) : Bool := (List.range dims).any f

/-- a pod as the ledger sees it: uid and `componentresource.PodRequests`; `empty` = the request map has no key -/
structure Pod where
  uid   : Nat
  empty : Bool
  req   : Vec

/-- the fields of a `Reservation` object the code reads -/
structure RObj where
  uid      : Nat
  node     : Nat        -- Status.NodeName, 0 = ""
  phase    : Nat        -- 0 Pending, 1 Available, 2 Waiting, 3 Succeeded, 4 Failed
  once     : Bool       -- Spec.AllocateOnce (nil ⇒ true, resolved by the harness)
  term     : Bool       -- DeletionTimestamp set
  policy   : Nat        -- 0 Default(""), 1 Aligned, 2 Restricted
  optKind  : Nat        -- restricted-options annotation: 0 absent, 1 valid, 2 malformed JSON
  opt      : Mask       -- resources listed by a valid annotation
  tmpl     : Vec        -- requests of Spec.Template
  tmplHas  : Mask
  st       : Vec        -- Status.Allocatable
  stHas    : Mask
  maxPods  : Int        -- Status.Allocatable["pods"], -1 = absent
  reserved : Vec        -- node-reservation annotation (inner reserved), absent = 0
  ownBad   : Bool       -- an owner label selector does not parse

/-- reservationutil.IsReservationAvailable -/
def RObj.available (o : RObj) : Bool := o.node != 0 && o.phase == 1
/-- reservationutil.IsReservationActive -/
def RObj.active (o : RObj) : Bool := o.node != 0 && (o.phase == 1 || o.phase == 2)

/-- reservationutil.ReservationRequests: Status.Allocatable once available, else the template requests -/
def allocOf (o : RObj) : Vec := if o.available then o.st else o.tmpl
def hasOf (o : RObj) : Mask := if o.available then o.stHas else o.tmplHas
def maxPodsOf (o : RObj) : Int := if o.available then o.maxPods else -1

/-- ResourceNames: keys of the allocatable, for a Restricted reservation intersected with the annotation's
    resources unless that intersection is empty (GetReservationRestrictedResources). -/
def namesOf (o : RObj) : Mask := fun d =>
  hasOf o d &&
    (if o.policy == 2 && o.optKind != 2 && anyDim (fun e => hasOf o e && o.opt e) then o.opt d else true)

def parseErrOf (o : RObj) : Bool := (o.policy == 2 && o.optKind == 2) || o.ownBad

/-- frameworkext.ReservationInfo (the part the property talks about) -/
structure RInfo where
  uid       : Nat
  node      : Nat
  phase     : Nat
  once      : Bool
  term      : Bool
  policy    : Nat
  parseErr  : Bool
  alloc     : Vec       -- Allocatable
  maxPods   : Int
  reserved  : Vec       -- Reserved
  names     : Mask      -- ResourceNames
  allocated : Vec       -- Allocated
  assigned  : List Pod  -- AssignedPods (recorded requirement per pod uid)

/-- NewReservationInfo: Allocated = nil, Reserved NOT masked. -/
def newInfo (o : RObj) : RInfo :=
  { uid := o.uid, node := o.node, phase := o.phase, once := o.once, term := o.term, policy := o.policy,
    parseErr := parseErrOf o, alloc := allocOf o, maxPods := maxPodsOf o, reserved := o.reserved,
    names := namesOf o, allocated := vzero, assigned := [] }

/-- Σ over the assigned pods of their recorded request masked by the reserved dimensions
    (`quotav1.Add` of `quotav1.Mask(requirement.Requests, ResourceNames)` over AssignedPods) -/
def sumReq (m : Mask) : List Pod → Nat → Int
  | [], _ => 0
  | p :: t, d => (if m d then p.req d else 0) + sumReq m t d

/-- ReservationInfo.UpdateReservation: Allocated is masked with the new names and then, when pods are
    assigned, recomputed from them (recalculateAllocatedOfAssignedPods); Reserved is masked. -/
def updInfo (r : RInfo) (o : RObj) : RInfo :=
  { r with node := o.node, phase := o.phase, once := o.once, term := o.term, policy := o.policy,
           parseErr := parseErrOf o, alloc := allocOf o, maxPods := maxPodsOf o,
           names := namesOf o,
           allocated := if r.assigned.isEmpty then vmask (namesOf o) r.allocated
                        else sumReq (namesOf o) r.assigned,
           reserved := vmask (namesOf o) o.reserved }

/-- ReservationInfo.IsMatchable -/
def isMatchable (r : RInfo) : Bool :=
  (r.node != 0 && r.phase == 1) && !r.parseErr && !(r.once && r.assigned.length > 0)

def hasPod (ps : List Pod) (u : Nat) : Bool := ps.any (fun p => p.uid == u)
def findPod (ps : List Pod) (u : Nat) : Option Pod := ps.find? (fun p => p.uid == u)
def erasePod (ps : List Pod) (u : Nat) : List Pod := ps.filter (fun p => p.uid != u)

/-- ReservationInfo.AddAssignedPod -/
def addAssigned (r : RInfo) (p : Pod) : RInfo :=
  if hasPod r.assigned p.uid then r
  else { r with allocated := vadd r.allocated (vmask r.names p.req), assigned := r.assigned ++ [p] }

/-- ReservationInfo.RemoveAssignedPod: subtracts the RECORDED requirement masked by the CURRENT names. -/
def removeAssigned (r : RInfo) (u : Nat) : RInfo :=
  match findPod r.assigned u with
  | none => r
  | some p =>
    { r with allocated := if p.empty then r.allocated else vsubClamp r.allocated (vmask r.names p.req),
             assigned := erasePod r.assigned u }

abbrev Idx := List (Nat × Nat)   -- (node, reservation uid)

def idxAdd (ix : Idx) (n u : Nat) : Idx := if ix.contains (n, u) then ix else (n, u) :: ix
def idxDel (ix : Idx) (n u : Nat) : Idx := ix.filter (fun p => p != (n, u))

/-- reservationCache -/
structure Cache where
  infos     : List RInfo   -- reservationInfos
  onNode    : Idx          -- reservationsOnNode
  matchable : Idx          -- matchableOnNode
  allocIdx  : Idx          -- allocatedOnNode

def Cache.empty : Cache := { infos := [], onNode := [], matchable := [], allocIdx := [] }

def findInfo (c : Cache) (u : Nat) : Option RInfo := c.infos.find? (fun r => r.uid == u)

def setInfo (infos : List RInfo) (r : RInfo) : List RInfo :=
  if infos.any (fun x => x.uid == r.uid) then infos.map (fun x => if x.uid == r.uid then r else x)
  else infos ++ [r]

/-- the "refresh matchable and allocated" block (cache.go:815-842, repeated at :862 and :948) -/
def refreshIdx (c : Cache) (r : RInfo) (n u : Nat) : Cache :=
  if isMatchable r then
    { c with matchable := idxAdd c.matchable n u,
             allocIdx := if r.assigned.length > 0 then idxAdd c.allocIdx n u else idxDel c.allocIdx n u }
  else
    { c with matchable := idxDel c.matchable n u, allocIdx := idxDel c.allocIdx n u }

/-- reservationCache.updateReservation (cache.go:793) -/
def updateReservation (c : Cache) (o : RObj) : Cache :=
  let r := match findInfo c o.uid with
    | none => newInfo o
    | some r0 => updInfo r0 o
  let c := { c with infos := setInfo c.infos r }
  if o.node != 0 then
    refreshIdx { c with onNode := idxAdd c.onNode o.node o.uid } r o.node o.uid
  else c

/-- reservationCache.updateReservationIfExists (cache.go:846): no reservationsOnNode update -/
def updateReservationIfExists (c : Cache) (o : RObj) : Cache :=
  match findInfo c o.uid with
  | none => c
  | some r0 =>
    let r := updInfo r0 o
    let c := { c with infos := setInfo c.infos r }
    if o.node != 0 then refreshIdx c r o.node o.uid else c

/-- reservationCache.DeleteReservation (cache.go:893): keyed by the node name of the PASSED object -/
def deleteReservation (c : Cache) (u n : Nat) : Cache :=
  { infos := c.infos.filter (fun r => r.uid != u),
    onNode := if n != 0 then idxDel c.onNode n u else c.onNode,
    matchable := idxDel c.matchable n u,
    allocIdx := idxDel c.allocIdx n u }

/-- reservationCache.addPods (cache.go:1020); error: 0 ok, 1 not found, 2 terminating -/
def addPods (c : Cache) (ru : Nat) (ps : List Pod) : Cache × Nat :=
  match findInfo c ru with
  | none => (c, 1)
  | some r0 =>
    if r0.term then (c, 2) else
    let r := ps.foldl addAssigned r0
    let c := { c with infos := setInfo c.infos r }
    if isMatchable r && r.assigned.length > 0 && r.node != 0 then
      ({ c with allocIdx := idxAdd c.allocIdx r.node ru }, 0)
    else (c, 0)

/-- the "update allocated cache" block after removals (cache.go:1055, :1095) -/
def dropAllocIfEmpty (c : Cache) (r : RInfo) (ru : Nat) : Cache :=
  if r.assigned.length == 0 && r.node != 0 then { c with allocIdx := idxDel c.allocIdx r.node ru } else c

/-- reservationCache.deletePods (cache.go:1085) -/
def deletePods (c : Cache) (ru : Nat) (us : List Nat) : Cache :=
  match findInfo c ru with
  | none => c
  | some r0 =>
    let r := us.foldl removeAssigned r0
    dropAllocIfEmpty { c with infos := setInfo c.infos r } r ru

/-- reservationCache.updatePod (cache.go:1047), first half: `oldRInfo != nil && oldPod != nil` -/
def updatePodOld (c : Cache) (oldU : Nat) (oldPod : Option Pod) : Cache :=
  match oldPod with
  | none => c
  | some p =>
    match findInfo c oldU with
    | none => c
    | some r0 =>
      let r := removeAssigned r0 p.uid
      dropAllocIfEmpty { c with infos := setInfo c.infos r } r oldU

/-- second half: `newRInfo != nil && newPod != nil` (looked up AFTER the removal) -/
def updatePodNew (c : Cache) (newU : Nat) (newPod : Option Pod) : Cache :=
  match newPod with
  | none => c
  | some p =>
    match findInfo c newU with
    | none => c
    | some r0 =>
      let r := addAssigned r0 p
      let c := { c with infos := setInfo c.infos r }
      if isMatchable r && r.assigned.length > 0 && r.node != 0 then
        { c with allocIdx := idxAdd c.allocIdx r.node newU }
      else c

def updatePod (c : Cache) (oldU newU : Nat) (oldPod newPod : Option Pod) : Cache :=
  updatePodNew (updatePodOld c oldU oldPod) newU newPod

/-! ### event-handler glue -/

/-- reservationEventHandler.OnAdd -/
def onAdd (c : Cache) (o : RObj) : Cache := if o.active then updateReservation c o else c

/-- reservationEventHandler.OnUpdate -/
def onUpdate (c : Cache) (o : RObj) : Cache :=
  if o.active then updateReservation c o
  else if o.phase == 4 || o.phase == 3 then updateReservationIfExists c o
  else c

/-- reservationEventHandler.OnDelete: a still-available object is marked Failed first -/
def onDelete (c : Cache) (o : RObj) : Cache :=
  updateReservationIfExists c (if o.available then { o with phase := 4 } else o)

/-- a pod as the pod event handler sees it -/
structure HPod where
  pod    : Pod
  node   : Nat     -- Spec.NodeName
  term   : Bool    -- util.IsPodTerminated
  rAlloc : Nat     -- uid in the reservation-allocated annotation, 0 = none

/-- podEventHandler.deletePod -/
def podDelete (c : Cache) (p : HPod) : Cache :=
  if p.rAlloc != 0 then deletePods c p.rAlloc [p.pod.uid] else c

/-- podEventHandler.updatePod -/
def podUpdate (c : Cache) (old : Option HPod) (new : HPod) : Cache :=
  if new.term then podDelete c new
  else if new.node == 0 then
    match old with
    | some o => if o.node != 0 then podDelete c o else c
    | none => c
  else
    let oldU := match old with | some o => o.rAlloc | none => 0
    if oldU != 0 || new.rAlloc != 0 then
      updatePod c oldU new.rAlloc (old.map (·.pod)) (some new.pod)
    else c

/-! ### the pod object as the informer delivers it (annotation / phase glue of pod_eventhandler.go) -/

/-- apiext.GetReservationAllocated followed by the handler's `err == nil && ra != nil && ra.UID != ""`:
    annotation kind 0 = absent, 1 = well-formed with a uid, 2 = malformed JSON, 3 = well-formed with uid "". -/
def rAllocOf (kind uid : Nat) : Nat := if kind == 1 then uid else 0

/-- util.IsPodTerminated: phase 0 Pending, 1 Running, 2 Succeeded, 3 Failed, 4 Unknown -/
def podTerminated (phase : Nat) : Bool := phase == 2 || phase == 3

structure XPod where
  pod     : Pod
  node    : Nat
  phase   : Nat
  annKind : Nat
  annUid  : Nat

def XPod.toH (x : XPod) : HPod :=
  { pod := x.pod, node := x.node, term := podTerminated x.phase, rAlloc := rAllocOf x.annKind x.annUid }

/-- podEventHandler.OnAdd / OnUpdate -/
def xpodUpdate (c : Cache) (old : Option XPod) (new : XPod) : Cache := podUpdate c (old.map XPod.toH) new.toH

/-- podEventHandler.OnDelete: object kind 0 = *Pod, 1 = DeletedFinalStateUnknown{*Pod},
    2 = DeletedFinalStateUnknown{something else}, 3 = something else (both ignored) -/
def xpodDelete (c : Cache) (kind : Nat) (p : XPod) : Cache := if kind ≤ 1 then podDelete c p.toH else c

/-! ### queries -/

/-- fitsReservation (plugin.go:973): index 0 of the result = "Too many pods", then one flag per dimension.
    `pre` = preemptibleInRR (≥ 0), `prePods` its "pods" entry. -/
def fitsReservation (r : RInfo) (q pre : Vec) (prePods : Int) : List Bool :=
  let podsFail : Bool :=
    if r.maxPods ≥ 0 then decide (((r.assigned.length : Int) - prePods) + 1 > r.maxPods) else false
  podsFail :: (List.range dims).map (fun d =>
    r.names d && q d != 0 &&
      decide (q d > (r.alloc d - r.reserved d) - (if r.allocated d - pre d < 0 then 0 else r.allocated d - pre d)))

/-- fitsNodeAndReservation with the node part skipped: only a Restricted reservation is checked. -/
def fitsPolicy (r : RInfo) (q pre : Vec) (prePods : Int) : List Bool :=
  if r.policy == 2 then fitsReservation r q pre prePods
  else false :: (List.range dims).map (fun _ => false)

def fitOK (flags : List Bool) : Bool := flags.all (fun b => !b)

/-- FilterNominateReservation's first gate: true = rejected -/
def nominateGate (r : RInfo) : Bool := r.once && r.assigned.length > 0

/-- ForEachMatchableReservationOnNode: the uids handed to the callback (0 = a nil ReservationInfo) -/
def forEachMatchable (c : Cache) (n : Nat) : List Nat :=
  (c.matchable.filter (fun p => p.1 == n)).map (fun p => match findInfo c p.2 with | some _ => p.2 | none => 0)

/-! ### owner matching -/

/-- one entry of Spec.Owners evaluated on a pod: (MatchObjectRef, MatchReservationControllerReference, MatchLabels) -/
structure OwnerEval where
  obj  : Bool
  ctrl : Bool
  lbl  : Bool

/-- MatchReservationOwners: DNF, `nil` matches nothing -/
def matchOwnersList (ms : List OwnerEval) : Bool := ms.any (fun m => m.obj && m.ctrl && m.lbl)

/-- ReservationInfo.MatchOwners -/
def matchOwners (parseErr : Bool) (ms : List OwnerEval) : Bool := !parseErr && matchOwnersList ms

/-- the pod-side / reservation-side facts checkReservationMatchedOrIgnored consults after the owner test -/
structure MatchCtx where
  ignored       : Bool   -- pod carries the reservation-ignored label
  hasName       : Bool   -- reservation affinity names a reservation
  nameMatch     : Bool
  exact         : Bool   -- ExactMatchReservation
  unschedulable : Bool   -- rInfo.IsUnschedulable()
  tolerateUnsch : Bool
  taintBad      : Bool   -- an untolerated NoSchedule taint
  affinity      : Bool   -- MatchReservationAffinity

/-- checkReservationMatchedOrIgnored (transformer.go:637) -/
def checkMatched (x : MatchCtx) (ownersOK : Bool) : Bool :=
  if x.ignored then true
  else if ownersOK then
    if x.hasName then
      if !x.nameMatch then false else if !x.exact then false else true
    else if x.unschedulable && !x.tolerateUnsch then false
    else if x.taintBad then false
    else if !x.affinity then false
    else if !x.exact then false
    else true
  else false

/-! ### the scheduling cycle: BeforePreFilter -> PreFilter -> Filter -> NominateReservation -> Reserve -> Unreserve
    (transformer.go prepareMatchReservationStateForNormalPod, plugin.go PreFilter / Filter / filterWithReservations /
    fitsNodeAndReservation / fitsNode / FilterNominateReservation / Reserve / Unreserve, nominator.go NominateReservation).
    One node; no preemption state, no ports, no reserve / operating / ignored pods, default feature gates. -/

/-- what the harness tells about one reservation with respect to the pod being scheduled -/
structure CandIn where
  uid       : Nat
  ownerOK   : Bool   -- the single owner entry (a label selector) is satisfied
  nameMatch : Bool   -- the affinity names this reservation
  affOK     : Bool   -- MatchReservationAffinity (selector on the reservation's labels)

structure CycIn where
  pod       : Pod
  qHas      : Mask   -- the request key is declared (also with amount 0)
  hasAff    : Bool   -- the pod carries a reservation affinity
  hasName   : Bool   -- ... that names a reservation
  node      : Nat
  nAlloc    : Vec    -- node allocatable
  nTotal    : Vec    -- NodeInfo.Requested of the snapshot (reserve pods + assigned pods + other pods)
  cands     : List CandIn
  chosen    : Nat    -- the reservation the implementation nominated; ONLY used to resolve a tie of >= 2 passing candidates
  unreserve : Bool
  preBind   : Bool := false   -- PreBind runs after a successful Reserve (before the roll-back, if any)

def candOf (x : CycIn) (u : Nat) : CandIn :=
  match x.cands.find? (fun k => k.uid == u) with
  | some k => k
  | none => { uid := u, ownerOK := false, nameMatch := false, affOK := false }

def matchedBy (x : CycIn) (r : RInfo) : Bool :=
  let k := candOf x r.uid
  -- ReservationInfo.IsUnschedulable = Spec.Unschedulable (not generated) || IsTerminating (DeletionTimestamp set)
  checkMatched { ignored := false, hasName := x.hasName, nameMatch := k.nameMatch, exact := true, unschedulable := r.term,
                 tolerateUnsch := false, taintBad := false, affinity := k.affOK }
    (matchOwners r.parseErr [{ obj := true, ctrl := true, lbl := k.ownerOK }])

/-- the reservations ForEachMatchableReservationOnNode hands out (the matchable INDEX, not IsMatchable) -/
def iterated (c : Cache) (n : Nat) : List RInfo :=
  (forEachMatchable c n).filterMap (fun u => findInfo c u)

/-- nodeReservationState.matchedOrIgnored / .unmatched (snapshots of the cache at BeforePreFilter time) -/
def matchedOf (c : Cache) (x : CycIn) : List RInfo := (iterated c x.node).filter (fun r => matchedBy x r)
def unmatchedOf (c : Cache) (x : CycIn) : List RInfo :=
  (iterated c x.node).filter (fun r => !matchedBy x r && r.assigned.length > 0)

def sumAllocated (rs : List RInfo) : Vec := fun d => rs.foldl (fun s r => s + r.allocated d) 0

/-- nodeRState.podRequested: the snapshot's Requested minus what the pods of unmatched reservations hold -/
def podRequestedOf (c : Cache) (x : CycIn) : Vec := fun d => x.nTotal d - sumAllocated (unmatchedOf c x) d
/-- nodeRState.rAllocated -/
def rAllocatedOf (c : Cache) (x : CycIn) : Vec := sumAllocated (matchedOf c x)

/-- ReservationInfo.GetAvailable: (Allocatable - Allocated - Reserved)+ -/
def remOf (r : RInfo) : Vec := fun d => let v := r.alloc d - r.allocated d - r.reserved d; if v > 0 then v else 0

/-- fitsNode (plugin.go:915) without the pod-count line; dimension 2 is a scalar resource (checked when declared) -/
def fitsNodeM (x : CycIn) (pr ra rem : Vec) : Bool :=
  let q := x.pod.req
  if q 0 == 0 && q 1 == 0 && !(x.qHas 2) then true
  else
    let ok (d : Nat) : Bool := !(decide (q d > x.nAlloc d - (pr d - rem d - ra d)))
    ok 0 && ok 1 && (!(x.qHas 2) || ok 2)

/-- the two `continue`s at the head of the loop of filterWithReservations -/
def skipR (x : CycIn) (r : RInfo) : Bool :=
  (!x.hasAff && !(anyDim (fun d => r.names d && x.qHas d))) || (x.hasName && !(candOf x r.uid).nameMatch)

/-- fitsNodeAndReservation: (insufficient by node, insufficient by reservation) -/
def fitNR (c : Cache) (x : CycIn) (r : RInfo) : Bool × Bool :=
  let nodeBad := !(fitsNodeM x (podRequestedOf c x) (rAllocatedOf c x) (remOf r))
  if r.policy == 2 then
    let rsvBad := !(fitOK (fitsReservation r x.pod.req vzero 0))
    if !nodeBad && !rsvBad then (false, false) else (nodeBad, rsvBad)
  else (nodeBad, false)

def fitsBoth (c : Cache) (x : CycIn) (r : RInfo) : Bool := !(fitNR c x r).1 && !(fitNR c x r).2

/-- filterWithReservations: 0 = success, 1 = Unschedulable -/
def filterWR (c : Cache) (x : CycIn) (ms : List RInfo) (required : Bool) : Nat :=
  let live := ms.filter (fun r => !skipR x r)
  if live.any (fun r => fitsBoth c x r) then 0
  else if required then 1
  else if live.any (fun r => (fitNR c x r).1) then 1
  else if fitsNodeM x (podRequestedOf c x) (rAllocatedOf c x) vzero then 0 else 1

/-- does the node get a nodeReservationState? -/
def hasNodeState (c : Cache) (x : CycIn) : Bool :=
  !(matchedOf c x).isEmpty || (!x.hasAff && !(unmatchedOf c x).isEmpty)

/-- PreFilter: 0 = success, 1 = Skip, 2 = UnschedulableAndUnresolvable -/
def preFilterM (c : Cache) (x : CycIn) : Nat :=
  if hasNodeState c x then 0 else if x.hasAff then 2 else 1

/-- Filter: 0 = success, 1 = Unschedulable, 2 = UnschedulableAndUnresolvable -/
def filterM (c : Cache) (x : CycIn) : Nat :=
  if (matchedOf c x).isEmpty then (if x.hasAff then 2 else 0)
  else filterWR c x (matchedOf c x) x.hasAff

/-- FilterNominateReservation (the allocate-once gate, then filterWithReservations on the single reservation) -/
def nomFilterOK (c : Cache) (x : CycIn) (r : RInfo) : Bool :=
  !(nominateGate r) && filterWR c x [r] true == 0

inductive Nom where
  | none
  | one (u : Nat)
  | among (us : List Nat)

/-- Plugin.NominateReservation AS WRITTEN: a single candidate of a pod WITH reservation affinity is returned
    without running the nominate filters, but behind the allocate-once gate (repair fb4a3dc; `gated := false` is
    the shape before the repair, kept for the counterexample) -/
def nominateG (gated : Bool) (c : Cache) (x : CycIn) : Nom :=
  match matchedOf c x with
  | [] => .none
  | [r] =>
    if x.hasAff then (if gated && nominateGate r then .none else .one r.uid)
    else if nomFilterOK c x r then .one r.uid else .none
  | ms =>
    match ms.filter (fun r => nomFilterOK c x r) with
    | [] => .none
    | [r] => .one r.uid
    | ps => .among (ps.map (·.uid))

def nominateM (c : Cache) (x : CycIn) : Nom := nominateG true c x

/-- the uid Reserve assumes the pod into (0 = none); a tie is resolved by what the implementation chose -/
def nomUid (x : CycIn) : Nom → Nat
  | .none => 0
  | .one u => u
  | .among us => if us.contains x.chosen then x.chosen else 0

/-- Reserve: status 0 = success, 1 = Unschedulable (affinity but nothing nominated), 3 = error of assumePods -/
def reserveM (c : Cache) (x : CycIn) (u : Nat) : Cache × Nat :=
  if u == 0 then (c, if x.hasAff then 1 else 0)
  else
    let (c', e) := addPods c u [x.pod]
    (c', if e == 0 then 0 else 3)

/-- Unreserve: forgetPods on the assumed reservation -/
def unreserveM (c : Cache) (x : CycIn) (u : Nat) (rsvCode : Nat) : Cache :=
  if u != 0 && rsvCode == 0 then deletePods c u [x.pod.uid] else c

/-! ### roll-back of a cycle at every stage: PreBind, Unreserve (normal-pod and reserve-pod branch), and Reserve of a
    RESERVE pod (the reservation's own scheduling cycle).  plugin.go PreBind / Unreserve / Reserve. -/

/-- Plugin.PreBind of a normal pod: `state.assumed == nil` => Unschedulable if the state still says the pod has a
    reservation affinity, else nil; otherwise `state.hasReservationAllocated = true` and the pod gets the
    reservation-allocated annotation of the assumed reservation.
    Result: (status, uid written into the annotation (0 = none), hasReservationAllocated). -/
def preBindM (assumed : Nat) (hasAff : Bool) : Nat × Nat × Bool :=
  if assumed == 0 then (if hasAff then 1 else 0, 0, false) else (0, assumed, true)

/-- Plugin.Unreserve, normal-pod branch AS WRITTEN: nothing assumed (`state.assumed == nil`: Reserve failed or
    nominated nothing) => nothing to do; otherwise forgetPods on the assumed reservation FIRST, and only then the
    `!state.hasReservationAllocated` early return, which guards nothing but the removal of the annotation written in
    PreBind (an API patch, no cache state).  `hoisted := true` is the shape with that return placed above forgetPods,
    kept for the counterexample. -/
def unreserveG (hoisted : Bool) (c : Cache) (assumed : Nat) (hasAllocated : Bool) (podUid : Nat) : Cache :=
  if assumed == 0 then c
  else if hoisted && !hasAllocated then c
  else deletePods c assumed [podUid]

def unreservePodM (c : Cache) (assumed : Nat) (hasAllocated : Bool) (podUid : Nat) : Cache :=
  unreserveG false c assumed hasAllocated podUid

/-- Plugin.Reserve, reserve-pod branch (no pre-allocation): `rLister.Get`; a miss is an error and nothing is assumed;
    otherwise assumeReservation (= updateReservation) of a deep copy with `Status.NodeName = nodeName`.
    status 0 = success, 3 = error -/
def reserveRsvM (c : Cache) (listed : Option RObj) (n : Nat) : Cache × Nat :=
  match listed with
  | none => (c, 3)
  | some o => (updateReservation c { o with node := n }, 0)

/-- Plugin.Unreserve, reserve-pod branch AS WRITTEN: forgetReservation (= DeleteReservation, keyed by the node name
    of the PASSED object) of a deep copy of the lister's object stamped with `Status.NodeName = nodeName`; when the
    lister misses, of a stub {UID: pod.UID, Status.NodeName: nodeName} (a reserve pod carries the reservation's uid).
    `stamped := false` is the shape that passes the lister's object as it is (its node name is still ""), kept for
    the counterexample. -/
def unreserveRsvG (stamped : Bool) (c : Cache) (listed : Option RObj) (podUid n : Nat) : Cache :=
  match listed with
  | none => deleteReservation c podUid n
  | some o => deleteReservation c o.uid (if stamped then n else o.node)

def unreserveRsvM (c : Cache) (listed : Option RObj) (podUid n : Nat) : Cache := unreserveRsvG true c listed podUid n

end KoordVerif.C05
