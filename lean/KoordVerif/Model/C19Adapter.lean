/-
C19 extension 2 — the Reservation → pod event adapter in front of every plugin's pod handler
(pkg/util/reservation/reservation_to_pod_eventhandler.go):

    NewReservationToPodEventHandler(handler, IsObjValidActiveReservation)
      = cache.FilteringResourceEventHandler{ FilterFunc: IsObjValidActiveReservation,
                                             Handler: ReservationToPodEventHandler{handler} }

IsObjValidActiveReservation = ValidateReservation (template, owners, ttl|expires present) ∧ IsReservationActive
(status.nodeName set ∧ phase ∈ {Available, Waiting}); a tombstone is unwrapped first.  client-go's
FilteringResourceEventHandler: add → OnAdd iff the object passes; update → OnUpdate / OnAdd(new) / OnDelete(old) /
nothing by (old passes, new passes); delete → OnDelete iff the object passes.  Core Lean only.
-/
namespace KoordVerif.C19.Adapter

/-- the fields of a Reservation version the filter looks at -/
structure RV where
  tmpl   : Bool   -- spec.template present
  owners : Bool   -- len(spec.owners) > 0
  expiry : Bool   -- spec.ttl or spec.expires present
  node   : Bool   -- status.nodeName non-empty
  phase  : Nat    -- 0 Pending, 1 Available, 2 Waiting, 3 Succeeded, 4 Failed

/-- ValidateReservation -/
def valid (r : RV) : Bool := r.tmpl && r.owners && r.expiry
/-- IsReservationActive -/
def active (r : RV) : Bool := r.node && (r.phase == 1 || r.phase == 2)
/-- IsObjValidActiveReservation -/
def passes (r : RV) : Bool := valid r && active r

/-- what reaches the pod handler (each with the reserve pod built by NewReservePod) -/
inductive Call where
  | add | upd | del
  deriving DecidableEq, Repr

def onAdd (r : RV) : List Call := if passes r then [.add] else []

def onUpdate (o n : RV) : List Call :=
  match passes o, passes n with
  | true, true => [.upd]
  | false, true => [.add]
  | true, false => [.del]
  | false, false => []

def onDelete (r : RV) : List Call := if passes r then [.del] else []

/-- the updates old → new along a list of later versions -/
def updates : RV → List RV → List Call
  | _, [] => []
  | o, n :: rest => onUpdate o n ++ updates n rest

/-- everything the live scheduler's pod handler receives: add(v0), update(vi, vi+1)… -/
def calls (v0 : RV) (vs : List RV) : List Call := onAdd v0 ++ updates v0 vs

def lastV : RV → List RV → RV
  | v, [] => v
  | _, w :: rest => lastV w rest

/-- the pod handler's ledger for this holder (add and update record the new object's allocation, delete releases) -/
def applyCall (_present : Bool) : Call → Bool
  | .add => true
  | .upd => true
  | .del => false

def presentAfter (cs : List Call) : Bool := cs.foldl applyCall false

def code : Call → Nat
  | .add => 0
  | .upd => 1
  | .del => 2

end KoordVerif.C19.Adapter
