import KoordVerif.Model.C03
/-
C03, seventh extension round: pods that are ALREADY BOUND when a group first sees them, and the deletion of a group.
Kept apart from Model/C03.lean (only the driver imports it; the theorems of Props/C03 do not talk about these events).
Core-only.

Go code mirrored:
  pkg/scheduler/plugins/elasticquota/core/group_quota_manager.go
    OnPodAdd       "in case failOver, update pod isAssigned explicitly according to its phase and NodeName"
    OnPodUpdate    same-quota branch, `!quotaInfo.IsPodExist(newPod)` ("the pod creation is before quota creation")
                   followed by `newPod.Spec.NodeName != "" && !IsPodTerminated(newPod)` ⇒ assign + book used
    DeleteQuota / deleteQuotaNoLock
  pkg/scheduler/plugins/elasticquota/quota_handler.go  OnQuotaDelete
-/
namespace KoordVerif.C03

/-- A pod object that carries a node name (a running pod) reaches a manager in which no group holds it:
    * `OnPodAdd(quota, pod)` (fail-over add): fresh `PodInfo`, then — node name set, not terminated, not assigned —
      `updatePodIsAssignedNoLock(true)` + `updatePodUsedNoLock(quota, nil, pod)`;
    * `OnPodUpdate(quota, quota, new, old)` with both objects bound: the group does not hold the pod, so it is filed
      (`updatePodCacheNoLock`), it is not assigned there, the new object has a node name ⇒ assigned + used booked.
    Both: the `PodInfo` lands in the associated group (`homeOf`) and the request is booked on that group's path. -/
def podAddBound (s : State) (id : Nat) : State :=
  match findP s.pods id with
  | none => s
  | some p => if p.inCache then s else reserve (podAdd s id) id

/-- `Plugin.OnQuotaDelete` → `DeleteQuota` → `deleteQuotaNoLock` for a group without child groups: the `QuotaInfo`
    leaves `quotaInfoMap` (its used is taken from its former ancestors, `deleteQuota`), and its `PodCache` goes with
    it: the pods it held are held by no group afterwards (nothing files them under the default quota). -/
def quotaDrop (s : State) (n : Nat) : State :=
  let s1 := deleteQuota s n
  { s1 with pods := s1.pods.map fun p =>
      if p.quota = n && p.inCache then { p with inCache := false, assigned := false } else p }

/-- `OnPodUpdate(quota, quota, new, old)` where the new object differs from the old one ONLY in the label
    `quota.scheduling.koordinator.sh/preemptible` (same requests, same quota label), for a pod its group holds
    (eighth round).  Same-quota branch: `updatePodRequestNoLock` (request side, C01), then — the pod is assigned —
    `updatePodUsedNoLock(quota, old, new)`: `deltaUsed` is zero, `deltaNonPreemptibleUsed` is ± the masked request,
    the early return needs BOTH to be zero, so `updateGroupDeltaUsedNoLock(quota, 0, ±request, 0)` moves the amount
    into / out of the non-preemptible used of the group (own + subtree) and of every ancestor.  A pod that is not
    assigned (no node name) only has its cached object refreshed (`refreshPodIfPresent`). -/
def podFlip (s : State) (id : Nat) : State :=
  match findP s.pods id with
  | none => s
  | some p =>
    match findQ s.quotas p.quota with
    | none => s
    | some q =>
      if !p.inCache then s else
      { s with
        quotas := if p.assigned then
            applyDelta s (pathNames s p.quota) (some p.quota) (fun _ => 0)
              (fun d => if p.np then -(mreq q p d) else mreq q p d)
          else s.quotas
        pods := setPod s.pods id fun x => { x with np := !x.np } }

/-- `OnPodUpdate(newQuota, oldQuota, new, old)` with `oldQuota ≠ newQuota` (ninth round): the pod's QUOTA LABEL changed
    (`label := l`), possibly together with the binding (`bound` = the NEW object carries a node name).  Different-quota
    branch of `GroupQuotaManager.OnPodUpdate`: the old group, if it holds the pod, gives back used (if assigned there),
    request and `PodInfo` (= `podDelete`); the new group, which does not hold the pod, files it (`podAdd`) and marks it
    assigned + books used iff the NEW OBJECT is bound (`spec.nodeName ≠ ""`, = `podAddBound`) - whatever the old group
    held.  A pod no group holds (its group was deleted and re-created under it) skips the first half. -/
def podRelabel (s : State) (id l : Nat) (bound : Bool) : State :=
  let s1 := podDelete s id
  let s2 : State := { s1 with pods := setPod s1.pods id fun x => { x with label := l } }
  if bound then podAddBound s2 id else podAdd s2 id

end KoordVerif.C03
