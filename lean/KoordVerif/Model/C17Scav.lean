import KoordVerif.Model.C17
/-
C17 ext5 — the scavenger (controller.go `Reconciler.doScavenge`, started by `Reconciler.Start` once a minute) and
the life of a job CREATED BY THE CONTROLLER ITSELF (evict.go `Reconciler.Evict` → `CreatePodMigrationJob`).

* `CreatePodMigrationJob` stamps the annotation `koordinator.sh/job-created-by` with the uid of the creating Reconciler
  instance (`Spec.createdBy`), takes mode and TTL from the args (DefaultJobMode / DefaultJobTTL), records the pod's uid
  in Spec.PodRef and starts in phase Pending with no ReservationRef.
* A restart makes a NEW Reconciler instance with a fresh uid (`New`: `r.reconcilerUID = UUIDGenerateFn()`), and
  `Reconcile` ignores every job whose annotation names another uid (Model/C17.lean `reconcile`, first line).  So once
  the controller has restarted, `Reconcile` never touches such a job again: `doScavenge` is the only code that still
  returns its reservation.
* `doScavenge` (per job of the LIST, no test of the annotation): timeout = TTL + 5 min (30 min when the job has no
  TTL), measured from the creation timestamp; past it: `deleteReservation(job)` (nothing without a ReservationRef;
  NotFound is not an error; any other error ends the round — `break`), then `Client.Delete(job)`.

Core Lean only (linked into the driver).
-/
namespace KoordVerif.C17

/-- `doScavenge`: `timeoutDuration := 30 * time.Minute; if v.Spec.TTL != nil && v.Spec.TTL.Duration > 0 { timeoutDuration =
    v.Spec.TTL.Duration + 5*time.Minute }` (seconds) -/
def scavGrace : Nat := 300
def scavDefault : Nat := 1800
def scavTimeout (ttl : Nat) : Nat := if ttl > 0 then ttl + scavGrace else scavDefault

/-- world of the scavenger: the base world plus "the job object has been deleted" -/
structure SWorld where
  w : World
  gone : Bool
deriving DecidableEq, Repr

/-- is the job foreign to the running instance? (`Reconcile`: annotation present and ≠ reconcilerUID) -/
def foreign (w : World) : Bool := w.job.spec.createdBy != 0 && w.job.spec.createdBy != w.env.ctrl

/-- one write call of the scavenger: (kind, ok); kinds as `ActK.code` (5 = reservation Delete) plus 12 = job Delete -/
abbrev SAct := Nat × Bool

/-- the tail of one scavenge iteration: `r.Client.Delete(ctx, v)`; `k` = index of this write among the round's writes -/
def scavDeleteJob (s : SWorld) (faults k : Nat) (acts : List SAct) : SWorld × List SAct :=
  if faults.testBit k then (s, acts ++ [(12, false)]) else ({ s with gone := true }, acts ++ [(12, true)])

/-- `doScavenge` for the one job of the world.  `skipForeign` = the rule of `Reconcile` copied into the scavenger (NOT in
    the shipped code: `scavenge false` is the shipped one; `true` is the shape refuted below). -/
def scavenge (skipForeign : Bool) (s : SWorld) (faults : Nat) : SWorld × List SAct :=
  if s.gone then (s, []) else
  if skipForeign && foreign s.w then (s, []) else
  if s.w.env.now < scavTimeout s.w.job.spec.ttl then (s, []) else
  if !s.w.job.spec.resvRef then scavDeleteJob s faults 0 [] else
  match s.w.env.resv with
  | none => scavDeleteJob s faults 0 []                  -- GetReservation: NotFound, not an error here
  | some _ =>
    if faults.testBit 0 then (s, [(5, false)])           -- `break`
    else scavDeleteJob { s with w := { s.w with env := { s.w.env with resv := none } } } faults 1 [(5, true)]

/-- `Reconcile` when the job may be gone: `Get` answers NotFound ⇒ return -/
def reconcileS (s : SWorld) (faults : Nat) : SWorld × Out :=
  if s.gone then (s, ⟨[], []⟩) else ({ s with w := (reconcile s.w faults).1 }, (reconcile s.w faults).2)

/-- `Reconciler.Evict` → `CreatePodMigrationJob` (fault-free, filter and limiter pass): the job the controller creates for
    pod `p`; `direct` = args.DefaultJobMode, `ttl` = args.DefaultJobTTL -/
def createdJob (ctrl : Nat) (direct : Bool) (ttl : Nat) (p : Pod) : Job :=
  { spec := { paused := false, direct := direct, ttl := ttl, podRefValid := true, podUID := p.uid, resvRef := false,
              evictAnno := false, createdBy := ctrl },
    status := { phase := Ph.pending, status := 0, reason := 0, node := 0, podRef := false, conds := [] } }

inductive SOp where
  | base (op : Op)             -- environment event / restart / reconcile of Model/C17.lean
  | scav (faults : Nat)        -- one round of the scavenger of the running instance
deriving DecidableEq, Repr

def stepS (skipForeign : Bool) (s : SWorld) : SOp → SWorld
  | .base (.recon f) => (reconcileS s f).1
  | .base op => { s with w := (step s.w op).1 }
  | .scav f => (scavenge skipForeign s f).1

def runS (skipForeign : Bool) : SWorld → List SOp → SWorld
  | s, [] => s
  | s, op :: ops => runS skipForeign (stepS skipForeign s op) ops

end KoordVerif.C17
