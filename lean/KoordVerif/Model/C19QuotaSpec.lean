import KoordVerif.Model.C19Quota
/-
C19 (elasticquota part): the hypotheses of `quota_rebuilt_eq_live` as executable (decidable) predicates over a
history, evaluated by the driver on every strict case of the quota harness (`quota hyp` -> `hyp 0|1`), and the
from-scratch specification of the charge ledger.

`World` is what the API server holds: the last delivered version of every alive pod, plus the set of pods the
scheduler has reserved (Reserve) and neither bound nor unreserved yet - those charges are not persisted and are
legitimately lost by a restart, so a cut is compared only when that set is empty.
-/
namespace KoordVerif.C19.Quota

structure World where
  alive : List PodObj := []
  resvd : List Nat := []
  deriving Repr, Inhabited

def World.find (w : World) (id : Nat) : Option PodObj := w.alive.find? (fun o => o.id == id)
def World.drop (w : World) (id : Nat) : List PodObj := w.alive.filter (fun o => o.id != id)

/-- the objects after an op (no ledger involved) -/
def World.apply (w : World) : Op → World
  | .padd p => { w with alive := p :: w.drop p.id }
  | .pupd o n => if o.rv = n.rv then w else
      { alive := n :: w.drop n.id, resvd := if n.node then w.resvd.filter (· != n.id) else w.resvd }
  | .pdel p => { alive := w.drop p.id, resvd := w.resvd.filter (· != p.id) }
  | .resv p => { w with resvd := if w.resvd.contains p.id then w.resvd else p.id :: w.resvd }
  | .unresv p => { w with resvd := w.resvd.filter (· != p.id) }
  | _ => w

/-- every namespace is claimed through the annotation by at most one quota of the store and quota names are
    distinct: then GetQuotaName does not depend on the order of the informer's index -/
def storeUnique (store : List QObj) : Bool :=
  (store.map (·.name)).Nodup &&
  store.all (fun q => q.nss.all (fun n => store.all (fun q' => q'.name == q.name || !q'.nss.contains n)))

/-- the pod is cached by the group it resolves to (not parked in the default group waiting for the migration) -/
def atHome (s : St) (o : PodObj) : Bool := hasE s (resolve s o) o.id

/-- step guard: what a history must satisfy for the theorem (each clause is a race or a webhook rule, see
    props/C19.json assumptions) -/
def okStep (s : St) (w : World) (op : Op) : Bool :=
  let s' := step s op
  match op with
  | .qstore _ | .qput _ =>
    storeUnique s'.store &&
    w.alive.all (fun o => resolve s' o == resolve s o || resolve s o == dflt)
  | .qdel n =>
    decide (3 ≤ n) && w.alive.all (fun o => resolve s' o == resolve s o)
  | .replace => w.alive.isEmpty
  | .padd p => (w.find p.id).isNone && decide (0 ≤ p.req)
  | .pupd o n =>
    w.find o.id == some o && n.id == o.id && decide (0 ≤ n.req) &&
    (if o.rv = n.rv then n == o else
      atHome s o &&
      (!o.node || n.node) && (!o.term || n.term) &&
      (!n.term || o.term || !isAssigned s (resolve s o) o.id) &&
      (!w.resvd.contains o.id || resolve s n == resolve s o))
  | .pdel p => w.find p.id == some p
  | .resv p => w.find p.id == some p && atHome s p && !p.node && !p.term
  | .unresv p => w.find p.id == some p && atHome s p && w.resvd.contains p.id && !p.node
  | .migrate => true

def okHistFrom (s : St) (w : World) : List Op → Bool
  -- the cut: no Reserve in flight, and no quota whose handler is still pending (`qstore` without its `qput`)
  | [] => w.resvd.isEmpty && s.store.all (fun q => s.known.contains q.name)
  | op :: ops => okStep s w op && okHistFrom (step s op) (w.apply op) ops

/-- **hypothesis on the live history** -/
def okHist (ops : List Op) : Bool := okHistFrom {} {} ops

def worldAfter (ops : List Op) : World := ops.foldl World.apply {}

/-- delivery to a fresh scheduler: quota objects (store only / with handler), ReplaceQuotas, pod adds; every
    pod add carries an alive object, every quota object one of the final store -/
def isDeliveryOp (store : List QObj) (alive : List PodObj) : Op → Bool
  | .qstore q | .qput q => store.contains q
  | .replace => true
  | .padd p => alive.contains p
  | .migrate => true
  | _ => false

/-- **order hypothesis**: when a pod is delivered its resolution is already the final one (its quota was
    delivered before it, by handler or by ReplaceQuotas), and ReplaceQuotas runs before the first pod -/
def okOrderFrom (s : St) (final : St) (seenPod : Bool) : List Op → Bool
  | [] => true
  | op :: ops =>
    (match op with
     | .padd p => resolve s p == resolve final p
     | .replace => !seenPod
     | _ => true) &&
    okOrderFrom (step s op) final (seenPod || (match op with | .padd _ => true | _ => false)) ops

def isDelivery (live : St) (w : World) (d : List Op) : Bool :=
  d.all (isDeliveryOp live.store w.alive) &&
  -- every quota object is delivered, and its handler (or a ReplaceQuotas AFTER it reached the store) ran
  live.store.all (fun q => (d.contains (.qput q) || d.contains (.qstore q)) && (run {} d).known.contains q.name) &&
  w.alive.all (fun p => d.contains (.padd p)) &&
  okOrderFrom {} (run {} d) false d &&
  -- no quota object is named like the built-in groups (0 = no label, 1 = default, 2 = system; webhook rule)
  live.store.all (fun q => decide (3 ≤ q.name))

/-! ### from-scratch specification of the ledger -/

def sumReq (l : List PodObj) : Int := (l.map (·.req)).foldl (· + ·) 0

/-- the pods charged to group `q`: the alive pods that resolve to it -/
def chargedTo (s : St) (w : World) (q : Nat) : List PodObj := w.alive.filter (fun o => resolve s o == q)

structure LedgerEq (s t : St) : Prop where
  known : ∀ q, s.known.contains q = t.known.contains q
  has : ∀ q pid, hasE s q pid = hasE t q pid
  asg : ∀ q pid, isAssigned s q pid = isAssigned t q pid
  req : ∀ q, getC s.req q = getC t.req q
  used : ∀ q, getC s.used q = getC t.used q

/-- canonical ledger w.r.t. the objects: every alive pod is cached exactly by the group it resolves to, is
    assigned iff bound (or reserved), nothing else is cached, the self figures are the sums -/
structure Canon (s : St) (w : World) : Prop where
  has : ∀ q pid, hasE s q pid = (chargedTo s w q).any (fun o => o.id == pid)
  asg : ∀ q pid, isAssigned s q pid = (chargedTo s w q).any (fun o => o.id == pid && (bound o || w.resvd.contains pid))
  req : ∀ q, getC s.req q = sumReq (chargedTo s w q)
  used : ∀ q, getC s.used q = sumReq ((chargedTo s w q).filter (fun o => bound o || w.resvd.contains o.id))

/-! ### driver (op-line formats: see the quota harness) -/
open KoordVerif.Proto

def stepLine (d : Drv) (line : String) : Drv :=
  match toks line with
  | "quota" :: kind :: rest =>
    match ints? rest with
    | none => d.bad
    | some xs =>
      match kind, xs with
      | "fresh", [] => { d with fresh := {}, freshOps := [] }
      | "mode", [m] => { d with multi := m ≠ 0 }
      | "migrate", [c] =>
        if !d.multi then d.app c .migrate
        else if c = 0 then { d with live := migrateAllMT d.live }
        else if c = 1 then { d with fresh := migrateAllMT d.fresh } else d.bad
      | "dump", [c] =>
        if c = 0 then { d with out := d.out ++ dump d.live }
        else if c = 1 then { d with out := d.out ++ dump d.fresh } else d.bad
      -- the hypotheses of quota_rebuilt_eq_live on what was applied so far
      | "hyp", [] => { d with out := d.out ++ [s!"hyp {b2i (okHist d.liveOps)}"] }
      | "hypd", [] =>
        { d with out := d.out ++ [s!"hypd {b2i (isDelivery (run {} d.liveOps) (worldAfter d.liveOps) d.freshOps)}"] }
      | _, c :: ys =>
        match parseOp kind ys with
        | some op => d.app c op
        | none => d.bad
      | _, _ => d.bad
  | _ => d.bad

def runCase (lines : List String) : List String := (lines.foldl stepLine {}).out

end KoordVerif.C19.Quota
