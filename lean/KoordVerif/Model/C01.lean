/-
C01 — elastic-quota used/request accounting.  ONE resource dimension (the driver keeps one model
instance per dimension; every arithmetic step of the Go code is dimension-wise).
Mirrors pkg/scheduler/plugins/elasticquota/core/{group_quota_manager.go,quota_info.go} as written.
Core-only.

Names are naturals: 0 = "" (no quota), 1 = koordinator-root-quota, >= 2 ordinary quotas.
A manager without system/default quota (`NewGroupQuotaManager("tree1", false, nil, nil)`).
The runtime calculators (C02) and quotaTopoNodeMap are not part of this model: in trees without
orphans they never influence the aggregates (see Props/C01.lean, header).

Cross-dimension short-cuts of the Go code (`quotav1.IsZero(delta) && …`, `quotav1.Equals(max,…)`)
are evaluated per dimension here.  The only difference this can make is an additional
zero-delta propagation in the Go code, which is the identity whenever
`request = lendRule childRequest` and all aggregates are >= 0 along the path
(theorem `propReq_zero_id` / `propUsed_zero_id` in Props/C01.lean).

`Pod.req` / `Pod.np` are the request / non-preemptible flag of the pod object the PodCache holds (PodInfo.pod).
Since repair 7265fb2 OnPodUpdate keeps that object current (`refreshPodIfPresent`, = `setGhost`: same quota, not
ignored, pod cached) and OnPodDelete gives back the CACHED object's amounts (`getCachedPod`, = `cachedObj`), i.e.
what the group accounted; before the repair they were ghost fields (Go kept the first object).  They are not observed.
-/
namespace KoordVerif.C01

structure Pod where
  id       : Nat
  assigned : Bool
  req      : Int   -- PodRequests(PodInfo.pod)
  np       : Bool  -- IsPodNonPreemptible(PodInfo.pod)
deriving Repr, DecidableEq

/-- QuotaInfo + QuotaCalculateInfo (one dimension). `max = none`: key absent from CalculateInfo.Max. -/
structure Quota where
  name          : Nat
  parent        : Nat
  isParent      : Bool
  lend          : Bool
  max           : Option Int
  min           : Int
  pods          : List Pod
  used          : Int
  npUsed        : Int
  request       : Int
  npRequest     : Int
  childRequest  : Int
  selfUsed      : Int
  selfNpUsed    : Int
  selfRequest   : Int
  selfNpRequest : Int
deriving Repr, DecidableEq

abbrev State := List Quota

def rootName : Nat := 1

/-- NewQuotaInfo -/
def emptyQuota (name parent : Nat) (isParent lend : Bool) : Quota :=
  { name := name, parent := parent, isParent := isParent, lend := lend, max := none, min := 0, pods := [],
    used := 0, npUsed := 0, request := 0, npRequest := 0, childRequest := 0,
    selfUsed := 0, selfNpUsed := 0, selfRequest := 0, selfNpRequest := 0 }

/-- NewGroupQuotaManager(treeID != "") -/
def init : State := [emptyQuota rootName 0 true false]

/-- quotaInfoMap[n] -/
def get? : State → Nat → Option Quota
  | [], _ => none
  | q :: t, n => if q.name = n then some q else get? t n

/-- write back a (pointer-shared in Go) QuotaInfo -/
def set : State → Quota → State
  | [], _ => []
  | x :: t, q => if x.name = q.name then q :: t else x :: set t q

/-- delete(quotaInfoMap, n) -/
def erase : State → Nat → State
  | [], _ => []
  | x :: t, n => if x.name = n then t else x :: erase t n

/-- the "set negative entries to zero" loops of add*NonNegativeNoLock -/
def clamp0 (x : Int) : Int := if x < 0 then 0 else x

/-- getLimitRequestNoLock -/
def limit (mx : Option Int) (r : Int) : Int :=
  match mx with
  | none => r
  | some m => if r > m then m else r

def Quota.limited (q : Quota) : Int := limit q.max q.request

/-- "If the quota not allow to lent resource. we should request for min" -/
def lendRule (q : Quota) (cr : Int) : Int :=
  if q.lend then cr else if q.min > cr then q.min else cr

/-- getCurToAllParentGroupQuotaInfoNoLock (fuel: Go would loop forever on a cycle) -/
def pathOf (s : State) : Nat → Nat → List Nat
  | 0, _ => []
  | fuel + 1, n =>
    match get? s n with
    | none => []
    | some q => if n = rootName then [n] else n :: pathOf s fuel q.parent

def path (s : State) (n : Nat) : List Nat := pathOf s (s.length + 1) n

/-- addRequestNonNegativeNoLock, `cl` = the clamp (clamp0 in the model proper) -/
def addReq (cl : Int → Int) (q : Quota) (d dnp : Int) (self : Bool) : Quota :=
  let q1 := { q with request := cl (q.request + d), npRequest := cl (q.npRequest + dnp) }
  if self then { q1 with selfRequest := cl (q1.selfRequest + d), selfNpRequest := cl (q1.selfNpRequest + dnp) }
  else q1

/-- one iteration of recursiveUpdateGroupTreeWithDeltaRequest for a non-root quota -/
def reqNode (cl : Int → Int) (q : Quota) (d dnp : Int) (self : Bool) : Quota :=
  let q1 := addReq cl q d dnp self
  let cr := cl (q1.childRequest + d)
  { q1 with childRequest := cr, request := lendRule q1 cr }

/-- recursiveUpdateGroupTreeWithDeltaRequest; `self` = (i == selfQuotaIndex) for the head -/
def propReqW (cl : Int → Int) : State → List Nat → Bool → Int → Int → State
  | s, [], _, _, _ => s
  | s, g :: rest, self, d, dnp =>
    match get? s g with
    | none => s
    | some q =>
      if g = rootName then set s (addReq cl q d dnp self)
      else
        let q2 := reqNode cl q d dnp self
        propReqW cl (set s q2) rest false (q2.limited - q.limited) dnp

def propReq := propReqW clamp0

/-- addUsedNonNegativeNoLock -/
def addUsed (cl : Int → Int) (q : Quota) (d dnp : Int) (self : Bool) : Quota :=
  let q1 := { q with used := cl (q.used + d), npUsed := cl (q.npUsed + dnp) }
  if self then { q1 with selfUsed := cl (q1.selfUsed + d), selfNpUsed := cl (q1.selfNpUsed + dnp) }
  else q1

/-- the loop of updateGroupDeltaUsedNoLock -/
def propUsedW (cl : Int → Int) : State → List Nat → Bool → Int → Int → State
  | s, [], _, _, _ => s
  | s, g :: rest, self, d, dnp =>
    match get? s g with
    | none => s
    | some q => propUsedW cl (set s (addUsed cl q d dnp self)) rest false d dnp

def propUsed := propUsedW clamp0

/-- updateGroupDeltaRequestNoLock -/
def deltaReq (s : State) (n : Nat) (d dnp : Int) (self : Bool) : State :=
  propReq s (path s n) self d dnp

/-- updateGroupDeltaUsedNoLock -/
def deltaUsed (s : State) (n : Nat) (d dnp : Int) (self : Bool) : State :=
  propUsed s (path s n) self d dnp

/-! ### quota operations -/

/-- doUpdateOneGroupMaxQuotaNoLock -/
def doUpdateMax (s : State) (n : Nat) (newMax : Option Int) : State :=
  match path s n with
  | [] => s
  | g :: rest =>
    match get? s g with
    | none => s
    | some q =>
      let q' := { q with max := newMax }
      let s1 := set s q'
      match rest with
      | [] => s1
      | _ :: _ => propReq s1 rest false (q'.limited - q.limited) 0

/-- doUpdateOneGroupMinQuotaNoLock -/
def doUpdateMin (s : State) (n : Nat) (newMin : Int) : State :=
  match path s n with
  | [] => s
  | g :: rest =>
    match get? s g with
    | none => s
    | some q =>
      let q1 := { q with min := newMin }
      let q2 := { q1 with request := lendRule q1 q1.childRequest }
      let s1 := set s q2
      match rest with
      | [] => s1
      | _ :: _ => propReq s1 rest false (q2.limited - q1.limited) 0

/-- the fields of an ElasticQuota object that matter here (one dimension) -/
structure QSpec where
  name     : Nat
  parent   : Nat
  isParent : Bool
  lend     : Bool
  max      : Int
  min      : Int
deriving Repr, DecidableEq

/-- UpdateQuota, quota not yet known: updateQuotaInternalNoLock(new, nil) -/
def createQuota (s : State) (sp : QSpec) : State :=
  let s1 := emptyQuota sp.name sp.parent sp.isParent sp.lend :: s
  let s2 := doUpdateMax s1 sp.name (some sp.max)
  doUpdateMin s2 sp.name sp.min

/-- deleteQuotaNoLock -/
def deleteQuota (s : State) (n : Nat) : State :=
  match get? s n with
  | none => s
  | some q =>
    let s1 := erase s n
    let d := 0 - q.limited
    let dnp := 0 - q.npRequest
    let s2 := if d ≠ 0 ∨ dnp ≠ 0 then deltaReq s1 q.parent d dnp false else s1
    let du := 0 - q.used
    let dnu := 0 - q.npUsed
    if du ≠ 0 ∨ dnu ≠ 0 then deltaUsed s2 q.parent du dnu false else s2

/-- updateQuotaNoLockWhenParentChange -/
def reparent (s : State) (old : Quota) (sp : QSpec) : State :=
  let s1 := deleteQuota s sp.name
  let nq := { emptyQuota sp.name sp.parent sp.isParent sp.lend with pods := old.pods }
  let s2 := nq :: s1
  let s3 := doUpdateMax s2 sp.name (some sp.max)
  let s4 := doUpdateMin s3 sp.name sp.min
  let s5 := if old.selfRequest ≠ 0 ∨ old.selfNpRequest ≠ 0
            then deltaReq s4 sp.name old.selfRequest old.selfNpRequest true else s4
  let dc := old.childRequest - old.selfRequest
  let dcn := old.npRequest - old.selfNpRequest
  let s6 := if old.isParent ∧ (dc ≠ 0 ∨ dcn ≠ 0) then deltaReq s5 sp.name dc dcn false else s5
  let s7 := if old.selfUsed ≠ 0 ∨ old.selfNpUsed ≠ 0
            then deltaUsed s6 sp.name old.selfUsed old.selfNpUsed true else s6
  let du := old.used - old.selfUsed
  let dnu := old.npUsed - old.selfNpUsed
  if old.isParent ∧ (du ≠ 0 ∨ dnu ≠ 0) then deltaUsed s7 sp.name du dnu false else s7

/-- clearForResetNoLock -/
def clearQ (q : Quota) : Quota :=
  { q with request := 0, npRequest := 0, used := 0, npUsed := 0, childRequest := 0,
           selfUsed := 0, selfRequest := 0, selfNpUsed := 0, selfNpRequest := 0 }

/-- resetRootQuotaUsedAndRequest (no system/default quota) -/
def clearRoot (q : Quota) : Quota := { q with used := 0, npUsed := 0, request := 0, npRequest := 0 }

/-- one iteration of the last loop of rebuildAllGroupQuotaNoLock; `q` is the quota as it was BEFORE clearing -/
def reAdd (st : State) (q : Quota) : State :=
  let r  := if q.isParent then q.selfRequest else q.childRequest
  let nr := if q.isParent then q.selfNpRequest else q.npRequest
  let u  := if q.isParent then q.selfUsed else q.used
  let nu := if q.isParent then q.selfNpUsed else q.npUsed
  deltaUsed (deltaReq st q.name r nr true) q.name u nu true

/-- resetQuotaNoLock (Go iterates a map; the model iterates the list order) -/
def resetAll (s : State) : State :=
  let saved := s.filter (fun q => q.name ≠ rootName)
  let s1 := s.map (fun q => if q.name = rootName then clearRoot q else clearQ q)
  saved.foldl reAdd s1

/-- UpdateQuota -/
def updateQuota (s : State) (sp : QSpec) : State :=
  match get? s sp.name with
  | none => createQuota s sp
  | some q =>
    if q.lend = sp.lend ∧ q.isParent = sp.isParent ∧ q.parent = sp.parent then
      let s1 := if q.max ≠ some sp.max then doUpdateMax s sp.name (some sp.max) else s
      if q.min ≠ sp.min then doUpdateMin s1 sp.name sp.min else s1
    else if q.parent ≠ sp.parent then reparent s q sp
    else
      -- updateQuotaInfoFromRemote + resetQuotaNoLock
      resetAll (set s { q with max := some sp.max, min := sp.min, lend := sp.lend, isParent := sp.isParent })

/-! ### pod operations -/

/-- what the handlers read from a *v1.Pod -/
structure PodObj where
  id      : Nat
  req     : Int
  np      : Bool   -- extension.IsPodNonPreemptible
  hasNode : Bool   -- Spec.NodeName != ""
  term    : Bool   -- util.IsPodTerminated
  ign     : Bool   -- shouldBeIgnored
deriving Repr, DecidableEq

def reqOf : Option PodObj → Int
  | none => 0
  | some p => p.req

def npOf : Option PodObj → Int
  | none => 0
  | some p => if p.np then p.req else 0

def podExists (q : Quota) (id : Nat) : Bool := q.pods.any (fun p => p.id == id)

def podAssigned (q : Quota) (id : Nat) : Bool := q.pods.any (fun p => p.id == id && p.assigned)

/-- IsPodExist on quotaInfoMap[n] (false when the quota is missing) -/
def existsIn (s : State) (n id : Nat) : Bool :=
  match get? s n with
  | none => false
  | some q => podExists q id

/-- getPodIsAssignedNoLock -/
def assignedIn (s : State) (n id : Nat) : Bool :=
  match get? s n with
  | none => false
  | some q => podAssigned q id

/-- updatePodCacheNoLock(isAdd = true) -/
def cacheAdd (s : State) (n : Nat) (o : PodObj) : State :=
  match get? s n with
  | none => s
  | some q =>
    if podExists q o.id then s
    else set s { q with pods := { id := o.id, assigned := false, req := o.req, np := o.np } :: q.pods }

/-- updatePodCacheNoLock(isAdd = false) -/
def cacheRemove (s : State) (n id : Nat) : State :=
  match get? s n with
  | none => s
  | some q => set s { q with pods := q.pods.filter (fun p => p.id != id) }

/-- updatePodIsAssignedNoLock (errors are ignored by every caller) -/
def setAssigned (s : State) (n id : Nat) (flag : Bool) : State :=
  match get? s n with
  | none => s
  | some q => set s { q with pods := q.pods.map (fun p => if p.id = id then { p with assigned := flag } else p) }

/-- QuotaInfo.refreshPodIfPresent: the cached object becomes the one just delivered -/
def setGhost (s : State) (n : Nat) (o : PodObj) : State :=
  match get? s n with
  | none => s
  | some q => set s { q with pods := q.pods.map (fun p => if p.id = o.id then { p with req := o.req, np := o.np } else p) }

/-- updatePodRequestNoLock -/
def updPodReq (s : State) (n : Nat) (old new : Option PodObj) : State :=
  match get? s n with
  | none => s
  | some q =>
    -- quotav1.Mask(…, ResourceNames(Max))
    let d := if q.max.isSome then reqOf new - reqOf old else 0
    let dnp := if q.max.isSome then npOf new - npOf old else 0
    if d = 0 ∧ dnp = 0 then s else deltaReq s n d dnp true

/-- updatePodUsedNoLock; `id` = the cache key of old/new -/
def updPodUsed (s : State) (n id : Nat) (old new : Option PodObj) : State :=
  match get? s n with
  | none => s
  | some q =>
    if !(new.isSome && podAssigned q id) && !(old.isSome && podAssigned q id) then s
    else
      let d := if q.max.isSome then reqOf new - reqOf old else 0
      let dnp := if q.max.isSome then npOf new - npOf old else 0
      if d = 0 ∧ dnp = 0 then s else deltaUsed s n d dnp true

/-- the tail shared by OnPodAdd / OnPodUpdate: cache + request + fail-over assignment -/
def addPodTo (s : State) (n : Nat) (p : PodObj) : State :=
  let s1 := cacheAdd s n p
  let s2 := updPodReq s1 n none (some p)
  if p.hasNode && !p.term && !assignedIn s2 n p.id then
    updPodUsed (setAssigned s2 n p.id true) n p.id none (some p)
  else s2

/-- OnPodAdd -/
def onPodAdd (s : State) (n : Nat) (p : PodObj) : State :=
  if p.ign then s
  else match get? s n with
    | none => s
    | some q => if podExists q p.id then s else addPodTo s n p

/-- remove request, used (if assigned) and the cache entry; `reqFirst` = order of the two updates -/
def removePodFrom (s : State) (n : Nat) (p : PodObj) (usedFirst : Bool) : State :=
  let asg := assignedIn s n p.id
  let s2 :=
    if usedFirst then
      let s1 := if asg then updPodUsed s n p.id (some p) none else s
      updPodReq s1 n (some p) none
    else
      let s1 := updPodReq s n (some p) none
      if asg then updPodUsed s1 n p.id (some p) none else s1
  cacheRemove s2 n p.id

/-- OnPodUpdate -/
def onPodUpdate (s : State) (newQ oldQ : Nat) (np op : PodObj) : State :=
  if oldQ = newQ then
    match get? s newQ with
    | none => s
    | some q =>
      if !np.ign then
        let s1 :=
          if podExists q np.id then setGhost (updPodReq s newQ (some op) (some np)) newQ np
          else updPodReq (cacheAdd s newQ np) newQ none (some np)
        if assignedIn s1 newQ np.id then updPodUsed s1 newQ np.id (some op) (some np)
        else if np.hasNode && !np.term then
          updPodUsed (setAssigned s1 newQ np.id true) newQ np.id none (some np)
        else s1
      else
        if podExists q op.id then removePodFrom s oldQ op false else s
  else
    let s1 := if existsIn s oldQ op.id then removePodFrom s oldQ op true else s
    match get? s1 newQ with
    | none => s1
    | some q => if !podExists q np.id && !np.ign then addPodTo s1 newQ np else s1

/-- PodCache lookup -/
def findPod : List Pod → Nat → Option Pod
  | [], _ => none
  | p :: t, i => if p.id = i then some p else findPod t i

/-- QuotaInfo.getCachedPod: the delivered object with the amounts of the object cached in group `n` (if any) -/
def cachedObj (s : State) (n : Nat) (p : PodObj) : PodObj :=
  match get? s n with
  | none => p
  | some q =>
    match findPod q.pods p.id with
    | none => p
    | some e => { p with req := e.req, np := e.np }

/-- OnPodDelete: gives back what the group accounted for the pod (the cached object), not the delivered object -/
def onPodDelete (s : State) (n : Nat) (p : PodObj) : State :=
  if existsIn s n p.id then removePodFrom s n (cachedObj s n p) false else s

/-- ReservePod -/
def reservePod (s : State) (n : Nat) (p : PodObj) : State :=
  if !existsIn s n p.id || assignedIn s n p.id then s
  else updPodUsed (setAssigned s n p.id true) n p.id none (some p)

/-- UnreservePod -/
def unreservePod (s : State) (n : Nat) (p : PodObj) : State :=
  if !existsIn s n p.id || !assignedIn s n p.id then s
  else setAssigned (updPodUsed s n p.id (some p) none) n p.id false

/-- MigratePod (`inQ` must exist: Go dereferences nil otherwise) -/
def migratePod (s : State) (p : PodObj) (out inQ : Nat) : State :=
  let asg := assignedIn s out p.id
  let s1 := updPodReq s out (some p) none
  let s2 := if asg then updPodUsed s1 out p.id (some p) none else s1
  let s3 := cacheRemove s2 out p.id
  -- (fix 5a63beb) a target that already holds the pod is left alone: adding it again would count it twice
  if existsIn s3 inQ p.id then s3 else
  let s4 := cacheAdd s3 inQ p
  -- updatePodIsAssignedNoLock(in, pod, isAssigned): same flag => error, ignored; a DIFFERENT flag is overwritten in
  -- both directions (an entry the target already held as assigned is cleared when the pod is unassigned in `out`)
  let s5 := setAssigned s4 inQ p.id asg
  let s6 := updPodReq s5 inQ none (some p)
  if asg then updPodUsed s6 inQ p.id none (some p) else s6

/-! ### operations as data (for histories) -/

inductive Op where
  | quota (sp : QSpec)
  | delQuota (n : Nat)
  | reset
  | podAdd (n : Nat) (p : PodObj)
  | podUpdate (newQ oldQ : Nat) (np op : PodObj)
  | podDelete (n : Nat) (p : PodObj)
  | reserve (n : Nat) (p : PodObj)
  | unreserve (n : Nat) (p : PodObj)
  | migrate (p : PodObj) (out inQ : Nat)
deriving Repr

def step (s : State) : Op → State
  | .quota sp => updateQuota s sp
  | .delQuota n => deleteQuota s n
  | .reset => resetAll s
  | .podAdd n p => onPodAdd s n p
  | .podUpdate a b np op => onPodUpdate s a b np op
  | .podDelete n p => onPodDelete s n p
  | .reserve n p => reservePod s n p
  | .unreserve n p => unreservePod s n p
  | .migrate p a b => migratePod s p a b

def run (s : State) (ops : List Op) : State := ops.foldl step s

end KoordVerif.C01
