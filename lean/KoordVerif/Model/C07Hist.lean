import KoordVerif.Model.C07
/-
C07 — the decidable history predicates the theorems of Props/C07.lean are stated over, and the sum over
allocateSet.  Core-only (the driver evaluates `opWFB` / `opExact` on every op line and prints the verdict; the
harness computes the same flags on its own and the two are compared).

  pkg/scheduler/plugins/deviceshare/device_cache.go
      nodeDevice.allocateSet[type] : map[NamespacedName]deviceResources         (podsGet / podsSum)
      updateCacheUsed(…, add=false) subtracts the CALLER-SUPPLIED allocation     (opExact, remove case)
-/
namespace KoordVerif.C07

/-- allocateSet[type][pod] -/
def podsGet : List (Nat × DevRes) → Nat → Option DevRes
  | [], _ => none
  | (q, r) :: rest, p => if q = p then some r else podsGet rest p

/-- Σ over the recorded pods of what allocateSet holds for (minor, dimension) -/
def podsSum : List (Nat × DevRes) → Nat → Nat → Int
  | [], _, _ => 0
  | (_, r) :: rest, m, k => drVal r m k + podsSum rest m k

def qNonneg : Q → Bool
  | none => true
  | some x => decide (0 ≤ x)

def rlNonneg (r : RL) : Bool := r.all qNonneg

def nodupB : List Nat → Bool
  | [] => true
  | x :: xs => !xs.contains x && nodupB xs

/-- every amount of an allocation list / inventory is ≥ 0 -/
def amountsOK (al : List (Nat × RL)) : Bool := al.all (fun p => rlNonneg p.2)

/-- a well-formed allocation list: amounts ≥ 0 and one entry per minor -/
def alOK (al : List (Nat × RL)) : Bool := amountsOK al && nodupB (al.map (·.1))

/-- a well-formed inventory (`map[int]ResourceList` built by buildDeviceResources): amounts ≥ 0, one entry per minor -/
def invOK (nt : DevRes) : Bool := amountsOK nt && nodupB (nt.map (·.1))

/-- WEAK well-formedness of an op (all that `free_eq`, the key invariant and the allocator theorems need):
    amounts ≥ 0; an inventory is a map.  Allocation lists may repeat a minor, removals may carry anything. -/
def opWFB : Op → Bool
  | .add _ al => amountsOK al
  | .remove _ al => amountsOK al
  | .refresh nt => invOK nt

def histWFB (ops : List Op) : Bool := ops.all opWFB

/-- EXACT op in state `s` (what `used_eq_sum` needs): an ACCEPTED add carries a well-formed list, an ACCEPTED
    removal carries a well-formed list that is exactly what allocateSet recorded for the pod.  Events the
    duplicate gate drops (add of a recorded pod, removal of an unrecorded one) may carry anything. -/
def opExact (s : TState) : Op → Bool
  | .add p al => hasPod s p || alOK al
  | .remove p al =>
    match podsGet s.pods p with
    | none => true
    | some r => alOK al && decide (recOf al = r)
  | .refresh nt => invOK nt

/-- the history predicate: every op is exact in the state it is applied to -/
def histExact : TState → List Op → Bool
  | _, [] => true
  | s, op :: rest => opExact s op && histExact (step s op) rest

/-- `Covered` of Props/C07.lean as a Bool over the keys the request carries: the device exposes every one of them -/
def coveredB (req f : RL) : Bool :=
  (List.range req.length).all (fun k => !(rlAt req k).isSome || (rlAt f k).isSome)

/-- every chosen minor exposes every resource the request carries -/
def chosenCovered (s : TState) (a : AllocReq) (ms : List Nat) : Bool :=
  ms.all (fun m => match drGet s.free m with
                   | some f => coveredB a.req f
                   | none => true)

/-! ### scheduler histories (hypothesis of `sched_no_overcommit`) -/

/-- ops that cannot create an over-commit, decidable in the state they are applied to:
    an accepted add is an allocator-consistent commit (one entry per minor; every entry non-negative, on a device
    whose free entry satisfies `LessThanOrEqual(entry, free)` and exposes every key of the entry) — this is what
    Reserve commits; removals carry non-negative amounts (anything else is allowed: a removal never raises `used`);
    an inventory refresh does not go below what is in use. -/
def schedOK (s : TState) : Op → Bool
  | .add p al =>
    hasPod s p ||
      (nodupB (al.map (·.1)) &&
        al.all (fun e => rlNonneg e.2 &&
          match drGet s.free e.1 with
          | some f => rlLeq e.2 f && coveredB e.2 f
          | none => false))
  | .remove _ al => amountsOK al
  | .refresh nt =>
    invOK nt &&
      s.used.all (fun e => (List.range e.2.length).all (fun k => decide (rlVal e.2 k ≤ drVal nt e.1 k)))

def histSched : TState → List Op → Bool
  | _, [] => true
  | s, op :: rest => schedOK s op && histSched (step s op) rest

/-! ### devicehandler_gpu.go fillGPUTotalMem (GPU dimensions: 0 gpu-core, 1 gpu-memory, 2 gpu-memory-ratio)

After the fit check the allocation gets the memory dimension the pod did NOT request, derived from the other one and
the card's total memory `tot`: `memoryRatioToBytes = ratio * tot / 100` (integer division) or `memoryBytesToRatio =
int64(float64(bytes) / float64(tot) * 100)` — a float computation, passed in as `b2r` (bytes → total → ratio). -/

def fillMem (b2r : Int → Int → Int) (tot : Int) (req : RL) : RL :=
  match rlAt req 1, rlAt req 2 with
  | some _, some _ => req
  | some b, none => [rlAt req 0, some b, some (b2r b tot)]
  | none, some r => [rlAt req 0, some (r * tot / 100), some r]
  | none, none => [rlAt req 0, none, some (0 * tot / 100)]   -- `gpuMemRatio` is the zero Quantity: gpu-memory := 0

/-- the exact integer reading of memoryBytesToRatio (equal to the float one whenever the quotient is exact) -/
def b2rFloor (b tot : Int) : Int := b * 100 / tot

/-- Reserve of a GPU pod on one card: fit check on the REQUESTED names, then commit of the filled allocation -/
def reserveGPU (b2r : Int → Int → Int) (s : TState) (p : Nat) (req : RL) : Option TState :=
  match allocate s { req := req, desired := 1, npcie := 0, required := [], preferred := [] } with
  | none => none
  | some ms => some (addT s p (ms.map (fun m => (m, fillMem b2r (drVal s.total m 1) req))))

/-! ### informer events: eventhandler_pod.go updatePod / deletePod, seen from ONE device type

A pod object as the handlers read it: `assigned` ⇔ `Spec.NodeName != ""`, `terminated` ⇔ `util.IsPodTerminated`,
`alloc` = the entry of this device type in the `device-allocated` annotation (`none`: the annotation is absent or
does not mention the type).  The functions return the ledger ops the handler performs, in order. -/

structure PodObj where
  assigned   : Bool
  terminated : Bool
  alloc      : Option (List (Nat × RL))
deriving Repr

/-- deletePod: `if NodeName == "" return`; `updateCacheUsed(annotation of THIS object, pod, false)` -/
def deletePodOps (p : Nat) (o : PodObj) : List Op :=
  if !o.assigned then [] else
    match o.alloc with
    | none => []
    | some al => [Op.remove p al]

/-- updatePod(oldPod, pod):
    new object unassigned ⇒ `deletePod(oldPod)` when the old one was assigned, else nothing;
    new object terminated ⇒ `deletePod(pod)` — the NEW object's annotation is subtracted;
    otherwise release the OLD object's allocation (only if the old object was assigned and carries one) and then
    add the NEW object's. -/
def updatePodOps (p : Nat) (old : Option PodObj) (new : PodObj) : List Op :=
  if !new.assigned then
    match old with
    | some o => if o.assigned then deletePodOps p o else []
    | none => []
  else if new.terminated then deletePodOps p new
  else
    (match old with
     | some o => if o.assigned then (match o.alloc with
                                     | some al => [Op.remove p al]
                                     | none => []) else []
     | none => []) ++
    (match new.alloc with
     | some al => [Op.add p al]
     | none => [])

/-- one informer event -/
inductive Ev where
  | podAdd (p : Nat) (o : PodObj)                 -- onPodAdd = updatePod(nil, pod)
  | podUpdate (p : Nat) (old new : PodObj)        -- onPodUpdate
  | podDelete (p : Nat) (o : PodObj)              -- onPodDelete = deletePod(pod)
  | reserve (p : Nat) (al : List (Nat × RL))      -- Plugin.Reserve: updateCacheUsed(result, pod, true)
  | unreserve (p : Nat) (al : List (Nat × RL))    -- Plugin.Unreserve: updateCacheUsed(result, pod, false)
  | device (nt : DevRes)                          -- updateNodeDevice / invalidateNodeDevice
deriving Repr

def evOps : Ev → List Op
  | .podAdd p o => updatePodOps p none o
  | .podUpdate p old new => updatePodOps p (some old) new
  | .podDelete p o => deletePodOps p o
  | .reserve p al => [Op.add p al]
  | .unreserve p al => [Op.remove p al]
  | .device nt => [Op.refresh nt]

def runEv (s : TState) (evs : List Ev) : TState := run s (evs.flatMap evOps)

end KoordVerif.C07
