/-
C02 — runtime quota sharing.  Model of
  pkg/scheduler/plugins/elasticquota/core/runtime_quota_calculator.go
    quotaTree.redistribution, iterationForRedistribution, computeHamiltonDeltas
  and of the version-stamp cache of RuntimeQuotaCalculator.updateOneGroupRuntimeQuota.
One resource dimension; amounts are the int64 values the code works on (CPU in milli).
Unbounded `Int`; the 128-bit `bits.Mul64/Div64` step is exact multiplication/division here
(`Props.C02.div64_no_panic` shows its side condition).  Core-only.
-/
namespace KoordVerif.C02

/-- a `quotaNode` (input part). -/
structure Node where
  name      : Nat
  weight    : Int
  request   : Int
  min       : Int
  guarantee : Int
  lend      : Bool
deriving Repr, DecidableEq

/-- `min := node.min; if node.guarantee > min { min = node.guarantee }` -/
def effMin (n : Node) : Int := if n.guarantee > n.min then n.guarantee else n.min

def needAdjust (n : Node) : Bool := n.request > effMin n

/-- phase 1 of `redistribution`. -/
def initRuntime (n : Node) : Int :=
  if n.request > effMin n then effMin n
  else if n.lend then n.request else effMin n

/-! ### computeHamiltonDeltas -/

structure Entry where
  index : Nat
  rem   : Int
  name  : Nat
deriving Repr, DecidableEq

/-- the `less` of `sort.SliceStable(remainders, …)`: remainder descending, then name ascending. -/
def entryLt (a b : Entry) : Bool :=
  if a.rem ≠ b.rem then a.rem > b.rem else a.name < b.name

/-- `le` for the stable merge sort: `a` may stay before `b` unless `b` is strictly less. -/
def entryLe (a b : Entry) : Bool := !entryLt b a

def baseOf (T W : Int) (n : Node) : Int :=
  if n.weight ≤ 0 then 0 else (n.weight * T) / W

def remOf (T W : Int) (n : Node) : Int := (n.weight * T) % W

/-- entries of the positive-weight nodes, in node order, starting at index `i`. -/
def entriesFrom (T W : Int) : Nat → List Node → List Entry
  | _, [] => []
  | i, n :: ns =>
    if n.weight ≤ 0 then entriesFrom T W (i + 1) ns
    else { index := i, rem := remOf T W n, name := n.name } :: entriesFrom T W (i + 1) ns

def bump (ds : List Int) (i : Nat) : List Int := ds.modify i (· + 1)

def hamilton (T W : Int) (ns : List Node) : List Int :=
  if W ≤ 0 ∨ T ≤ 0 ∨ ns = [] then ns.map (fun _ => 0) else
  let bases := ns.map (baseOf T W)
  let entries := entriesFrom T W 0 ns
  let residual := T - bases.sum
  if residual ≤ 0 ∨ entries = [] then bases else
  let sorted := entries.mergeSort entryLe
  ((sorted.take residual.toNat).map (·.index)).foldl bump bases

/-! ### iterationForRedistribution -/

/-- one round: add the deltas, split into still-unsatisfied and capped nodes. -/
def addDeltas : List (Node × Int) → List Int → List (Node × Int)
  | p :: ps, d :: ds => (p.1, p.2 + d) :: addDeltas ps ds
  | _, _ => []

def stillOf (ns : List (Node × Int)) : List (Node × Int) := ns.filter (fun p => p.2 < p.1.request)

def cappedOf (ns : List (Node × Int)) : List (Node × Int) := ns.filter (fun p => !(p.2 < p.1.request))

def surplusOf (ns : List (Node × Int)) : Int := ((cappedOf ns).map (fun p => p.2 - p.1.request)).sum

def weightSum (ns : List (Node × Int)) : Int := (ns.map (·.1.weight)).sum

/-- returns the final (node, runtime) pairs and the amount that could not be handed out.
    `fuel` bounds the recursion depth; `ns.length` always suffices (`Props.C02`). -/
def iter : Nat → Int → Int → List (Node × Int) → List (Node × Int) × Int
  | 0, T, _, ns => (ns, T)
  | fuel + 1, T, W, ns =>
    if W ≤ 0 ∨ T ≤ 0 ∨ ns = [] then (ns, T) else
    let ns' := addDeltas ns (hamilton T W (ns.map (·.1)))
    let still := stillOf ns'
    let done := (cappedOf ns').map (fun p => (p.1, p.1.request))
    let surplus := surplusOf ns'
    if surplus > 0 ∧ still ≠ [] then
      let r := iter fuel surplus (weightSum still) still
      (done ++ r.1, r.2)
    else (done ++ still, surplus)

/-! ### redistribution -/

def initAll (ns : List Node) : List (Node × Int) := ns.map (fun n => (n, initRuntime n))

def runtimeSum (ps : List (Node × Int)) : Int := (ps.map (·.2)).sum

/-- (nodes not needing adjustment ++ adjusted nodes, leftover). -/
def redistributeN (total : Int) (ns : List Node) : List (Node × Int) × Int :=
  let init := initAll ns
  let toPart := total - runtimeSum init
  let adj := init.filter (fun p => needAdjust p.1)
  let rest := init.filter (fun p => !needAdjust p.1)
  if toPart > 0 then
    let r := iter adj.length toPart (weightSum adj) adj
    (rest ++ r.1, r.2)
  else (rest ++ adj, toPart)

/-- the observable result: runtime quota per node name. -/
def redistribute (total : Int) (ns : List Node) : List (Nat × Int) :=
  (redistributeN total ns).1.map (fun p => (p.1.name, p.2))

/-! ### top-down refresh along a path (GroupQuotaManager.refreshRuntimeNoLock) -/

def lookupRt (name : Nat) (rs : List (Nat × Int)) : Option Int :=
  (rs.find? (fun p => p.1 == name)).map (·.2)

/-- runtime of child `name` among its siblings `ns` when the parent has `total`. -/
def levelRuntime (total : Int) (ns : List Node) (name : Nat) : Option Int :=
  lookupRt name (redistribute total ns)

/-- walk from the root down: each level is (the sibling set, the name of the path's node in it);
    the node's runtime becomes the total of the next level. -/
def refreshPath : Int → List (List Node × Nat) → Option Int
  | total, [] => some total
  | total, (ns, name) :: rest =>
    match levelRuntime total ns name with
    | some rt => refreshPath rt rest
    | none => none

/-! ### version-stamped cache (updateOneGroupRuntimeQuota / getVersion) -/

/-- one calculator (one dimension) and the stamp/runtime recorded on each child quota. -/
structure Calc where
  version : Nat
  total   : Int
  nodes   : List Node
  /-- per child name: (RuntimeVersion, Runtime) last written into its QuotaInfo -/
  cache   : List (Nat × Nat × Int)
deriving Repr

inductive CalcOp where
  | setTotal (t : Int)            -- setClusterTotalResource
  | upsert (n : Node)             -- updateOneGroup{MaxQuota,MinQuota,SharedWeight,Request,Guaranteed}
  | erase (name : Nat)            -- deleteOneGroup
  | refresh (name : Nat)          -- refreshRuntime step 2 for one child
deriving Repr

def cacheGet (name : Nat) : List (Nat × Nat × Int) → Option (Nat × Int)
  | [] => none
  | (k, v) :: rest => if k = name then some v else cacheGet name rest

/-- newest binding first; older bindings of the same name are shadowed. -/
def cachePut (name : Nat) (v : Nat × Int) (c : List (Nat × Nat × Int)) : List (Nat × Nat × Int) :=
  (name, v) :: c

/-- `calculateRuntimeNoLock` + copy the node's runtime into the QuotaInfo + stamp the version.
    (A child the calculator does not hold reads as 0 here.) -/
def Calc.recompute (c : Calc) (nm : Nat) : Calc :=
  { c with cache := cachePut nm (c.version, (lookupRt nm (redistribute c.total c.nodes)).getD 0) c.cache }

def Calc.step (c : Calc) : CalcOp → Calc
  | .setTotal t => { c with total := t, version := c.version + 1 }
  | .upsert n => { c with nodes := n :: c.nodes.filter (fun m => m.name != n.name), version := c.version + 1 }
  | .erase nm => { c with nodes := c.nodes.filter (fun m => m.name != nm), version := c.version + 1 }
  | .refresh nm =>
    match cacheGet nm c.cache with
    | some (v, _) => if v = c.version then c else c.recompute nm
    | none => c.recompute nm

end KoordVerif.C02
