import KoordVerif.Model.C18
/-
C18 — measured usage of a node, and which capacity every percentage formula divides by.  Model of
  pkg/descheduler/framework/plugins/loadaware/utilization_util.go
      getNodeUsage                      (usage / prodUsage / podMetrics of one node)
      GetNodeRawAllocatableFromNode     (raw-allocatable annotation, fallback to status.allocatable)
Pods and pod-metric entries are identified by (namespace, name), both small naturals.  The Go code
builds the string key "namespace/name" (`fmt.Sprintf("%s/%s", …)`) for the prod lookup table and a
`types.NamespacedName` for the per-pod metric table; Kubernetes names contain no '/', so both are
the pair.  Core-only.
-/
namespace KoordVerif.C18

/-- namespace, name -/
abbrev Key := Nat × Nat

/-- one element of NodeMetric.Status.PodsMetric: key and the reported usage of the tracked-able
    resources (cpu milli, memory bytes).  The same key may occur twice, and a key need not belong
    to a pod that is (still) assigned to the node. -/
structure MetricEntry where
  key : Key
  use : Vec
deriving Repr, DecidableEq

/-- a pod as listed by GetPodsAssignedToNodeFunc. -/
structure PodRef where
  key  : Key
  prod : Bool
deriving Repr, DecidableEq

/-- getNodeUsage: `prodPodsMap` — the keys of the prod pods of the node, keyed by namespace AND name. -/
def prodKeys (pods : List PodRef) : List Key := (pods.filter (·.prod)).map (·.key)

def vsum (zero : Vec) (vs : List Vec) : Vec := vs.foldl vadd zero

/-- getNodeUsage: `usage[r] = sysUsage[r] + Σ PodsMetric[r]` — every reported entry counts. -/
def measuredUsage (sys : Vec) (ms : List MetricEntry) : Vec := vsum sys (ms.map (·.use))

/-- getNodeUsage: `prodUsage[r] = Σ PodsMetric[r]` over the entries whose namespace/name key is a
    key of `prodPodsMap`. -/
def measuredProdUsage (zero : Vec) (pods : List PodRef) (ms : List MetricEntry) : Vec :=
  vsum zero ((ms.filter fun m => (prodKeys pods).contains m.key).map (·.use))

/-- getNodeUsage: `podMetrics[NamespacedName]` — a later entry with the same key overwrites. -/
def podMetric? : List MetricEntry → Key → Option Vec
  | [], _ => none
  | m :: ms, k => match podMetric? ms k with
    | some v => some v
    | none => if m.key = k then some m.use else none

/-- `usage[pods] = len(pods)`, `prodUsage[pods] = len(prodPods)`. -/
def podCount (prodOnly : Bool) (pods : List PodRef) : Int :=
  if prodOnly then ((pods.filter (·.prod)).length : Int) else (pods.length : Int)

/-! ### which capacity -/

/-- what extension.GetNodeRawAllocatable made of the annotation. -/
inductive RawAnno where
  | absent                 -- no annotation: (nil, nil)
  | unparsable             -- json error: logged, fallback
  | parsed (raw : List (Option Int))  -- per resource: the annotation's entry, `none` = not named
deriving Repr, DecidableEq

/-- status.allocatable overlaid with the annotation's entries (the annotation wins per resource;
    the webhook records cpu and memory only, every other resource keeps its status value). -/
def overlay : Vec → List (Option Int) → Vec
  | a :: as, r :: rs => r.getD a :: overlay as rs
  | as, [] => as
  | [], _ => []

/-- GetNodeRawAllocatableFromNode. -/
def rawAllocatable (alloc : Vec) : RawAnno → Vec
  | .absent => alloc
  | .unparsable => alloc
  | .parsed raw => overlay alloc raw

/-- the places of the package that turn a usage into a percentage / score of a capacity. -/
inductive CapUse where
  | thresholds      -- getNodeThresholds → resourceThreshold (percent → quantity)
  | poolAverage     -- calcAverageResourceUsagePercent (deviation mode)
  | percentLog      -- resourceUsagePercentages (logs, eviction reason)
  | nodeScore       -- sortNodesByUsage
  | podScore        -- sortPodsOnOneOverloadedNode (passed on to SortPodsByUsage, which ignores it)
deriving Repr, DecidableEq

inductive CapKind where
  | raw | amplified
deriving Repr, DecidableEq

/-- every formula divides by the RAW allocatable; `node.Status.Allocatable` is read only as the
    fallback inside GetNodeRawAllocatableFromNode (tied to the source by Ties/C18). -/
def capKindOf : CapUse → CapKind
  | .thresholds => .raw
  | .poolAverage => .raw
  | .percentLog => .raw
  | .nodeScore => .raw
  | .podScore => .raw

def capUses : List CapUse := [.thresholds, .poolAverage, .percentLog, .nodeScore, .podScore]

/-- the Go function behind each entry of the table (compared with the extracted caller list). -/
def CapUse.goFunc : CapUse → String
  | .thresholds => "getNodeThresholds"
  | .poolAverage => "calcAverageResourceUsagePercent"
  | .percentLog => "resourceUsagePercentages"
  | .nodeScore => "sortNodesByUsage"
  | .podScore => "sortPodsOnOneOverloadedNode"

def capacityFor (u : CapUse) (alloc : Vec) (a : RawAnno) : Vec :=
  match capKindOf u with
  | .raw => rawAllocatable alloc a
  | .amplified => alloc

end KoordVerif.C18
