import KoordVerif.Model.C09
/-
C09 — plugin glue around the two calculators.  Model of
  pkg/slo-controller/noderesource/plugins/midresource/plugin.go
      Calculate, isDegradeNeeded, calculate, getUnallocated, getNodeUnused, Prepare, NeedSync
  pkg/slo-controller/noderesource/plugins/batchresource/plugin.go
      Prepare (origin annotation, third-party allocations), NeedSync
  pkg/slo-controller/noderesource/plugins/util/util.go
      PrepareNodeForResource (incl. cpu-normalization amplification), getPercentFromStrategy, IsValidNodeUsage
  pkg/util/resource.go      IsResourceDiff, IsQuantityDiff
  pkg/slo-controller/noderesource/resource_calculator.go
      updateNodeResource, isNodeResourceSyncNeeded, isCommonNodeNeedSync   (one reconcile = one step)
  pkg/slo-controller/noderesource/noderesource_controller.go  Reconcile (disabled config => Reset of every item)
Amounts: cpu in milli-cores, memory in bytes; the extended resources batch-cpu / mid-cpu carry the
milli-core number as a plain integer quantity.  Core-only.
-/
namespace KoordVerif.C09

/-! ### mid tier: strategy defaulting (getPercentFromStrategy) -/

/-- defaults of sloconfig.DefaultColocationStrategy used by getPercentFromStrategy (tied by Ties/C09). -/
structure MidDefaults where
  cpuThr : Int
  memThr : Int
  cpuRes : Int
  memRes : Int
  unalloc : Int
deriving Repr, DecidableEq

def stdMidDefaults : MidDefaults := { cpuThr := 100, memThr := 100, cpuRes := 0, memRes := 0, unalloc := 0 }

/-- the mid part of ColocationStrategy; `none` = nil pointer. -/
structure MidStrategy where
  static : Bool             -- MidReclaimMode != nil && == "static"
  cpuThr : Option Int       -- MidCPUThresholdPercent
  memThr : Option Int
  cpuRes : Option Int       -- MidStaticCPUReservedPercent
  memRes : Option Int
  unalloc : Option Int      -- MidUnallocatedPercent
deriving Repr

def MidStrategy.thr (df : MidDefaults) (m : MidStrategy) : Dim → Int
  | .cpu => m.cpuThr.getD df.cpuThr | .mem => m.memThr.getD df.memThr
def MidStrategy.res (df : MidDefaults) (m : MidStrategy) : Dim → Int
  | .cpu => m.cpuRes.getD df.cpuRes | .mem => m.memRes.getD df.memRes
def MidStrategy.una (df : MidDefaults) (m : MidStrategy) : Int := m.unalloc.getD df.unalloc

/-- the NodeMetric parts only the mid plugin reads. -/
structure MidMetric where
  hasReclaim : Bool      -- Status.ProdReclaimableMetric != nil && .Resource.ResourceList != nil
  recC : Int
  recM : Int
  usageValid : Bool      -- IsValidNodeUsage: NodeUsage list has both a cpu and a memory key
  useC : Int
  useM : Int
deriving Repr

def MidMetric.recl (m : MidMetric) : Dim → Int | .cpu => m.recC | .mem => m.recM
def MidMetric.use (m : MidMetric) : Dim → Int | .cpu => m.useC | .mem => m.useM

/-- getUnallocated: "high priority" here is stricter than in the batch plugin: neither mid, batch nor free.
    NOTE the priority filter comes before the phase filter (same result). -/
def isProdForMid (p : Prio) : Bool := p != .mid && p != .batch && p != .free

def midProdAllocated (pods : List PodIn) (d : Dim) : Int :=
  ((pods.filter (fun p => isProdForMid p.prio && p.active)).map (fun p => match d with | .cpu => p.reqC | .mem => p.reqM)).sum

/-- plugin.go calculate: nodeReserved := Max(Max(kubelet, anno), systemUsed + hostApps(> mid)). -/
def midReserved (k : PrioConsts) (n : NodeIn) (hs : List HostApp) (d : Dim) : Int :=
  max (nodeReserved n d) (n.sys d + hostHPUsed k .mid hs d)

/-- getUnallocated: max(capacity − reserved − Σ prod requests, 0) -/
def midUnallocated (k : PrioConsts) (n : NodeIn) (hs : List HostApp) (pods : List PodIn) (d : Dim) : Int :=
  max (n.cap d - midReserved k n hs d - midProdAllocated pods d) 0

/-- getNodeUnused: capacity − node usage, or the empty list (= 0) when the usage is invalid. -/
def midNodeUnused (n : NodeIn) (mm : MidMetric) (d : Dim) : Int :=
  if mm.usageValid then n.cap d - mm.use d else 0

def midReclaimable (mm : MidMetric) (d : Dim) : Int := if mm.hasReclaim then mm.recl d else 0

/-- plugin.go calculate, one dimension. -/
def midAmount (F : FloatOps) (k : PrioConsts) (df : MidDefaults) (ms : MidStrategy) (n : NodeIn) (hs : List HostApp)
    (pods : List PodIn) (mm : MidMetric) (d : Dim) : Int :=
  if ms.static then midStatic F (n.cap d) (ms.res df d) (ms.thr df d)
  else midByPolicy F (n.cap d) (midUnallocated k n hs pods d) (midNodeUnused n mm d) (midReclaimable mm d)
         (ms.una df) (ms.thr df d)

inductive MidOut
  | error                       -- "missing essential arguments" (node.Status.Allocatable == nil)
  | degraded                    -- every item Reset
  | mid (cpu mem : Int)
deriving Repr, DecidableEq

/-- midresource Plugin.Calculate. -/
def midCalculate (F : FloatOps) (k : PrioConsts) (df : MidDefaults) (ms : MidStrategy) (degradeMin : Int)
    (n : NodeIn) (allocNil : Bool) (hs : List HostApp) (pods : List PodIn) (mm : MidMetric)
    (hasUpdateTime : Bool) (now upd : Int) : MidOut :=
  if allocNil then .error
  else if isDegradeNeeded hasUpdateTime now upd degradeMin then .degraded
  else .mid (midAmount F k df ms n hs pods mm .cpu) (midAmount F k df ms n hs pods mm .mem)

/-! ### Prepare: what lands in node.Status.Allocatable / Capacity -/

/-- an extended resource on the node: absent or an integer quantity. -/
abbrev Ext := Option Int

/-- util.go PrepareNodeForResource for a resource that is not amplified: nil quantity or Reset ⇒ deleted. -/
def prepareRes (q : Option Int) (reset : Bool) : Ext :=
  match q with
  | none => none
  | some v => if reset then none else some v

/-- Quantity.Value() of a milli quantity: rounds up. -/
def milliToValue (m : Int) : Int := -((-m) / 1000)

/-- batch-cpu: amplified by the cpu-normalization ratio when ratio > 1.0 (ratio given in percent):
    MultiplyMilliQuant(q, ratio) on q's milli value, then rounded up to an integer. -/
def amplify (F : FloatOps) (ratioPct : Option Int) (v : Int) : Int :=
  match ratioPct with
  | none => v
  | some r => if r > 100 then milliToValue (F.mulPct (1000 * v) r) else v

def prepareBatchCPU (F : FloatOps) (ratioPct : Option Int) (q : Option Int) (reset : Bool) : Ext :=
  (prepareRes q reset).map (amplify F ratioPct)

/-- midresource Plugin.Prepare applied to the outcome of Calculate. -/
def midPrepare : MidOut → Ext × Ext
  | .error => (none, none)         -- nothing was Set: nr.Resources[name] == nil
  | .degraded => (none, none)
  | .mid c m => (some c, some m)

/-- third-party (e.g. YARN) batch allocations recorded on the node annotation. -/
inductive ThirdParty
  | absent                       -- no annotation: nothing subtracted
  | bad                          -- unparsable annotation: Prepare returns the error, amounts stay
  | some (cpu mem : Option Int)  -- summed batch-priority allocations; a missing key subtracts nothing
deriving Repr, DecidableEq

structure BatchPrepared where
  cpu : Ext
  mem : Ext
  origin : Option (Int × Int)    -- the originExtendedAllocatable annotation (lost when node.Annotations == nil)
deriving Repr, DecidableEq

/-- batchresource Plugin.Prepare on the calculated (cpu, mem) quantities. -/
def batchPrepare (F : FloatOps) (ratioPct : Option Int) (annoNil : Bool) (tp : ThirdParty)
    (qc qm : Option Int) (reset : Bool) : BatchPrepared :=
  let c := prepareBatchCPU F ratioPct qc reset
  let m := prepareRes qm reset
  let bc := c.getD (-1)
  let bm := m.getD (-1)
  let oc := max bc 0
  let om := max bm 0
  let origin := if annoNil then none else some (oc, om)
  if bc < 0 ∨ bm < 0 then { cpu := c, mem := m, origin := origin }
  else match tp with
    | .absent | .bad => { cpu := c, mem := m, origin := origin }
    | .some tc tm => { cpu := some (max (oc - tc.getD 0) 0), mem := some (max (om - tm.getD 0) 0), origin := origin }

/-- what the batch plugin hands to Prepare for the outcome of Calculate. -/
def batchOutQuantities : Out → Option Int × Option Int × Bool
  | .degraded => (none, none, true)
  | .batch c m _ => (some c, some m, false)

/-! ### NeedSync -/

/-- `IsQuantityDiff`: |new − old| > old · threshold, evaluated in float64 on milli values;
    the threshold is given in permille (`float64(k)/1000`). -/
structure DiffOps where
  diffGt : Int → Int → Int → Bool      -- oldMilli newMilli thresholdPermille

/-- util.IsResourceDiff on one extended resource (values are integers, MilliValue = 1000·v). -/
def resDiff (D : DiffOps) (thr : Int) (old new : Ext) : Bool :=
  match old, new with
  | none, none => false
  | some _, none => true
  | none, some _ => true
  | some o, some n => D.diffGt (1000 * o) (1000 * n) thr

/-- the four extended resources of a node. -/
structure Pub where
  bc : Ext
  bm : Ext
  mc : Ext
  mm : Ext
deriving Repr, DecidableEq

def Pub.empty : Pub := { bc := none, bm := none, mc := none, mm := none }

/-- midresource / batchresource Plugin.NeedSync -/
def midNeedSync (D : DiffOps) (thr : Int) (old new : Pub) : Bool :=
  resDiff D thr old.mc new.mc || resDiff D thr old.mm new.mm
def batchNeedSync (D : DiffOps) (thr : Int) (old new : Pub) : Bool :=
  resDiff D thr old.bc new.bc || resDiff D thr old.bm new.bm

/-- framework.RunNodeStatusCheckExtenders with the registration order mid, batch. -/
def pluginsNeedSync (D : DiffOps) (thr : Int) (old new : Pub) : Bool :=
  midNeedSync D thr old new || batchNeedSync D thr old new

/-- isCommonNodeNeedSync: never synced, or the last sync is older than UpdateTimeThresholdSeconds. -/
def commonNeedSync (last : Option Int) (now interval : Int) : Bool :=
  match last with
  | none => true
  | some t => now - t > interval

/-! ### one reconcile -/

structure RState where
  pub : Pub                  -- the node object's extended resources
  lastSync : Option Int      -- NodeSyncContext entry (seconds)
deriving Repr, DecidableEq

def RState.init : RState := { pub := Pub.empty, lastSync := none }

/-- updateNodeResource: the prepared amounts replace the node's only when a sync is needed. -/
def reconcileStep (D : DiffOps) (thr interval now : Int) (st : RState) (computed : Pub) : RState :=
  if commonNeedSync st.lastSync now interval || pluginsNeedSync D thr st.pub computed
  then { pub := computed, lastSync := some now } else st

/-- Reconcile: what the two plugins compute for one (strategy, node, metric, pods) snapshot.
    `enabled = false` (colocation disabled in the config) ⇒ Reset of every item. -/
def computedPub (F : FloatOps) (k : PrioConsts) (df : MidDefaults) (enabled : Bool) (s : Strategy) (ms : MidStrategy)
    (n : NodeIn) (allocNil : Bool) (hs : List HostApp) (pods : List PodIn) (mets : List Metric) (mm : MidMetric)
    (hasUpdateTime : Bool) (now upd : Int) : Pub :=
  if !enabled then Pub.empty else
  let (mc, mmem) := midPrepare (midCalculate F k df ms s.degradeMin n allocNil hs pods mm hasUpdateTime now upd)
  let (qc, qm, rs) := batchOutQuantities (calculate F k s n hs pods mets [] hasUpdateTime now upd)
  let b := batchPrepare F none false .absent qc qm rs
  { bc := b.cpu, bm := b.mem, mc := mc, mm := mmem }

/-- one reconcile of a history: the strategy's sync thresholds at that time, the clock, and what the plugins
    computed for the snapshot (any function of strategy, node, metric, pods). -/
structure Round where
  thr : Int          -- ResourceDiffThreshold in permille
  interval : Int     -- UpdateTimeThresholdSeconds
  now : Int
  computed : Pub
deriving Repr

def runHist (D : DiffOps) : RState → List Round → RState
  | st, [] => st
  | st, r :: rest => runHist D (reconcileStep D r.thr r.interval r.now st r.computed) rest

end KoordVerif.C09
