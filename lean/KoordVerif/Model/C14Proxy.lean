import KoordVerif.Model.C14
/-
C14, runtime-proxy glue: how the koordlet hook answer is mirrored into the outgoing CRI request.
Core Lean only (linked into drv_c14).

Go: pkg/runtimeproxy/resexecutor/cri/utils.go  (updateResource, updateResourceByUpdateContainerResourceRequest)
    pkg/runtimeproxy/resexecutor/cri/container.go (ContainerResourceExecutor.ParseRequest / UpdateRequest /
      ResourceCheckPoint / DeleteCheckpointIfNeed / ParseContainer) driven in the order of
    pkg/runtimeproxy/server/cri/criserver.go InterceptRuntimeRequest:
      ParseRequest -> (hook sees GenerateHookRequest) -> UpdateRequest(if a response came) -> backend -> ResourceCheckPoint.

Mirrors the code AS WRITTEN:
* CpuQuota is taken over when `!= 0` ("-1 is valid"), CpuPeriod / CpuShares / MemoryLimitInBytes only when `> 0`
  (so a memory answer of -1 is NOT taken over);
* the hook answer replaces the cpuset strings unconditionally (koordlet echoes the request's resources), the
  kubelet's UpdateContainerResources request only when non-empty;
* the in-memory store hands out the stored object itself (`c.ContainerInfo = *containerCheckPoint` copies a struct
  that embeds a POINTER), so the merges of an update are visible in the checkpoint without a new checkpoint call;
* a container known only from fail-over (ParseContainer) has no resources: both merges return nil and the request
  passes as sent.
-/
namespace KoordVerif.C14

/-- the observed projection of LinuxContainerResources; cpuset strings are small codes, 0 = "". -/
structure CriRes where
  period : Int
  quota  : Int
  shares : Int
  mem    : Int
  cpus   : Nat
  mems   : Nat
deriving DecidableEq, Repr, Inhabited

def CriRes.zero : CriRes := ⟨0, 0, 0, 0, 0, 0⟩

/-- utils.go updateResource (hook answer `b` onto executor state `a`), observed fields. -/
def mergeHook (a b : CriRes) : CriRes :=
  { period := if b.period > 0 then b.period else a.period
    quota  := if b.quota ≠ 0 then b.quota else a.quota     -- "-1 is valid"
    shares := if b.shares > 0 then b.shares else a.shares
    mem    := if b.mem > 0 then b.mem else a.mem
    cpus   := b.cpus
    mems   := b.mems }

/-- utils.go updateResourceByUpdateContainerResourceRequest (kubelet's request `b` onto the checkpoint `a`). -/
def mergeUpd (a b : CriRes) : CriRes :=
  { period := if b.period > 0 then b.period else a.period
    quota  := if b.quota ≠ 0 then b.quota else a.quota     -- "-1 is valid"
    shares := if b.shares > 0 then b.shares else a.shares
    mem    := if b.mem > 0 then b.mem else a.mem
    cpus   := if b.cpus ≠ 0 then b.cpus else a.cpus
    mems   := if b.mems ≠ 0 then b.mems else a.mems }

/-- what came back from the hook dispatcher. -/
inductive HookResp where
  | noResp                 -- no hook server / dispatch error: UpdateRequest is not called
  | noRes                  -- a response whose ContainerResources is nil
  | res (r : CriRes)
deriving Repr

/-- store entry of one container: `none` unknown, `some none` known without resources (fail-over),
    `some (some r)` checkpointed resources. -/
abbrev Ck := Option (Option CriRes)

/-- UpdateRequest: executor state after the hook merge, and the resources of the outgoing request
    (`req` = what the caller sent, kept when the executor has no resources or no response came). -/
def applyResp (cur : Option CriRes) (resp : HookResp) (req : CriRes) : Option CriRes × CriRes :=
  match resp with
  | .noResp => (cur, req)
  | .noRes => (cur, cur.getD req)                       -- updateResource(a, nil) = a
  | .res b =>
    let cur' := cur.map (fun a => mergeHook a b)        -- updateResource(nil, b) = nil
    (cur', cur'.getD req)

structure ProxyOut where
  hook : Option (Option CriRes)   -- none: ParseRequest failed; some x: ContainerResources of the hook request
  out  : CriRes                    -- resources of the request handed to the runtime
deriving Repr

/-- CreateContainer: state from the request, hook merge, checkpoint. -/
def proxyCreate (orig : CriRes) (resp : HookResp) : Ck × ProxyOut :=
  let (cur', out) := applyResp (some orig) resp orig
  (some cur', { hook := some (some orig), out := out })

/-- UpdateContainerResources. -/
def proxyUpdate (ck : Ck) (req : CriRes) (resp : HookResp) : Ck × ProxyOut :=
  match ck with
  | none => (none, { hook := none, out := req })          -- load fails: no hook, request passes as sent
  | some cur =>
    let cur1 := cur.map (fun a => mergeUpd a req)
    let (cur', out) := applyResp cur1 resp req
    (some cur', { hook := some cur1, out := out })

/-- koordlet's side of the exchange (pkg/koordlet/runtimehooks/proxyserver/service.go: the response starts as an
    echo of the request's ContainerResources; protocol/container_context.go ContainerResponse.ProxyDone overrides
    the fields the hooks set).  `o` = what the batchresource container hook injected (`none`: untouched).
    Used by the theorems only; the koordlet half is run by harness `entry`, the proxy half by `criproxy`. -/
def koordletAnswer (seen : CriRes) (o : Option Out) : CriRes :=
  match o with
  | none => seen
  | some o => { seen with shares := o.shares, quota := o.quota, mem := o.mem }

end KoordVerif.C14
