import KoordVerif.Model.C12
/-
C12 — cgroup directories that do not exist (yet / any more) while a batch runs.
  pkg/koordlet/resourceexecutor/executor.go   LeveledUpdateBatch: the `continue` branches after MergeUpdate()/update()
  pkg/koordlet/resourceexecutor/cgroup.go     cgroupFileRead / cgroupFileWriteIfDifferent / cgroupFileWrite:
                                              IsCgroupPathExist false ⇒ ResourceCgroupDirErr
  pkg/koordlet/resourceexecutor/executor.go   isUpdateErrIgnored: IsCgroupDirErr / IsResourceUnsupportedErr ⇒ ignored
As written: for a directory that does not exist
  * pass 1, mergeable resource: MergeFuncUpdateCgroup validates the new value, then cgroupFileRead fails with the
    cgroup-dir error ⇒ `(resource, err)` ⇒ `continue` — nothing written, NOTHING CACHED, skipMerge untouched;
  * pass 1, resource without merge function: MergeUpdate = `(nil, updateFunc(u))`, the error is tested BEFORE
    `mergedUpdater == nil` ⇒ `continue` — skipMerge is NOT set, nothing cached;
  * pass 2: `updater.update()` fails the same way ⇒ `continue` — nothing cached.
(An ignored error and a hard error take the same `continue`; only the log line differs.)  A needUpdate()==false
updater is skipped before any file access.  So on a missing directory every step is the identity.  Core-only.
-/
namespace KoordVerif.C12

/-- a step of either pass on a tree where only the directories with `ex n = true` exist. -/
def stepE {α} (ex : Nat → Bool) (step : St α → Upd α → St α × List (Write α)) :
    St α → Upd α → St α × List (Write α) :=
  fun s u => if ex u.node then step s u else (s, [])

/-- LeveledUpdateBatch on a tree with missing directories. -/
def runBatchE {α} (D : Dom α) (expired : Bool) (ex : Nat → Bool) (levels : List (List (Upd α))) (s : St α) :
    St α × List (Write α) :=
  let r1 := runPass (stepE ex (step1 D expired)) levels.flatten { s with skip := [] }
  let r2 := runPass (stepE ex (step2 D expired)) (sweep2 levels) r1.1
  (r2.1, r1.2 ++ r2.2)

end KoordVerif.C12
