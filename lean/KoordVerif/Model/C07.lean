/-
C07 — device accounting.  Model of
  pkg/scheduler/plugins/deviceshare/device_cache.go
      nodeDevice.{updateCacheUsed, isValid, updateDeviceUsed, resetDeviceFree, updateAllocateSet,
                  resetDeviceTotal, calcFreeWithPreemptible, filter}, buildDeviceResources
  pkg/scheduler/plugins/deviceshare/device_allocator.go
      allocateDevices (desired / maxDesired normalisation), defaultAllocateDevices
  pkg/scheduler/plugins/deviceshare/device_resources.go
      scoreDevices + sortDeviceResourcesByMinor (scorer = nil: preferred first, then minor)
  pkg/scheduler/plugins/deviceshare/devicehandler_default.go  CalcDesiredRequestsAndCount (no hint)
  k8s.io/apiserver/pkg/quota/v1  Add, SubtractWithNonNegativeResult, IsZero, LessThanOrEqual
  pkg/util/resource.go  MinResourceList

A `corev1.ResourceList` is a PARTIAL map; the code's behaviour depends on key presence
(`LessThanOrEqual(a,b)` only inspects keys of `b`; `IsZero`; union of keys in Add/Subtract), so a
resource list is a vector of `Option Int` over a fixed dimension list (`none` = key absent), padded
with `none`.  `deviceResources` (map minor -> ResourceList) is an association list read with
first-match lookup.  One `TState` is the ledger of ONE device type of one node (the code treats
device types independently; the driver keeps one `TState` per type).  Core-only.
-/
namespace KoordVerif.C07

abbrev Q := Option Int
abbrev RL := List Q

def qVal : Q → Int
  | none => 0
  | some x => x

def rlAt : RL → Nat → Q
  | [], _ => none
  | q :: _, 0 => q
  | _ :: r, k+1 => rlAt r k

/-- value of dimension `k`, missing = 0 -/
def rlVal (r : RL) (k : Nat) : Int := qVal (rlAt r k)

/-- quotav1.Add at one key -/
def qAdd : Q → Q → Q
  | none, none => none
  | some x, none => some x
  | none, some y => some y
  | some x, some y => some (x + y)

/-- quotav1.SubtractWithNonNegativeResult at one key (keys of both operands appear in the result) -/
def qSubNN : Q → Q → Q
  | none, none => none
  | some x, none => some (if x > 0 then x else 0)
  | none, some _ => some 0
  | some x, some y => some (if x - y > 0 then x - y else 0)

/-- quotav1.LessThanOrEqual(a, b) at one key: only keys present in BOTH are compared -/
def qLeq : Q → Q → Bool
  | some x, some y => decide (x ≤ y)
  | _, _ => true

def qZero : Q → Bool
  | none => true
  | some x => x == 0

/-- util.MinResourceList at one key: only keys present in both survive -/
def qMin : Q → Q → Q
  | some x, some y => some (if x ≥ y then y else x)
  | _, _ => none

def zipPad (f : Q → Q → Q) : RL → RL → RL
  | [], bs => bs.map (fun b => f none b)
  | a :: as, [] => f a none :: zipPad f as []
  | a :: as, b :: bs => f a b :: zipPad f as bs

def rlAdd (a b : RL) : RL := zipPad qAdd a b
def rlSubNN (a b : RL) : RL := zipPad qSubNN a b
def rlMin (a b : RL) : RL := zipPad qMin a b

def rlLeq : RL → RL → Bool
  | [], bs => bs.all (fun b => qLeq none b)
  | a :: as, [] => qLeq a none && rlLeq as []
  | a :: as, b :: bs => qLeq a b && rlLeq as bs

def rlIsZero (a : RL) : Bool := a.all qZero

/-! ### deviceResources : map[int]corev1.ResourceList -/

abbrev DevRes := List (Nat × RL)

def drGet : DevRes → Nat → Option RL
  | [], _ => none
  | (k, v) :: r, m => if k = m then some v else drGet r m

def drHas (d : DevRes) (m : Nat) : Bool := (drGet d m).isSome

/-- `d[m]` with the Go zero value (nil list) for a missing key -/
def drGetD (d : DevRes) (m : Nat) : RL := (drGet d m).getD []

def drSet : DevRes → Nat → RL → DevRes
  | [], m, v => [(m, v)]
  | (k, w) :: r, m, v => if k = m then (k, v) :: r else (k, w) :: drSet r m v

def drErase (d : DevRes) (m : Nat) : DevRes := d.filter (fun p => p.1 != m)

def drVal (d : DevRes) (m k : Nat) : Int := rlVal (drGetD d m) k

/-- deviceResources.isZero -/
def drIsZero (d : DevRes) : Bool := d.all (fun p => rlIsZero p.2)

/-! ### the per-type ledger -/

structure TState where
  total : DevRes
  free  : DevRes
  used  : DevRes
  pods  : List (Nat × DevRes)   -- allocateSet[type] : pod -> minor -> resources
deriving Repr

def TState.empty : TState := { total := [], free := [], used := [], pods := [] }

/-- resetDeviceFree writes `deviceTotal[type][minor] = {}` for every used minor that has no total entry. -/
def addPhantoms (total used : DevRes) : DevRes :=
  total ++ (used.filter (fun p => !drHas total p.1)).map (fun p => (p.1, []))

/-- one entry of the rebuilt free map: `SubtractWithNonNegativeResult(total[minor], used[minor])` for a used minor,
    a copy of the total otherwise -/
def freeEntry (used : DevRes) (m : Nat) (t : RL) : RL :=
  match drGet used m with
  | some u => rlSubNN t u
  | none => t

/-- device_cache.go resetDeviceFree:
    `free = DeepCopy(total); for minor, u in used { free[minor] = SubtractWithNonNegativeResult(total[minor], u) }` -/
def resetFree (s : TState) : TState :=
  let t := addPhantoms s.total s.used
  { s with
    total := t
    free := t.map (fun p => (p.1, freeEntry s.used p.1 p.2)) }

/-- updateDeviceUsed, add = true -/
def usedAdd (u : DevRes) : List (Nat × RL) → DevRes
  | [] => u
  | (m, r) :: rest => usedAdd (drSet u m (rlAdd (drGetD u m) r)) rest

/-- updateDeviceUsed, add = false: truncated subtraction of the CALLER-SUPPLIED amounts; an all-zero entry is deleted -/
def usedSub (u : DevRes) : List (Nat × RL) → DevRes
  | [] => u
  | (m, r) :: rest =>
    let x := rlSubNN (drGetD u m) r
    usedSub (if rlIsZero x then drErase u m else drSet u m x) rest

/-- updateAllocateSet, add = true: `resources[minor] = allocation.Resources` (a repeated minor: last wins) -/
def recOf (al : List (Nat × RL)) : DevRes := al.foldl (fun acc p => drSet acc p.1 p.2) []

def hasPod (s : TState) (p : Nat) : Bool := s.pods.any (fun e => e.1 == p)

/-- updateCacheUsed(…, add = true) for one device type (isValid gate, used, free, allocateSet) -/
def addT (s : TState) (p : Nat) (al : List (Nat × RL)) : TState :=
  if hasPod s p then s else
    let s2 := resetFree { s with used := usedAdd s.used al }
    { s2 with pods := s2.pods ++ [(p, recOf al)] }

/-- updateCacheUsed(…, add = false) for one device type -/
def removeT (s : TState) (p : Nat) (al : List (Nat × RL)) : TState :=
  if !hasPod s p then s else
    let s2 := resetFree { s with used := usedSub s.used al }
    { s2 with pods := s2.pods.filter (fun e => e.1 != p) }

/-- resetDeviceTotal for one device type (a type missing from the new inventory gets the empty map) -/
def refreshT (s : TState) (nt : DevRes) : TState := resetFree { s with total := nt }

inductive Op where
  | add (p : Nat) (al : List (Nat × RL))
  | remove (p : Nat) (al : List (Nat × RL))
  | refresh (nt : DevRes)
deriving Repr

def step (s : TState) : Op → TState
  | .add p al => addT s p al
  | .remove p al => removeT s p al
  | .refresh nt => refreshT s nt

def run (s : TState) (ops : List Op) : TState := ops.foldl step s

/-! ### allocation: allocateDevices / defaultAllocateDevices with a nil scorer, no VF, no PCIe match -/

structure AllocReq where
  req       : RL          -- request per device instance
  desired   : Nat         -- desiredCount as passed to allocateDevices
  npcie     : Nat         -- len(preferredPCIEs)
  required  : List Nat    -- requestCtx.required[type]  ([] = unrestricted)
  preferred : List Nat    -- requestCtx.preferred[type]
deriving Repr

/-- allocateDevices: `if desiredCount == 0 { desiredCount = 1 }` -/
def effDesired (a : AllocReq) : Nat := if a.desired = 0 then 1 else a.desired

/-- allocateDevices: maxDesired = max(desired, len(pcies)), then at least the normalised desired -/
def effMax (a : AllocReq) : Nat :=
  let m := if a.npcie > a.desired then a.npcie else a.desired
  if m < effDesired a then effDesired a else m

/-- sortDeviceResourcesByMinor with all scores 0: preferred first, then smaller minor -/
def candLe (pref : List Nat) (x y : Nat × RL) : Bool :=
  let px := pref.contains x.1
  let py := pref.contains y.1
  if px && !py then true
  else if !px && py then false
  else x.1 ≤ y.1

/-- insertion sort (the comparator is a total order on distinct minors, so every sort gives this list) -/
def insCand (le : Nat × RL → Nat × RL → Bool) (x : Nat × RL) : DevRes → DevRes
  | [] => [x]
  | y :: ys => if le x y then x :: y :: ys else y :: insCand le x ys

def sortCands (free : DevRes) (pref : List Nat) : DevRes := free.foldr (insCand (candLe pref)) []

/-- the three `continue` guards of the defaultAllocateDevices loop -/
def qualifies (a : AllocReq) (c : Nat × RL) : Bool :=
  (a.required.isEmpty || a.required.contains c.1) && !rlIsZero c.2 && rlLeq a.req c.2

/-- the loop over an ordered candidate list: take qualifying candidates until maxDesired; fail below desired -/
def allocateFrom (cands : DevRes) (a : AllocReq) : Option (List Nat) :=
  let chosen := ((cands.filter (qualifies a)).map (·.1)).take (effMax a)
  if chosen.length < effDesired a then none else some chosen

def allocate (s : TState) (a : AllocReq) : Option (List Nat) :=
  allocateFrom (sortCands s.free a.preferred) a

/-- the allocation list handed to updateCacheUsed on commit -/
def allocList (a : AllocReq) (ms : List Nat) : List (Nat × RL) := ms.map (fun m => (m, a.req))

/-- number of candidates that qualify (what a checker of an externally ordered result needs) -/
def numQualifying (s : TState) (a : AllocReq) : Nat := (s.free.filter (qualifies a)).length

/-- verdict on a result produced with an order the model does not pin (scorer / PCIe round-robin):
    0 = consistent.  ok ⇒ distinct qualifying minors, count = min(maxDesired, #qualifying) ≥ desired;
    fail ⇒ #qualifying < desired. -/
def checkResult (s : TState) (a : AllocReq) : Option (List Nat) → Nat
  | none => if numQualifying s a < effDesired a then 0 else 1
  | some ms =>
    if ms.length < effDesired a then 2
    else if ms.length ≠ min (effMax a) (numQualifying s a) then 3
    else if !(ms.all (fun m => match drGet s.free m with
                                | some f => qualifies a (m, f)
                                | none => false)) then 4
    else if ms.eraseDups.length ≠ ms.length then 5
    else 0

/-! ### the filtered view: calcFreeWithPreemptible + filter (no PCIe exclusive policy) -/

/-- device_cache.go calcFreeWithPreemptible -/
def calcFree (s : TState) (preempt required : DevRes) : DevRes :=
  let merged : DevRes :=
    if preempt.isEmpty then [] else
      preempt.foldl (fun acc p =>
        let used := rlSubNN (drGetD s.used p.1) p.2
        let remaining := rlSubNN (drGetD s.total p.1) used
        if rlIsZero remaining then acc else drSet acc p.1 remaining) []
  let free : DevRes :=
    if merged.isEmpty then s.free
    else merged ++ s.free.filter (fun p => !drHas merged p.1)
  if required.isEmpty then free
  else (free.filter (fun p => drHas required p.1)).map (fun p => (p.1, rlMin p.2 (drGetD required p.1)))

/-- device_cache.go filter for one device type; `minors = none` ⇔ the type is not in `devices`
    (no deviceInfo matched), in which case the view has nothing of this type. -/
def filterT (s : TState) (minors : Option (List Nat)) (preempt required : DevRes) : TState :=
  match minors with
  | none => TState.empty
  | some ms =>
    let freeDevices := calcFree s preempt required
    if drIsZero freeDevices then TState.empty else
    let kept := freeDevices.filter (fun p => ms.contains p.1)
    let total : DevRes := kept.map (fun p => (p.1, drGetD s.total p.1))
    let used : DevRes := (kept.map (fun p => (p.1, rlSubNN (drGetD s.total p.1) p.2))).filter (fun p => !rlIsZero p.2)
    resetFree { total := total, free := [], used := used, pods := [] }

/-! ### DefaultDeviceHandler.CalcDesiredRequestsAndCount without hint (RDMA / FPGA; dimension 0 is the
    handler's resourceName): `q > 100 && q % 100 == 0` ⇒ q/100 whole devices of 100 each. -/

def handlerSplit (podReq : RL) : RL × Nat :=
  let q := rlVal podReq 0
  if q > 100 && q % 100 == 0 then
    let n := q / 100
    ([some (q / n)], n.toNat)
  else (podReq, 1)

end KoordVerif.C07
