import KoordVerif.Model.C02
import KoordVerif.Model.C02Scale
/-
C02 — the glue between what is DECLARED on an ElasticQuota object and the `quotaNode` the division
works on.  Model of
  apis/extension/elastic_quota.go            GetSharedWeight, IsAllowLentResource
  pkg/scheduler/plugins/elasticquota/core/
    quota_info.go                            NewQuotaInfoFromQuota, getLimitRequestNoLock
    group_quota_manager.go                   recursiveUpdateGroupTreeWithDeltaRequest (no-lend request),
                                             doUpdateOneGroupMinQuotaNoLock / recursiveUpdateGroupTreeWithDeltaAllocated
                                             (guarantee), refreshRuntimeNoLock step 1 (scaled minimum)
    runtime_quota_calculator.go              updateOneGroup{Max,Min,SharedWeight,Request,Guaranteed}Quota:
                                             `for resKey := range qtw.resourceKeys { … list.Name(resKey) … }`
A `v1.ResourceList` is an association list dimension ↦ amount; a key may be MISSING (a nil list is the
empty list).  `ResourceList.Name(key)` of a missing key reads 0.  Dimensions are small naturals
(0 = cpu in milli, 1 = memory in bytes, 2 = an extended resource).  Core-only.
-/
namespace KoordVerif.C02

abbrev RL := List (Nat × Int)

def rlFind (l : RL) (d : Nat) : Option Int :=
  match l with
  | [] => none
  | (k, v) :: rest => if k = d then some v else rlFind rest d

/-- `list.Name(key, …)` / `list[key]`: a missing key reads 0. -/
def rlGet (l : RL) (d : Nat) : Int := (rlFind l d).getD 0

/-- `quotav1.IsZero`: every named quantity is zero (true for the empty list). -/
def rlIsZero (l : RL) : Bool := l.all (fun p => p.2 == 0)

/-- the shared-weight annotation as written on the object. -/
inductive Ann where
  | absent                 -- no such annotation
  | invalid                -- present, json.Unmarshal into a ResourceList fails
  | parsed (l : RL)        -- present and parses to `l` (possibly `{}`)
deriving Repr, DecidableEq

/-- `extension.GetSharedWeight`, as a whole list:
    the annotation when it parses and is not all-zero, else `spec.max`. -/
def sharedWeightList (a : Ann) (max : RL) : RL :=
  match a with
  | .parsed l => if rlIsZero l then max else l
  | _ => max

/-- one dimension of it, as `updateOneGroupSharedWeight` reads it (`SharedWeight.Name(resKey)`). -/
def sharedWeight (a : Ann) (max : RL) (d : Nat) : Int := rlGet (sharedWeightList a max) d

/-- the lend label: 0 = label absent, 1 = "true", 2 = "false" (`IsAllowLentResource`: anything but
    "false" lends); `NewQuotaInfoFromQuota` forces no-lend when ElasticQuotaGuaranteeUsage is on. -/
def allowLent (gate : Bool) (label : Nat) : Bool := !gate && label != 2

/-- what one quota declares, seen from ONE dimension's calculator.  `childReq` is the sum of the
    max-limited requests of its children (for a leaf: of its pods) in that dimension, `alloc` the sum of
    the children's guarantees (for a leaf: of its assigned pods). -/
structure QDecl where
  name     : Nat
  label    : Nat
  childReq : Int
  alloc    : Int
  max      : RL
  min      : RL
  ann      : Ann
deriving Repr

/-- `Request`: the children's request, raised to the declared min when the quota does not lend. -/
def declRequest (gate : Bool) (q : QDecl) (d : Nat) : Int :=
  if allowLent gate q.label then q.childReq
  else if q.childReq < rlGet q.min d then rlGet q.min d else q.childReq

/-- `getLimitRequestNoLock`: capped by `spec.max` only where max names the dimension. -/
def limitedRequest (gate : Bool) (q : QDecl) (d : Nat) : Int :=
  match rlFind q.max d with
  | some m => if declRequest gate q d > m then m else declRequest gate q d
  | none => declRequest gate q d

/-- `Guaranteed` = max(Allocated, Min), maintained only when ElasticQuotaGuaranteeUsage is on. -/
def guaranteeOf (gate : Bool) (q : QDecl) (d : Nat) : Int :=
  if !gate then 0 else if q.alloc < rlGet q.min d then rlGet q.min d else q.alloc

/-- the ScaleMinQuotaManager state of one parent in one dimension: every child registered with its
    declared min; all scalable iff min scaling is switched on for the manager. -/
def smOf (scale : Bool) (d : Nat) (qs : List QDecl) : SM :=
  qs.foldl (fun s q => s.update q.name (rlGet q.min d) scale) SM.init

/-- `AutoScaleMin`: the declared min unless min scaling answers for this child. -/
def scaledMinOf (share : Int → Int → Int → Int) (scale : Bool) (total : Int) (d : Nat) (qs : List QDecl) (q : QDecl) : Int :=
  match (smOf scale d qs).scaled share total q.name with
  | some m => m
  | none => rlGet q.min d

/-- the `quotaNode` of `q` in dimension `d`'s tree. -/
def glueNode (share : Int → Int → Int → Int) (gate scale : Bool) (total : Int) (d : Nat) (qs : List QDecl) (q : QDecl) : Node :=
  { name := q.name,
    weight := sharedWeight q.ann q.max d,
    request := limitedRequest gate q d,
    min := scaledMinOf share scale total d qs q,
    guarantee := guaranteeOf gate q d,
    lend := allowLent gate q.label }

def glueNodes (share : Int → Int → Int → Int) (gate scale : Bool) (total : Int) (d : Nat) (qs : List QDecl) : List Node :=
  qs.map (glueNode share gate scale total d qs)

/-- runtime of every child of one parent in one dimension, straight from the declared objects. -/
def glueRun (share : Int → Int → Int → Int) (gate scale : Bool) (total : Int) (d : Nat) (qs : List QDecl) : List (Nat × Int) :=
  redistribute total (glueNodes share gate scale total d qs)

/-! ### the calculator's per-dimension trees and the loop domain of its mutators

`updateOneGroupMinQuota(quotaInfo)` (and its siblings for shared weight, request, guarantee) run
`for resKey := range qtw.resourceKeys { tree[resKey].update…(name, list.Name(resKey)) }`:
EVERY tracked dimension is visited and a dimension the new list does not name is written as 0. -/

structure CalcD where
  keys  : List Nat                 -- qtw.resourceKeys
  trees : Nat → List Node          -- qtw.quotaTree[resKey].quotaNodes

def setMin (n : Node) (v : Int) : Node := { n with min := v }
def setWeight (n : Node) (v : Int) : Node := { n with weight := v }
def setRequest (n : Node) (v : Int) : Node := { n with request := v }
def setGuarantee (n : Node) (v : Int) : Node := { n with guarantee := v }

/-- one `updateOneGroupXxx(name, newList)` for a child the trees already hold. -/
def CalcD.update (set : Node → Int → Node) (c : CalcD) (name : Nat) (l : RL) : CalcD :=
  { c with trees := fun d =>
      if c.keys.contains d then (c.trees d).map (fun n => if n.name = name then set n (rlGet l d) else n)
      else c.trees d }

def CalcD.updateMin := CalcD.update setMin
def CalcD.updateWeight := CalcD.update setWeight

/-- `doUpdateOneGroupMinQuotaNoLock` as seen by the parent's calculator: `updateOneGroupMinQuota`, then
    `needUpdateOneGroupRequest → updateOneGroupRequest` with the quota's new max-limited request (a quota
    that does not lend asks for max(children, min), so its request moves with its min).  The push is
    skipped only when the request last pushed — which is what the node holds — already equals it. -/
def CalcD.minQuotaChanged (c : CalcD) (name : Nat) (newMin newLimitReq : RL) : CalcD :=
  (c.updateMin name newMin).update setRequest name newLimitReq

/-- the per-dimension minimum of `name` the division will see. -/
def CalcD.minOf (c : CalcD) (d : Nat) (name : Nat) : Option Int :=
  ((c.trees d).find? (fun n => n.name == name)).map (·.min)

end KoordVerif.C02
