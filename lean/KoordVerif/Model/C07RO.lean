import KoordVerif.Model.C07
import KoordVerif.Model.C07Hist
/-
C07 — (a) the SHAPES in which client-go hands objects to the informer handlers and what the handlers decode
them to, (b) the READ-ONLY pipeline steps that run against the live cache between mutating ops.  Core-only.

  pkg/scheduler/plugins/deviceshare/eventhandler_pod.go
      onPodAdd / onPodUpdate / onPodDelete (type assertions and the tombstone type switch),
      registerPodEventHandler (reservations are fed through the SAME three handlers)
  pkg/scheduler/plugins/deviceshare/eventhandler_device.go  onDeviceAdd / onDeviceUpdate / onDeviceDelete
  pkg/util/reservation/reservation_to_pod_eventhandler.go
      NewReservationToPodEventHandler (cache.FilteringResourceEventHandler + IsObjValidActiveReservation),
      ReservationToPodEventHandler.{OnAdd, OnUpdate, OnDelete}
  k8s.io/client-go/tools/cache/controller.go  FilteringResourceEventHandler.{OnAdd, OnUpdate, OnDelete}
  pkg/scheduler/plugins/deviceshare/plugin.go       AddPod / RemovePod (preemption dry-run), Filter (no restore state)
  pkg/scheduler/plugins/deviceshare/reservation.go  RestoreReservation, mergeReservationAllocations
  pkg/scheduler/plugins/deviceshare/device_resources.go
      deviceResources.{append, subtract}, appendAllocated, appendAllocatedByHints, subtractAllocated
  pkg/scheduler/plugins/deviceshare/device_cache.go  nodeDevice.getUsed

Everything here is seen from ONE device type (the harness drives GPUs only; with several types the test
`len(nd.getUsed(rInfo.Pod…)) == 0` of AddPod / RemovePod is across types).
-/
namespace KoordVerif.C07

/-! ### (a) event shapes -/

/-- what arrives as `obj` in a handler.  `ptrTomb`: a POINTER to a tombstone — client-go never delivers it (it
    passes `cache.DeletedFinalStateUnknown` by value), the type switch has no case for it. -/
inductive Shape where
  | obj          -- the typed object itself (*corev1.Pod / *Reservation)
  | tomb         -- cache.DeletedFinalStateUnknown{Obj: the typed object}, by value
  | ptrTomb      -- *cache.DeletedFinalStateUnknown{Obj: the typed object}
  | tombOther    -- cache.DeletedFinalStateUnknown{Obj: something else}
  | nil          -- untyped nil
  | other        -- an object of another type
deriving Repr, DecidableEq

/-- the shapes client-go produces for a DELETE notification -/
def Shape.wellFormedDelete : Shape → Bool
  | .obj | .tomb => true
  | _ => false

/-- onPodAdd / onPodUpdate: `obj.(*corev1.Pod)` -/
def decodeObj : Shape → Bool
  | .obj => true
  | _ => false

/-- onPodDelete: `switch t := obj.(type) { case *corev1.Pod; case cache.DeletedFinalStateUnknown: t.Obj.(*corev1.Pod); default: return }` -/
def decodeDelete : Shape → Bool
  | .obj => true
  | .tomb => true
  | _ => false

/-- pod informer events with their delivery shape -/
inductive SEv where
  | podAdd (sh : Shape) (p : Nat) (o : PodObj)
  | podUpdate (shOld shNew : Shape) (p : Nat) (old new : PodObj)
  | podDelete (sh : Shape) (p : Nat) (o : PodObj)
  /-- an add / update / delete whose device-allocated annotation (of the object the handler parses) is not valid JSON:
      `apiext.GetDeviceAllocations` fails and updatePod / deletePod return before touching the ledger — in an update
      even the OLD object's allocation is not released -/
  | unparsable (p : Nat)
deriving Repr

/-- event → ledger ops: the decoding is part of the model -/
def sevOps : SEv → List Op
  | .unparsable _ => []
  | .podAdd sh p o => if decodeObj sh then updatePodOps p none o else []
  | .podUpdate so sn p old new => if decodeObj so && decodeObj sn then updatePodOps p (some old) new else []
  | .podDelete sh p o => if decodeDelete sh then deletePodOps p o else []

/-- a Reservation object as the handlers read it: `valid` ⇔ ValidateReservation = nil (template, owners, TTL/expires),
    `active` ⇔ IsReservationActive (status.nodeName set and phase Available / Waiting); `pod` = NewReservePod(r)
    (assigned ⇔ status.nodeName set; terminated ⇔ phase Succeeded / Failed / expired; the device-allocated annotation
    is copied from the Reservation's annotations). -/
structure RsvObj where
  valid  : Bool
  active : Bool
  pod    : PodObj
deriving Repr

/-- FilterFunc = IsObjValidActiveReservation(obj): a `cache.DeletedFinalStateUnknown` BY VALUE is unwrapped first, then
    `reservation, _ := obj.(*Reservation)` — every other shape gives nil, and ValidateReservation(nil) is an error.
    The SAME filter stands in front of OnAdd / OnUpdate / OnDelete (cache.FilteringResourceEventHandler). -/
def rsvFilter (sh : Shape) (r : RsvObj) : Bool := decodeDelete sh && r.valid && r.active

inductive REv where
  | rsvAdd (sh : Shape) (p : Nat) (r : RsvObj)
  | rsvUpdate (shOld shNew : Shape) (p : Nat) (old new : RsvObj)
  | rsvDelete (sh : Shape) (p : Nat) (r : RsvObj)
deriving Repr

/-- FilteringResourceEventHandler in front of ReservationToPodEventHandler in front of the pod handlers.
    ReservationToPodEventHandler.OnAdd / OnUpdate take the typed object only (`obj.(*Reservation)`), OnDelete has the
    tombstone case; FilteringResourceEventHandler.OnUpdate turns an update that crosses the filter into an add / delete. -/
def revOps : REv → List Op
  | .rsvAdd sh p r => if rsvFilter sh r && decodeObj sh then updatePodOps p none r.pod else []
  | .rsvUpdate so sn p old new =>
    let newer := rsvFilter sn new
    let older := rsvFilter so old
    if newer && older then (if decodeObj so && decodeObj sn then updatePodOps p (some old.pod) new.pod else [])
    else if newer then (if decodeObj sn then updatePodOps p none new.pod else [])
    else if older then (if decodeDelete so then deletePodOps p old.pod else [])
    else []
  | .rsvDelete sh p r => if rsvFilter sh r && decodeDelete sh then deletePodOps p r.pod else []

/-- Device informer events (eventhandler_device.go onDeviceAdd / onDeviceUpdate / onDeviceDelete): add / update install
    the reported inventory (updateNodeDevice), a delete — typed object or tombstone by value, the same type switch as for
    pods — INVALIDATES it (invalidateNodeDevice: every device unhealthy, i.e. `inv` = the inventory with empty lists),
    so that nothing is handed out while the Device object is gone. -/
inductive DEv where
  | devAdd (sh : Shape) (nt : DevRes)
  | devUpdate (shOld shNew : Shape) (nt : DevRes)
  | devDelete (sh : Shape) (inv : DevRes)
deriving Repr

def devOps : DEv → List Op
  | .devAdd sh nt => if decodeObj sh then [Op.refresh nt] else []
  | .devUpdate so sn nt => if decodeObj so && decodeObj sn then [Op.refresh nt] else []
  | .devDelete sh inv => if decodeDelete sh then [Op.refresh inv] else []

/-! ### (b) read-only steps -/

/-- quotav1.Subtract at one key -/
def qSub : Q → Q → Q
  | none, none => none
  | some x, none => some x
  | none, some y => some (-y)
  | some x, some y => some (x - y)

def rlSub (a b : RL) : RL := zipPad qSub a b

/-- nodeDevice.getUsed for one device type: a (shallow) copy of allocateSet[type][pod]; an empty record counts as none -/
def getUsed (s : TState) (p : Nat) : DevRes := (podsGet s.pods p).getD []

/-- deviceResources.append(in, hintMinors): a minor seen for the first time gets a COPY of the caller's list, a known
    minor gets the amounts added (util.AddResourceList); minors outside a non-empty hint set are skipped -/
def drAppend (r inp : DevRes) (hint : List Nat) : DevRes :=
  inp.foldl (fun acc e =>
    if !hint.isEmpty && !hint.contains e.1 then acc
    else match drGet acc e.1 with
      | none => drSet acc e.1 e.2
      | some d => drSet acc e.1 (rlAdd d e.2)) r

/-- deviceResources.subtract(in, withNonNegativeResult); an all-zero entry is deleted -/
def drSubtract (r inp : DevRes) (nn : Bool) : DevRes :=
  inp.foldl (fun acc e =>
    let x := if nn then rlSubNN (drGetD acc e.1) e.2 else rlSub (drGetD acc e.1) e.2
    if rlIsZero x then drErase acc e.1 else drSet acc e.1 x) r

/-- the preemption part of preFilterState for one node and one device type -/
structure Dry where
  pre  : DevRes                 -- preemptibleDevices[node][type]
  inRR : List (Nat × DevRes)    -- preemptibleInRRs[node][reservation][type]
deriving Repr

def Dry.empty : Dry := { pre := [], inRR := [] }

def rrGet (l : List (Nat × DevRes)) (r : Nat) : DevRes := (podsGet l r).getD []

def rrSet : List (Nat × DevRes) → Nat → DevRes → List (Nat × DevRes)
  | [], r, v => [(r, v)]
  | (k, w) :: rest, r, v => if k = r then (k, v) :: rest else (k, w) :: rrSet rest r v

/-- which preemptible map a victim goes to: `rInfo == nil || len(nd.getUsed(rInfo.Pod…)) == 0` ⇒ the node's,
    else the reservation's -/
def dryTarget (s : TState) (rsv : Option Nat) : Option Nat :=
  match rsv with
  | none => none
  | some r => if (getUsed s r).isEmpty then none else some r

/-- Plugin.RemovePod (dry-run: the victim's record becomes preemptible) -/
def dryRemovePod (s : TState) (d : Dry) (p : Nat) (rsv : Option Nat) : TState × Dry :=
  let rec_ := getUsed s p
  if rec_.isEmpty then (s, d) else
  match dryTarget s rsv with
  | none => (s, { d with pre := drAppend d.pre rec_ [] })
  | some r => (s, { d with inRR := rrSet d.inRR r (drAppend (rrGet d.inRR r) rec_ []) })

/-- Plugin.AddPod (dry-run: the pod's record is taken out of the preemptible amounts again, plain subtraction) -/
def dryAddPod (s : TState) (d : Dry) (p : Nat) (rsv : Option Nat) : TState × Dry :=
  let rec_ := getUsed s p
  if rec_.isEmpty then (s, d) else
  match dryTarget s rsv with
  | none => (s, { d with pre := drSubtract d.pre rec_ false })
  | some r => (s, { d with inRR := rrSet d.inRR r (drSubtract (rrGet d.inRR r) rec_ false) })

/-- reusableAlloc of reservation.go -/
structure Reusable where
  rsv         : Nat
  allocatable : DevRes
  allocated   : DevRes
  remained    : DevRes
deriving Repr

/-- RestoreReservation.filterFn for one reservation: allocatable = the reserve pod's record, allocated = Σ owner pods'
    records on the reservation's minors (appendAllocatedByHints), remained = allocatable − allocated (plain) -/
def restoreOne (s : TState) (rsv : Nat) (owners : List Nat) : Option Reusable :=
  let a := getUsed s rsv
  if a.isEmpty then none else
  let hint := a.map (·.1)
  let allocated := owners.foldl (fun acc o => drAppend acc (getUsed s o) hint) []
  some { rsv := rsv, allocatable := a, allocated := allocated, remained := drSubtract a allocated false }

structure Restored where
  matched   : List Reusable
  unmatched : List Reusable
  mergedMatchedAllocatable : DevRes
  mergedMatchedAllocated   : DevRes
  mergedUnmatchedUsed      : DevRes
deriving Repr

/-- RestoreReservation + mergeReservationAllocations -/
def restore (s : TState) (matched unmatched : List (Nat × List Nat)) : TState × Restored :=
  let ms := matched.filterMap (fun e => restoreOne s e.1 e.2)
  let us := unmatched.filterMap (fun e => restoreOne s e.1 e.2)
  (s, { matched := ms, unmatched := us,
        mergedMatchedAllocatable := ms.foldl (fun acc a => drAppend acc a.allocatable []) [],
        mergedMatchedAllocated := ms.foldl (fun acc a => drAppend acc a.allocated []) [],
        mergedUnmatchedUsed := us.foldl (fun acc a => drAppend acc (drSubtract a.allocatable a.remained true) []) [] })

/-- Plugin.Filter of the preemptor with NO restore state: the allocator runs on the view
    `filter(minors of deviceInfos, nil, preemptible = preemptibleDevices[node])`; verdict only.
    `true` ⇔ at least `desired` devices of the view qualify. -/
def dryFilter (s : TState) (d : Dry) (minors : Option (List Nat)) (a : AllocReq) : TState × Bool :=
  (s, decide (effDesired a ≤ numQualifying (filterT s minors d.pre []) a))

/-- one read-only pipeline step -/
inductive RoStep where
  | removePod (p : Nat) (rsv : Option Nat)
  | addPod (p : Nat) (rsv : Option Nat)
  | restore (matched unmatched : List (Nat × List Nat))
  | filter (minors : Option (List Nat)) (a : AllocReq)
  | unmodelled -- a read-only step whose RESULT is not modelled (PreFilter; Filter through tryAllocateFromReusable)
deriving Repr

/-- what a cycle carries besides the cache -/
structure Cycle where
  dry      : Dry
  restored : Option Restored
  verdicts : List Bool
deriving Repr

def Cycle.empty : Cycle := { dry := Dry.empty, restored := none, verdicts := [] }

def roStep (sc : TState × Cycle) : RoStep → TState × Cycle
  | .removePod p rsv => let (s', d') := dryRemovePod sc.1 sc.2.dry p rsv; (s', { sc.2 with dry := d' })
  | .addPod p rsv => let (s', d') := dryAddPod sc.1 sc.2.dry p rsv; (s', { sc.2 with dry := d' })
  | .restore m u => let (s', r) := restore sc.1 m u; (s', { sc.2 with restored := some r })
  | .filter ms a => let (s', v) := dryFilter sc.1 sc.2.dry ms a; (s', { sc.2 with verdicts := sc.2.verdicts ++ [v] })
  | .unmodelled => sc

def roRun (s : TState) (c : Cycle) (steps : List RoStep) : TState × Cycle := steps.foldl roStep (s, c)

end KoordVerif.C07
