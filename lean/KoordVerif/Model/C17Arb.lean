import KoordVerif.Model.C17
/-
C17 ext3 — the ARBITRATOR's writes to a job's phase.
  pkg/descheduler/controllers/migration/arbitrator/handler.go     Create (skips Succeeded / Failed / Aborted jobs since 2a5d178), Update
  pkg/descheduler/controllers/migration/arbitrator/arbitrator.go  AddPodMigrationJob (deep copy), doOnceArbitrate, filtering,
                                                                  updateFailedJob (Phase=Failed, no look at the current phase),
                                                                  updatePassedJob
One job.  The arbitrator works on the COPY it took when the job was added; its writes carry that copy's resourceVersion,
so the API server refuses them once the job has moved on.  Core-only.
-/
namespace KoordVerif.C17

structure ArbS where
  phase : Nat            -- persisted phase (codes of `Ph`, 5 = Aborted)
  ver : Nat              -- resourceVersion of the persisted job
  pod : Bool             -- a pod with the target's NAME exists
  nonRetry : Bool        -- the non-retryable filter rejects it
  retry : Bool           -- the retryable filter rejects it
  waiting : Option Nat   -- waitingCollection: resourceVersion of the arbitrator's copy
  passed : Bool          -- annotation passed-arbitration persisted
deriving DecidableEq, Repr

/-- handler `Create` → `AddPodMigrationJob` (fresh arbitrator after a restart: one entry) -/
def arbAdd (s : ArbS) : ArbS := { s with waiting := some s.ver }

/-- the migration controller's own status write -/
def arbSet (s : ArbS) (p : Nat) : ArbS := { s with phase := p, ver := s.ver + 1 }

/-- `doOnceArbitrate` -/
def arbRound (s : ArbS) : ArbS :=
  match s.waiting with
  | none => s
  | some v =>
    if s.pod && s.nonRetry then
      -- updateFailedJob: Status().Update of the copy; removed from the collection whatever the result
      if v = s.ver then { s with phase := Ph.failed, ver := s.ver + 1, waiting := none } else { s with waiting := none }
    else if s.pod && s.retry then s
    else
      -- updatePassedJob: Update of the copy with the annotation; removed only when the write succeeded
      if v = s.ver then { s with passed := true, ver := s.ver + 1, waiting := none } else s

def termPh (p : Nat) : Bool := p == Ph.succeeded || p == Ph.failed

/-- the phases the Update handler already treats as finished: Succeeded, Failed, Aborted (5) -/
def finPh (p : Nat) : Bool := p == Ph.succeeded || p == Ph.failed || p == 5

theorem finPh_of_termPh {p : Nat} (h : termPh p = true) : finPh p = true := by
  simp only [termPh, finPh, Bool.or_eq_true] at h ⊢
  exact Or.inl h

inductive AOp where
  | add | set (p : Nat) | pod (b : Bool) | round
deriving DecidableEq, Repr

/-- `guarded = true` = the shipped Create handler (fix 2a5d178): it skips jobs that are already Succeeded / Failed /
    Aborted (the test the Update handler makes); `false` = the handler before the fix, which added every job.
    `set` is the controller's write: never on a terminal job (Props: terminal_forever). -/
def arbStep (guarded : Bool) (s : ArbS) : AOp → ArbS
  -- a controller restart: a FRESH arbitrator (empty waitingCollection), then the Create event for the existing job
  | .add => if guarded && finPh s.phase then { s with waiting := none } else arbAdd s
  | .set p => if termPh s.phase then s else arbSet s p
  | .pod b => { s with pod := b }
  | .round => arbRound s

def arbRun (guarded : Bool) : ArbS → List AOp → ArbS
  | s, [] => s
  | s, op :: ops => arbRun guarded (arbStep guarded s op) ops

end KoordVerif.C17
