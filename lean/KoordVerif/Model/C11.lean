/-
C11 — node-pressure eviction.  Part A: the shared eviction loop.  Model of
  pkg/koordlet/qosmanager/plugins/util/evict.go
      KillAndEvictPods, subReleaseListNoNegative, mergeResourceListByMax, addResource
  pkg/util/pod_resources_utils.go   AddResourceList
Resource lists are association lists; a release list `map[target]ResourceList` is flattened
to keys `(target, resource)` (the only place where the presence of a target key matters is
`releasedAll[target] == nil`, which the code treats like an empty list).  CPU is in
milli-units, everything else in base units; a missing key reads as 0 (zero Quantity).
The `EvictionExecutor` is a parameter: `isEv pod` (already evicted, still present) and a
script of outcomes for the successive `Evict` calls.  Core-only.
-/
namespace KoordVerif.C11

abbrev Key := Nat × Nat            -- (release target type, resource name)
abbrev Rel := List (Key × Int)     -- flattened ReleaseList

/-- map read, zero Quantity when the key is absent. -/
def get : Rel → Key → Int
  | [], _ => 0
  | (k', v) :: l, k => if k' = k then v else get l k

/-- map write `m[k] = v`. -/
def setKey : Rel → Key → Int → Rel
  | [], k, v => [(k, v)]
  | (k', v') :: l, k, v => if k' = k then (k', v) :: l else (k', v') :: setKey l k v

/-- `addResource` / `util.AddResourceList`: `a[k] += v` for every entry of `b`. -/
def addRel : Rel → Rel → Rel
  | a, [] => a
  | a, (k, v) :: b => addRel (setKey a k (get a k + v)) b

/-- `mergeResourceListByMax` (per target): `if res[k] < v { res[k] = v }`. -/
def mergeMax : Rel → Rel → Rel
  | a, [] => a
  | a, (k, v) :: b => mergeMax (if get a k < v then setKey a k v else a) b

/-- one element of `EvictTaskInfo.SortedEvictPods`: the pod key and the numeric fields of the
    `PodEvictInfo` that the `GetPodResourceFunc`s read. -/
structure Entry where
  pod    : Nat
  fields : List Int
deriving Repr, DecidableEq

/-- `EvictTaskInfo`.  `fn` describes `GetPodResourceFunc`: the returned ResourceList has, for
    every pair `(resource, i)`, the amount `fields[i]`. -/
structure Task where
  target    : Nat
  toRelease : List (Nat × Int)
  fn        : List (Nat × Nat)
  pods      : List Entry
deriving Repr, DecidableEq

/-- `ReleaseList{target: getPodResourceFunc(info)}` -/
def fnOut (t : Task) (e : Entry) : Rel :=
  t.fn.map fun (r, i) => ((t.target, r), e.fields.getD i 0)

/-- first loop of KillAndEvictPods: the tasks whose function is appended to
    `getPodResourceFuncs` (non-empty target list and the target type registered by a positive
    amount of this or an earlier task). -/
def collectFns : List Nat → List Task → List Task
  | _, [] => []
  | reg, t :: ts =>
    if t.toRelease.isEmpty then collectFns reg ts else
    let reg' := if t.toRelease.any (fun ra => ra.2 > 0) then t.target :: reg else reg
    if reg'.contains t.target then t :: collectFns reg' ts else collectFns reg' ts

/-- `aggregateReleaseFunc`: max-merge of every registered function's output. -/
def aggWith (fns : List Task) (e : Entry) : Rel :=
  fns.foldl (fun acc t => mergeMax acc (fnOut t e)) []

/-- `subReleaseListNoNegative(task.ToReleaseResource, releasedAll[target])`. -/
def remaining (t : Task) (released : Rel) : List (Nat × Int) :=
  t.toRelease.filterMap fun ra =>
    let bq := get released (t.target, ra.1)
    if ra.2 > bq then some (ra.1, ra.2 - bq) else none

inductive Kind | ok | fail | pending
deriving Repr, DecidableEq

/-- one executor interaction: `ok`/`fail` = an `Evict` call and its result, `pending` = the pod
    was found already evicted and its release was credited. -/
structure Ev where
  task : Nat
  e    : Entry
  kind : Kind
deriving Repr, DecidableEq

structure St where
  released : Rel          -- releasedAll
  evicted  : List Nat     -- evictedPodsMp
  newly    : Bool         -- newlyEvicted
  script   : List Bool    -- results of the coming Evict calls
  logRev   : List Ev      -- executor interactions, newest first
deriving Repr, DecidableEq

def St.init (script : List Bool) : St :=
  { released := [], evicted := [], newly := false, script := script, logRev := [] }

/-- inner loop `for _, info := range podInfos` (a `break` = return without recursing). -/
def loopPods (agg : Entry → Rel) (isEv : Nat → Bool) (ti : Nat) (t : Task) : St → List Entry → St
  | st, [] => st
  | st, e :: es =>
    if st.evicted.contains e.pod then loopPods agg isEv ti t st es else
    if isEv e.pod then
      let st' := { st with evicted := e.pod :: st.evicted, released := addRel st.released (agg e),
                           logRev := ⟨ti, e, .pending⟩ :: st.logRev }
      if (remaining t st'.released).isEmpty then st' else loopPods agg isEv ti t st' es
    else if st.script.headD true then
      let st' := { st with evicted := e.pod :: st.evicted, newly := true,
                           released := addRel st.released (agg e), script := st.script.tail,
                           logRev := ⟨ti, e, .ok⟩ :: st.logRev }
      if (remaining t st'.released).isEmpty then st' else loopPods agg isEv ti t st' es
    else
      loopPods agg isEv ti t { st with script := st.script.tail, logRev := ⟨ti, e, .fail⟩ :: st.logRev } es

/-- outer loop `for _, task := range tasks`. -/
def loopTasks (agg : Entry → Rel) (isEv : Nat → Bool) : Nat → St → List Task → St
  | _, st, [] => st
  | ti, st, t :: ts =>
    if (remaining t st.released).isEmpty then loopTasks agg isEv (ti + 1) st ts
    else loopTasks agg isEv (ti + 1) (loopPods agg isEv ti t st t.pods) ts

/-- KillAndEvictPods. -/
def killAndEvict (isEv : Nat → Bool) (script : List Bool) (tasks : List Task) : St :=
  loopTasks (aggWith (collectFns [] tasks)) isEv 0 (St.init script) tasks

/-! ## Part B: victim selection and ordering
  pkg/koordlet/qosmanager/plugins/memoryevict/memory_evict.go
      getSortedBEPodInfos, getPodEvictInfoAndSortByPriority (+ ByUsed / ByAllocatable)
  pkg/koordlet/qosmanager/plugins/cpuevict/cpu_evict.go
      getBEPodEvictInfoAndSort, getPodEvictInfoAndSortByPriority (+ ByUsed / ByAllocatable)
  pkg/koordlet/qosmanager/plugins/util/evict.go   IsEvictionPolicyAllowed, GetPodPriorityLabel
  apis/extension/evict.go                         PodEvictEnabled, GetPodEvictionPriority
A pod is described by the decoded attributes the filters read. -/

/-- `koordinator.sh/eviction-policy` annotation. -/
inductive PolicyAnno
  | absent        -- no annotations / key absent
  | lists         -- JSON list containing the evaluated policy
  | others        -- JSON list without it (possibly empty)
  | malformed     -- not a JSON string list
deriving Repr, DecidableEq

/-- IsEvictionPolicyAllowed -/
def policyAllowed : PolicyAnno → Bool
  | .absent => true
  | .lists => true
  | .others => false
  | .malformed => false

structure Pod where
  id        : Nat
  name      : Nat             -- rank of pod.Name in string order (distinct)
  qosBE     : Bool            -- GetPodQoSClassRaw(pod) == QoSBE
  active    : Bool            -- phase Pending or Running
  policy    : PolicyAnno
  specPrio  : Option Int      -- pod.Spec.Priority
  effPrio   : Option Int      -- GetPodPriorityValueWithDefault(pod) (never nil for a non-nil pod)
  evictLbl  : Bool            -- label koordinator.sh/eviction-enabled == "true"
  evictPrio : Int             -- GetPodEvictionPriority (0 when absent / invalid)
  labelPrio : Option Int      -- label koordinator.sh/priority parsed by strconv.Atoi
  hasMetric : Bool            -- the pod usage metric query succeeded
  used      : Int             -- int64(metric*1000): MilliCPUUsed; memory paths read used/1000 = int64(metric) bytes
  request   : Int             -- GetRequestTypeAndValueFromPod: MemoryRequest / MilliCPURequest
  batchReq  : Int             -- sum of the positive batch-cpu container requests (BE CPU path)
deriving Repr, DecidableEq

/-- PodEvictInfo as far as sorting is concerned. -/
structure Info where
  pod       : Pod
  prio      : Int     -- Priority
  labelPrio : Int     -- LabelPriority
  evictPrio : Int     -- EvictionPriority
  used      : Int
  request   : Int
  usageKey  : Int     -- order-embedding of the float64 CpuUsage (BE CPU path), else 0
deriving Repr, DecidableEq

/-- the filter part of getPodEvictInfoAndSortByPriority (one pod). -/
def prioInfo? (threshold : Int) (p : Pod) : Option Info :=
  if !p.active then none else
  if !policyAllowed p.policy then none else
  match p.effPrio with
  | none => none
  | some pr =>
    if pr > threshold then none else
    if !p.evictLbl then none else
    if !p.hasMetric then none else
    some { pod := p, prio := pr, labelPrio := p.labelPrio.getD pr, evictPrio := p.evictPrio,
           used := p.used, request := p.request, usageKey := 0 }

/-- the `less` of getPodEvictInfoAndSortByPriority; `byReq` selects the sub-sort
    (`MemoryRequest`/`MilliCPURequest` descending) instead of usage descending. -/
def prioLess (byReq : Bool) (a b : Info) : Bool :=
  if a.evictPrio ≠ b.evictPrio then a.evictPrio < b.evictPrio else
  if a.prio ≠ b.prio then a.prio < b.prio else
  if a.labelPrio ≠ b.labelPrio then a.labelPrio < b.labelPrio else
  if byReq then a.request > b.request else a.used > b.used

/-- the filter of getSortedBEPodInfos / getBEPodEvictInfoAndSort (one pod);
    `usage used request` is the order-embedding of `float64(used)/float64(request)`.
    Memory: `MemoryUsed = int64(metric)` (`usedDiv = 1000`, no request); CPU: `MilliCPUUsed =
    int64(metric*1000)` (`usedDiv = 1`) and the batch-cpu request.  No metric = usage 0. -/
def beInfo? (usage : Int → Int → Int) (usedDiv : Int) (cpu : Bool) (p : Pod) : Option Info :=
  if !p.qosBE then none else
  if !policyAllowed p.policy then none else
  let used := if p.hasMetric then Int.tdiv p.used usedDiv else 0
  let req := if cpu then p.batchReq else 0
  some { pod := p, prio := 0, labelPrio := 0, evictPrio := 0,
         used := used, request := req,
         usageKey := if req > 0 then usage used req else 0 }

/-- the `less` of getSortedBEPodInfos (memory): priority, then usage descending with
    zero-usage pods last, zero-usage pods by name descending. -/
def beMemLess (a b : Info) : Bool :=
  match a.pod.specPrio, b.pod.specPrio with
  | some pa, some pb =>
    if pa ≠ pb then pa < pb else
    if a.used ≠ 0 && b.used ≠ 0 then a.used > b.used
    else if a.used = 0 && b.used = 0 then a.pod.name > b.pod.name
    else b.used = 0
  | _, _ =>
    if a.used ≠ 0 && b.used ≠ 0 then a.used > b.used
    else if a.used = 0 && b.used = 0 then a.pod.name > b.pod.name
    else b.used = 0

/-- the `less` of getBEPodEvictInfoAndSort (cpu): priority, then CpuUsage descending. -/
def beCpuLess (a b : Info) : Bool :=
  match a.pod.specPrio, b.pod.specPrio with
  | some pa, some pb => if pa = pb then a.usageKey > b.usageKey else pa < pb
  | _, _ => a.usageKey > b.usageKey

/-- `sort.Slice` on at most 12 elements is this insertion sort (Go `insertionSortLessFunc`):
    element `x` moves left while `less x y`. -/
def insertBack (less : Info → Info → Bool) (x : Info) : List Info → List Info
  | [] => [x]
  | y :: ys => if less x y then y :: insertBack less x ys else x :: y :: ys

/-- sorted prefix kept in reverse (nearest neighbour first), as the Go loop sees it. -/
def isortRev (less : Info → Info → Bool) : List Info → List Info → List Info
  | acc, [] => acc
  | acc, x :: xs => isortRev less (insertBack less x acc) xs

def isort (less : Info → Info → Bool) (xs : List Info) : List Info :=
  (isortRev less [] xs).reverse

def selectPrio (threshold : Int) (byReq : Bool) (pods : List Pod) : List Info :=
  isort (prioLess byReq) (pods.filterMap (prioInfo? threshold))

/-- memoryevict.getPodEvictInfoAndSortByPriority after the repair `MemoryUsed = int64(metric)` (was
    `int64(metric*1000)`, a copy of the CPU milli conversion): `Pod.used` carries `int64(metric*1000)`, memory
    metrics are whole bytes, so the memory path reads `used / 1000`. -/
def selectPrioMem (threshold : Int) (byReq : Bool) (pods : List Pod) : List Info :=
  selectPrio threshold byReq (pods.map fun p => { p with used := Int.tdiv p.used 1000 })

def selectBEMem (pods : List Pod) : List Info :=
  isort beMemLess (pods.filterMap (beInfo? (fun _ _ => 0) 1000 false))

def selectBECpu (usage : Int → Int → Int) (pods : List Pod) : List Info :=
  isort beCpuLess (pods.filterMap (beInfo? usage 1 true))

/-! ### release targets (integer parts)
  memoryevict.calculateReleaseByUsedThresholdPercent / cpuevict.calculateMilliReleaseByUsedThresholdPercent:
  `usage% = used*100/capacity` (Go truncating division), nothing below the threshold, else
  `capacity*(usage% - lower)/100`, `lower` defaulting to `threshold - buffer`. -/
def usedThresholdTarget (capacity used threshold : Int) (lower : Option Int) (buffer : Int) : Option Int :=
  let usagePct := Int.tdiv (used * 100) capacity
  if usagePct < threshold then none else
  let lo := lower.getD (threshold - buffer)
  some (Int.tdiv (capacity * (usagePct - lo)) 100)

end KoordVerif.C11
