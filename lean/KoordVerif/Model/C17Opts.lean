import KoordVerif.Model.C17
/-
C17 ext3 — what the migration controller WRITES when it creates a Reservation, and what the scheduler's reservation
controller does when a sibling pod consumes it.
  pkg/descheduler/controllers/migration/reservation/util.go   CreateOrUpdateReservationOptions, appendSkipNodeAffinity,
                                                              GenerateReserveResourceOwners
  pkg/descheduler/controllers/migration/reservation/interpreter.go  CreateReservation (ObjectMeta + Spec of the template)
  pkg/scheduler/plugins/reservation/controller/controller.go  syncStatus  (owners + Succeeded in ONE status update,
                                                              Succeeded only for an allocate-once reservation)
  apis/extension/reservation.go                               IsReservationAllocateOnce (nil defaults to true)
Core-only.
-/
namespace KoordVerif.C17

/-- `Spec.ReservationOptions.Template` as the user wrote it (no template at all = `none` at the use site).
    `ao`: Spec.AllocateOnce — none = nil.  `ttl`: Spec.TTL — 0 nil, n+1 = n seconds. -/
structure Tmpl where
  ao : Option Bool
  name : Bool          -- ObjectMeta.Name set
  ttl : Nat
  expires : Bool       -- Spec.Expires set
  userLabel : Bool     -- a label of the user's own
  createdBy : Bool     -- a created-by label of the user's own
  podTmpl : Bool       -- Spec.Template given
deriving DecidableEq, Repr

/-- the fields of the Reservation object handed to `Client.Create` -/
structure Written where
  ao : Option Bool     -- Spec.AllocateOnce
  ttl : Nat            -- Spec.TTL, same coding as `Tmpl.ttl`
  expires : Bool
  owners : Nat         -- Spec.Owners: 0 none, 1 the pod's controller, 2 the (pending, unschedulable) pod itself
  createdByDefault : Bool  -- label created-by = DefaultCreator
  orderLabel : Bool
  userLabel : Bool
  nodeCleared : Bool   -- Spec.Template.Spec.NodeName = ""
  podTmplUser : Bool   -- Spec.Template is the user's, not a copy of the pod
  skipAffinity : Bool  -- a NotIn(metadata.name, pod's node) match field was appended
deriving DecidableEq, Repr

/-- `GenerateReserveResourceOwners` for the harness' pods (they all carry a controller owner reference) -/
def genOwners (p : Pod) : Nat := if p.pending && p.sched == 1 then 2 else 1

/-- `CreateOrUpdateReservationOptions(job, pod)` followed by `CreateReservation`: the written object.
    `AllocateOnce` is FORCED to true whatever the template says ("Reservation used for migration is no longer reused
    after consumed"); the TTL is the template's, else (no Expires either) the job's when positive. -/
def writtenResv (t : Option Tmpl) (jobTTL : Nat) (p : Pod) : Written :=
  match t with
  | none =>
    { ao := some true, ttl := if jobTTL > 0 then jobTTL + 1 else 0, expires := false, owners := genOwners p,
      createdByDefault := true, orderLabel := true, userLabel := false, nodeCleared := true, podTmplUser := false,
      skipAffinity := p.node != 0 }
  | some t =>
    { ao := some true,
      ttl := if t.ttl = 0 ∧ t.expires = false ∧ jobTTL > 0 then jobTTL + 1 else t.ttl,
      expires := t.expires, owners := genOwners p,   -- the harness' templates never carry owners of their own
      createdByDefault := true, orderLabel := true, userLabel := t.userLabel, nodeCleared := true,
      podTmplUser := t.podTmpl, skipAffinity := p.node != 0 }

/-- `IsReservationAllocateOnce`: nil defaults to true -/
def effAO (ao : Option Bool) : Bool := ao.getD true

/-- scheduler `syncStatus` when a sibling pod `uid` was allocated from the reservation: nothing before the reservation
    has a node; the pod becomes the current owner; the phase becomes Succeeded only when allocate-once. -/
def consume (r : Resv) (uid : Nat) (ao : Bool) : Resv :=
  if r.node = 0 then r else
  { r with owner := uid, phase := if ao then RPh.succeeded else r.phase }

/-- "bound to some other pod" read off the current owners (what the property means), not off the phase (what
    `abortJobIfReservationBoundByAnotherPod` tests) -/
def heldByOther (r : Resv) (podUID : Nat) : Bool := r.owner != 0 && r.owner != podUID

end KoordVerif.C17
