import KoordVerif.Model.C12Env
/-
C12 — the KIND of an updater is a property of the updater OBJECT, not of the resource.
  pkg/koordlet/resourceexecutor/updater.go   CgroupResourceUpdater.MergeUpdate: `if u.mergeUpdateFunc == nil
                                              { return nil, u.updateFunc(u) }` — the field is filled by the constructor
                                              the CALLER used: DefaultCgroupUpdaterFactory.New (registry entry of the
                                              resource), NewMergeableCgroupUpdaterIfValueLarger / …WithCondition
                                              (mergeable), NewCommonCgroupUpdater / NewCgroupUpdaterWithUpdateFunc(…)
                                              (NOT mergeable: exact write in the top-down sweep, skipMerge set).
Callers that hand such updaters to LeveledUpdateBatch:
  pkg/koordlet/runtimehooks/protocol/protocol.go            injectCPUQuota / injectCPUSet / injectMemoryLimit (factory)
  pkg/koordlet/runtimehooks/hooks/batchresource/rule.go     ruleUpdateCbForNodeMeta  → [pods, containers]
  pkg/koordlet/runtimehooks/hooks/cpunormalization/rule.go  ruleUpdateCb             → [pods, containers]
  pkg/koordlet/qosmanager/plugins/cgreconcile/cgroup_reconcile.go  makeCgroupResources (`isMergeable` of the table row)
                                                            calculateAndUpdateResources → [qos, pods, containers]
So one batch can mix kinds; `UpdK` carries the kind per updater and a step uses the domain of the resource with THAT
mergeability.  Missing directories as in Model/C12Env.lean.  Core-only.
-/
namespace KoordVerif.C12

/-- one ResourceUpdater: cgroup dir, new value, and `mergeUpdateFunc != nil` of this updater object. -/
structure UpdK (α : Type) where
  node : Nat
  tgt : Option α
  mergeable : Bool

def UpdK.upd {α} (u : UpdK α) : Upd α := { node := u.node, tgt := u.tgt }

/-- the resource's domain (merge condition, comparisons) with the mergeability of one updater object. -/
def withKind {α} (D : Dom α) (k : Bool) : Dom α := { D with mergeable := k }

def stepK1 {α} (D : Dom α) (expired : Bool) (ex : Nat → Bool) (s : St α) (u : UpdK α) : St α × List (Write α) :=
  stepE ex (step1 (withKind D u.mergeable) expired) s u.upd

def stepK2 {α} (D : Dom α) (expired : Bool) (ex : Nat → Bool) (s : St α) (u : UpdK α) : St α × List (Write α) :=
  stepE ex (step2 (withKind D u.mergeable) expired) s u.upd

def runPassK {α} (step : St α → UpdK α → St α × List (Write α)) : List (UpdK α) → St α → St α × List (Write α)
  | [], s => (s, [])
  | u :: us, s =>
    let r := step s u
    let r' := runPassK step us r.1
    (r'.1, r.2 ++ r'.2)

/-- LeveledUpdateBatch on updaters of mixed kinds (directories with `ex n = false` do not exist). -/
def runBatchK {α} (D : Dom α) (expired : Bool) (ex : Nat → Bool) (levels : List (List (UpdK α))) (s : St α) :
    St α × List (Write α) :=
  let r1 := runPassK (stepK1 D expired ex) levels.flatten { s with skip := [] }
  let r2 := runPassK (stepK2 D expired ex) (sweep2 levels) r1.1
  (r2.1, r1.2 ++ r2.2)

end KoordVerif.C12
