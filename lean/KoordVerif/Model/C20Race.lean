import KoordVerif.Model.C20HistQ
/-
C20 (extension, round 3) — the LAZY INITIALISATION of the configuration cache racing a ConfigMap event.  Model of
  pkg/slo-controller/nodeslo/nodeslo_cm_event_handler.go   IsCfgAvailable (first use after a start / leader change:
                                                           check `available`, GetConfigMapForCache, syncConfig),
                                                           syncNodeSLOSpecIfChanged (Lock; syncConfig)
  pkg/slo-controller/config/configmap_event_handler.go     EnqueueRequestForConfigMap.{Create,Update} (skip iff Data equal)
Core-only (linked into drv_c20).

Part (a): in the queue model (Model/C20HistQ.lean) a restart delivers the ConfigMap's initial Create event FIRST.  Here the
Create event may be handled LATE — after any number of reconciles, whose first one initialises the cache lazily.
Part (b): the lazy init and the event handler as two threads, at the granularity of their critical sections, for the three
shapes an implementation of IsCfgAvailable can have.
-/
namespace KoordVerif.C20

/-! ### (a) a restart whose initial ConfigMap event is late -/

/-- new controller process: default cache, not available; the informers' initial Node / NodeSLO events are queued, the
    ConfigMap's initial Create event has NOT been handled yet. -/
def qrestartLate (d : Defaults) (x : QWorld) : QWorld :=
  { w := { x.w with cfg := Cfg.default d, avail := false }, q := x.w.nodes.map (·.1) ++ x.w.slos.map (·.1) }

inductive RStep where
  | q (s : QStep)          -- everything of Model/C20HistQ.lean
  | restartLate            -- restart; the ConfigMap's initial Create event is still to come
  | cmLate                 -- … and here it is handled (for the ConfigMap object that exists now, if any)
deriving Repr, DecidableEq

def rstep (d : Defaults) (parse : Ident → CM) (x : QWorld) : RStep → QWorld
  | .q s => qstep d parse x s
  | .restartLate => qrestartLate d x
  | .cmLate => qcmEv d parse x

def rrun (d : Defaults) (parse : Ident → CM) (x : QWorld) (ss : List RStep) : QWorld :=
  ss.foldl (rstep d parse) x

/-! ### (b) lazy init ∥ event handler, one step = one critical section -/

/-- how IsCfgAvailable is cut into critical sections. -/
inductive LazyShape where
  | atomic     -- check, read and sync inside ONE section (the pinned source: lock; defer unlock; …)
  | recheck    -- check; unlock; read; lock; check AGAIN; sync
  | split      -- check; unlock; read; lock; sync WITHOUT looking at `available` again
deriving Repr, DecidableEq

/-- the shapes that keep check–read–sync inside one critical section, or look at `available` again before the sync. -/
def LazyShape.safe : LazyShape → Bool
  | .atomic => true
  | .recheck => true
  | .split => false

/-- where a running IsCfgAvailable stands. -/
inductive LPc where
  | idle                        -- not running (or about to start)
  | checked                     -- has seen `available = false`; holds no lock
  | read (r : Option Ident)     -- has read the ConfigMap (none: not found) from the informer cache; holds no lock
deriving Repr, DecidableEq

structure RaceSt where
  cfg : Cfg                  -- cfgCache.sloCfg
  avail : Bool               -- cfgCache.available
  cm : Option Ident          -- the ConfigMap object in the API / informer cache (the LATEST one)
  pending : List Ident       -- Create / Update events not yet handled, oldest first
  pc : LPc
deriving Repr, DecidableEq

/-- a freshly started controller: the existing ConfigMap's initial Create event is pending. -/
def RaceSt.start (d : Defaults) (cm0 : Option Ident) : RaceSt :=
  { cfg := Cfg.default d, avail := false, cm := cm0, pending := cm0.toList, pc := .idle }

inductive RAct where
  | write (i : Ident)     -- ConfigMap created / updated (informer cache follows at once); an Update with equal Data is dropped
  | del                   -- ConfigMap deleted (the Delete handler is empty)
  | handle                -- the handler takes the oldest pending event: Lock; syncConfig; Unlock
  | lazy                  -- the next critical section (or lock-free read) of IsCfgAvailable
deriving Repr, DecidableEq

/-- the tail of IsCfgAvailable: syncConfig on what was read; `available := true`. -/
def lazySync (d : Defaults) (parse : Ident → CM) (s : RaceSt) (r : Option Ident) : RaceSt :=
  { s with cfg := sync d s.cfg (r.map parse), avail := true, pc := .idle }

def raceStep (sh : LazyShape) (d : Defaults) (parse : Ident → CM) (s : RaceSt) : RAct → RaceSt
  | .write i => if s.cm = some i then s else { s with cm := some i, pending := s.pending ++ [i] }
  | .del => { s with cm := none }
  | .handle =>
    match s.pending with
    | [] => s
    | i :: rest => { s with cfg := sync d s.cfg (some (parse i)), avail := true, pending := rest }
  | .lazy =>
    match sh, s.pc with
    | .atomic, _ => if s.avail then s else lazySync d parse s s.cm
    | _, .idle => if s.avail then s else { s with pc := .checked }
    | _, .checked => { s with pc := .read s.cm }
    | .recheck, .read r => if s.avail then { s with pc := .idle } else lazySync d parse s r
    | .split, .read r => lazySync d parse s r

def raceRun (sh : LazyShape) (d : Defaults) (parse : Ident → CM) (s : RaceSt) (as : List RAct) : RaceSt :=
  as.foldl (raceStep sh d parse) s

/-- the shape read off the statement sequence of IsCfgAvailable (harness/extract/facts_c20.go `availSections`):
    the events `lock`/`unlock` (any kind), `check` (a read of `available` that guards a return), `read`
    (GetConfigMapForCache), `sync` (syncConfig).  A `defer unlock` holds the lock to the end and is not listed. -/
def shapeOf : List String → Option LazyShape
  | ["lock", "check", "read", "sync"] => some .atomic
  | ["lock", "check", "unlock", "read", "lock", "check", "sync"] => some .recheck
  | ["lock", "check", "unlock", "read", "lock", "check", "sync", "unlock"] => some .recheck
  | ["lock", "check", "unlock", "read", "lock", "sync"] => some .split
  | ["lock", "check", "unlock", "read", "lock", "sync", "unlock"] => some .split
  | ["check", "read", "lock", "sync"] => some .split
  | ["check", "read", "lock", "sync", "unlock"] => some .split
  | ["check", "read", "sync"] => some .split
  | _ => none

end KoordVerif.C20
