/-
C13 — admission QoS/priority protocol and tier translation.  Model of
  apis/extension/priority.go        GetPodPriorityClassRaw, getPriorityClassByPriority
  apis/extension/priority_utils.go  GetPodPriorityClassWithDefault, GetPodPriorityClassWithQoS
  apis/extension/qos_utils.go       GetPodQoSClassRaw, GetPodQoSClassWithDefault (only "is BestEffort")
  apis/extension/resource.go        ResourceNameMap, Get/SetExtendedResourceSpec
  pkg/webhook/pod/validating/cluster_colocation_profile.go   (all of it)
  pkg/webhook/pod/mutating/cluster_colocation_profile.go     clusterColocationProfileMutatingPod,
        shouldSkipProfile, doMutateByColocationProfile (QoS/priority fields only), mutatePodResourceSpec,
        replaceAndEraseResource, restrictResourceRequestAndLimit
  pkg/webhook/pod/mutating/extended_resource_spec.go         mutateByExtendedResources
  k8s.io/component-helpers/resource PodRequests (sidecar init containers, pod-level resources, overhead;
        presence-aware, so that zero and negative entries behave as in Go)
  k8s.io/kubectl/pkg/util/qos ComputePodQOS (only "is BestEffort", incl. the pod-level branch)
A `resource.Quantity` is the integer number of nano-units it denotes (Quantity has no finer
precision); `MilliValue`/`Value` round away from zero.  Label values are byte strings (`LStr`).
Core-only.
-/
namespace KoordVerif.C13

inductive QoS | lse | lsr | ls | be | system | none
deriving DecidableEq, Repr

inductive PC | prod | mid | batch | free | none
deriving DecidableEq, Repr

/-- the resource names the anchored code distinguishes; `other` = any foreign resource. -/
inductive Res | cpu | memory | batchCPU | batchMemory | midCPU | midMemory | other
deriving DecidableEq, Repr

def Res.all : List Res := [.cpu, .memory, .batchCPU, .batchMemory, .midCPU, .midMemory, .other]

/-- a label value / class name: the bytes of the Go string. -/
abbrev LStr := List Nat

/-- qos.go: the values of the QoSClass constants ("LSE", "LSR", "LS", "BE", "SYSTEM", ""). -/
def qosName : QoS → LStr
  | .lse => [76, 83, 69] | .lsr => [76, 83, 82] | .ls => [76, 83] | .be => [66, 69]
  | .system => [83, 89, 83, 84, 69, 77] | .none => []

/-- priority.go: the values of the PriorityClass constants ("koord-prod", "koord-mid", "koord-batch", "koord-free", ""). -/
def pcName : PC → LStr
  | .prod => [107, 111, 111, 114, 100, 45, 112, 114, 111, 100]
  | .mid => [107, 111, 111, 114, 100, 45, 109, 105, 100]
  | .batch => [107, 111, 111, 114, 100, 45, 98, 97, 116, 99, 104]
  | .free => [107, 111, 111, 114, 100, 45, 102, 114, 101, 101]
  | .none => []

/-- qos.go GetPodQoSClassByName -/
def qosByName (s : LStr) : QoS :=
  if s = qosName .lse then .lse else if s = qosName .lsr then .lsr else if s = qosName .ls then .ls
  else if s = qosName .be then .be else if s = qosName .system then .system else .none

/-- priority.go GetPodPriorityClassByName -/
def pcByName (s : LStr) : PC :=
  if s = pcName .prod then .prod else if s = pcName .mid then .mid else if s = pcName .batch then .batch
  else if s = pcName .free then .free else .none

/-- the label keys the anchored code reads, plus one foreign key (source/target of key mappings):
    koordinator.sh/qosClass, koordinator.sh/priority-class, c13/src. -/
inductive LKey | qos | pc | src
deriving DecidableEq, Repr

def LKey.all : List LKey := [.qos, .pc, .src]

abbrev Labels := LKey → Option LStr
def Labels.empty : Labels := fun _ => none
def Labels.set (l : Labels) (k : LKey) (v : LStr) : Labels := fun x => if x = k then some v else l x

/-- priority.go: the eight `Priority*Value{Min,Max}` variables. -/
structure Ranges where
  prodMin : Int
  prodMax : Int
  midMin : Int
  midMax : Int
  batchMin : Int
  batchMax : Int
  freeMin : Int
  freeMax : Int
deriving DecidableEq, Repr

def stdRanges : Ranges :=
  { prodMin := 9000, prodMax := 9999, midMin := 7000, midMax := 7999,
    batchMin := 5000, batchMax := 5999, freeMin := 3000, freeMax := 3999 }

/-- priority.go getPriorityClassByPriority (non-nil pointer). -/
def getPriorityClassByPriority (k : Ranges) (p : Int) : PC :=
  if p ≥ k.prodMin ∧ p ≤ k.prodMax then .prod
  else if p ≥ k.midMin ∧ p ≤ k.midMax then .mid
  else if p ≥ k.batchMin ∧ p ≤ k.batchMax then .batch
  else if p ≥ k.freeMin ∧ p ≤ k.freeMax then .free
  else .none

/-! ### quantities and resource lists -/

/-- a ResourceList: partial map from resource names to nano-unit amounts (nil = empty). -/
abbrev RL := Res → Option Int

def RL.empty : RL := fun _ => none
def RL.set (l : RL) (r : Res) (q : Int) : RL := fun x => if x = r then some q else l x
def RL.erase (l : RL) (r : Res) : RL := fun x => if x = r then none else l x
def RL.get0 (l : RL) (r : Res) : Int := (l r).getD 0

def nanoPerUnit : Int := 1000000000

/-- Quantity.MilliValue(): rounds up, i.e. away from zero (negative quantities: int64Amount
    negativeScaleInt64 "rounded away from zero"). -/
def milliValue (q : Int) : Int := if q ≥ 0 then (q + 999999) / 1000000 else -((-q + 999999) / 1000000)
/-- Quantity.Value(): rounds away from zero. -/
def unitValue (q : Int) : Int := if q ≥ 0 then (q + 999999999) / 1000000000 else -((-q + 999999999) / 1000000000)
/-- resource.NewQuantity(v, DecimalSI) as nano-units. -/
def newQuantity (v : Int) : Int := v * nanoPerUnit

structure Ctr where
  name : Nat
  req : RL
  lim : RL
  /-- init containers only: restartPolicy Always (a sidecar) -/
  sidecar : Bool := false

/-- the batch projection kept in the summary annotation. -/
structure ExtRL where
  cpu : Option Int
  mem : Option Int
deriving DecidableEq, Repr

structure ExtCtr where
  name : Nat
  req : ExtRL
  lim : ExtRL
deriving DecidableEq, Repr

/-- the annotation `node.koordinator.sh/extended-resource-spec`: absent, not parseable, or a
    spec (entries sorted by container name, names unique — it is a JSON object). -/
inductive Annot
  | absent
  | malformed
  | spec (s : List ExtCtr)
deriving DecidableEq, Repr

structure Pod where
  /-- metadata.labels restricted to `LKey` (nil map = all absent) -/
  labels : Labels
  /-- spec.priority -/
  priority : Option Int
  /-- label koordinator.sh/priority (`none` = absent or empty) -/
  subPrio : Option Int
  /-- status.qosClass is set to BestEffort (1) / to something else (2) / unset (0) -/
  statusQoS : Nat
  inits : List Ctr
  ctrs : List Ctr
  overhead : Option RL
  annot : Annot
  /-- spec.resources (pod-level requests, limits); a nil list is the empty list -/
  podRes : Option (RL × RL) := none

/-! ### class getters -/

/-- qos_utils.go GetPodQoSClassRaw -/
def qosRaw (p : Pod) : QoS := match p.labels .qos with
  | some s => qosByName s
  | none => .none

/-- priority.go GetPodPriorityClassRaw: label first (an unknown name is "none", no fall-through). -/
def pcRaw (k : Ranges) (p : Pod) : PC := match p.labels .pc with
  | some s => pcByName s
  | none => match p.priority with
    | none => .none
    | some v => getPriorityClassByPriority k v

def positive (o : Option Int) : Bool := match o with
  | some q => decide (q > 0)
  | none => false

/-- kubectl qos.ComputePodQOS = BestEffort: no container or init container has a positive
    cpu/memory request or limit; when spec.resources is set only the pod-level lists count. -/
def ctrNoQoSResources (c : Ctr) : Bool :=
  !(positive (c.req .cpu) || positive (c.req .memory) || positive (c.lim .cpu) || positive (c.lim .memory))

def kubeBestEffort (p : Pod) : Bool :=
  if p.statusQoS = 1 then true else if p.statusQoS = 2 then false
  else match p.podRes with
    | some (rq, lm) => !(positive (rq .cpu) || positive (rq .memory) || positive (lm .cpu) || positive (lm .memory))
    | none => (p.ctrs ++ p.inits).all ctrNoQoSResources

/-- qos_utils.go GetPodQoSClassWithDefault followed by priority_utils.go GetPodPriorityClassWithQoS.
    Guaranteed ↦ QoSClassForGuaranteed (LSR) and Burstable ↦ LS both give prod. -/
def pcOfQoS (q : QoS) : PC := match q with
  | .system | .lse | .lsr | .ls => .prod
  | .be => .batch
  | .none => .none

def pcWithDefault (k : Ranges) (p : Pod) : PC :=
  let c := pcRaw k p
  if c ≠ .none then c else
    let q := qosRaw p
    if q ≠ .none then pcOfQoS q else
      if kubeBestEffort p then .batch else .prod

/-! ### validating webhook -/

def sumReq (cs : List Ctr) (r : Res) : Int := (cs.map (fun c => c.req.get0 r)).sum
def maxReq (cs : List Ctr) (r : Res) : Int := cs.foldl (fun m c => max m (c.req.get0 r)) 0

/-- the documented formula (no sidecars, no pod-level resources, non-negative quantities):
    max(Σ containers, max init containers) + overhead; see Props `podRequest_plain`. -/
def podRequestPlain (p : Pod) (r : Res) : Int :=
  max (sumReq p.ctrs r) (maxReq p.inits r) + (match p.overhead with | some o => o.get0 r | none => 0)

/-- helpers.go addResourceList: `list[name] += q`, a missing entry is created. -/
def addRL (list new : RL) : RL := fun r => match new r with
  | none => list r
  | some q => some ((list r).getD 0 + q)

/-- helpers.go maxResourceList: a missing entry is created (even from a zero or negative quantity). -/
def maxRL (list new : RL) : RL := fun r => match new r with
  | none => list r
  | some q => match list r with
    | none => some q
    | some v => if q > v then some q else some v

/-- the init-container loop of AggregateContainerRequests; state = (reqs, restartable, initReqs). -/
def initStep (st : RL × RL × RL) (c : Ctr) : RL × RL × RL :=
  let (reqs, restartable, initReqs) := st
  if c.sidecar then
    let restartable' := addRL restartable c.req
    (addRL reqs c.req, restartable', maxRL initReqs restartable')
  else
    (reqs, restartable, maxRL initReqs (addRL (addRL RL.empty c.req) restartable))

/-- helpers.go AggregateContainerRequests (default options). -/
def aggregateRequests (p : Pod) : RL :=
  let reqs := p.ctrs.foldl (fun acc c => addRL acc c.req) RL.empty
  let (reqs1, _, initReqs) := p.inits.foldl initStep (reqs, RL.empty, RL.empty)
  maxRL reqs1 initReqs

/-- helpers.go IsSupportedPodLevelResource restricted to `Res` (no hugepages-* name in `Res`). -/
def podLevelSupported (r : Res) : Bool := r = .cpu || r = .memory

/-- helpers.go PodRequests(pod, PodResourcesOptions{}): aggregate, pod-level override of cpu/memory
    (only when spec.resources.requests names a supported resource), then overhead. -/
def podRequests (p : Pod) : RL :=
  let agg := aggregateRequests p
  let lvl : RL := match p.podRes with
    | some (rq, _) => fun r => if podLevelSupported r then (match rq r with | some q => some q | none => agg r) else agg r
    | none => agg
  match p.overhead with
  | some o => addRL lvl o
  | none => lvl

/-- `requests[name]` of util.GetPodRequest (a missing entry reads as the zero Quantity). -/
def podRequest (p : Pod) (r : Res) : Int := (podRequests p).get0 r

inductive Rule
  | immutableQoS | immutablePC | immutablePriority | requiredBE | forbiddenPair (q : QoS) | cpuMissing | cpuNotInteger
deriving DecidableEq, Repr

/-- the two `forbidSpecialQoSClassAndPriorityClass` calls of clusterColocationProfileValidatingPod. -/
def forbiddenTable : List (QoS × List PC) :=
  [(.be, [.none, .prod]), (.lsr, [.none, .mid, .batch, .free])]

def forbidSpecial (k : Ranges) (p : Pod) (e : QoS × List PC) : List Rule :=
  if qosRaw p = e.1 then (if e.2.contains (pcRaw k p) then [.forbiddenPair e.1] else []) else []

def validateRequiredQoSClass (p : Pod) : List Rule :=
  if podRequest p .batchCPU = 0 ∧ podRequest p .batchMemory = 0 then []
  else if qosRaw p = .be then [] else [.requiredBE]

def validateResources (p : Pod) : List Rule :=
  let q := qosRaw p
  if q = .lsr ∨ q = .lse then
    let cpu := podRequest p .cpu
    if cpu = 0 then [.cpuMissing]
    else if unitValue cpu * 1000 ≠ milliValue cpu then [.cpuNotInteger] else []
  else []

/-- op: 0 = CREATE, 1 = UPDATE, anything else = no old/new comparison. -/
def validateErrs (k : Ranges) (gateSkipPriority : Bool) (op : Nat) (old new : Pod) : List Rule :=
  (if op = 1 then
    (if qosRaw new = qosRaw old then [] else [Rule.immutableQoS]) ++
    (if pcRaw k new = pcRaw k old then [] else [Rule.immutablePC]) ++
    (if gateSkipPriority then [] else (if new.subPrio = old.subPrio then [] else [Rule.immutablePriority]))
   else []) ++
  validateRequiredQoSClass new ++
  (forbiddenTable.flatMap (forbidSpecial k new)) ++
  validateResources new

def validateAllowed (k : Ranges) (gate : Bool) (op : Nat) (old new : Pod) : Bool :=
  (validateErrs k gate op old new).isEmpty

/-! ### mutating webhook: tier translation -/

/-- resource.go ResourceNameMap -/
def resourceNameMap : PC → Res → Option Res
  | .batch, .cpu => some .batchCPU
  | .batch, .memory => some .batchMemory
  | .mid, .cpu => some .midCPU
  | .mid, .memory => some .midMemory
  | _, _ => none

/-- replaceAndEraseResource -/
def replaceAndErase (pc : PC) (l : RL) (r : Res) : RL :=
  match resourceNameMap pc r with
  | none => l
  | some e =>
    match l r with
    | none => l
    | some q => (l.set e (if r = .cpu then newQuantity (milliValue q) else q)).erase r

def replaceFlag (pc : PC) (l : RL) (r : Res) : Bool :=
  match resourceNameMap pc r with
  | none => false
  | some _ => (l r).isSome

/-- restrictResourceRequestAndLimit -/
def restrict (pc : PC) (c : Ctr) (r : Res) : Ctr :=
  match resourceNameMap pc r with
  | none => c
  | some e =>
    match c.req e, c.lim e with
    | none, some q => { c with req := c.req.set e q }
    | _, _ => c

def restrictFlag (pc : PC) (c : Ctr) (r : Res) : Bool :=
  match resourceNameMap pc r with
  | none => false
  | some e => (c.req e).isNone && (c.lim e).isSome

def replaceBoth (pc : PC) (l : RL) : RL := replaceAndErase pc (replaceAndErase pc l .cpu) .memory
def replaceBothFlag (pc : PC) (l : RL) : Bool :=
  replaceFlag pc l .cpu || replaceFlag pc (replaceAndErase pc l .cpu) .memory

/-- the loop body of mutatePodResourceSpec for one container -/
def translated (pc : PC) (c : Ctr) : Ctr := { c with req := replaceBoth pc c.req, lim := replaceBoth pc c.lim }

def mutateCtr (pc : PC) (c : Ctr) : Ctr := restrict pc (restrict pc (translated pc c) .cpu) .memory

def mutateCtrFlag (pc : PC) (c : Ctr) : Bool :=
  replaceBothFlag pc c.req || replaceBothFlag pc c.lim ||
  restrictFlag pc (translated pc c) .cpu || restrictFlag pc (restrict pc (translated pc c) .cpu) .memory

/-- mutatePodResourceSpec -/
def mutatePodResourceSpec (k : Ranges) (p : Pod) : Pod :=
  let pc := pcWithDefault k p
  if pc = .none ∨ pc = .prod then p else
    { p with inits := p.inits.map (mutateCtr pc), ctrs := p.ctrs.map (mutateCtr pc),
             overhead := p.overhead.map (replaceBoth pc) }

def mutatePodResourceSpecFlag (k : Ranges) (p : Pod) : Bool :=
  let pc := pcWithDefault k p
  if pc = .none ∨ pc = .prod then false else
    (p.inits.any (mutateCtrFlag pc)) || (p.ctrs.any (mutateCtrFlag pc)) ||
    (match p.overhead with | some o => replaceBothFlag pc o | none => false)

/-! ### colocation profiles (the fields that can reach QoS / priority / resources) -/

/-- one entry of a strategic-merge patch on `spec.containers[name=ctr].resources.{requests|limits}` -/
structure ResPatch where
  ctr : Nat
  isLimit : Bool
  res : Res
  q : Int
deriving Repr

structure Profile where
  name : Nat
  matched : Bool            -- namespace/object selectors (trusted) matched
  skipRes : Bool            -- annotation config.koordinator.sh/skip-update-resources present
  prob : Option Int         -- spec.probability as an int percent
  qos : Option LStr         -- spec.qosClass (non-empty)
  priority : Option Int     -- value of the PriorityClass named by spec.priorityClassName
  subPrio : Option Int      -- spec.koordinatorPriority
  labels : List (LKey × LStr) := []        -- spec.labels (restricted to LKey; a Go map: keys distinct)
  keyMap : List (LKey × LKey) := []        -- spec.labelKeysMapping old ↦ new (a Go map: generated entries share no key)
  suffixes : List (LKey × LStr) := []      -- spec.labelSuffixes (keys distinct)
  hasPatch : Bool := false                 -- spec.patch.raw != nil (strategic merge + JSON round trip of the pod)
  patchLabels : List (LKey × LStr) := []   -- spec.patch: metadata.labels
  patchPriority : Option Int := none       -- spec.patch: spec.priority
  patchRes : List ResPatch := []           -- spec.patch: container resources (existing container names)
  probInvalid : Bool := false              -- spec.probability is a string that is not a percentage
  pcMissing : Bool := false                -- spec.priorityClassName names a PriorityClass that does not exist
deriving Repr

/-- shouldSkipProfile; `rand` is what `randIntnFn(100)` returns. -/
def shouldSkipProfile (rand : Int) (pr : Profile) : Bool :=
  let percent := pr.prob.getD 100
  percent == 0 || (percent != 100 && rand > percent)

/-- "overwrite with a constant or keep" -/
def ovr {α} (o x : Option α) : Option α := match o with | some c => some c | none => x

def setOpt (l : Labels) (k : LKey) (o : Option LStr) : Labels := match o with | some v => l.set k v | none => l

def setLabels (l : Labels) (kvs : List (LKey × LStr)) : Labels := kvs.foldl (fun acc kv => acc.set kv.1 kv.2) l

/-- `pod.Labels[keyNew] = pod.Labels[keyOld]`: a missing source creates the target with "". -/
def mapKeys (l : Labels) (ms : List (LKey × LKey)) : Labels := ms.foldl (fun acc m => acc.set m.2 ((acc m.1).getD [])) l

/-- `if _, ok := pod.Labels[key]; ok { pod.Labels[key] += suffix }` -/
def addSuffixes (l : Labels) (ss : List (LKey × LStr)) : Labels :=
  ss.foldl (fun acc ks => match acc ks.1 with | some v => acc.set ks.1 (v ++ ks.2) | none => acc) l

def patchCtr (rp : ResPatch) (c : Ctr) : Ctr :=
  if c.name = rp.ctr then (if rp.isLimit then { c with lim := c.lim.set rp.res rp.q } else { c with req := c.req.set rp.res rp.q }) else c

def patchCtrs (cs : List Ctr) (rps : List ResPatch) : List Ctr := rps.foldl (fun acc rp => acc.map (patchCtr rp)) cs

def rlEmpty (l : RL) : Bool := Res.all.all (fun r => (l r).isNone)

/-- the JSON round trip of the patch step drops an empty `overhead` map (omitempty). -/
def normOv (o : Option RL) : Option RL := match o with
  | some l => if rlEmpty l then none else some l
  | none => none

/-- the `profile.Spec.Patch.Raw != nil` block: strategic merge patch restricted to metadata.labels,
    spec.priority and the resources of existing containers, then `*pod = *newPod`. -/
def applyPatch (p : Pod) (pr : Profile) : Pod :=
  { p with labels := setLabels p.labels pr.patchLabels, priority := ovr pr.patchPriority p.priority,
           ctrs := patchCtrs p.ctrs pr.patchRes, overhead := normOv p.overhead }

/-- doMutateByColocationProfile, in the order of the Go statements: labels, labelKeysMapping,
    labelSuffixes, qosClass, priorityClassName, koordinatorPriority, patch. -/
def applyProfile (p : Pod) (pr : Profile) : Pod :=
  let l1 := addSuffixes (mapKeys (setLabels p.labels pr.labels) pr.keyMap) pr.suffixes
  let p1 := { p with labels := setOpt l1 .qos pr.qos, priority := ovr pr.priority p.priority,
                     subPrio := ovr pr.subPrio p.subPrio }
  if pr.hasPatch then applyPatch p1 pr else p1

def insertProfile (pr : Profile) : List Profile → List Profile
  | [] => [pr]
  | x :: xs => if pr.name < x.name then pr :: x :: xs else x :: insertProfile pr xs

/-- sort.Slice by name (names are distinct API object names) -/
def sortProfiles (ps : List Profile) : List Profile := ps.foldr insertProfile []

def applyProfiles (rand : Int) (ps : List Profile) (p : Pod) : Pod :=
  ps.foldl (fun acc pr => if shouldSkipProfile rand pr then acc else applyProfile acc pr) p

/-- clusterColocationProfileMutatingPod; `create` = (req.Operation == CREATE); `gateSkipRes` =
    feature gate ColocationProfileSkipMutatingResources.  Returns the pod and the `mutated` flag. -/
def colocationMutate (k : Ranges) (create gateSkipRes : Bool) (rand : Int) (ps : List Profile) (p : Pod) : Pod × Bool :=
  if !create then (p, false) else
  let ms := sortProfiles (ps.filter (·.matched))
  if ms.isEmpty then (p, false) else
  let p1 := applyProfiles rand ms p
  let mutated := ms.any (fun pr => !shouldSkipProfile rand pr)
  if ms.any (·.skipRes) || gateSkipRes then (p1, mutated) else
  (mutatePodResourceSpec k p1, mutated || mutatePodResourceSpecFlag k p1)

/-- clusterColocationProfileMutatingPod returns an error (the admission fails, no pod comes out): a
    matching profile whose probability does not parse (shouldSkipProfile errs before it can skip), or
    an applied profile whose PriorityClass lookup fails. -/
def colocationFails (create : Bool) (rand : Int) (ps : List Profile) : Bool :=
  create && (ps.filter (·.matched)).any (fun pr => pr.probInvalid || (!shouldSkipProfile rand pr && pr.pcMissing))

/-! ### summary annotation -/

def extOf (l : RL) : ExtRL := { cpu := l .batchCPU, mem := l .batchMemory }
def ExtRL.isEmpty (e : ExtRL) : Bool := e.cpu.isNone && e.mem.isNone

/-- getContainerExtendedResourcesRequirement -/
def ctrExt (c : Ctr) : Option ExtCtr :=
  let r := extOf c.req
  let l := extOf c.lim
  if r.isEmpty && l.isEmpty then none else some { name := c.name, req := r, lim := l }

/-- `containersSpec[container.Name] = *r` on a map kept sorted by name -/
def specInsert (e : ExtCtr) : List ExtCtr → List ExtCtr
  | [] => [e]
  | x :: xs => if e.name < x.name then e :: x :: xs else if e.name = x.name then e :: xs else x :: specInsert e xs

def specStep (m : List ExtCtr) (c : Ctr) : List ExtCtr :=
  match ctrExt c with
  | none => m
  | some e => specInsert e m

def specOf (cs : List Ctr) : List ExtCtr := cs.foldl specStep []

/-- mutateByExtendedResources; `none` = error (annotation not parseable).  reflect.DeepEqual is
    modelled as equality of the parsed specs (a representation-only difference makes the code
    rewrite the annotation with a JSON text that parses to the same spec). -/
def mutateByExt (p : Pod) : Option Pod :=
  let new := specOf p.ctrs
  match p.annot with
  | .malformed => none
  | .absent => if new = [] then some p else some { p with annot := .spec new }
  | .spec old => if new = old then some p else some { p with annot := .spec new }

/-- handleCreate, first two steps. -/
def admitCreate (k : Ranges) (gateSkipRes : Bool) (rand : Int) (ps : List Profile) (p : Pod) : Option Pod :=
  mutateByExt (colocationMutate k true gateSkipRes rand ps p).1

end KoordVerif.C13
