import KoordVerif.Model.C12
/-
C12 — model of the kubelet STATIC-policy branch of the BE cpuset suppression and of the dispatcher
  pkg/koordlet/qosmanager/plugins/cpusuppress/cpu_suppress.go
      applyBESuppressCPUSet, recoverCPUSetIfNeed, applyCPUSetWithStaticPolicy, writeBECgroupsCPUSet
  pkg/koordlet/util/node.go   GetBECPUSetPathsByMaxDepth (depth <= d), GetBECPUSetPathsByTargetDepth (depth == d)
as written: FIRST recover the besteffort dir and the pod dirs (top-down) to the BE share pool, THEN
write the suppressed set to the container dirs; both through cacheable `UpdateBatch(true, …)`.
Core-only.
-/
namespace KoordVerif.C12

/-- koordletutil.PodCgroupPathRelativeDepth / ContainerCgroupPathRelativeDepth (tied in Ties/C12.lean). -/
def podDepth : Nat := 1
def ctrDepth : Nat := 2

/-- recoverCPUSetIfNeed(maxDepth): `rec` = result of calcBECPUSet (`none`: error or nil ⇒ return without
    writing); GetBECPUSetPathsByMaxDepth(maxDepth) = the walked dirs of depth ≤ maxDepth in walk order;
    one cacheable UpdateBatch, not reversed. -/
def recoverIfNeed (expired : Bool) (paths : List Nat) (depth : Nat → Nat) (maxDepth : Nat) (rec : Option Nat)
    (s : St Nat) : St Nat × List (Write Nat) :=
  match rec with
  | none => (s, [])
  | some R =>
    runPass (stepCached cpusetDom expired)
      ((paths.filter fun n => decide (depth n ≤ maxDepth)).map fun n => { node := n, tgt := some R }) s

/-- applyCPUSetWithStaticPolicy(cpus): skipped for an empty set; GetBECPUSetPathsByTargetDepth(ContainerDepth)
    = the walked dirs of depth == 2 in walk order; one cacheable UpdateBatch, not reversed. -/
def applyStatic (expired : Bool) (paths : List Nat) (depth : Nat → Nat) (cpus : Nat) (s : St Nat) :
    St Nat × List (Write Nat) :=
  if cpus = 0 then (s, []) else
  runPass (stepCached cpusetDom expired)
    ((paths.filter fun n => depth n == ctrDepth).map fun n => { node := n, tgt := some cpus }) s

/-- the static-policy branch of applyBESuppressCPUSet:
    `r.recoverCPUSetIfNeed(PodCgroupPathRelativeDepth); err = r.applyCPUSetWithStaticPolicy(beCPUSet)`. -/
def staticPolicy (expired : Bool) (paths : List Nat) (depth : Nat → Nat) (rec : Option Nat) (cpus : Nat)
    (s : St Nat) : St Nat × List (Write Nat) :=
  let r1 := recoverIfNeed expired paths depth podDepth rec s
  let r2 := applyStatic expired paths depth cpus r1.1
  (r2.1, r1.2 ++ r2.2)

/-- what applyBESuppressCPUSet sees of the node topology:
    0 = GetNodeTopo() nil (error, nothing written)
    1 = the kubelet cpu-manager-policy annotation does not parse (error, nothing written)
    2 = policy "static"
    anything else = annotation missing / policy "none" / any other string ⇒ none-policy branch. -/
def applyBESuppress (kind : Nat) (expired : Bool) (paths : List Nat) (depth : Nat → Nat) (rec : Option Nat)
    (cpus old : Nat) (s : St Nat) : St Nat × List (Write Nat) :=
  match kind with
  | 0 | 1 => (s, [])
  | 2 => staticPolicy expired paths depth rec cpus s
  | _ => nonePolicy expired paths cpus old s

/-- depth of a dir below the besteffort dir from the parent table (fuel-bounded walk to the root). -/
def depthOf (parent : Nat → Option Nat) : Nat → Nat → Nat
  | 0, _ => 0
  | fuel + 1, n => match parent n with
    | none => 0
    | some p => depthOf parent fuel p + 1

end KoordVerif.C12
