import KoordVerif.Model.C14
/-
C14 — entry paths and what is finally written.  Model of
  apis/extension/resource.go                      GetExtendedResourceSpec
  pkg/util/pod.go, container.go                   GetPodExtendedResources, GetContainerExtendedResources
  pkg/koordlet/runtimehooks/protocol/pod_context.go        PodRequest.FromNri / FromProxy / FromReconciler
  pkg/koordlet/runtimehooks/protocol/container_context.go  ContainerRequest.FromNri / FromProxy / FromReconciler
  pkg/koordlet/runtimehooks/protocol/{pod,container}_context.go   NriDone / ProxyDone / ReconcilerDone (injectForExt, injectForOrigin)
  pkg/koordlet/resourceexecutor/updater.go        CgroupUpdateCPUSharesFunc, CgroupUpdateWithUnlimitedFunc
  pkg/koordlet/util/system/cgroup2.go             ConvertCPUSharesToWeight
Container names are natural numbers (position in pod.spec.containers).  Core-only.
-/
namespace KoordVerif.C14

/-- the `node.koordinator.sh/extended-resource-spec` annotation as found on the sandbox / the pod.
    `valid m`: a JSON object whose `containers` member is the map `m` (name ↦ amounts). -/
inductive Ann where
  | absent      -- key not present (nil map included)
  | emptyStr    -- ""
  | emptyObj    -- "{}" (also any object without a `containers` member)
  | nullCtrs    -- {"containers":null}
  | emptyCtrs   -- {"containers":{}}
  | valid (m : List (Nat × Ctr))
  | invalid     -- not JSON, or `containers` of the wrong JSON type
  | jsonNull    -- "null"
deriving Repr, DecidableEq

/-- `apiext.GetExtendedResourceSpec`: `none` = `(nil, err)`; `some none` = a spec whose `Containers` is nil;
    `some (some m)` = a spec with the (possibly empty, non-nil) map `m`. -/
def getExtSpec : Ann → Option (Option (List (Nat × Ctr)))
  | .absent => some none      -- `return spec, nil` with the zero spec
  | .emptyStr => none         -- json.Unmarshal fails on empty input
  | .emptyObj => some none
  | .nullCtrs => some none
  | .emptyCtrs => some (some [])
  | .valid m => some (some m)
  | .invalid => none
  | .jsonNull => some none    -- Unmarshal of `null` into a struct is a no-op

/-- `PodRequest.FromNri`: `if spec != nil && spec.Containers != nil { p.ExtendedResources = spec }`. -/
def podFromNri (a : Ann) : Option (List (Nat × Ctr)) :=
  match getExtSpec a with
  | some (some m) => some m
  | some none => none
  | none => none

/-- `PodRequest.FromProxy`: the same guard, written a second time in the source. -/
def podFromProxy (a : Ann) : Option (List (Nat × Ctr)) :=
  match getExtSpec a with
  | none => none
  | some s => match s with
    | none => none
    | some m => some m

/-- `util.GetPodExtendedResources` over pod.spec.containers (`none` = the container declares no batch resource):
    the declaring containers with their position as name. -/
def declaredFrom (k : Nat) : List (Option Ctr) → List (Nat × Ctr)
  | [] => []
  | none :: t => declaredFrom (k + 1) t
  | some c :: t => (k, c) :: declaredFrom (k + 1) t

def specFromPod (pod : List (Option Ctr)) : Option (List (Nat × Ctr)) :=
  match declaredFrom 0 pod with
  | [] => none                -- `if len(extendedResources.Containers) <= 0 { return nil }`
  | m => some m

/-- `PodRequest.FromReconciler`: prefer the pod spec, fall back to the annotation under the same guard. -/
def podFromReconciler (pod : List (Option Ctr)) (a : Ann) : Option (List (Nat × Ctr)) :=
  match specFromPod pod with
  | some m => some m
  | none => match getExtSpec a with
    | some (some m) => some m
    | _ => none

/-- map lookup `spec.Containers[name]`. -/
def lookup : List (Nat × Ctr) → Nat → Option Ctr
  | [], _ => none
  | (j, c) :: t, i => if j = i then some c else lookup t i

/-- `ContainerRequest.FromNri`. -/
def ctrFromNri (a : Ann) (i : Nat) : Option Ctr :=
  match getExtSpec a with
  | some (some m) => lookup m i
  | _ => none

/-- `ContainerRequest.FromProxy`. -/
def ctrFromProxy (a : Ann) (i : Nat) : Option Ctr :=
  match getExtSpec a with
  | none => none
  | some s => match s with
    | none => none
    | some m => lookup m i

/-- the pod-spec container with that name and its `GetContainerExtendedResources`. -/
def nth : List (Option Ctr) → Nat → Option Ctr
  | [], _ => none
  | x :: _, 0 => x
  | _ :: t, n + 1 => nth t n

/-- `ContainerRequest.FromReconciler` (container found in the statuses, id known): prefer the container spec,
    fall back to the annotation. -/
def ctrFromReconciler (pod : List (Option Ctr)) (a : Ann) (i : Nat) : Option Ctr :=
  match nth pod i with
  | some c => some c
  | none => match getExtSpec a with
    | some (some m) => lookup m i
    | _ => none

/-- a container without a status / container id has no cgroup yet: `FromReconciler` returns before it looks at any
    spec, and the rule callbacks (which walk the container statuses) never reach it. -/
def ctrFromReconcilerSt (hasId : Bool) (pod : List (Option Ctr)) (a : Ann) (i : Nat) : Option Ctr :=
  if hasId then ctrFromReconciler pod a i else none

/-- what the pod webhook (`mutateByExtendedResources`) dumps for this pod. -/
def webhookDump (pod : List (Option Ctr)) : Ann :=
  match declaredFrom 0 pod with
  | [] => .emptyObj
  | m => .valid m

/-- the pod-level hook on the request an entry path built. -/
def podEntry (k : Consts) (cfg : Cfg) (isBE : Bool) (spec : Option (List (Nat × Ctr))) : Option Out :=
  match spec with
  | none => podHook k cfg isBE false []
  | some m => podHook k cfg isBE true (m.map (·.2))

def ctrEntry (k : Consts) (cfg : Cfg) (isBE : Bool) (spec : Option Ctr) : Option Out :=
  match spec with
  | none => none
  | some c => ctrHook k cfg isBE true c

/-! ### what ends up in the cgroup files (v1 / v2) -/

def weightMin : Int := 1
def weightMax : Int := 10000

/-- `ConvertCPUSharesToWeight` (the kubelet's mapping). -/
def sharesToWeight (s : Int) : Int :=
  let w := 1 + Int.tdiv ((s - 2) * 9999) 262142
  if w < weightMin then weightMin else if w > weightMax then weightMax else w

/-- content of a cgroup file: a number, `max`, or the two fields `quota period` the v2 kernel shows in cpu.max
    (`pair (-1) p` = "max p"). -/
inductive FVal where
  | num (n : Int)
  | max
  | pair (q : Int) (period : Int)
deriving Repr, DecidableEq

structure Files where
  shares : FVal
  quota  : FVal
  mem    : FVal
deriving Repr, DecidableEq

/-- cpu.shares (v1) / cpu.weight (v2). -/
def writeShares (v2 : Bool) (s : Int) : FVal :=
  .num (if v2 then sharesToWeight s else s)

/-- cpu.cfs_quota_us, memory.limit_in_bytes (v1) / cpu.max, memory.max (v2): `-1` becomes `max` on v2 only. -/
def writeLimit (v2 : Bool) (v : Int) : FVal :=
  if v2 && v == -1 then .max else .num v

/-- what the kubelet / kernel left in the file before koordlet touched it. -/
def initFiles (v2 : Bool) (s q m : Int) : Files :=
  { shares := .num s
    quota := if v2 then .pair q 100000 else .num q
    mem := if v2 && m == -1 then .max else .num m }

/-- `injectForExt` / `injectForOrigin` + executor: a nil response field leaves the file alone. -/
def applyOut (v2 : Bool) (init : Files) : Option Out → Files
  | none => init
  | some o => { shares := writeShares v2 o.shares, quota := writeLimit v2 o.quota, mem := writeLimit v2 o.mem }

/-- the rule callbacks only compute the cfs quota. -/
def applyQuota (v2 : Bool) (init : Files) : Option Out → Files
  | none => init
  | some o => { init with quota := writeLimit v2 o.quota }

/-! ### rule glue (rule.go getCPUSuppressPolicy / parseRuleForNodeSLO, apis/extension GetCPUNormalizationRatio) -/

/-- the merged NodeSLO handed to `parseRuleForNodeSLO`: nil spec, no BE strategy, or a strategy with its `enable`
    value and its policy (0 = unset "", 1 = cpuset, 2 = cfsQuota). -/
inductive SloShape where
  | nilSpec
  | noStrategy
  | strategy (enable : Bool) (policy : Nat)
deriving Repr, DecidableEq

/-- `getCPUSuppressPolicy`: the DEFAULT strategy (disabled, cpuset) when the spec, the strategy or its policy is unset. -/
def suppressPolicyOf : SloShape → Bool × Nat
  | .nilSpec => (false, 1)
  | .noStrategy => (false, 1)
  | .strategy e p => if p = 0 then (false, 1) else (e, p)

/-- `parseRuleForNodeSLO`: `if enable && policy == cfsQuota { enableCFSQuota = false }`. -/
def sloEnablesCFS (s : SloShape) : Bool :=
  let (e, p) := suppressPolicyOf s
  !(e && p == 2)

/-- the node's cpu-normalization-ratio annotation: absent, not a float / not positive, or a ratio in hundredths. -/
inductive RatioAnn where
  | absent
  | malformed
  | value (pct : Int)
deriving Repr, DecidableEq

/-- `GetCPUNormalizationRatio` + `parseRuleForNodeMeta`: absent ⇒ the -1 sentinel (hundredths: -100). -/
def ratioEv : RatioAnn → RuleEv
  | .absent => .nodeRatio (-100)
  | .malformed => .nodeBad
  | .value pct => if pct ≤ 0 then .nodeBad else .nodeRatio pct

end KoordVerif.C14
