import KoordVerif.Model.C19
import KoordVerif.Model.C19Boot
import KoordVerif.Generated.C19
/-
Tie lemmas: the bound used by the model's `Parse` and by theorem `cpuset_roundtrip` (4096) is the
constant of /repo's current source (regenerated on every run by harness/extract).
-/
namespace KoordVerif.C19
open KoordVerif.Generated

theorem tie_extract_ok : C19.extractOK = true := by decide

theorem tie_maxCPU : (maxCPU : Int) = C19.maxAvailableCPUCount := by decide

/-! ### elasticquota part: call structure of the functions mirrored by Model/C19Quota.lean
(numbers: table `c19Calls` in harness/extract/facts_c19.go — 1 shouldBeIgnored, 2 getQuotaInfoByNameNoLock,
3 IsPodExist, 4 updatePodCacheNoLock, 5 updatePodRequestNoLock, 6 IsPodTerminated, 7 CheckPodIsAssigned,
8 updatePodIsAssignedNoLock, 9 updatePodUsedNoLock, 10 getPodIsAssignedNoLock, 11 getPodAssociateQuotaNameAndTreeID,
12 GetGroupQuotaManagerForTree, 13 OnPodAdd, 14 OnPodUpdate, 15 OnPodDelete, 16 GetQuotaName, 17 Enabled,
18 ElasticQuotas, 19 Get, 20 ByIndex, 21 MigratePod, 22 GetQuotaInfoByName, 23 GetPodCache, 24 GetTreeID,
25 ReservePod, 26 UnreservePod, 27 deleteQuotaToTreeMap, 28 DeleteQuota, 29 updateQuotaToTreeMap, 30 UpdateQuota,
31 NewGroupQuotaManager, 32 UpdateQuotaInfo, 33 ResetQuota, 34 addPodIfNotPresent, 35 removePodIfPresent,
36 refreshPodIfPresent, 37 getCachedPod) -/

/-- `mgrMigrate`: read the flag of `out`, give back request (+ used), drop from `out`, RETURN if `in` holds the pod,
    else cache in `in`, set the flag BEFORE adding request and used (used is only added for an assigned pod). -/
theorem tie_q_migratePod : C19.qMigratePod = [10, 5, 9, 4, 2, 3, 4, 8, 5, 9] := by decide

/-- `mgrPodAdd`: ignored?, QuotaInfo / already cached?, cache, request, fail-over: terminated?, assigned?, flag, used. -/
theorem tie_q_onPodAdd : C19.qOnPodAdd = [1, 2, 3, 4, 5, 6, 7, 8, 9] := by decide

/-- `mgrPodUpdate`: the same-quota branch ends with refreshPodIfPresent (36, fix 7265fb2) -/
theorem tie_q_onPodUpdate : C19.qOnPodUpdate =
    [2, 1, 3, 5, 4, 5, 10, 9, 6, 8, 9, 36, 3, 5, 7, 9, 4, 2, 3, 10, 9, 5, 4, 2, 3, 1, 4, 5, 6, 7, 8, 9] := by decide

/-- `mgrPodDelete`: after the guard the CACHED object (getCachedPod, 37) is what is given back -/
theorem tie_q_onPodDelete : C19.qOnPodDelete = [2, 3, 37, 5, 7, 9, 4] := by decide
theorem tie_q_reservePod : C19.qReservePod = [2, 3, 7, 8, 9] := by decide
theorem tie_q_unreservePod : C19.qUnreservePod = [2, 3, 7, 9, 8] := by decide
theorem tie_q_updatePodCache : C19.qUpdatePodCache = [2, 34, 35] := by decide

/-- plugin glue: resolve NOW, pick the manager, call the manager-level handler; delete clears the default group too -/
theorem tie_q_plOnPodAdd : C19.qPlOnPodAdd = [11, 12, 13] := by decide
theorem tie_q_plOnPodUpdate : C19.qPlOnPodUpdate = [11, 11, 12, 13, 14, 15, 12, 12, 15, 13] := by decide
theorem tie_q_plHandlePodDelete : C19.qPlHandlePodDelete = [11, 12, 15, 15] := by decide
theorem tie_q_plResolve : C19.qPlResolve = [16, 17] := by decide
theorem tie_q_plGetQuotaName : C19.qPlGetQuotaName = [16, 17, 19, 18, 20] := by decide
theorem tie_q_plMigrate : C19.qPlMigrate = [17, 22, 23, 11, 12, 22, 24, 15, 13, 21] := by decide
theorem tie_q_plReserve : C19.qPlReserve = [11, 12, 25] := by decide
theorem tie_q_plUnreserve : C19.qPlUnreserve = [11, 12, 26] := by decide
theorem tie_q_plOnQuotaAdd : C19.qPlOnQuotaAdd = [24, 29, 22, 30] := by decide
theorem tie_q_plOnQuotaDelete : C19.qPlOnQuotaDelete = [27, 12, 24, 28] := by decide
theorem tie_q_plReplaceQuotas : C19.qPlReplaceQuotas = [31, 24, 29, 32, 33, 33] := by decide

/-- an unknown / absent quota name falls back to koordinator-default-quota (model: `dflt`) and nothing else -/
theorem tie_q_fallbackIsDefault : C19.qFallbackIsDefault = true := by decide

/-- the feature gates the model assumes off are off by default -/
theorem tie_q_gatesOff : C19.qGatesOff = true := by decide

/-- extension 7: the charge path (19 functions: core OnPodAdd / OnPodUpdate / OnPodDelete / ReservePod / UnreservePod / MigratePod and
    their ledger helpers, the plugin's pod handlers, Reserve / Unreserve, the migration tick, the resolution) never reads a pod's
    `.Phase` directly (klog arguments aside); its only phase input is util.IsPodTerminated (call 6 in the sequences above), which
    names exactly Succeeded and Failed.  So the model's `term` token is the whole phase dependence: "", Pending, Running (and
    Unknown) are one class - what the quota harness varies for bound pods. -/
theorem tie_q_phase_only_through_terminated : C19.qPhaseReads = 0 ∧
    C19.qTerminatedPhases = ["PodFailed", "PodSucceeded"] := by decide

/-! ### ext2: reserve-pod merge order (Model/C19Boot.lean `reservePodAnnots`) and start-up registrations -/

/-- NewReservePod: the template's ObjectMeta is copied FIRST, then the object's own labels and annotations are written
    over it by loops whose body is the plain assignment `pod.X[k] = v` and nothing else (no condition: the object's own
    value wins for EVERY key — theorem reserve_pod_reads_own_allocation), then the adapter's four keys
    (`Boot.fixedKeys`).  Canonical w.r.t. renames of the two variables and reorderings of independent statements. -/
theorem tie_rpod_merge : C19.rpodLoops = ["range:Annotations[set]", "range:Labels[set]"] ∧
    C19.rpodTemplateCopiedFirst = true ∧ C19.rpodOwnWritesAfterMerge = true := by decide

theorem tie_rpod_own_writes : C19.rpodOwnWrites =
    ["set:Annotations[AnnotationIsPreAllocation]", "set:Annotations[AnnotationReservationName]",
     "set:Annotations[AnnotationReservationNode]", "set:Annotations[AnnotationReservePod]"] ∧
    Boot.fixedKeys.length = 4 := by decide

/-- every entry point of ReservationToPodEventHandler converts through NewReservePod (old and new object on update) -/
theorem tie_rpod_adapter_calls : C19.rpodAdapterCalls = [("OnAdd", 1), ("OnUpdate", 2), ("OnDelete", 1)] := by decide

/-- the adapter's filter as modelled by Model/C19Adapter.lean: active = node name set ∧ phase ∈ {Available, Waiting};
    the filter = ValidateReservation ∧ IsReservationActive on the (unwrapped) object -/
theorem tie_adapter_filter : C19.activePhases = ["ReservationAvailable", "ReservationWaiting"] ∧
    C19.activeNeedsNode = true ∧ C19.filterCalls = ["ValidateReservation", "IsReservationActive"] ∧
    C19.filterUnwrapsTombstone = true := by decide

/-- PreBindReservation persists on the Reservation object it is given (not on its template) -/
theorem tie_prebind_reservation_target : C19.preBindReservationTarget =
    [("nodenumaresource", "the-reservation-parameter"), ("deviceshare", "the-reservation-parameter")] := by decide

/-- every informer registration that rebuilds allocation state (deviceshare pods + reservations + devices,
    nodenumaresource pods + reservations + topology, reservation plugin reservations + pods, elasticquota quotas +
    nodes + pods) goes through ForceSyncFromInformer(WithReplace), i.e. is collected for the handlers-sync barrier:
    the model's `inBarrier := true` for every registration (hypothesis `hall` of barrier_covers_rebuild). -/
theorem tie_boot_registrations : C19.bootRegistrations =
    [("deviceshare.registerPodEventHandler", ["ForceSyncFromInformer:Pods", "ForceSyncFromInformer:Reservations"]),
     ("deviceshare.registerDeviceEventHandler", ["ForceSyncFromInformer:Devices"]),
     ("nodenumaresource.registerPodEventHandler", ["ForceSyncFromInformer:Pods", "ForceSyncFromInformer:Reservations"]),
     ("nodenumaresource.registerNodeResourceTopologyEventHandler", ["ForceSyncFromInformer:NodeResourceTopologies"]),
     ("reservation.registerReservationEventHandler", ["ForceSyncFromInformer:Reservations"]),
     ("reservation.registerPodEventHandler", ["ForceSyncFromInformer:Pods"]),
     ("elasticquota.New", ["ForceSyncFromInformer:Nodes", "ForceSyncFromInformer:Pods",
        "ForceSyncFromInformerWithReplace:ElasticQuotas"])] := by decide

/-- ForceSyncFromInformer registers the handler and then collects the registration -/
theorem tie_boot_forcesync : C19.bootForceSync = ["AddEventHandlerWithResyncPeriod", "addRegistration"] := by decide
/-- the kube factory wrapper collects every registration made on its informers, also plain AddEventHandler -/
theorem tie_boot_wrapper : C19.bootWrapperAdd = ["AddEventHandlerWithResyncPeriod", "addRegistration"] ∧
    C19.bootWrapperAddPlain = ["AddEventHandlerWithResyncPeriod"] ∧ C19.bootKubeFactoryWrapped = true := by decide
/-- the barrier polls HasSynced over all collected registrations (model: `barrierOpen`) -/
theorem tie_boot_barrier : C19.bootBarrier = ["PollUntilContextCancel", "GetRegistrations", "HasSynced"] := by decide
/-- Run: plugin factories start + sync, hooks, main factories start, stores sync, THEN the two handler barriers,
    then the after-sync hooks (the scheduling loop starts after this function returned) -/
theorem tie_boot_server_order : C19.bootServerOrder =
    ["Start", "WaitForCacheSync", "frameworkexthelper.RunAfterPluginInformersSynced", "Start", "Start", "Start", "Start",
     "WaitForCacheSync", "WaitForCacheSync", "WaitForCacheSync", "WaitForCacheSync", "sched.WaitForHandlersSync",
     "frameworkexthelper.WaitForHandlersSync", "frameworkexthelper.RunAfterAllInformersSynced"] := by decide

/-- ext5: nodenumaresource preBindObject hands the object to the writers only (appendResourceSpecIfMissed fills the
    resource SPEC in, SetResourceStatus overwrites the resource STATUS); it never reads what the object carries, so the
    written status depends on the cycle's allocation alone (Model/C19PreBind.lean `preBind`,
    theorem prebind_writes_current_allocation) -/
theorem tie_numa_prebind_object_uses :
    C19.numaPreBindObjectUses = ["appendResourceSpecIfMissed", "SetResourceStatus"] := by decide

/-- ext5: deviceshare preBindObject writes the device-allocated annotation BEFORE the device-plugin adaption and does
    not read the object (Model/C19PreBind.lean `DevPB.preBind`) -/
theorem tie_dev_prebind_order :
    C19.devPreBindObjectUses = ["SetDeviceAllocations", "adaptForDevicePlugin"] := by decide

/-- ext5: no Adapt method of device_plugin_adapter.go assigns through its allocation parameter: the adapters are
    functions of the allocation (hypothesis of dev_prebind_persists_reserved_allocation); at least the five known
    methods were inspected (general, general GPU, huawei, cambricon, metax) -/
theorem tie_dev_adapters_read_only : C19.devAdaptersWriteAllocation = [] ∧ 5 ≤ C19.devAdaptersCount := by decide

end KoordVerif.C19
