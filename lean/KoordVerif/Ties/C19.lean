import KoordVerif.Model.C19
import KoordVerif.Generated.C19
/-
Tie lemmas: the bound used by the model's `Parse` and by theorem `cpuset_roundtrip` (4096) is the
constant of /repo's current source (regenerated on every run by harness/extract).
-/
namespace KoordVerif.C19
open KoordVerif.Generated

theorem tie_extract_ok : C19.extractOK = true := by decide

theorem tie_maxCPU : (maxCPU : Int) = C19.maxAvailableCPUCount := by decide

end KoordVerif.C19
