import KoordVerif.Model.C19
import KoordVerif.Generated.C19
/-
Tie lemmas: the bound used by the model's `Parse` and by theorem `cpuset_roundtrip` (4096) is the
constant of /repo's current source (regenerated on every run by harness/extract).
-/
namespace KoordVerif.C19
open KoordVerif.Generated

theorem tie_extract_ok : C19.extractOK = true := by decide

theorem tie_maxCPU : (maxCPU : Int) = C19.maxAvailableCPUCount := by decide

/-! ### elasticquota part: call structure of the functions mirrored by Model/C19Quota.lean
(numbers: table `c19Calls` in harness/extract/facts_c19.go — 1 shouldBeIgnored, 2 getQuotaInfoByNameNoLock,
3 IsPodExist, 4 updatePodCacheNoLock, 5 updatePodRequestNoLock, 6 IsPodTerminated, 7 CheckPodIsAssigned,
8 updatePodIsAssignedNoLock, 9 updatePodUsedNoLock, 10 getPodIsAssignedNoLock, 11 getPodAssociateQuotaNameAndTreeID,
12 GetGroupQuotaManagerForTree, 13 OnPodAdd, 14 OnPodUpdate, 15 OnPodDelete, 16 GetQuotaName, 17 Enabled,
18 ElasticQuotas, 19 Get, 20 ByIndex, 21 MigratePod, 22 GetQuotaInfoByName, 23 GetPodCache, 24 GetTreeID,
25 ReservePod, 26 UnreservePod, 27 deleteQuotaToTreeMap, 28 DeleteQuota, 29 updateQuotaToTreeMap, 30 UpdateQuota,
31 NewGroupQuotaManager, 32 UpdateQuotaInfo, 33 ResetQuota, 34 addPodIfNotPresent, 35 removePodIfPresent,
36 refreshPodIfPresent, 37 getCachedPod) -/

/-- `mgrMigrate`: read the flag of `out`, give back request (+ used), drop from `out`, RETURN if `in` holds the pod,
    else cache in `in`, set the flag BEFORE adding request and used (used is only added for an assigned pod). -/
theorem tie_q_migratePod : C19.qMigratePod = [10, 5, 9, 4, 2, 3, 4, 8, 5, 9] := by decide

/-- `mgrPodAdd`: ignored?, QuotaInfo / already cached?, cache, request, fail-over: terminated?, assigned?, flag, used. -/
theorem tie_q_onPodAdd : C19.qOnPodAdd = [1, 2, 3, 4, 5, 6, 7, 8, 9] := by decide

/-- `mgrPodUpdate`: the same-quota branch ends with refreshPodIfPresent (36, fix 7265fb2) -/
theorem tie_q_onPodUpdate : C19.qOnPodUpdate =
    [2, 1, 3, 5, 4, 5, 10, 9, 6, 8, 9, 36, 3, 5, 7, 9, 4, 2, 3, 10, 9, 5, 4, 2, 3, 1, 4, 5, 6, 7, 8, 9] := by decide

/-- `mgrPodDelete`: after the guard the CACHED object (getCachedPod, 37) is what is given back -/
theorem tie_q_onPodDelete : C19.qOnPodDelete = [2, 3, 37, 5, 7, 9, 4] := by decide
theorem tie_q_reservePod : C19.qReservePod = [2, 3, 7, 8, 9] := by decide
theorem tie_q_unreservePod : C19.qUnreservePod = [2, 3, 7, 9, 8] := by decide
theorem tie_q_updatePodCache : C19.qUpdatePodCache = [2, 34, 35] := by decide

/-- plugin glue: resolve NOW, pick the manager, call the manager-level handler; delete clears the default group too -/
theorem tie_q_plOnPodAdd : C19.qPlOnPodAdd = [11, 12, 13] := by decide
theorem tie_q_plOnPodUpdate : C19.qPlOnPodUpdate = [11, 11, 12, 13, 14, 15, 12, 12, 15, 13] := by decide
theorem tie_q_plHandlePodDelete : C19.qPlHandlePodDelete = [11, 12, 15, 15] := by decide
theorem tie_q_plResolve : C19.qPlResolve = [16, 17] := by decide
theorem tie_q_plGetQuotaName : C19.qPlGetQuotaName = [16, 17, 19, 18, 20] := by decide
theorem tie_q_plMigrate : C19.qPlMigrate = [17, 22, 23, 11, 12, 22, 24, 15, 13, 21] := by decide
theorem tie_q_plReserve : C19.qPlReserve = [11, 12, 25] := by decide
theorem tie_q_plUnreserve : C19.qPlUnreserve = [11, 12, 26] := by decide
theorem tie_q_plOnQuotaAdd : C19.qPlOnQuotaAdd = [24, 29, 22, 30] := by decide
theorem tie_q_plOnQuotaDelete : C19.qPlOnQuotaDelete = [27, 12, 24, 28] := by decide
theorem tie_q_plReplaceQuotas : C19.qPlReplaceQuotas = [31, 24, 29, 32, 33, 33] := by decide

/-- an unknown / absent quota name falls back to koordinator-default-quota (model: `dflt`) and nothing else -/
theorem tie_q_fallbackIsDefault : C19.qFallbackIsDefault = true := by decide

/-- the feature gates the model assumes off are off by default -/
theorem tie_q_gatesOff : C19.qGatesOff = true := by decide

end KoordVerif.C19
