import KoordVerif.Model.C07Hist
import KoordVerif.Model.C07RO
import KoordVerif.Generated.C07
/-
Tie lemmas: shapes of /repo's current source (regenerated on every run by harness/extract/facts_c07.go) that the
ledger model (Model/C07.lean), the event model (Model/C07Hist.lean: updatePodOps / deletePodOps) and the harness
rely on.  A reordered gate, a ledger write without a free rebuild, a release that names the wrong object, or a
mutation outside the node lock breaks a `decide` here.
-/
namespace KoordVerif.C07
open KoordVerif.Generated

theorem tie_extract_ok : C07.extractOK = true := by decide

/-- the resource names the harness drives (gpu-core / gpu-memory / gpu-memory-ratio; rdma; fpga) are device
    resources of exactly these device types -/
theorem tie_resource_names :
    C07.deviceResourceNames.map (·.1) = ["GPU", "RDMA", "FPGA"] ∧
    (C07.deviceResourceNames.lookup "GPU").map (fun l =>
        l.contains "ResourceGPUCore" && l.contains "ResourceGPUMemory" && l.contains "ResourceGPUMemoryRatio") = some true ∧
    C07.deviceResourceNames.lookup "RDMA" = some ["ResourceRDMA"] ∧
    C07.deviceResourceNames.lookup "FPGA" = some ["ResourceFPGA"] := by decide

/-- updateCacheUsed per device type = `addT` / `removeT`: the duplicate gate `isValid` first (`continue` when it
    fails), then used, then the free rebuild, then allocateSet -/
theorem tie_gate_precedes_ledger :
    C07.updateCacheUsedGateFirst = true ∧
    C07.updateCacheUsedCalls = ["isValid", "updateDeviceUsed", "resetDeviceFree", "updateAllocateSet"] := by decide

/-- free is rebuilt after every change of used / total: used is written only by updateDeviceUsed (called only from
    updateCacheUsed, which rebuilds free next) and by `filter` on the fresh view it returns (followed by
    resetDeviceTotal there); total only by resetDeviceTotal (which rebuilds free for every type) and by the phantom
    entries of resetDeviceFree itself; free only by resetDeviceFree; allocateSet only behind / inside the gate. -/
theorem tie_free_rebuilt :
    C07.writers_deviceUsed = ["filter", "updateDeviceUsed"] ∧
    C07.callers_updateDeviceUsed = ["updateCacheUsed"] ∧
    C07.writers_deviceTotal = ["resetDeviceFree", "resetDeviceTotal"] ∧
    C07.selfCalls_resetDeviceTotal = ["resetDeviceFree"] ∧
    C07.selfCalls_filter = ["calcFreeWithPreemptible"] ∧
    C07.callers_resetDeviceTotal = ["filter", "invalidateNodeDevice", "updateNodeDevice"] ∧
    C07.writers_deviceFree = ["resetDeviceFree"] ∧
    C07.callers_resetDeviceFree = ["resetDeviceTotal", "updateCacheUsed"] ∧
    C07.writers_allocateSet = ["isValid", "updateAllocateSet"] ∧
    C07.callers_updateAllocateSet = ["updateCacheUsed"] := by decide

/-- the quota helpers behind qAdd / qSubNN / qZero / qLeq / qMin, per modelled function, in source order -/
theorem tie_helpers :
    C07.helpers_updateDeviceUsed = ["Add", "SubtractWithNonNegativeResult", "IsZero"] ∧
    C07.helpers_resetDeviceFree = ["SubtractWithNonNegativeResult"] ∧
    C07.helpers_calcFreeWithPreemptible =
      ["SubtractWithNonNegativeResult", "SubtractWithNonNegativeResult", "IsZero", "MinResourceList"] ∧
    C07.helpers_filter = ["SubtractWithNonNegativeResult", "IsZero"] ∧
    C07.helpers_defaultAllocateDevices = ["IsZero", "LessThanOrEqual"] := by decide

/-- the three `continue` guards of `qualifies`, in the order of the defaultAllocateDevices loop -/
theorem tie_alloc_guards :
    C07.allocLoopGuards =
      ["required.Len() > 0 && !required.Has(resourceMinorPair.minor)",
       "quotav1.IsZero(resourceMinorPair.resources)",
       "!quotav1.LessThanOrEqual(podRequestPerInstance, resourceMinorPair.resources)"] := by decide

/-! ### who releases / adds what -/

/-- the event model's reading of an op on the generic pair below: whose allocation, which pod argument, add? -/
def modelShape : Op → String × String × Bool
  | .remove _ al => (if al = [(0, [some 1])] then "oldPod" else "pod", if al = [(0, [some 1])] then "oldPod" else "pod", false)
  | .add _ al => (if al = [(0, [some 1])] then "oldPod" else "pod", if al = [(0, [some 1])] then "oldPod" else "pod", true)
  | .refresh _ => ("?", "?", false)

/-- updatePod's two updateCacheUsed calls = updatePodOps on an assigned, live (old, new) pair: release the allocation
    parsed from the OLD object (under the old object's name), then add the one parsed from the NEW object -/
theorem tie_update_pod :
    C07.updatePod_shapes =
      (updatePodOps 7 (some { assigned := true, terminated := false, alloc := some [(0, [some 1])] })
        { assigned := true, terminated := false, alloc := some [(1, [some 2])] }).map modelShape ∧
    C07.updatePod_releaseGuard = "oldPod != nil && oldPod.Spec.NodeName != \"\" && len(oldAllocations) > 0" ∧
    -- unassigned new object ⇒ deletePod(oldPod); terminated ⇒ deletePod(pod), in this source order
    C07.updatePod_deletePod = ["oldPod", "pod"] := by decide

/-- deletePod subtracts the allocation parsed from the object it is given -/
theorem tie_delete_pod :
    C07.deletePod_shapes =
      (deletePodOps 7 { assigned := true, terminated := false, alloc := some [(1, [some 2])] }).map modelShape := by
  decide

theorem tie_entry_points :
    C07.onPodAdd_updatePod = ["nil, pod"] ∧ C07.onPodUpdate_updatePod = ["oldPod, pod"] ∧
    C07.onPodDelete_deletePod = ["pod"] ∧
    C07.reserve_updateCacheUsed = ["state.allocationResult, pod, true"] ∧
    C07.unreserve_updateCacheUsed = ["state.allocationResult, pod, false"] ∧
    C07.callers_updateCacheUsed = ["Reserve", "Unreserve", "deletePod", "updatePod"] := by decide

/-- every function that mutates a nodeDevice takes its lock first; the allocating paths read under RLock
    (the model's ops are atomic steps of one ledger) -/
theorem tie_locks :
    C07.lockedBeforeAccess =
      ["Plugin.Reserve", "Plugin.Unreserve", "nodeDeviceCache.updatePod", "nodeDeviceCache.deletePod",
       "nodeDeviceCache.updateNodeDevice", "nodeDeviceCache.invalidateNodeDevice", "Plugin.Filter", "Plugin.allocate"] := by
  decide

/-! ### extension 2: event shapes, handler wiring, read-only steps -/

/-- the model's reading of a type-switch clause list: which `Shape`s the clauses accept -/
def acceptsOf (typed : String) (cases : List String) (sh : Shape) : Bool :=
  match sh with
  | .obj => cases.contains typed
  | .tomb => cases.contains "cache.DeletedFinalStateUnknown"
  | .ptrTomb => cases.contains "*cache.DeletedFinalStateUnknown"
  | .tombOther => false
  | .nil => false
  | .other => false

def allShapes : List Shape := [.obj, .tomb, .ptrTomb, .tombOther, .nil, .other]

/-- onPodDelete's type switch = `decodeDelete`: the typed pod, a tombstone BY VALUE (whose Obj is then asserted to be a
    pod), nothing else (a `*cache.DeletedFinalStateUnknown` clause would accept a shape client-go never sends and lose
    the one it does); onPodAdd / onPodUpdate = `decodeObj` -/
theorem tie_pod_event_shapes :
    allShapes.map (acceptsOf "*corev1.Pod" C07.onPodDelete_cases) = allShapes.map decodeDelete ∧
    C07.onPodDelete_cases = ["*corev1.Pod", "cache.DeletedFinalStateUnknown", "default"] ∧
    C07.onPodDelete_asserts = ["*corev1.Pod"] ∧
    C07.onPodAdd_asserts = ["*corev1.Pod"] ∧
    C07.onPodUpdate_asserts = ["*corev1.Pod", "*corev1.Pod"] := by decide

/-- the reservation path = `revOps`: a FilteringResourceEventHandler (FilterFunc first) around
    ReservationToPodEventHandler; the filter unwraps a tombstone by value and then wants a *Reservation
    (`rsvFilter` = decodeDelete ∧ valid ∧ active); OnAdd / OnUpdate take the typed object only, OnDelete has the tombstone
    clause -/
theorem tie_rsv_event_shapes :
    C07.rsvHandler_wrapping = ["cache.FilteringResourceEventHandler{FilterFunc,Handler}", "ReservationToPodEventHandler{handler}"] ∧
    C07.rsvFilter_asserts = ["cache.DeletedFinalStateUnknown", "*schedulingv1alpha1.Reservation"] ∧
    allShapes.map (acceptsOf "*schedulingv1alpha1.Reservation" C07.rsvOnDelete_cases) = allShapes.map decodeDelete ∧
    C07.rsvOnDelete_asserts = ["*schedulingv1alpha1.Reservation"] ∧
    C07.rsvOnAdd_asserts = ["*schedulingv1alpha1.Reservation"] ∧
    C07.rsvOnUpdate_asserts = ["*schedulingv1alpha1.Reservation", "*schedulingv1alpha1.Reservation"] := by
  decide

/-- the Device informer handlers = `devOps`: add / update take the typed object and call updateNodeDevice, delete has the
    same two-clause type switch and calls invalidateNodeDevice -/
theorem tie_device_event_shapes :
    allShapes.map (acceptsOf "*schedulingv1alpha1.Device" C07.onDeviceDelete_cases) = allShapes.map decodeDelete ∧
    C07.onDeviceDelete_asserts = ["*schedulingv1alpha1.Device"] ∧
    C07.onDeviceAdd_asserts = ["*schedulingv1alpha1.Device"] ∧
    C07.onDeviceUpdate_asserts = ["*schedulingv1alpha1.Device", "*schedulingv1alpha1.Device"] ∧
    C07.onDeviceAdd_calls = ["updateNodeDevice"] ∧ C07.onDeviceUpdate_calls = ["updateNodeDevice"] ∧
    C07.onDeviceDelete_calls = ["invalidateNodeDevice"] ∧
    C07.deviceHandler_wiring = ["AddFunc=onDeviceAdd", "UpdateFunc=onDeviceUpdate", "DeleteFunc=onDeviceDelete"] := by
  decide

/-- registerPodEventHandler wires the three cache methods to the pod informer and feeds reservations through the same
    three behind NewReservationToPodEventHandler(…, IsObjValidActiveReservation) — what the `events` harness rebuilds -/
theorem tie_event_wiring :
    C07.podHandler_wiring =
      ["AddFunc=onPodAdd", "UpdateFunc=onPodUpdate", "DeleteFunc=onPodDelete"] ∧
    C07.rsvHandler_args = ["reservationutil.IsObjValidActiveReservation"] := by decide

/-- `drAppend` / `drSubtract`: getUsed hands out the LIVE lists (shallow copy), so deviceResources.append must store a
    DeepCopy for a new minor and add in place only into its own copy; appendAllocated copies a whole new type;
    subtract = SubtractWithNonNegativeResult | Subtract, IsZero ⇒ delete -/
theorem tie_append_copies :
    C07.getUsed_stores = ["var"] ∧
    C07.append_stores = ["call:DeepCopy", "var"] ∧ C07.append_helpers = ["AddResourceList"] ∧
    C07.appendAllocated_stores = ["call:DeepCopy"] ∧
    C07.subtract_helpers = ["SubtractWithNonNegativeResult", "Subtract", "IsZero"] := by decide

/-- the read-only steps take the READ lock only and never reach a ledger writer (`tie_entry_points`:
    updateCacheUsed is called from Reserve / Unreserve / deletePod / updatePod only); the calls of the
    append / subtract helpers (count, plain vs non-negative subtraction) are those of `dryRemovePod` / `dryAddPod` / `restoreOne` / `restore` / `dryFilter` do -/
theorem tie_readonly_steps :
    C07.readonly_locks =
      ["AddPod:RLock,RUnlock", "RemovePod:RLock,RUnlock", "RestoreReservation:RLock,RUnlock",
       "RestoreReservationPreAllocation:RLock,RUnlock", "Filter:RLock,RUnlock", "FilterNominateReservation:RLock,RUnlock"] ∧
    -- "<number of arguments>:<literal withNonNegativeResult flag or ->" per call, in source order
    C07.removePod_append = ["2:-", "2:-"] ∧ C07.addPod_subtract = ["3:false", "3:false"] ∧
    C07.removePod_getUsed = ["2:-", "2:-"] ∧ C07.restore_getUsed = ["2:-", "2:-"] ∧
    C07.restore_appendByHints = ["3:-"] ∧ C07.restore_subtract = ["3:false"] ∧
    C07.merge_subtract = ["3:true"] ∧ C07.merge_append = ["2:-", "2:-", "2:-"] ∧
    C07.filter_append = ["3:-", "2:-"] := by decide

/-- extension 4: WHICH fields the restore-state arithmetic reads (struct field names; local variables are `_`).
    mergeReservationAllocations: the discount of an unmatched reservation is
    `subtractAllocated(copyDeviceResources(alloc.allocatable), alloc.remained, true)` (`unmatchedDiscount`: allocatable −
    REMAINED, non-negative), the matched side appends `.allocatable` / `.allocated` (`restore`); Filter and allocate start
    their preemptible amounts from `mergedUnmatchedUsed` + the dry-run's `preemptibleDevices[node]` and add
    `mergedMatchedAllocatable` only for the fall-back allocation (`cycViewR`). -/
theorem tie_unmatched_discount :
    C07.merge_subtract_operands = ["copyDeviceResources(allocatable),remained,true"] ∧
    C07.merge_append_operands = ["_,_", "_,allocatable", "_,allocated"] ∧
    C07.filter_append_operands = ["nil,mergedUnmatchedUsed,preemptibleDevices[]", "_,mergedMatchedAllocatable"] ∧
    C07.allocate_append_operands = ["nil,mergedUnmatchedUsed,preemptibleDevices[]", "_,mergedMatchedAllocatable"] := by decide

/-! ### the request-shape tables (Model/C07Shape.lean `convertNZ`) -/

def sameSet (a b : List String) : Bool := a.length == b.length && a.all b.contains && b.all a.contains

/-- `convertNZ` has the rows of ValidDeviceResourceCombinations over the six names it covers (with the validator the model
    applies: none / pctOK on gpu-core and ratio / sharedOK); the other rows are the AMD / Hygon vendor names (as
    nvidia.com/gpu), the Huawei NPU names, FPGA and RDMA; every row has a mapper; the only per-name validators are
    ValidatePercentageResource on koordinator.sh/gpu, fpga, rdma (the order of the map literals is irrelevant) -/
theorem tie_shape_tables :
    sameSet C07.validCombinations
      ["NvidiaGPU=>ValidDeviceResourceCombinationsDefaultTrue", "KoordGPU=>ValidDeviceResourceCombinationsDefaultTrue",
       "GPUMemory=>ValidDeviceResourceCombinationsGPUPercentage", "GPUMemoryRatio=>ValidDeviceResourceCombinationsGPUPercentage",
       "GPUCore|GPUMemory=>ValidDeviceResourceCombinationsGPUPercentage",
       "GPUCore|GPUMemoryRatio=>ValidDeviceResourceCombinationsGPUPercentage",
       "GPUShared|GPUMemory=>ValidDeviceResourceCombinationsGPUShared",
       "GPUShared|GPUMemoryRatio=>ValidDeviceResourceCombinationsGPUShared",
       "GPUShared|GPUCore|GPUMemory=>ValidDeviceResourceCombinationsGPUShared",
       "GPUShared|GPUCore|GPUMemoryRatio=>ValidDeviceResourceCombinationsGPUShared",
       -- not generated / not modelled:
       "AMDGPU=>ValidDeviceResourceCombinationsDefaultTrue", "HygonDCU=>ValidDeviceResourceCombinationsDefaultTrue",
       "HuaweiNPUCore|GPUMemoryRatio=>ValidDeviceResourceCombinationsGPUPercentage",
       "GPUShared|HuaweiNPUCore|HuaweiNPUCPU|GPUMemory=>ValidDeviceResourceCombinationsHuaweiNPUShared",
       "GPUShared|HuaweiNPUCore|HuaweiNPUCPU|HuaweiNPUDVPP|GPUMemory=>ValidDeviceResourceCombinationsHuaweiNPUShared",
       "FPGA=>ValidDeviceResourceCombinationsDefaultTrue", "RDMA=>ValidDeviceResourceCombinationsDefaultTrue"] = true ∧
    sameSet C07.combinationMapperKeys C07.validCombinationKeys = true ∧
    sameSet C07.resourceValidators
      ["apiext.ResourceGPU=>ValidatePercentageResource", "apiext.ResourceFPGA=>ValidatePercentageResource",
       "apiext.ResourceRDMA=>ValidatePercentageResource"] = true ∧
    sameSet C07.resourceFlags
      ["apiext.ResourceNvidiaGPU=>NvidiaGPU", "apiext.ResourceGPU=>KoordGPU", "apiext.ResourceGPUCore=>GPUCore",
       "apiext.ResourceGPUMemory=>GPUMemory", "apiext.ResourceGPUMemoryRatio=>GPUMemoryRatio",
       "apiext.ResourceGPUShared=>GPUShared", "apiext.ResourceAMDGPU=>AMDGPU", "apiext.ResourceHygonDCU=>HygonDCU",
       "apiext.ResourceHuaweiNPUCore=>HuaweiNPUCore", "apiext.ResourceHuaweiNPUCPU=>HuaweiNPUCPU",
       "apiext.ResourceHuaweiNPUDVPP=>HuaweiNPUDVPP", "apiext.ResourceFPGA=>FPGA", "apiext.ResourceRDMA=>RDMA"] = true := by
  decide

/-! ### extension 3: the informer transformer and the allocation result in the cycle state (Model/C07Glue.lean) -/

/-- the deprecated → current resource-name table the transformer applies (the harness writes annotations with exactly
    these names: gpu-core / gpu-memory / gpu-memory-ratio, rdma, fpga; koordinator.sh/gpu is not generated) -/
theorem tie_deprecated_names :
    C07.deprecatedDeviceMapper =
      ["DeprecatedGPUCore=>ResourceGPUCore", "DeprecatedGPUMemory=>ResourceGPUMemory",
       "DeprecatedGPUMemoryRatio=>ResourceGPUMemoryRatio", "DeprecatedKoordFPGA=>ResourceFPGA",
       "DeprecatedKoordGPU=>ResourceGPU", "DeprecatedKoordRDMA=>ResourceRDMA"] := by decide

/-- SetupTransformers installs TransformPodFactory() on the pod informer (the function the harness puts in front of the
    pod handlers) and TransformDevice on the Device informer; the pod transformer list contains the rename -/
theorem tie_transformer_installed :
    C07.transformerFactories_table = ["pods=>TransformPodFactory"] ∧
    C07.transformers_table.contains "devices=>TransformDevice" = true ∧
    C07.podTransformers_list.contains "TransformDeprecatedDeviceResources" = true := by decide

/-- `transformAnn` is a map over ALL entries: in transformDeviceAllocations the helper call sits inside two nested loops
    and is executed unconditionally there (not in an if body, not the right operand of && / ||); the helper itself
    tries every pair of the mapper (one loop, unconditionally).  Written so that `changed := helper(…); transformed =
    transformed || changed` passes and `transformed = transformed || helper(…)` does not. -/
theorem tie_transform_every_entry :
    C07.transformAlloc_helperCalls = 1 ∧ C07.transformAlloc_loopDepth = 2 ∧ C07.transformAlloc_unconditional = true ∧
    C07.mapperHelper_calls = 1 ∧ C07.mapperHelper_loopDepth = 1 ∧ C07.mapperHelper_unconditional = true := by decide

/-- `renameQ`: replaceAndEraseResource gives up when `to` is empty or already present, and only then looks at `from`
    (structural: variable names are part of the fact) -/
theorem tie_rename_guards :
    C07.replaceAndErase_guards =
      ["if to == \"\"", "if resourceList[to];ok", "assign resourceList[from]", "if ok", "return"] := by decide

/-- `cycFilter` / `cycReserve` / `cycPreFilter`: in Plugin.Filter the trial allocate sits under
    `designatedAllocation != nil` and `allocationResult == nil`, is followed by the return on failure and then by
    `state.allocationResult = nil`; Plugin.Reserve allocates under `allocationResult == nil`; Plugin.allocate stores its
    result once; PreFilter drops the designation when the hint does not name the plugin (structural) -/
theorem tie_cycle_result :
    C07.filter_trial_block = ["allocate", "return-on-failure", "clear-result"] ∧
    C07.filter_trial_conds = ["state.designatedAllocation != nil", "state.allocationResult == nil"] ∧
    C07.reserve_allocate_conds = ["state.allocationResult == nil"] ∧
    C07.reserve_allocate_block.contains "allocate" = true ∧
    C07.reserve_allocate_block.contains "clear-result" = false ∧
    C07.allocate_result_stores = 1 ∧
    C07.prefilter_designation_cleared_when.head? = some "!hintForDevice" := by decide

/-- EXTENSION 6 - fillGPUTotalMem converts every entry with the gpu-memory total of the device THE ENTRY IS ON
    (Model/C07Fill.lean `fillGPU`: `rlVal t 1` of `drGet total e.1`): the range body looks the device up by the entry's own
    minor, and both conversions take that device's gpu-memory (directly or through a local assigned once, directly in the
    loop body).  Local names are free; a size looked up outside the loop / under a condition breaks the tie. -/
theorem tie_fill_uses_entry_device :
    C07.fill_device_lookup = "in-loop:entry-minor" ∧
    C07.fill_conversion_totals = ["memoryBytesToRatio:entry-device", "memoryRatioToBytes:entry-device"] := by decide

end KoordVerif.C07
