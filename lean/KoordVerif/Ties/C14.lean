import KoordVerif.Model.C14
import KoordVerif.Model.C14Entry
import KoordVerif.Generated.C14
/-
Tie lemmas: the constants, formulas, guards and registrations the model and the property statement use are those of
/repo's current source (regenerated on every run by harness/extract).  Conditions are rendered with the local
identifiers of the function replaced by `_`.
-/
namespace KoordVerif.C14
open KoordVerif.Generated

theorem tie_extract_ok : C14.extractOK = true := by decide

theorem tie_consts :
    stdConsts = { shareUnit := C14.CPUShareUnitValue, sharesMin := C14.CPUSharesMinValue,
                  sharesMax := C14.CPUSharesMaxValue, cfsPeriod := C14.CFSBasePeriodValue,
                  quotaMin := C14.CFSQuotaMinValue } := by decide

/-- cgroup v2: `ConvertCPUSharesToWeight` is the formula of `sharesToWeight`, clamped to the weight range. -/
theorem tie_weight :
    C14.weightFormula = "1 + ((_ - 2) * 9999) / 262142" ∧
    weightMin = C14.CPUWeightMinValue ∧ weightMax = C14.CPUWeightMaxValue ∧
    (262142 : Int) = C14.CPUSharesMaxValue - C14.CPUSharesMinValue ∧
    (9999 : Int) = C14.CPUWeightMaxValue - C14.CPUWeightMinValue := by decide

/-- every assignment of `ExtendedResources` on the annotation paths sits behind the nil-AND-nil-map guard
    (model: `podFromNri`, `podFromProxy`, `ctrFromNri`, `ctrFromProxy` match on `some (some m)` only). -/
theorem tie_entry_guards_annotation :
    C14.podFromNriGuards = ["_ != nil && _.Containers != nil"] ∧
    C14.podFromProxyGuards = ["_ != nil && _.Containers != nil"] ∧
    C14.ctrFromNriGuards = ["_ != nil && _.Containers != nil ; _"] ∧
    C14.ctrFromProxyGuards = ["_ != nil && _.Containers != nil ; _"] := by decide

/-- reconciler paths: spec first, annotation only in the else branch and behind the same guard
    (model: `podFromReconciler`, `ctrFromReconciler`). -/
theorem tie_entry_guards_reconciler :
    C14.podFromReconcilerGuards = ["_ != nil", "else(_ != nil) ; _ != nil && _.Containers != nil"] ∧
    C14.ctrFromReconcilerGuards = ["_ != nil", "else(_ != nil) ; _ != nil && _.Containers != nil ; _"] := by decide

/-- the setters leave early, in this order: nil context, not BE, no spec (model: `podHook`, `ctrHook`); the quota
    setters then on "CFS quota disabled" (model: `podQuota`, `ctrQuota`). -/
theorem tie_setter_guards :
    C14.guardsSetPodCPUShares = ["_ == nil", "!isPodQoSBEByAttr(_.Request.Labels, _.Request.Annotations)", "_ == nil"] ∧
    C14.guardsSetPodMemoryLimit = C14.guardsSetPodCPUShares ∧
    C14.guardsSetPodCFSQuota = C14.guardsSetPodCPUShares ++ ["!_"] ∧
    C14.guardsSetContainerCPUShares = ["_ == nil", "!isPodQoSBEByAttr(_.Request.PodLabels, _.Request.PodAnnotations)", "_ == nil"] ∧
    C14.guardsSetContainerMemoryLimit = C14.guardsSetContainerCPUShares ∧
    C14.guardsSetContainerCFSQuota = C14.guardsSetContainerCPUShares ++ ["!_"] := by decide

/-- the reconciler drives exactly these six setters, one per level and file, for QoS BE (the entry harness mirrors
    this table: one request per file). -/
theorem tie_reconcilers :
    C14.reconcilers =
      ["PodLevel CPUShares SetPodCPUShares PodQOSFilter podQOSConditions",
       "PodLevel CPUCFSQuota SetPodCFSQuota PodQOSFilter podQOSConditions",
       "PodLevel MemoryLimit SetPodMemoryLimit PodQOSFilter podQOSConditions",
       "ContainerLevel CPUShares SetContainerCPUShares PodQOSFilter podQOSConditions",
       "ContainerLevel CPUCFSQuota SetContainerCFSQuota PodQOSFilter podQOSConditions",
       "ContainerLevel MemoryLimit SetContainerMemoryLimit PodQOSFilter podQOSConditions"] ∧
    C14.podQOSConditions = "string(apiext.QoSBE)" := by decide

/-- node SLO glue: the strategy's own `enable` VALUE and policy are used unless the strategy or its policy is unset
    (then the default strategy); CFS quota is given up only for `enable && policy == cfsQuota`
    (model: `RuleEv.slo`, computed by the harness as `!(enable && cfsQuota)`). -/
theorem tie_node_slo_glue :
    C14.cpuSuppressPolicy =
      ["if _ == nil || _.ResourceUsedThresholdWithBE == nil || _.ResourceUsedThresholdWithBE.CPUSuppressPolicy == \"\"",
       "  ret *sloconfig.DefaultResourceThresholdStrategy().Enable",
       "  ret sloconfig.DefaultResourceThresholdStrategy().CPUSuppressPolicy",
       "ret *_.ResourceUsedThresholdWithBE.Enable",
       "ret _.ResourceUsedThresholdWithBE.CPUSuppressPolicy"] ∧
    C14.sloDisablesCFSQuota = "_ && _ == slov1alpha1.CPUCfsQuotaPolicy => false" ∧
    C14.ratioDiffEpsilon = "0.01" := by decide

/-- the executor's updaters for the three files: shares through the weight conversion, quota and memory through the
    `-1 → max` conversion (model: `writeShares`, `writeLimit`). -/
theorem tie_updaters :
    C14.updaters =
      ["CPUCFSQuotaName <- NewMergeableCgroupUpdaterWithConditionFunc(CgroupUpdateWithUnlimitedFunc, MergeConditionIfCFSQuotaIsLarger)",
       "CPUSharesName <- NewCgroupUpdaterWithUpdateFunc(CgroupUpdateCPUSharesFunc)",
       "MemoryLimitName <- NewCgroupUpdaterWithUpdateFunc(CgroupUpdateWithUnlimitedFunc)"] := by rfl

/-- the rule is read and written under its lock only (the model's `Rule.step` / `Rule.effective` are atomic steps). -/
theorem tie_rule_locks :
    C14.ruleLocks = ["GetCFSQuotaScaleRatio RLock RUnlock", "UpdateCFSQuotaEnabled Lock Unlock",
                     "UpdateCPUNormalizationRatio Lock Unlock"] := by decide

/-- runtime proxy, hook answer -> executor (utils.go updateResource, helpers followed): the conditions under which each
    observed field is taken over are the ones of the model's `mergeHook` (quota: `!= 0`, so -1 counts). -/
theorem tie_cri_hook_rules :
    C14.criHookRules =
      ["CpuPeriod if b.CpuPeriod > 0", "CpuQuota if b.CpuQuota != 0", "CpuShares if b.CpuShares > 0",
       "CpusetCpus always", "CpusetMems always", "MemoryLimitInBytes if b.MemoryLimitInBytes > 0"] := by rfl

/-- runtime proxy, kubelet update request -> checkpoint (updateResourceByUpdateContainerResourceRequest): model `mergeUpd`. -/
theorem tie_cri_update_rules :
    C14.criUpdateRules =
      ["CpuPeriod if b.CpuPeriod > 0", "CpuQuota if b.CpuQuota != 0", "CpuShares if b.CpuShares > 0",
       "CpusetCpus if b.CpusetCpus != \"\"", "CpusetMems if b.CpusetMems != \"\"",
       "MemoryLimitInBytes if b.MemoryLimitInBytes > 0"] := by rfl

end KoordVerif.C14
