import KoordVerif.Model.C14
import KoordVerif.Generated.C14
/-
Tie lemmas: the constants the model and the property statement use are the constants of
/repo's current source (regenerated on every run by harness/extract).
-/
namespace KoordVerif.C14
open KoordVerif.Generated

theorem tie_extract_ok : C14.extractOK = true := by decide

theorem tie_consts :
    stdConsts = { shareUnit := C14.CPUShareUnitValue, sharesMin := C14.CPUSharesMinValue,
                  sharesMax := C14.CPUSharesMaxValue, cfsPeriod := C14.CFSBasePeriodValue,
                  quotaMin := C14.CFSQuotaMinValue } := by decide

end KoordVerif.C14
