import KoordVerif.Model.C18
import KoordVerif.Model.C18Usage
import KoordVerif.Generated.C18
/-
Tie lemmas for C18: constants and guard structure extracted from /repo's current source
(harness/extract/facts_c18.go, regenerated on every run) equal what the model mirrors.
-/
namespace KoordVerif.C18
open KoordVerif.Generated

theorem tie_extract_ok : C18.extractOK = true := by decide

/-- the defaults newThresholds fills in (`dfltPct`): 100 in static mode, 0 in deviation mode. -/
theorem tie_default_percentages :
    dfltPct false = C18.MaxResourcePercentage ∧ dfltPct true = C18.MinResourcePercentage := by decide

/-- processOneNodePool: the six early exits of `runRound` (exit codes 1–6) plus the filterNodes
    error guard precede the evictPodsFromSourceNodes call. -/
theorem tie_early_exits : C18.earlyExitGuards = 6 + 1 := by decide

/-- evictPods: before every Evict call the loop first asks continueEviction (and returns), then
    the pod filter (and skips the pod); the call itself is in the non-dry-run branch — the guard
    order of `evictLoop`. -/
theorem tie_evict_loop_guards :
    C18.evictLoopGuards = ["continueEviction:return", "podFilter:continue"] ∧
    C18.evictInDryRunElse = true := by decide

/-- the capacity table of `Model/C18Usage.lean`: the functions that obtain a capacity through
    GetNodeRawAllocatableFromNode are exactly the five entries of `capUses` (all `CapKind.raw`), and
    no function of the package reads `node.Status.Allocatable` except that getter (its fallback). -/
theorem tie_capacity_table :
    (∀ u ∈ capUses, u.goFunc ∈ C18.rawAllocatableCallers ∧ capKindOf u = CapKind.raw) ∧
    C18.rawAllocatableCallers.length = capUses.length ∧
    C18.statusAllocatableReaders = ["GetNodeRawAllocatableFromNode"] := by decide

/-- getNodeUsage: the prod lookup table is stored and looked up through a key VARIABLE, and every
    key the function formats is "<Namespace>/<Name>" — the pair `Key` of the model (`prodKeys`,
    `countsAsProd_iff`). -/
theorem tie_prod_key_shape :
    C18.prodMapIndexKinds = ["var", "var"] ∧
    C18.getNodeUsageSprintfs = ["%s/%s:Namespace,Name", "%s/%s:Namespace,Name"] := by decide

/-- processOneNodePool: which detector cache the calls get (sorted multiset) — `runRound`:
    filterRealAbnormal (node, prod), resetAll (low→node, prodLow→prod, bothLow→node),
    markNormAll (node, prod); and the continueEvictionCond closure refers to BOTH caches
    (`drained_node_detector_reset`: the prod pass resets the prod detector). -/
theorem tie_detector_caches :
    C18.detectorCacheUse =
      ["filterRealAbnormalNodes:nodeAnomalyDetectors", "filterRealAbnormalNodes:prodAnomalyDetectors",
       "resetNodesAsNormal:nodeAnomalyDetectors", "resetNodesAsNormal:nodeAnomalyDetectors",
       "resetNodesAsNormal:prodAnomalyDetectors",
       "tryMarkNodesAsNormal:nodeAnomalyDetectors", "tryMarkNodesAsNormal:prodAnomalyDetectors"] ∧
    C18.continueCondCaches = ["nodeAnomalyDetectors", "prodAnomalyDetectors"] := by decide

end KoordVerif.C18
