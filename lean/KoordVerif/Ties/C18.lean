import KoordVerif.Model.C18
import KoordVerif.Model.C18Usage
import KoordVerif.Model.C18Pools
import KoordVerif.Generated.C18
/-
Tie lemmas for C18: constants and guard structure extracted from /repo's current source
(harness/extract/facts_c18.go, regenerated on every run) equal what the model mirrors.
-/
namespace KoordVerif.C18
open KoordVerif.Generated

theorem tie_extract_ok : C18.extractOK = true := by decide

/-- the defaults newThresholds fills in (`dfltPct`): 100 in static mode, 0 in deviation mode. -/
theorem tie_default_percentages :
    dfltPct false = C18.MaxResourcePercentage ∧ dfltPct true = C18.MinResourcePercentage := by decide

/-- processOneNodePool: the six early exits of `runRound` (exit codes 1–6) plus the filterNodes
    error guard precede the evictPodsFromSourceNodes call. -/
theorem tie_early_exits : C18.earlyExitGuards = 6 + 1 := by decide

/-- evictPods: before every Evict call the loop first asks continueEviction (and returns), then
    the pod filter (and skips the pod); the call itself is in the non-dry-run branch — the guard
    order of `evictLoop`. -/
theorem tie_evict_loop_guards :
    C18.evictLoopGuards = ["continueEviction:return", "podFilter:continue"] ∧
    C18.evictInDryRunElse = true := by decide

/-- the capacity table of `Model/C18Usage.lean`: the functions that obtain a capacity through
    GetNodeRawAllocatableFromNode are exactly the five entries of `capUses` (all `CapKind.raw`), and
    no function of the package reads `node.Status.Allocatable` except that getter (its fallback). -/
theorem tie_capacity_table :
    (∀ u ∈ capUses, u.goFunc ∈ C18.rawAllocatableCallers ∧ capKindOf u = CapKind.raw) ∧
    C18.rawAllocatableCallers.length = capUses.length ∧
    C18.statusAllocatableReaders = ["GetNodeRawAllocatableFromNode"] := by decide

/-- getNodeUsage: the prod lookup table is stored and looked up through a key VARIABLE, and every
    key the function formats is "<Namespace>/<Name>" — the pair `Key` of the model (`prodKeys`,
    `countsAsProd_iff`). -/
theorem tie_prod_key_shape :
    C18.prodMapIndexKinds = ["var", "var"] ∧
    C18.getNodeUsageSprintfs = ["%s/%s:Namespace,Name", "%s/%s:Namespace,Name"] := by decide

/-- processOneNodePool: which detector cache the calls get (sorted multiset) — `runRound`:
    filterRealAbnormal (node, prod), resetAll (low→node, prodLow→prod, bothLow→node),
    markNormAll (node, prod); and the continueEvictionCond closure refers to BOTH caches
    (`drained_node_detector_reset`: the prod pass resets the prod detector). -/
theorem tie_detector_caches :
    C18.detectorCacheUse =
      ["filterRealAbnormalNodes:nodeAnomalyDetectors", "filterRealAbnormalNodes:prodAnomalyDetectors",
       "resetNodesAsNormal:nodeAnomalyDetectors", "resetNodesAsNormal:nodeAnomalyDetectors",
       "resetNodesAsNormal:prodAnomalyDetectors",
       "tryMarkNodesAsNormal:nodeAnomalyDetectors", "tryMarkNodesAsNormal:prodAnomalyDetectors"] ∧
    C18.continueCondCaches = ["nodeAnomalyDetectors", "prodAnomalyDetectors"] := by decide

/-- conversion: the implicit pool built from the top-level fields is PREPENDED to the user's pools
    (`convertPools = topPool :: userPools`, `convertPools_default_first`), under its fixed name. -/
theorem tie_convert_default_first :
    C18.convertAppendShape = "default-first" ∧ C18.defaultPoolName = "__default_node_pool__" := by decide

/-- defaulting of the anomaly condition: 5 / 3 (`defaultCond`), and the nil / abnormalities == 0 /
    normalities == 0 tests form ONE if / else-if chain (`defaultTopCond`, `defaultTopCond_norm_zero_iff`). -/
theorem tie_anomaly_defaults :
    C18.defaultAnomaly = [(defaultCond.abn : Int), (defaultCond.norm : Int)] ∧
    C18.topAnomalyChain = ["AnomalyCondition==nil", "ConsecutiveAbnormalities==0", "ConsecutiveNormalities==0"] := by decide

/-- SetDefaults_LowNodeLoadNodePools: exactly these pool fields are taken from the top level when nil
    (`defaultPool`; the anomaly condition additionally number by number). -/
theorem tie_pool_inheritance :
    C18.poolInheritsWhenNil = ["AnomalyCondition", "HighThresholds", "LowThresholds", "ProdHighThresholds",
      "ProdLowThresholds", "ResourceWeights"] := by decide

/-- filterNodes: no early return for a nil selector, and the loop skips processed nodes for every
    pool (`filterNodes`, `filterNodes_skips_processed`). -/
theorem tie_filterNodes :
    C18.filterNodesNilSelectorReturns = false ∧ C18.filterNodesSkipsProcessed = true := by decide

/-- processOneNodePool inserts the node-level sources AND the prod sources into processedNodes right
    after BOTH filterRealAbnormalNodes calls: behind three returning guards (filterNodes error, "no nodes"
    = exit 1, "no source nodes" = exit 2) and before every other exit and the eviction call
    (`poolSources`, `poolStep`: sources unless exit 1 or 2); Balance shares one processedNodes set among
    the pools (`balancePools`). -/
theorem tie_processed_nodes :
    C18.processedInsertLoops = ["prodHighNodes", "sourceNodes"] ∧
    C18.processedInsertGuardsBefore = 1 + 2 ∧ C18.processedInsertMarkCallsBefore = 2 ∧
    C18.processedInsertAfterEvict = false ∧ C18.processedSharedByPools = true := by decide

/-- evictPodsFromSourceNodes, the headroom maps step by step (extension round 5) — `evictFromSources`:
    node pass on  fresh#1 = Σ low-only + Σ both-low node headroom  (`nodeTotal`);
    then the both-low node headroom is CAPPED, only when it is larger, at what the node pass left
    (`bothTotal' := vmin bothTotal b1.avail` — not replaced by it: what is left also holds the room of
    the node-level-only receivers);  prod pass on  fresh#2 = Σ prod-low-only prod headroom +
    min(both-low prod headroom, capped both-low node headroom)  (`prodTotal`, `prod_headroom_capped`). -/
theorem tie_headroom_steps :
    C18.headroomSteps =
      ["fresh#1[].Add(avail(destinationNodes,false)[])",
       "fresh#1[].Add(avail(bothDestinationNodes,false)[])",
       "balancePods(fresh#1)",
       "avail(bothDestinationNodes,false)[]=fresh#1[] if avail(bothDestinationNodes,false)[].Cmp(fresh#1[])>0",
       "fresh#2[].Add(avail(prodDestinationNodes,true)[])",
       "fresh#2[].Add(avail(bothDestinationNodes,false)[]) if avail(bothDestinationNodes,true)[].Cmp(avail(bothDestinationNodes,false)[])>0",
       "fresh#2[].Add(avail(bothDestinationNodes,true)[]) if not avail(bothDestinationNodes,true)[].Cmp(avail(bothDestinationNodes,false)[])>0",
       "balancePods(fresh#2)"] := by decide

end KoordVerif.C18
