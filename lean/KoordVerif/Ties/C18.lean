import KoordVerif.Model.C18
import KoordVerif.Generated.C18
/-
Tie lemmas for C18: constants and guard structure extracted from /repo's current source
(harness/extract/facts_c18.go, regenerated on every run) equal what the model mirrors.
-/
namespace KoordVerif.C18
open KoordVerif.Generated

theorem tie_extract_ok : C18.extractOK = true := by decide

/-- the defaults newThresholds fills in (`dfltPct`): 100 in static mode, 0 in deviation mode. -/
theorem tie_default_percentages :
    dfltPct false = C18.MaxResourcePercentage ∧ dfltPct true = C18.MinResourcePercentage := by decide

/-- processOneNodePool: the six early exits of `runRound` (exit codes 1–6) plus the filterNodes
    error guard precede the evictPodsFromSourceNodes call. -/
theorem tie_early_exits : C18.earlyExitGuards = 6 + 1 := by decide

/-- evictPods: before every Evict call the loop first asks continueEviction (and returns), then
    the pod filter (and skips the pod); the call itself is in the non-dry-run branch — the guard
    order of `evictLoop`. -/
theorem tie_evict_loop_guards :
    C18.evictLoopGuards = ["continueEviction:return", "podFilter:continue"] ∧
    C18.evictInDryRunElse = true := by decide

end KoordVerif.C18
