import KoordVerif.Model.C12
import KoordVerif.Generated.C12
/-
Tie lemmas for C12: facts regenerated from /repo's current resourceexecutor sources equal what the
model assumes — which updater constructor (merge condition) each resource of the line protocol is
registered with, the direction / method / inner order of the two sweeps of LeveledUpdateBatch, and
that MergeFuncUpdateCgroup returns (hence the executor caches) an updater carrying the value the file
actually holds (merged value after a write, old content when no merge is needed).
-/
namespace KoordVerif.C12
open KoordVerif.Generated

theorem tie_extract_ok : C12.extractOK = true := by decide

/-- resource of the line protocol → name of the sysutil constant it is registered under. -/
def resName : Nat → String
  | 0 => "CPUSetCPUSName" | 1 => "CPUCFSQuotaName" | 2 => "MemoryMinName"
  | 3 => "MemoryLowName" | 4 => "MemoryHighName" | _ => "MemoryLimitName"

/-- constructor → (mergeable, merge condition) as the model reads it. -/
def ctorMeaning : String → Option (Bool × String)
  | "NewMergeableCgroupUpdaterWithConditionFunc(CommonCgroupUpdateFunc,MergeConditionIfCPUSetIsLooser)" => some (true, "union")
  | "NewMergeableCgroupUpdaterWithConditionFunc(CgroupUpdateWithUnlimitedFunc,MergeConditionIfCFSQuotaIsLarger)" => some (true, "larger")
  | "NewMergeableCgroupUpdaterIfValueLarger" => some (true, "larger")
  | "NewCgroupUpdaterWithUpdateFunc(CgroupUpdateWithUnlimitedFunc)" => some (false, "none")
  | _ => none

/-- the merge-condition table resource → {union, only-if-larger, none} of the current registry. -/
theorem tie_registry :
    (List.range 6).map (fun r => (C12.registry.lookup (resName r)).bind ctorMeaning) =
      [some (true, "union"), some (true, "larger"), some (true, "larger"), some (true, "larger"),
       some (true, "larger"), some (false, "none")] := by decide

/-- … and the model's domains have exactly that mergeability. -/
theorem tie_model_mergeable :
    cpusetDom.mergeable = true ∧
    (∀ v2, ((intDomOf 1 v2).map (·.mergeable)) = some true) ∧
    (∀ v2, ((intDomOf 2 v2).map (·.mergeable)) = some true) ∧
    (∀ v2, ((intDomOf 3 v2).map (·.mergeable)) = some true) ∧
    (∀ v2, ((intDomOf 4 v2).map (·.mergeable)) = some true) ∧
    (∀ v2, ((intDomOf 5 v2).map (·.mergeable)) = some false) := by
  refine ⟨rfl, ?_, ?_, ?_, ?_, ?_⟩ <;> intro v2 <;> cases v2 <;> rfl

/-- first sweep: levels ascending calling MergeUpdate; second: levels descending calling update();
    each level iterated forward; needUpdate consulted first (else the extractor fails). -/
theorem tie_passes : C12.passes = [(true, "MergeUpdate", true), (false, "update", true)] := by decide

theorem tie_cached_value : C12.mergeWriteCachesWritten = true ∧ C12.mergeSkipCachesOld = true := by decide

/-- applyCPUSetWithNonePolicy runs exactly two unconditional sweeps: the merged set in path order, then the
    new set in reversed path order (`nonePolicy` in the model). -/
theorem tie_none_policy_sweeps : C12.nonePolicySweeps = [(true, false), (false, true)] := by decide

end KoordVerif.C12
