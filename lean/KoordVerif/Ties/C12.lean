import KoordVerif.Model.C12
import KoordVerif.Model.C12Static
import KoordVerif.Model.C12Kind
import KoordVerif.Generated.C12
/-
Tie lemmas for C12: facts regenerated from /repo's current resourceexecutor sources equal what the
model assumes — which updater constructor (merge condition) each resource of the line protocol is
registered with, the direction / method / inner order of the two sweeps of LeveledUpdateBatch, and
that MergeFuncUpdateCgroup returns (hence the executor caches) an updater carrying the value the file
actually holds (merged value after a write, old content when no merge is needed).
-/
namespace KoordVerif.C12
open KoordVerif.Generated

theorem tie_extract_ok : C12.extractOK = true := by decide

/-- resource of the line protocol → name of the sysutil constant it is registered under. -/
def resName : Nat → String
  | 0 => "CPUSetCPUSName" | 1 => "CPUCFSQuotaName" | 2 => "MemoryMinName"
  | 3 => "MemoryLowName" | 4 => "MemoryHighName" | _ => "MemoryLimitName"

/-- constructor → (mergeable, merge condition) as the model reads it. -/
def ctorMeaning : String → Option (Bool × String)
  | "NewMergeableCgroupUpdaterWithConditionFunc(CommonCgroupUpdateFunc,MergeConditionIfCPUSetIsLooser)" => some (true, "union")
  | "NewMergeableCgroupUpdaterWithConditionFunc(CgroupUpdateWithUnlimitedFunc,MergeConditionIfCFSQuotaIsLarger)" => some (true, "larger")
  | "NewMergeableCgroupUpdaterIfValueLarger" => some (true, "larger")
  | "NewCgroupUpdaterWithUpdateFunc(CgroupUpdateWithUnlimitedFunc)" => some (false, "none")
  | _ => none

/-- the merge-condition table resource → {union, only-if-larger, none} of the current registry. -/
theorem tie_registry :
    (List.range 6).map (fun r => (C12.registry.lookup (resName r)).bind ctorMeaning) =
      [some (true, "union"), some (true, "larger"), some (true, "larger"), some (true, "larger"),
       some (true, "larger"), some (false, "none")] := by decide

/-- … and the model's domains have exactly that mergeability. -/
theorem tie_model_mergeable :
    cpusetDom.mergeable = true ∧
    (∀ v2, ((intDomOf 1 v2).map (·.mergeable)) = some true) ∧
    (∀ v2, ((intDomOf 2 v2).map (·.mergeable)) = some true) ∧
    (∀ v2, ((intDomOf 3 v2).map (·.mergeable)) = some true) ∧
    (∀ v2, ((intDomOf 4 v2).map (·.mergeable)) = some true) ∧
    (∀ v2, ((intDomOf 5 v2).map (·.mergeable)) = some false) := by
  refine ⟨rfl, ?_, ?_, ?_, ?_, ?_⟩ <;> intro v2 <;> cases v2 <;> rfl

/-- loop directions of both sweeps: first sweep levels ascending, each level FORWARDS, calling MergeUpdate; second
    sweep levels descending, each level BACKWARDS (`for j := len-1 .. 0`, fix 4d8d1bf), calling update() - i.e. the
    model's `levels.flatten` and `sweep2 levels`; needUpdate consulted first (else the extractor fails). -/
theorem tie_passes : C12.passes = [(true, "MergeUpdate", true), (false, "update", false)] := by decide

/-- … and `sweep2` is that order: last level first, every level last element first. -/
theorem tie_sweep2_order : sweep2 [[1, 2], [3, 4, 5]] = [5, 4, 3, 2, 1] := by decide

theorem tie_cached_value : C12.mergeWriteCachesWritten = true ∧ C12.mergeSkipCachesOld = true := by decide

/-- applyCPUSetWithNonePolicy runs exactly two unconditional sweeps: the merged set in path order, then the
    new set in reversed path order (`nonePolicy` in the model). -/
theorem tie_none_policy_sweeps : C12.nonePolicySweeps = [(true, false), (false, true)] := by decide

/-- both sweeps: needUpdate first; the updater call; an error — ignored or not — takes `continue` BEFORE the
    timestamp / ResourceCache.SetDefault statements, so a directory that could not be read or written is never
    recorded in the cache (`stepE` in Model/C12Env.lean: identity on a missing directory); in the first sweep the
    error test also precedes the `mergedUpdater == nil` (skipMerge) test. -/
/- (local variable names are erased by the extractor: `_` = a local, `$k` = the k-th parameter) -/
theorem tie_pass_skeleton :
    C12.passSkeleton =
      [["if:!needUpdate(_):continue", "call:MergeUpdate()", "if:_!=nil&&isUpdateErrIgnored(_):continue",
        "if:_!=nil:continue", "if:_==nil", "do:UpdateLastUpdateTimestamp", "cache", "if:_!=nil"],
       ["if:!needUpdate(_):continue", "if:_[Key()]:continue", "call:update()",
        "if:_!=nil&&isUpdateErrIgnored(_):continue", "if:_!=nil:continue", "do:UpdateLastUpdateTimestamp",
        "cache", "if:_!=nil"]] := by
  decide

/-- the errors the executor ignores: nil, resource unsupported, cgroup dir/file does not exist. -/
theorem tie_ignored_errs :
    C12.ignoredErrConds = ["$1==nil", "IsResourceUnsupportedErr($1)", "IsCgroupDirErr($1)"] := by decide

/-- applyBESuppressCPUSet dispatches as `applyBESuppress` in the model: two returning guards (NodeTopo nil, policy
    annotation unparsable) before the branch, the static arm taken iff Policy == "static", the none-policy
    function in the other arm. -/
theorem tie_suppress_dispatch :
    C12.suppressGuards = ["_==nil", "_!=nil"] ∧
    C12.suppressCond = "Policy==KubeletCPUManagerPolicyStatic" ∧
    C12.suppressElseCalls = ["applyCPUSetWithNonePolicy($1,$2)"] := by decide

/-- adjustByCPUSet hands applyBESuppressCPUSet, as oldCPUSet, the cgroup reader's reading of the besteffort ROOT dir
    (`adjustOld` in Model/C12Adjust.lean) - not koordletutil.GetBECgroupCurCPUSet(), the narrowest container / root set,
    which adjust_old_narrowest_counterexample refutes; the variable is assigned exactly once in the function. -/
theorem tie_adjust_old_source :
    C12.adjustOldSource = "cgroupReader.ReadCPUSet(GetPodQoSRelativePath(PodQOSBestEffort)).ToInt32Slice()" ∧
    C12.adjustOldAssignments = 1 := by decide

/-- the ORDER of the two calls of the static arm: recover besteffort + pod dirs FIRST, containers afterwards
    (`staticPolicy` in the model; the swapped order is refuted by static_policy_swapped_order_counterexample). -/
theorem tie_static_policy_order :
    C12.suppressStaticCalls =
      ["recoverCPUSetIfNeed(PodCgroupPathRelativeDepth)", "applyCPUSetWithStaticPolicy($1)"] := by decide

/-- each of the two steps is one unconditional forward sweep: recover over the dirs of depth ≤ maxDepth with the
    calcBECPUSet string, static over the dirs of depth == container depth with the new set, skipped when empty. -/
theorem tie_static_policy_sweeps :
    C12.recoverSweeps = ["GetBECPUSetPathsByMaxDepth($1)|String()|false"] ∧
    C12.staticSweeps =
      ["GetBECPUSetPathsByTargetDepth(ContainerCgroupPathRelativeDepth)|GenerateCPUSetStr($1)|false"] ∧
    C12.staticFirstGuard = "len($1)<=0" ∧
    C12.maxDepthCmp = "<=" ∧ C12.targetDepthCmp = "==" := by decide

theorem tie_depths : C12.podDepthConst = (podDepth : Int) ∧ C12.ctrDepthConst = (ctrDepth : Int) := by decide

/-! ### the kind of the updaters the real callers hand to LeveledUpdateBatch (Model/C12Kind.lean) -/

/-- exactly three functions outside resourceexecutor call LeveledUpdateBatch; their levels are [pods, containers]
    (filled only from GetUpdaters() of a PodContext / a ContainerContext; local names erased) resp. the three results
    of calculateResources in order ([qos, pods, containers]).
    A new caller, another level order or another source of updaters has to be examined. -/
theorem tie_leveled_callers :
    C12.leveledCallers =
      [("pkg/koordlet/qosmanager/plugins/cgreconcile:calculateAndUpdateResources",
        "calculateResources#0,calculateResources#1,calculateResources#2"),
       ("pkg/koordlet/runtimehooks/hooks/batchresource:ruleUpdateCbForNodeMeta",
        "PodContext.GetUpdaters,ContainerContext.GetUpdaters"),
       ("pkg/koordlet/runtimehooks/hooks/cpunormalization:ruleUpdateCb",
        "PodContext.GetUpdaters,ContainerContext.GetUpdaters")] := by
  decide

/-- is the updater a protocol.go inject helper builds mergeable?  `factory:<res>` = the registry entry of <res>. -/
def injectMergeable (helper : String) : Option Bool :=
  match C12.injectCtors.lookup helper with
  | some "factory:CPUCFSQuotaName" => ((C12.registry.lookup "CPUCFSQuotaName").bind ctorMeaning).map (·.1)
  | some "factory:CPUSetCPUSName" => ((C12.registry.lookup "CPUSetCPUSName").bind ctorMeaning).map (·.1)
  | some "factory:MemoryLimitName" => ((C12.registry.lookup "MemoryLimitName").bind ctorMeaning).map (·.1)
  | some c => (ctorMeaning c).map (·.1)
  | none => none

/-- **tie_leveled_call_sites**: every updater of a hierarchical resource that reaches LeveledUpdateBatch is built by a
    mergeable constructor — the `AllMergeable` hypothesis of leveled_batch_valid_needs_mergeable:
    * rule callbacks (batchresource, cpunormalization): the contexts build the cfs-quota updater with injectCPUQuota
      and the cpuset updater with injectCPUSet, both through DefaultCgroupUpdaterFactory.New on a resource registered
      mergeable (memory.limit_in_bytes, injectMemoryLimit, is registered NOT mergeable: not a hierarchical rewrite of
      the property, written exactly in the top-down sweep);
    * cgreconcile makeCgroupResources: the rows memory.min / memory.low / memory.high are marked mergeable, the
      constructor is chosen by `t.isMergeable` ALONE (no condition on the value) and is the mergeable one. -/
theorem tie_leveled_call_sites :
    C12.responseInjects.lookup "PodContext.CFSQuota" = some "injectCPUQuota" ∧
    C12.responseInjects.lookup "ContainerContext.CFSQuota" = some "injectCPUQuota" ∧
    injectMergeable "injectCPUQuota" = some true ∧
    injectMergeable "injectCPUSet" = some true ∧
    injectMergeable "injectMemoryLimit" = some false ∧
    C12.cgrKindCond = "isMergeable" ∧
    C12.cgrThenCtor = "NewMergeableCgroupUpdaterIfValueLarger" ∧
    C12.cgrElseCtor = "NewCommonCgroupUpdater" ∧
    (ctorMeaning C12.cgrThenCtor).map (·.1) = some true ∧
    ["MemoryMinName", "MemoryLowName", "MemoryHighName"].map (fun n => List.lookup n C12.cgrTable) =
      [some true, some true, some true] := by
  decide


end KoordVerif.C12
