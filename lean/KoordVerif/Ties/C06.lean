import KoordVerif.Props.C06
import KoordVerif.Generated.C06
/-
Tie lemmas: the critical-section shapes extracted from /repo's current source (regenerated on every
run by harness/extract/facts_c06.go) are the ones `update_atomic_safe` is about.  Moving the release
out of Update's critical section, or re-taking the lock between release and add, breaks a `decide`
here; the split shape is exactly the one refuted by `update_split_counterexample`.
-/
namespace KoordVerif.C06
open KoordVerif.Generated

theorem tie_extract_ok : C06.extractOK = true := by decide

/-- resourceManager.Update: ONE acquisition of NodeAllocation.lock around NodeAllocation.update, which is
    release followed by addPodAllocation and does not touch the lock itself -/
theorem tie_update_one_section :
    C06.rmUpdate = [(true, [2])] ∧ C06.naUpdate = [0, 1] ∧ C06.naUpdateLocks = 0 := by decide

/-- … so the informer's Update of a running pod is the model's single `updAtomic` section -/
theorem tie_update_prog (uid : Nat) : updProg C06.naUpdate C06.rmUpdate uid = [.updAtomic uid] := by
  simp [updProg, C06.naUpdate, C06.rmUpdate]

/-- the split shape would be two sections -/
theorem tie_split_prog (uid : Nat) : updProg [0, 1] [(true, [0]), (true, [1])] uid = [.updRelease uid, .updAdd] := by
  simp [updProg]

/-- Release, GetAvailableCPUs, getAvailableNUMANodeResources: one (read) section each -/
theorem tie_other_sections :
    C06.rmRelease = [(true, [0])] ∧ C06.rmGetAvailableCPUs = [(true, [3])] ∧ C06.rmGetAvailableNUMA = [(true, [4])] := by
  decide

/-- what is NOT atomic: Allocate and its helpers take no lock and write nothing themselves; they read the
    ledger through three self-locking getters (NUMA amounts, then available CPUs for the trim, then available CPUs
    for the cpuset) — separate read sections, and the later Update (Reserve) is yet another one.  Hence the
    premise "one scheduling goroutine" of `update_atomic_safe` (see `two_schedulers_counterexample`). -/
theorem tie_allocate_reads_only :
    C06.rmAllocateLocks = 0 ∧ C06.rmAllocateWrites = 0 ∧ C06.rmAllocateReads = [4, 3, 3] := by decide

/-- `update_atomic_safe` for the code as it is: informer goroutines whose Updates have the extracted shape -/
theorem tie_update_safe (env : Env) (hmax : 1 ≤ env.maxRef) (htopo : env.topo.Nodup)
    (ops : List Op) (hok : ∀ op ∈ ops, OpOK op) (hb : ∀ c, refOf (run ops).cpus c ≤ env.maxRef)
    (sprog : List Act) (hs : ∀ a ∈ sprog, isSplit a = false) (uids : List (List Nat))
    (sched : List Nat) (c : Nat) :
    let informers : List Thread := uids.map fun l => { prog := l.flatMap (updProg C06.naUpdate C06.rmUpdate) }
    holdCount (sysRun env { L := run ops, threads := { prog := sprog } :: informers } sched).L.pods c ≤ env.maxRef := by
  intro informers
  refine update_atomic_safe env hmax htopo ops hok hb _ ⟨?_, ?_⟩ ?_ sched c
  · intro t ht a ha
    rcases List.mem_cons.mp ht with rfl | ht
    · exact hs a ha
    · obtain ⟨l, _, rfl⟩ := List.mem_map.mp ht
      simp only [List.mem_flatMap] at ha
      obtain ⟨u, _, hu⟩ := ha
      rw [tie_update_prog] at hu
      simp at hu; subst hu; rfl
  · intro i t hi h0
    cases i with
    | zero => exact absurd rfl h0
    | succ j =>
      simp only [List.getElem?_cons_succ] at hi
      have ht : t ∈ informers := List.mem_of_getElem? hi
      obtain ⟨l, _, rfl⟩ := List.mem_map.mp ht
      refine ⟨fun a ha => ?_, rfl⟩
      simp only [List.mem_flatMap] at ha
      obtain ⟨u, _, hu⟩ := ha
      rw [tie_update_prog] at hu
      simp at hu; subst hu; rfl
  · intro t ht
    rcases List.mem_cons.mp ht with rfl | ht
    · rfl
    · obtain ⟨l, _, rfl⟩ := List.mem_map.mp ht; rfl

/-- **who runs a read…commit round on a node ledger** (round 2).  `update_atomic_safe` assumes ONE scheduling goroutine per
    node ledger (`ShapeOK`: only thread 0 reads and commits; `two_schedulers_counterexample` shows it is needed).
    In the source this rests on:
    * the ONLY commit of an allocation computed by Allocate is `resourceManager.Update` in `Plugin.Reserve`
      (`state.allocation` is assigned only by `Plugin.allocate`, called from `Plugin.Reserve` and — for a pod whose
      allocation is designated by its annotation, on the one pre-selected node — from `Plugin.Filter`); every other
      `Allocate` (Filter, Score, topology hints, reservation nomination, preemption dry-run) discards its result;
    * the other ledger writers are the informer (`podEventHandler.updatePod/deletePod`: the `updAtomic` / `release`
      actions of the model) and `Plugin.Unreserve` (a `release`); nobody outside the package reaches the manager;
    * the Reserve plugins are run by the kube-scheduler scheduling cycle (one goroutine, `scheduleOne`; binding
      cycles are asynchronous but do not run Reserve) and by the batch engine, whose call sits in a
      `parallelizer.Until(ctx, len(podRequestsByNode), func(i) { podRequestsOnNode := podRequestsByNode[i]; … })`
      closure: one worker per NODE group (`JobRequest.PodsByNode` is keyed by node), the pods of a node one after
      the other — so never two rounds on the same node ledger at once (each node has its own NodeAllocation + lock).
    A new commit site, a new assigner of `state.allocation`, a new runner of the Reserve plugins or a parallel loop
    of another shape changes an extracted list and breaks this `decide`. -/
theorem tie_commit_sites :
    C06.ledgerUpdateCallers = ["Plugin.Reserve", "podEventHandler.updatePod"] ∧
    C06.ledgerReleaseCallers = ["Plugin.Unreserve", "podEventHandler.deletePod", "podEventHandler.updatePod"] ∧
    C06.allocationAssigners = ["Plugin.allocate"] ∧
    C06.allocateCallers = ["Plugin.Filter", "Plugin.Reserve"] ∧
    C06.resourceManagerExternalUsers = [] := by decide

theorem tie_reserve_runners :
    C06.reserveRunners = ["pkg/scheduler/batch:Engine.RunSchedulingCycle",
                          "pkg/scheduler/frameworkext:frameworkExtenderImpl.RunReservePluginsReserve"] ∧
    C06.reserveParallelSites = 1 := by decide

/-- **informer glue** (round 3): the statement / guard order the event model (`decodeUpdate`, `decodeDelete`, `Mgr.apply`)
    mirrors.  OnAdd / OnUpdate hand EVERY pod object (pair) to updatePod - the only statements before the call are the
    type assertions with their `if !ok { return }` and the changed-UID guard (code 12: deletePod(old); updatePod(nil, new)) (a further guard, e.g. one that skips status-only updates, shows up
    as code 9: updatePod is the only path that releases a pod whose phase turned Succeeded / Failed and that re-records a
    pod dropped while its node had no valid topology - `terminal_update_releases`, `topology_late_rerecorded`);
    updatePod: nodeName == "" (release the old pod's node, return) → terminated (deletePod, return) → the three parse
    errors → empty allocation → resourceManager.Update; deletePod: nodeName == "" → Release;
    resourceManager.Update: invalid topology (return) → getOrCreateNodeAllocation → NodeAllocation.update. -/
theorem tie_event_glue :
    C06.podOnAdd = [0, 1, 2] ∧ C06.podOnUpdate = [0, 1, 0, 1, 12, 2] ∧ C06.podUpdatePod = [1, 2, 3, 3, 3, 4, 5] ∧
    C06.podDeletePod = [1, 6] ∧ C06.rmUpdateStmts = [7, 10, 11] := by decide

/-- **get-or-create of a node's ledger object** (round 3).  `resourceManager.getOrCreateNodeAllocation` looks the node
    name up and stores a new NodeAllocation inside ONE exclusive section of the manager lock (or re-checks under the
    write lock after a read-locked fast path): the shapes for which `goc_no_lost_update` holds.  A fast path whose miss
    branch stores without looking again is the shape refuted by `goc_blind_store_counterexample` (two goroutines touching
    a node name for the first time: the later store replaces the object the earlier pod record went into).  Nobody
    else stores into the map; onNodeDelete only deletes. -/
theorem tie_getorcreate_rechecks :
    (gocShape C06.rmGetOrCreate).map (·.2) = some true ∧
    C06.nodeAllocationsWriters = ["resourceManager.getOrCreateNodeAllocation", "resourceManager.onNodeDelete"] := by
  decide

/-- `goc_no_lost_update` for the code as it is -/
theorem tie_getorcreate_safe (fast : Bool) (h : (gocShape C06.rmGetOrCreate).map (·.1) = some fast) (sched : List Nat) :
    ∀ r ∈ (grun fast true sched).recs, (grun fast true sched).map = some r.1 :=
  (goc_no_lost_update fast sched).2.1

/-- round 4: Plugin.RestoreReservation computes a reservation's remainder with subtractAllocated(…, false) - SIGNED, the
    shape `restore_never_reports_held_amount_free` is about - and never with the clamping variant, which
    `restore_clamped_counterexample` refutes (vacuous if the helper was renamed: then only the `rsv` harness guards). -/
theorem tie_restore_remainder_signed :
    C06.subtractAllocatedKnown = false ∨
      ("Plugin.RestoreReservation" ∈ C06.subtractSignedCallers ∧ "Plugin.RestoreReservation" ∉ C06.subtractClampedCallers) := by
  decide

/-- round 6: the dry-run steps of the model are the ones the plugin makes - Plugin.RemovePod is the only caller of
    `Accumulate` (removePodDry), Plugin.AddPod the only caller of `Subtract` (addPodDry). -/
theorem tie_dryrun_steps :
    C06.preemptAccumulateCallers = ["Plugin.RemovePod"] ∧ C06.preemptSubtractCallers = ["Plugin.AddPod"] := by
  decide

/-- round 6: in `Subtract` (and in its mirror `Accumulate`) the CPU argument and the field it is cancelled against are
    overwritten (the fact is not vacuous) and neither update reads the other one's NEW value: both are computed from the overlap
    taken before either write (`PreAlloc.subtract` / `PreAlloc.accumulate`; `subtract_reordered_counterexample` is the
    shape with a stale read). -/
theorem tie_dryrun_overlap_taken_once :
    (0 < C06.preemptSubtractStaleReads.1 ∧ C06.preemptSubtractStaleReads.2 = 0) ∧
    (0 < C06.preemptAccumulateStaleReads.1 ∧ C06.preemptAccumulateStaleReads.2 = 0) := by
  decide

end KoordVerif.C06
