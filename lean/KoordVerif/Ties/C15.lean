import KoordVerif.Model.C15
import KoordVerif.Model.C15Race
import KoordVerif.Generated.C15
/-
Tie lemmas for C15: facts about /repo's CURRENT source (regenerated on every run by
harness/extract/facts_c15.go) that the model and the theorems rely on.
  * the three entry points write the recorded state only after every check has passed
    (no error return and no check call after the first write)  — `reject_is_noop` in the model;
  * the order of the checks, including where the two `return nil` shortcuts of
    validateQuotaTopology sit (model: `topoCheck`);
  * the two bypasses of checkMinQuotaValidate (model: `minCheck`, theorem clause `MinSum`);
  * the upward walk of checkParentQuotaInfo (model: `hitsUp`, fuel = len(quotaInfoMap)+1);
  * ValidAddQuota keeps an existing child set (model: `validAdd` has no filter on `kids`);
  * reserved names (model: 0/1/2), parent defaulting, feature-gate defaults, lock before state;
  * informer glue: NewQuotaInformer registers the three handlers unfiltered, OnQuotaUpdate unbinds the old
    namespaces before it binds the new ones, what the handlers write, lock before state (model: Model/C15Inf.lean).
  * round 4, critical sections: ValidDeleteQuota is ONE section from its check across the pod List to the removal
    (model: Model/C15Race.lean `LockShape.atomic`; Props §18 race_atomic_WF / race_atomic_linearizable hold for this shape,
    race_split_counterexample shows what the split shape admits); every entry point and handler takes the write lock once
    and releases it by defer only.
-/
namespace KoordVerif.C15
open KoordVerif.Generated

def isWrite (e : String × String) : Bool := e.1 == "write"
def isCheck (e : String × String) : Bool := e == ("ret", "err") || e.1 == "call"
def calls (ev : List (String × String)) : List String := (ev.filter (fun e => e.1 == "call")).map (·.2)
def writes (ev : List (String × String)) : List String := (ev.filter isWrite).map (·.2)

/-- call names between consecutive `return nil`s. -/
def segs : List (String × String) → List (List String)
  | [] => [[]]
  | e :: es =>
    match segs es with
    | [] => [[]]
    | s :: ss => if e == ("ret", "nil") then [] :: s :: ss else if e.1 == "call" then (e.2 :: s) :: ss else s :: ss

def errRets (ev : List (String × String)) : Nat := (ev.filter (· == ("ret", "err"))).length

/-- there is a write, and no check (error return / call) comes after the first write. -/
def writesLast (ev : List (String × String)) : Bool :=
  ev.any isWrite && (ev.dropWhile (fun e => !isWrite e)).all (fun e => !isCheck e)

theorem tie_extract_ok : C15.extractOK = true := by decide

theorem tie_writes_after_checks :
    writesLast C15.addEvents = true ∧ writesLast C15.updEvents = true ∧ writesLast C15.delEvents = true := by decide

/-- which maps an accepted request writes, in any order (model: info / hkeys+kids / nsMap all updated on add and
    update; delete removes from all three). -/
theorem tie_written_maps :
    (writes C15.addEvents).isPerm ["quotaInfoMap", "quotaHierarchyInfo", "quotaHierarchyInfo", "quotaHierarchyInfo", "namespaceToQuotaMap"] = true ∧
    (writes C15.updEvents).isPerm ["quotaInfoMap", "quotaHierarchyInfo", "quotaHierarchyInfo", "namespaceToQuotaMap", "namespaceToQuotaMap"] = true ∧
    (writes C15.delEvents).isPerm ["quotaHierarchyInfo", "quotaHierarchyInfo", "quotaInfoMap", "namespaceToQuotaMap"] = true := by decide

/-- the checks of the entry points (model: validAdd / validUpdate demand all of them; their relative order is
    irrelevant for the verdict, so it is not fixed here). -/
theorem tie_entry_checks :
    (calls C15.addEvents).isPerm ["validateQuotaSelfItem", "NewQuotaInfoFromQuota", "validateQuotaTopology"] = true ∧
    (calls C15.updEvents).isPerm ["DeepEqual", "IsForbiddenModify", "validateQuotaSelfItem", "NewQuotaInfoFromQuota", "validateQuotaTopology"] = true ∧
    errRets C15.addEvents = 5 ∧ errRets C15.updEvents = 6 ∧ errRets C15.delEvents = 6 := by decide

/-- the unchanged-fields shortcut of ValidUpdateQuota returns nil right after the DeepEqual, before anything else
    (model: `sameFields` is tested first, even for the reserved names). -/
theorem tie_update_shortcut : C15.updEvents.take 3 = [("ret", "err"), ("call", "DeepEqual"), ("ret", "nil")] := by decide

/-- validateQuotaTopology = `topoCheck`: root name ⇒ nil; {checkIsParentChange, checkTreeID}; (parent root ∧ ¬is-parent) ⇒ nil;
    checkParentQuotaInfo FIRST (the later checks dereference the parent), then {checkSubAndParentGroupQuotaKey,
    checkMinQuotaValidate, [gate] checkGuaranteedForMin}; every check is followed by its error return. -/
theorem tie_topology_order :
    (segs C15.topoEvents).length = 4 ∧
    (segs C15.topoEvents)[0]? = some [] ∧
    ((segs C15.topoEvents)[1]?.getD []).isPerm ["checkIsParentChange", "checkTreeID"] = true ∧
    ((segs C15.topoEvents)[2]?.getD []).head? = some "checkParentQuotaInfo" ∧
    ((segs C15.topoEvents)[2]?.getD []).isPerm ["checkParentQuotaInfo", "checkSubAndParentGroupQuotaKey", "checkMinQuotaValidate", "checkGuaranteedForMin"] = true ∧
    (segs C15.topoEvents)[3]? = some [] ∧
    errRets C15.topoEvents = 6 ∧
    C15.topoEarlyNil = ["$p1.Name == extension.RootQuotaName",
      "$p1.ParentName == extension.RootQuotaName && !$p1.IsParent"] := by decide

/-- the bypasses of the min-sum check are exactly allow-force-update and is-root (identifiers of the function
    abstracted: $p0 = its parameter). -/
theorem tie_min_bypasses :
    C15.minEarlyNil.isPerm ["$p0.AllowForceUpdate", "$p0.IsTreeRoot"] = true ∧
    calls C15.minEvents = ["getChildMinQuotaSumExceptSpecificChild", "getChildMinQuotaSumExceptSpecificChild"] := by decide

/-- the upward walk exists, has len(quotaInfoMap)+1 iterations (model fuel `s.info.length + 1`), stops at the
    root, rejects when it meets the quota itself ($p0), and steps to the recorded parent. -/
theorem tie_parent_walk :
    C15.parentWalk = "$v := 0 ; $v <= len($r.quotaInfoMap) && $v != extension.RootQuotaName ; $v++" ∧
    C15.parentWalkRejectsSelf = true ∧ C15.parentWalkStepsToParent = true ∧
    C15.parentEvents = [("ret", "err"), ("ret", "err"), ("ret", "err"), ("ret", "err"), ("ret", "nil")] := by decide

/-- ValidAddQuota creates the child set of the new name only when it is absent (repair f812ecb). -/
theorem tie_add_keeps_children : C15.addChildSetOnlyWhenAbsent = true := by decide

/-- reserved names: pairwise distinct (model ids 0, 1, 2); update refuses root and system, delete refuses all three. -/
theorem tie_reserved_names :
    C15.RootQuotaName ≠ C15.SystemQuotaName ∧ C15.RootQuotaName ≠ C15.DefaultQuotaName ∧
    C15.SystemQuotaName ≠ C15.DefaultQuotaName ∧ C15.RootQuotaName ≠ "" ∧
    C15.forbiddenModifyNames = ["RootQuotaName", "SystemQuotaName"] ∧
    C15.forbiddenDeleteNames = ["DefaultQuotaName", "RootQuotaName", "SystemQuotaName"] := by decide

/-- an empty parent label means the root, except on the root-named object (model/harness: name 99 = ""). -/
theorem tie_parent_defaulting :
    C15.parentDefaulting = ["$v == \"\" && $p0.Name != RootQuotaName => return RootQuotaName"] := by decide

/-- the model fixes both gates at their default `false`. -/
theorem tie_gates : C15.gateElasticQuotaEnableUpdateResourceKey = "false" ∧ C15.gateElasticQuotaGuaranteeUsage = "false" := by decide

/-- the entry points take the lock (and defer its release) before touching the recorded state. -/
theorem tie_lock_first : C15.addLockFirst = true ∧ C15.updLockFirst = true ∧ C15.delLockFirst = true := by decide

/-! ### informer glue (Model/C15Inf.lean: `onAdd` / `onUpdate` / `onDelete`, `deliver` with the identity filter) -/

/-- NewQuotaInformer registers the three handlers of the topology directly (a plain ResourceEventHandlerFuncs literal,
    one AddEventHandler call): no event filter in front of them — the `flt = fun _ => true` of `sysStep`, which
    satisfies `FilterOK` (Props: `filterOK_all`, `replicas_converge`). -/
theorem tie_informer_unfiltered :
    C15.informerRegistration = "AddEventHandler" ∧ C15.informerHandlerType = "ResourceEventHandlerFuncs" ∧
    C15.informerHandlers = [("AddFunc", "$p1.OnQuotaAdd"), ("UpdateFunc", "$p1.OnQuotaUpdate"),
                            ("DeleteFunc", "$p1.OnQuotaDelete")] := by decide

/-- OnQuotaUpdate first unbinds the namespaces of the OLD object, then binds those of the NEW one (model `onUpdate`:
    `nsSetAll (nsDelAll m o.ns) q.ns q.name`), so a namespace kept across the update stays bound. -/
theorem tie_onupdate_unbind_before_bind : C15.onUpdNsOps = [("del", "$p0"), ("set", "$p1")] := by decide

/-- which fields the handlers write (any order: info, child sets, namespace map — model `onAdd` / `onUpdate` /
    `onDelete` touch exactly these), how often the namespace map is written by OnQuotaUpdate (unbind + bind), and that no
    handler calls a method of the topology (the handlers do not check anything). -/
def writesExactly (ev : List (String × String)) (fields : List String) : Bool :=
  (writes ev).all (fun f => fields.contains f) && fields.all (fun f => (writes ev).contains f)

theorem tie_handler_writes :
    writesExactly C15.onAddEvents ["quotaInfoMap", "quotaHierarchyInfo", "namespaceToQuotaMap"] = true ∧
    writesExactly C15.onUpdEvents ["quotaInfoMap", "quotaHierarchyInfo", "namespaceToQuotaMap"] = true ∧
    writesExactly C15.onDelEvents ["quotaInfoMap", "quotaHierarchyInfo", "namespaceToQuotaMap"] = true ∧
    ((writes C15.onUpdEvents).filter (· == "namespaceToQuotaMap")).length = 2 ∧
    calls C15.onAddEvents = [] ∧ calls C15.onUpdEvents = [] ∧ calls C15.onDelEvents = [] := by decide

theorem tie_handlers_lock_first :
    C15.onAddLockFirst = true ∧ C15.onUpdLockFirst = true ∧ C15.onDelLockFirst = true := by decide

/-- toElasticQuota (model `convertible`): typed pointer, unstructured pointer, tombstone BY VALUE; a tombstone is
    unpacked when it holds the typed object (first, repair fc155e0) or an unstructured one.  (Whether koord-manager adds
    the ElasticQuota type to client-go's scheme.Scheme — the `reg` parameter of `convertible` — is extracted as
    `elasticQuotaInClientGoScheme`; it is a parameter of the model, deliberately not pinned here.) -/
theorem tie_event_object_conversion :
    C15.toQuotaCases = ["*v1alpha1.ElasticQuota", "*unstructured.Unstructured", "cache.DeletedFinalStateUnknown"] ∧
    C15.toQuotaTombstoneHolds = ["*v1alpha1.ElasticQuota", "*unstructured.Unstructured"] := by decide

/-! ### critical sections (round 4; Model/C15Race.lean) -/

/-- ValidDeleteQuota: write lock + deferred unlock FIRST, then the recorded maps (the 'exists and has no children' check),
    the pod List, the recorded maps again (the removal) — no other lock operation, no call of another quotaTopology
    method that could carry a section of its own.  This is the shape `atomic` of the race model: the check and the removal
    are one critical section, a concurrent request waits until the delete is through. -/
theorem tie_delete_one_section :
    C15.delSections = ["Lock", "defer Unlock", "state", "list", "state"] ∧
    shapeOf C15.delSections = some LockShape.atomic := by decide

/-- the other threads of the race model are atomic actions under the same lock: each entry point and each informer
    handler takes the WRITE lock exactly once and releases it by a deferred Unlock only (no early unlock, no read lock). -/
theorem tie_single_write_section :
    C15.addLockOps = ["Lock", "defer Unlock"] ∧ C15.updLockOps = ["Lock", "defer Unlock"] ∧
    C15.delLockOps = ["Lock", "defer Unlock"] ∧ C15.onAddLockOps = ["Lock", "defer Unlock"] ∧
    C15.onUpdLockOps = ["Lock", "defer Unlock"] ∧ C15.onDelLockOps = ["Lock", "defer Unlock"] := by decide

/-- quotaFieldsCopy — what the unchanged-fields shortcut of ValidUpdateQuota compares (model `sameFields`): the labels
    parent / is-parent / tree-id, the namespaces annotation, and a plain deep copy of the WHOLE spec (nothing filtered:
    a zero-valued entry is an entry, Props `zero_entry_edit_is_a_change`). -/
theorem tie_unchanged_fields_copy :
    C15.fieldsCopyStmts = 1 ∧ C15.fieldsCopySpec = "*$p0.Spec.DeepCopy()" ∧
    C15.fieldsCopyLabels = ["extension.LabelQuotaParent", "extension.LabelQuotaIsParent", "extension.LabelQuotaTreeID"] ∧
    C15.fieldsCopyAnnotations = ["extension.AnnotationQuotaNamespaces"] := by decide

end KoordVerif.C15
