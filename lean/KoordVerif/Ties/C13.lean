import KoordVerif.Model.C13
import KoordVerif.Generated.C13
import KoordVerif.Model.C13Status
/-
Tie lemmas: the class names, the name ↦ class switches, the priority ranges with their guard order,
the QoS ↦ default-class and Kubernetes-QoS ↦ QoS tables, the forbidden (QoS, priority class) pairs,
the tier resource-name table, the classes that are not translated, the resource names of the
summary annotation and the label / annotation keys the model, the theorems and the harness use are
those of /repo's current source (regenerated on every run by harness/extract/facts_c13.go).
Everything is compared by the VALUE of the constants (the strings), never by a Go identifier:
renaming an identifier is harmless, changing a value breaks a lemma here.
-/
namespace KoordVerif.C13
open KoordVerif.Generated

/-- the bytes of an (ASCII) string literal -/
def bytes (s : String) : LStr := s.toList.map Char.toNat

/-- the names the model uses are the strings of the protocol. -/
theorem tie_model_names :
    [QoS.lse, .lsr, .ls, .be, .system, .none].map qosName = ["LSE", "LSR", "LS", "BE", "SYSTEM", ""].map bytes ∧
    [PC.prod, .mid, .batch, .free, .none].map pcName = ["koord-prod", "koord-mid", "koord-batch", "koord-free", ""].map bytes := by
  decide

/-- the resource names behind `Res` (`other` = any foreign name; the harness uses example.com/foo). -/
def resName : Res → LStr
  | .cpu => bytes "cpu" | .memory => bytes "memory"
  | .batchCPU => bytes "kubernetes.io/batch-cpu" | .batchMemory => bytes "kubernetes.io/batch-memory"
  | .midCPU => bytes "kubernetes.io/mid-cpu" | .midMemory => bytes "kubernetes.io/mid-memory"
  | .other => bytes "example.com/foo"

theorem tie_extract_ok : Generated.C13.extractOK = true := by decide

theorem tie_ranges :
    stdRanges = { prodMin := Generated.C13.PriorityProdValueMin, prodMax := Generated.C13.PriorityProdValueMax,
                  midMin := Generated.C13.PriorityMidValueMin, midMax := Generated.C13.PriorityMidValueMax,
                  batchMin := Generated.C13.PriorityBatchValueMin, batchMax := Generated.C13.PriorityBatchValueMax,
                  freeMin := Generated.C13.PriorityFreeValueMin, freeMax := Generated.C13.PriorityFreeValueMax } := by decide

/-- getPriorityClassByPriority: the guards, in source order, with the class each returns. -/
theorem tie_range_chain :
    Generated.C13.priorityRanges =
      [(stdRanges.prodMin, stdRanges.prodMax, pcName .prod), (stdRanges.midMin, stdRanges.midMax, pcName .mid),
       (stdRanges.batchMin, stdRanges.batchMax, pcName .batch), (stdRanges.freeMin, stdRanges.freeMax, pcName .free)] ∧
    Generated.C13.priorityRangesDefault = pcName .none := by decide

/-- GetPodQoSClassByName / GetPodPriorityClassByName: exactly the model's names are recognised, each as itself. -/
theorem tie_qos_by_name (q : QoS) :
    (List.lookup (qosName q) Generated.C13.qosByName).getD Generated.C13.qosByNameDefault = qosName q ∧
    qosByName (qosName q) = q := by
  cases q <;> decide

theorem tie_pc_by_name (c : PC) :
    (List.lookup (pcName c) Generated.C13.pcByName).getD Generated.C13.pcByNameDefault = pcName c ∧
    pcByName (pcName c) = c := by
  cases c <;> decide

theorem tie_by_name_counts : Generated.C13.qosByName.length = 5 ∧ Generated.C13.pcByName.length = 4 := by decide

/-- GetPodPriorityClassWithQoS is the model's `pcOfQoS`. -/
theorem tie_pc_of_qos (q : QoS) :
    (List.lookup (qosName q) Generated.C13.pcOfQoS).getD Generated.C13.pcOfQoSDefault = pcName (pcOfQoS q) := by
  cases q <;> decide

/-- GetPodQoSClassWithKubeQoS: BestEffort ↦ BE (hence batch); Burstable and Guaranteed ↦ a QoS whose
    default class is prod (the model's `if kubeBestEffort then batch else prod`). -/
theorem tie_kube_qos :
    List.lookup (bytes "BestEffort") Generated.C13.qosOfKubeQoS = some (qosName .be) ∧
    (List.lookup (bytes "Burstable") Generated.C13.qosOfKubeQoS).map (fun s => pcOfQoS (qosByName s)) = some PC.prod ∧
    (List.lookup (bytes "Guaranteed") Generated.C13.qosOfKubeQoS).map (fun s => pcOfQoS (qosByName s)) = some PC.prod := by
  decide

/-- a pair is forbidden by the model's table iff it is an argument pair of a
    `forbidSpecialQoSClassAndPriorityClass` call in clusterColocationProfileValidatingPod. -/
theorem tie_forbidden (q : QoS) (c : PC) :
    forbiddenTable.any (fun e => decide (e.1 = q) && e.2.contains c) =
      Generated.C13.forbidden.any (fun e => e.1 == qosName q && e.2.contains (pcName c)) := by
  cases q <;> cases c <;> decide

theorem tie_forbidden_count : Generated.C13.forbidden.length = forbiddenTable.length := by decide

/-- the model's ResourceNameMap is the source's composite literal. -/
theorem tie_resource_map (pc : PC) (r : Res) :
    (resourceNameMap pc r).map resName =
      (List.lookup (pcName pc) Generated.C13.resourceNameMap).bind (fun m => List.lookup (resName r) m) := by
  cases pc <;> cases r <;> decide

/-- mutatePodResourceSpec returns early exactly for the classes none and prod. -/
theorem tie_untranslated (c : PC) :
    Generated.C13.untranslatedClasses.contains (pcName c) = decide (c = PC.none ∨ c = PC.prod) := by
  cases c <;> decide

/-- the summary annotation projects batch-cpu and batch-memory (the model's `extOf`). -/
theorem tie_summary_resources : Generated.C13.summaryResources = [resName .batchCPU, resName .batchMemory] := by decide

/-- the label and annotation keys (the literals the harness writes into generated pods and profiles). -/
theorem tie_keys :
    Generated.C13.labelQoS = bytes "koordinator.sh/qosClass" ∧
    Generated.C13.labelPriorityClass = bytes "koordinator.sh/priority-class" ∧
    Generated.C13.labelPriority = bytes "koordinator.sh/priority" ∧
    Generated.C13.annotationExtendedResourceSpec = bytes "node.koordinator.sh/extended-resource-spec" ∧
    Generated.C13.annotationSkipUpdateResource = bytes "config.koordinator.sh/skip-update-resources" := by decide

/-- handleCreate runs the colocation-profile step before the summary-annotation step (the model's
    `admitCreate`; the harness calls the two steps in this order). -/
theorem tie_handle_create_order :
    Generated.C13.handleCreateSteps.take 2 = ["clusterColocationProfileMutatingPod", "extendedResourceSpecMutatingPod"] := by decide

/-- doMutateByColocationProfile applies the modelled profile fields in the order of `applyProfile`:
    labels, labelKeysMapping, labelSuffixes, qosClass, priorityClassName, koordinatorPriority, patch. -/
theorem tie_profile_field_order :
    Generated.C13.profileFieldOrder.filter (fun f => ["Labels", "LabelKeysMapping", "LabelSuffixes", "QoSClass",
        "PriorityClassName", "KoordinatorPriority", "Patch"].contains f) =
      ["Labels", "LabelKeysMapping", "LabelSuffixes", "QoSClass", "PriorityClassName", "KoordinatorPriority", "Patch"] := by decide

/-! ### the entry points (Model/C13Handle.lean) -/

/-- shouldIgnoreIfNotPod (both packages): a sub-resource or a resource other than "pods" (the model's `shouldIgnore`). -/
theorem tie_should_ignore :
    Generated.C13.ignoreMutating = ["\"pods\"", "AdmissionRequest", "Resource", "SubResource", "len", "||", "!=", "!="] ∧
    Generated.C13.ignoreValidating = Generated.C13.ignoreMutating := by decide

/-- PodMutatingHandler.Handle: ignore guard first; CREATE ↦ handleCreate, UPDATE ↦ handleUpdate, anything else is allowed
    as it is; no patch unless a step reported `mutated`; the patch is the diff of the marshalled pods (the model's
    `handleMutating`). -/
theorem tie_mutating_handle :
    Generated.C13.mutatingFirstGuard = "shouldIgnoreIfNotPod" ∧
    Generated.C13.mutatingDispatch = [("Create", "handleCreate"), ("Update", "handleUpdate"), ("default", "Allowed")] ∧
    Generated.C13.mutatingNoPatchUnlessMutated = true ∧
    Generated.C13.mutatingPatchFrom = "PatchResponseFromRaw" := by decide

/-- `mutated` bookkeeping: handleCreate ORs the flag of every step into its result; handleUpdate runs no step;
    clusterColocationProfileMutatingPod acts on CREATE only and returns (flag of an applied profile) OR (flag of
    mutatePodResourceSpec) — the model's `colocationMutate` / `handleCreate`. -/
theorem tie_mutated_flags :
    Generated.C13.handleCreateFlagOrs = Generated.C13.handleCreateSteps.length ∧
    Generated.C13.handleUpdateSteps = [] ∧
    Generated.C13.colocationCreateOnly = true ∧
    Generated.C13.colocationOrsResourceFlag = true := by decide

/-- extendedResourceSpecMutatingPod is switched off by the feature gate DisableExtendedResourceSpec and acts on
    CREATE and UPDATE requests (handleUpdate never calls it): the model's `handleCreate`. -/
theorem tie_ext_step_guards :
    Generated.C13.extStepGuards = ["DefaultFeatureGate,DisableExtendedResourceSpec,Enabled", "Create,Operation,Update"] := by decide

/-- validatingPodFn: in front of the validators exactly two guards admit a request (not a pod / a sub-resource; DELETE
    without an old object) and two reject it (object / old object does not decode); then the validators in this order
    (the model's `handleValidating`). -/
theorem tie_validating_entry :
    Generated.C13.validatingEarlyAdmits = [["shouldIgnoreIfNotPod"], ["Delete", "OldObject", "Operation", "Raw", "len"]] ∧
    Generated.C13.validatingEarlyRejects = 2 ∧
    Generated.C13.validatingSteps.take 2 = ["clusterReservationValidatingPod", "clusterColocationProfileValidatingPod"] := by decide

/-- clusterColocationProfileValidatingPod: the immutability checks run on UPDATE (sub-priority behind the negated
    feature gate), the four protocol checks on every operation (the model's `validateErrs`). -/
theorem tie_validating_checks :
    Generated.C13.updateChecks = ["validateImmutableQoSClass", "validateImmutablePriorityClass"] ∧
    Generated.C13.updateGatedChecks = ["!ColocationProfileSkipValidatingPriority,DefaultFeatureGate,Enabled:validateImmutablePriority"] ∧
    Generated.C13.alwaysChecks = ["validateRequiredQoSClass", "forbidSpecialQoSClassAndPriorityClass",
      "forbidSpecialQoSClassAndPriorityClass", "validateResources"] := by decide

/-- the two resource validators read the pod's request through util.GetPodRequest, which calls the k8s helper PodRequests
    with an options literal that sets NO field — in particular not UseStatusResources: the request is the one the SPEC
    declares, a resize status decides nothing (the model's `getPodRequestUsesStatus = false`, Model/C13Status.lean). -/
theorem tie_pod_request_options :
    Generated.C13.requestReaders = ["validateRequiredQoSClass:GetPodRequest", "validateResources:GetPodRequest"] ∧
    Generated.C13.podRequestHelper = "PodRequests" ∧
    Generated.C13.podRequestOptions = [] ∧
    getPodRequestUsesStatus = false := by decide

end KoordVerif.C13
