import KoordVerif.Model.C13
import KoordVerif.Generated.C13
/-
Tie lemmas: the priority ranges, the forbidden (QoS, priority class) pairs and the tier
resource-name table the model and the theorems use are those of /repo's current source
(regenerated on every run by harness/extract/facts_c13.go; identifiers are compared by name).
-/
namespace KoordVerif.C13
open KoordVerif.Generated

def qosIdent : QoS → String
  | .lse => "QoSLSE" | .lsr => "QoSLSR" | .ls => "QoSLS" | .be => "QoSBE" | .system => "QoSSystem" | .none => "QoSNone"

def pcIdent : PC → String
  | .prod => "PriorityProd" | .mid => "PriorityMid" | .batch => "PriorityBatch" | .free => "PriorityFree" | .none => "PriorityNone"

def resIdent : Res → String
  | .cpu => "ResourceCPU" | .memory => "ResourceMemory" | .batchCPU => "BatchCPU" | .batchMemory => "BatchMemory"
  | .midCPU => "MidCPU" | .midMemory => "MidMemory" | .other => "?"

theorem tie_extract_ok : C13.extractOK = true := by decide

theorem tie_ranges :
    stdRanges = { prodMin := C13.PriorityProdValueMin, prodMax := C13.PriorityProdValueMax,
                  midMin := C13.PriorityMidValueMin, midMax := C13.PriorityMidValueMax,
                  batchMin := C13.PriorityBatchValueMin, batchMax := C13.PriorityBatchValueMax,
                  freeMin := C13.PriorityFreeValueMin, freeMax := C13.PriorityFreeValueMax } := by decide

/-- a pair is forbidden by the model's table iff it is an argument pair of a
    `forbidSpecialQoSClassAndPriorityClass` call in clusterColocationProfileValidatingPod. -/
theorem tie_forbidden (q : QoS) (c : PC) :
    forbiddenTable.any (fun e => decide (e.1 = q) && e.2.contains c) =
      C13.forbidden.any (fun e => e.1 == qosIdent q && e.2.contains (pcIdent c)) := by
  cases q <;> cases c <;> decide

theorem tie_forbidden_count : C13.forbidden.length = forbiddenTable.length := by decide

/-- the model's ResourceNameMap is the source's composite literal. -/
theorem tie_resource_map (pc : PC) (r : Res) :
    (resourceNameMap pc r).map resIdent =
      (List.lookup (pcIdent pc) Generated.C13.resourceNameMap).bind (fun m => List.lookup (resIdent r) m) := by
  cases pc <;> cases r <;> decide

end KoordVerif.C13
