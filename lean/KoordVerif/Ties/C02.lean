import KoordVerif.Model.C02
import KoordVerif.Generated.C02
/-
Ties for C02: the structural facts `Calc.step` relies on, extracted from the current source.
* every mutator of a calculator's redistribution inputs increments the version
  (⇒ `Calc.step` may bump `version` on setTotal / upsert / erase), and
* `updateOneGroupRuntimeQuota` = return-if-stamp-equals-version; recompute; stamp
  (⇒ the `.refresh` branch of `Calc.step`).
-/
namespace KoordVerif.C02
open KoordVerif.Generated

theorem tie_extract_ok : C02.extractOK = true := by decide

theorem tie_all_mutators_bump : C02.mutators.all (·.2) = true := by decide

theorem tie_mutators_nonempty : C02.mutators ≠ [] := by decide

theorem tie_refresh_shape : C02.refreshShape = ["return-if-stamp-eq-version", "recompute", "stamp"] := by decide

end KoordVerif.C02
