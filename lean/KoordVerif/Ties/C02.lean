import KoordVerif.Model.C02
import KoordVerif.Model.C02Glue
import KoordVerif.Model.C02Nodes
import KoordVerif.Generated.C02
/-
Ties for C02: the structural facts `Calc.step` relies on, extracted from the current source.
* every mutator of a calculator's redistribution inputs increments the version
  (⇒ `Calc.step` may bump `version` on setTotal / upsert / erase), and
* `updateOneGroupRuntimeQuota` = return-if-stamp-equals-version; recompute; stamp
  (⇒ the `.refresh` branch of `Calc.step`).
-/
namespace KoordVerif.C02
open KoordVerif.Generated

theorem tie_extract_ok : C02.extractOK = true := by decide

theorem tie_all_mutators_bump : C02.mutators.all (·.2) = true := by decide

theorem tie_mutators_nonempty : C02.mutators ≠ [] := by decide

theorem tie_refresh_shape : C02.refreshShape = ["return-if-stamp-eq-version", "recompute", "stamp"] := by decide

/-! loop domains: every loop of the calculator that touches a per-dimension tree ranges over
the receiver's `resourceKeys` (never over the keys of the list it was handed), binds only the key and reads the
per-dimension value with `list.Name(key)` — what `CalcD.update` does (`if c.keys.contains d … rlGet l d`). -/

theorem tie_tree_loops_over_resource_keys :
    C02.treeLoops.all (fun r => r.2.1 == "recv.resourceKeys" && r.2.2.1 && r.2.2.2) = true := by decide

theorem tie_tree_loops_cover :
    ["updateOneGroupMinQuota", "updateOneGroupSharedWeight", "updateOneGroupMaxQuota", "updateOneGroupRequest",
     "updateOneGroupGuaranteed", "deleteOneGroup", "calculateRuntimeNoLock"].all
      (fun m => C02.treeLoops.any (fun r => r.1 == m)) = true := by decide

/-- `extension.GetSharedWeight` = the parsed annotation, untouched, when it parses and is not all-zero; else a
    copy of spec.max (`sharedWeightList`). -/
theorem tie_shared_weight_shape : C02.sharedWeightShape =
    ["assign index AnnotationSharedWeight", "if  []", "assign empty-list", "assign call Unmarshal",
     "if &&==! [IsZero]", "return parsed", "end", "end", "return call DeepCopy of Max"] := by decide

/-- a min change hands the quota's request to the parent's calculator right after the min (`CalcD.minQuotaChanged`). -/
theorem tie_min_update_pushes_request : C02.minUpdateCalculatorCalls.take 3 =
    ["updateOneGroupMinQuota", "needUpdateOneGroupRequest", "updateOneGroupRequest"] := by decide

/-- `allowLent`: anything but the label value "false" lends. -/
theorem tie_allow_lent : C02.allowLentRule = "label LabelAllowLentResource != \"false\"" := by decide

/-! node event handlers (`NS.step` of Model/C02Nodes): what each handler compares, subtracts and hands to
`UpdateClusterTotalResource`; `$0,$1` = the handler's parameters (OnNodeUpdate: $0 old, $1 new). -/

/-- OnNodeAdd hands the node's allocatable as it is. -/
theorem tie_node_add_hands_allocatable :
    C02.onNodeAddCalls = ["UpdateClusterTotalResource($0.Status.Allocatable)"] := by decide

/-- OnNodeUpdate: unknown node ⇒ the new allocatable; `Equals(old, new)` ⇒ nothing; else the FULL
    `quotav1.Subtract(new, old)` (`NS.step rlSub`; a loop over one list's keys would show up as a `range` row —
    `new_keys_only_delta_counterexample`). -/
theorem tie_node_update_delta_is_full_subtract :
    C02.onNodeUpdateCalls =
      ["UpdateClusterTotalResource($1.Status.Allocatable)",
       "Equals($0.Status.Allocatable, $1.Status.Allocatable)",
       "Subtract($1.Status.Allocatable, $0.Status.Allocatable)",
       "UpdateClusterTotalResource(Subtract($1.Status.Allocatable, $0.Status.Allocatable))"] := by decide

/-- OnNodeDelete: the negated allocatable of the object it is handed, then the name is forgotten. -/
theorem tie_node_delete_subtracts_and_forgets :
    C02.onNodeDeleteCalls =
      ["Subtract(nil, $0.Status.Allocatable)",
       "UpdateClusterTotalResource(Subtract(nil, $0.Status.Allocatable))",
       "delete(recv.nodeResourceMap, $0.Name)"] := by decide

/-- `NS.bump`: total := Add(total, delta); the root calculator is told when the difference to what it was told
    last is not all-zero. -/
theorem tie_cluster_total_adds_delta : C02.clusterTotalAssign = ["Add(recv.totalResource, $0)"] := by decide

theorem tie_cluster_total_push_guard :
    C02.clusterTotalPushGuard =
      ["!IsZero(Subtract(Subtract(recv.totalResource, sysAndDefaultUsed), recv.totalResourceExceptSystemAndDefaultUsed))"] := by
  decide

end KoordVerif.C02
