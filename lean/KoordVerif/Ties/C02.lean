import KoordVerif.Model.C02
import KoordVerif.Model.C02Glue
import KoordVerif.Generated.C02
/-
Ties for C02: the structural facts `Calc.step` relies on, extracted from the current source.
* every mutator of a calculator's redistribution inputs increments the version
  (⇒ `Calc.step` may bump `version` on setTotal / upsert / erase), and
* `updateOneGroupRuntimeQuota` = return-if-stamp-equals-version; recompute; stamp
  (⇒ the `.refresh` branch of `Calc.step`).
-/
namespace KoordVerif.C02
open KoordVerif.Generated

theorem tie_extract_ok : C02.extractOK = true := by decide

theorem tie_all_mutators_bump : C02.mutators.all (·.2) = true := by decide

theorem tie_mutators_nonempty : C02.mutators ≠ [] := by decide

theorem tie_refresh_shape : C02.refreshShape = ["return-if-stamp-eq-version", "recompute", "stamp"] := by decide

/-! loop domains: every loop of the calculator that touches a per-dimension tree ranges over
the receiver's `resourceKeys` (never over the keys of the list it was handed), binds only the key and reads the
per-dimension value with `list.Name(key)` — what `CalcD.update` does (`if c.keys.contains d … rlGet l d`). -/

theorem tie_tree_loops_over_resource_keys :
    C02.treeLoops.all (fun r => r.2.1 == "recv.resourceKeys" && r.2.2.1 && r.2.2.2) = true := by decide

theorem tie_tree_loops_cover :
    ["updateOneGroupMinQuota", "updateOneGroupSharedWeight", "updateOneGroupMaxQuota", "updateOneGroupRequest",
     "updateOneGroupGuaranteed", "deleteOneGroup", "calculateRuntimeNoLock"].all
      (fun m => C02.treeLoops.any (fun r => r.1 == m)) = true := by decide

/-- `extension.GetSharedWeight` = the parsed annotation, untouched, when it parses and is not all-zero; else a
    copy of spec.max (`sharedWeightList`). -/
theorem tie_shared_weight_shape : C02.sharedWeightShape =
    ["assign index AnnotationSharedWeight", "if  []", "assign empty-list", "assign call Unmarshal",
     "if &&==! [IsZero]", "return parsed", "end", "end", "return call DeepCopy of Max"] := by decide

/-- a min change hands the quota's request to the parent's calculator right after the min (`CalcD.minQuotaChanged`). -/
theorem tie_min_update_pushes_request : C02.minUpdateCalculatorCalls.take 3 =
    ["updateOneGroupMinQuota", "needUpdateOneGroupRequest", "updateOneGroupRequest"] := by decide

/-- `allowLent`: anything but the label value "false" lends. -/
theorem tie_allow_lent : C02.allowLentRule = "label LabelAllowLentResource != \"false\"" := by decide

end KoordVerif.C02
