import KoordVerif.Model.C17
import KoordVerif.Model.C17Cache
import KoordVerif.Model.C17Arb
import KoordVerif.Model.C17Scav
import KoordVerif.Generated.C17
/-
Tie lemmas: the guard order the model assumes is the guard order of /repo's current controller.go
(regenerated on every run by harness/extract/facts_c17.go).  A gate that is moved behind the eviction call,
removed, or no longer an early exit changes the generated list and breaks these lemmas.
-/
namespace KoordVerif.C17
open KoordVerif.Generated

theorem tie_extract_ok : C17.extractOK = true := by decide

/-- doMigrate: every gate of the reservation-first path, in order, up to the evictPod call -/
theorem tie_doMigrate_gates : C17.doMigrateGates = gateList := by decide

/-- evictPod: every early exit that precedes evictorInterpreter.Evict -/
theorem tie_evictPod_gates : C17.evictPodGates = evictGateList := by decide

/-- prepareJobWithReservationScheduleSuccess: same-node abort before the node is recorded -/
theorem tie_nodeCheck_gates : C17.nodeCheckGates = nodeCheckGateList := by decide

/-- what the theorems rely on, read off the generated list itself: the pending / expired / scheduled gates and the
    same-node preparation are early exits that come before `evictPod`, in this order -/
theorem tie_reservation_gates_precede_evict :
    (C17.doMigrateGates.dropWhile (fun g => g.1 != "IsReservationPending")).map (·.1) =
      ["IsReservationPending", "IsReservationExpired", "IsReservationScheduled",
       "prepareJobWithReservationScheduleSuccess", "IsMigratePendingPod", "evictPod"] ∧
    (C17.doMigrateGates.filter (fun g => g.1 == "IsReservationPending" || g.1 == "IsReservationExpired" ||
        g.1 == "IsReservationScheduled" || g.1 == "prepareJobWithReservationScheduleSuccess")).all (·.2) = true := by
  decide

/-! ### extension: return shapes, mode dispatch, the shipped interpreter's lookup -/

/-- `abortJobIfReservationBoundByAnotherPod`: a failed reservation lookup returns `true, err` (= "aborted", evictPod
    returns before `Evict`), as does "bound by another pod"; only the last exit lets the eviction go on
    (model: `boundByOther` / `boundByOtherX` stop on NotFound and on error) -/
theorem tie_boundByOther_returns : C17.boundByOtherReturns = ["true, err", "true, err", "false, nil"] := by decide

/-- `abortJobIfReserveOnSameNode`: same node ⇒ `true`; a pod Get that failed with anything but NotFound ⇒ the error is
    returned (no eviction in this reconcile); otherwise `false, nil` (model: `prepareScheduleSuccessX`) -/
theorem tie_sameNode_returns : C17.sameNodeReturns = ["true, err", "false, err", "false, nil"] := by decide

/-- the mode dispatch of doMigrate is the rule `effDirect` implements: explicit EvictDirectly, or empty mode with the
    default EvictDirectly -/
theorem tie_direct_dispatch : C17.directDispatchCond =
    "job.Spec.Mode == sev1alpha1.PodMigrationJobModeEvictionDirectly || (job.Spec.Mode == \"\" && r.args.DefaultJobMode == string(sev1alpha1.PodMigrationJobModeEvictionDirectly))" := by rfl

/-- `interpreterImpl.GetReservation` = Client.Get, on NotFound one more Get through the APIReader (model: `X.getResv`
    issues a second read exactly when the first answered NotFound) -/
theorem tie_getReservation_calls : C17.getReservationCalls = ["Get", "IsNotFound", "Get", "GetAPIReader"] := by decide

/-- `interpreterImpl.DeleteReservation` = lookup by NAME, then Delete of the object found — no further condition
    (model: `deleteReservation` / `deleteReservationX`) -/
theorem tie_deleteReservation_calls : C17.deleteReservationCalls = ["GetReservation", "Delete", "OriginObject"] := by decide

/-! ### ext3: the assumed-cache call order, the forced allocate-once, the scheduler's syncStatus -/

/-- `Reconcile`: job Get · stale-read guard · doMigrate · `assume(job)` as a PLAIN call after doMigrate with the object
    doMigrate wrote through (model: `recLag .afterWrite`; a `defer assume(job.DeepCopy())` ahead of doMigrate is
    `Policy.asRead`, refuted by assume_as_read_re_evicts_counterexample) -/
theorem tie_reconcile_assume_after_write : KoordVerif.Generated.C17.reconcileOrder = reconcileCallOrder := by decide

/-- `CreateOrUpdateReservationOptions`: exactly one assignment to `…AllocateOnce`, unconditional, the constant true
    (model: `writtenResv … .ao = some true` for every template) -/
theorem tie_allocate_once_forced : C17.allocateOnceAssign = ["0:ptr.To[bool](true)"] := by decide

/-- scheduler `syncStatus`: `SetReservationSucceeded` exactly under `IsReservationAllocateOnce` (model: `consume`), and
    nil defaults to true (model: `effAO`) -/
theorem tie_syncStatus_succeeded_iff_allocate_once :
    C17.syncStatusSucceededCond = "apiext.IsReservationAllocateOnce(reservation)" ∧
    C17.isAllocateOnceReturns = ["ptr.Deref[bool](r.Spec.AllocateOnce, true)"] := by decide

/-- the arbitrator's `Create` handler returns early for a nil object and for a job whose phase is Failed / Succeeded /
    Aborted, and only then calls `AddPodMigrationJob` (model: `arbStep true … .add` with `finPh`; without this guard the
    clause is refuted: arbitrator_terminal_forever_counterexample) -/
def createHandlerStepsModel : List String :=
  ["return if evt.Object == nil",
   "return if job.Status.Phase == v1alpha1.PodMigrationJobFailed || job.Status.Phase == v1alpha1.PodMigrationJobSucceeded || job.Status.Phase == v1alpha1.PodMigrationJobAborted",
   "AddPodMigrationJob"]

theorem tie_create_handler_guard : KoordVerif.Generated.C17.createHandlerSteps = createHandlerStepsModel := by rfl

/-- the model's guard is the same three phases: Succeeded (3), Failed (4), Aborted (5) -/
theorem tie_create_handler_guard_phases :
    ∀ p, p < 7 → finPh p = (p == Ph.succeeded || p == Ph.failed || p == 5) := by decide

/-! ### ext5 — the scavenger and the created-by stamp -/

/-- `doScavenge`, the body of its loop over the LISTed jobs: the timeout (30 min; TTL + 5 min when a TTL > 0 is set), the
    ONLY skip (`continue`) is "not yet past the timeout" — no test of the created-by annotation —, then deleteReservation
    (anything but NotFound ends the round), then the job Delete (model: `scavenge false`) -/
def scavengeStepsModel : List String :=
  ["timeoutDuration = 30 * time.Minute",
   "if v.Spec.TTL != nil && v.Spec.TTL.Duration > 0 -> assign",
   "timeoutDuration = v.Spec.TTL.Duration + 5*time.Minute",
   "if r.clock.Since(v.CreationTimestamp.Time) < timeoutDuration -> continue",
   "deleteReservation",
   "if !errors.IsNotFound(err) -> break",
   "Delete"]

theorem tie_scavenge_steps : KoordVerif.Generated.C17.scavengeSteps = scavengeStepsModel := by rfl

/-- the model's constants are those: 30 min and 5 min in seconds; a job with TTL t > 0 is scavenged from t + 300 s on -/
theorem tie_scavenge_timeout : scavDefault = 30 * 60 ∧ scavGrace = 5 * 60 ∧ scavTimeout 0 = 1800 ∧
    (∀ t, 0 < t → scavTimeout t = t + 300) := by
  refine ⟨by decide, by decide, by decide, ?_⟩
  intro t ht
  simp [scavTimeout, scavGrace, ht]

/-- the created-by stamp: `CreatePodMigrationJob` writes the uid it is handed, `Evict` hands over the instance's own uid,
    `New` draws a fresh uid per instance, and `Reconcile` returns early for a job stamped with another uid (model:
    `createdJob`, `Op.restart`, the first line of `reconcile`) -/
def createdByFactsModel : List String :=
  ["annotation = string(reconcilerUID)",
   "Evict passes r.reconcilerUID",
   "New: reconcilerUID = UUIDGenerateFn()",
   "Reconcile: jobUID, ok := job.Annotations[AnnotationJobCreatedBy]; if ok && jobUID != string(r.reconcilerUID) -> return=true"]

theorem tie_created_by_stamp : KoordVerif.Generated.C17.createdByFacts = createdByFactsModel := by rfl

end KoordVerif.C17
