import KoordVerif.Model.C17
import KoordVerif.Generated.C17
/-
Tie lemmas: the guard order the model assumes is the guard order of /repo's current controller.go
(regenerated on every run by harness/extract/facts_c17.go).  A gate that is moved behind the eviction call,
removed, or no longer an early exit changes the generated list and breaks these lemmas.
-/
namespace KoordVerif.C17
open KoordVerif.Generated

theorem tie_extract_ok : C17.extractOK = true := by decide

/-- doMigrate: every gate of the reservation-first path, in order, up to the evictPod call -/
theorem tie_doMigrate_gates : C17.doMigrateGates = gateList := by decide

/-- evictPod: every early exit that precedes evictorInterpreter.Evict -/
theorem tie_evictPod_gates : C17.evictPodGates = evictGateList := by decide

/-- prepareJobWithReservationScheduleSuccess: same-node abort before the node is recorded -/
theorem tie_nodeCheck_gates : C17.nodeCheckGates = nodeCheckGateList := by decide

/-- what the theorems rely on, read off the generated list itself: the pending / expired / scheduled gates and the
    same-node preparation are early exits that come before `evictPod`, in this order -/
theorem tie_reservation_gates_precede_evict :
    (C17.doMigrateGates.dropWhile (fun g => g.1 != "IsReservationPending")).map (·.1) =
      ["IsReservationPending", "IsReservationExpired", "IsReservationScheduled",
       "prepareJobWithReservationScheduleSuccess", "IsMigratePendingPod", "evictPod"] ∧
    (C17.doMigrateGates.filter (fun g => g.1 == "IsReservationPending" || g.1 == "IsReservationExpired" ||
        g.1 == "IsReservationScheduled" || g.1 == "prepareJobWithReservationScheduleSuccess")).all (·.2) = true := by
  decide

end KoordVerif.C17
