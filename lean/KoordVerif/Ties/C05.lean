import KoordVerif.Model.C05
import KoordVerif.Generated.C05
/-
Tie lemmas for C05: guard orders and condition shapes extracted from /repo's current source
(harness/extract/facts_c05.go, regenerated on every run; local identifiers blanked) equal what the model mirrors.
-/
namespace KoordVerif.C05
open KoordVerif.Generated

theorem tie_extract_ok : C05.extractOK = true := by decide

/-- NominateReservation: reserve pod -> no candidates -> the single-candidate shortcut (exactly one candidate AND
    reservation affinity) -> an earlier nomination -> the filter loop; inside the shortcut the allocate-once gate
    returns first.  `nominateG true` has this order: `[] => none`, `[r] => if hasAff then (gate ? none : r)`. -/
theorem tie_nominate_guards :
    C05.nominateGuards = ["IsReservePod():return", "(_ != nil):", "(len() == 0):return",
      "((len() == 1) && .hasAffinity):return", "(_ != nil):return", "!_:return"] ∧
    C05.shortcutInner = ["(IsAllocateOnce() && (GetAllocatedPods() > 0)):return"] := by decide

/-- the model's shortcut: one candidate and affinity => that candidate unless allocate-once with a pod; one
    candidate without affinity => only through the nominate filter -/
theorem tie_shortcut_model (c : Cache) (x : CycIn) (r : RInfo) (hm : matchedOf c x = [r]) :
    nominateM c x = if x.hasAff then (if nominateGate r then Nom.none else Nom.one r.uid)
                    else if nomFilterOK c x r then Nom.one r.uid else Nom.none := by
  simp [nominateM, nominateG, hm]

/-- FilterNominateReservation starts with the same gate (`nominateGate`) -/
theorem tie_nominate_filter_gate :
    C05.nominateFilterGate = "(IsAllocateOnce() && (GetAllocatedPods() > 0)):return" ∧
    (∀ r : RInfo, nominateGate r = (r.once && decide (r.assigned.length > 0))) := by
  refine ⟨by decide, fun r => ?_⟩
  simp [nominateGate]

/-- podEventHandler.updatePod: terminated -> delete; unassigned -> (delete old); then cache.updatePod is guarded by
    "old OR new names a reservation" (NOT by "the reservation changed"); an annotation names a reservation iff it
    parsed, is present and has a non-empty uid (three places); IsPodTerminated = Succeeded or Failed -/
theorem tie_handler_routing :
    C05.handlerGuards.take 2 = ["IsPodTerminated():return", "!assignedPod():return"] ∧
    C05.handlerRouteGuard = "((_ != nil) || (_ != nil))" ∧
    C05.annotationValid = List.replicate 3 "(((_ == nil) && (_ != nil)) && (.UID != \"\"))" ∧
    C05.terminatedDef = "((.Phase == .PodSucceeded) || (.Phase == .PodFailed))" := by decide

/-- the model's routing has that guard: `oldU != 0 || new.rAlloc != 0` -/
theorem tie_handler_model (c : Cache) (o n : HPod) (ht : n.term = false) (hn : n.node ≠ 0) :
    podUpdate c (some o) n =
      if o.rAlloc != 0 || n.rAlloc != 0 then updatePod c o.rAlloc n.rAlloc (some o.pod) (some n.pod) else c := by
  simp [podUpdate, ht, hn]

/-- fitsNodeAndReservation applies fitsReservation to the Restricted policy only; fitsReservation clamps the used
    amount at 0 AFTER subtracting the preemptible amount (as `fitsReservation` of the model does) -/
theorem tie_fit_shape :
    C05.policySwitch = ["((_ == .ReservationAllocatePolicyDefault) || (_ == .ReservationAllocatePolicyAligned))",
                         "(_ == .ReservationAllocatePolicyRestricted)"] ∧
    C05.fitClampAfterPreemptibleSub = true := by decide

/-- every cache entry point of the model's `step` is ONE critical section in the code (Lock + deferred Unlock as
    the first two statements), so the sequential model is adequate for interleaved callers -/
theorem tie_critical_sections :
    C05.criticalSections = ["updateReservation:Lock", "updateReservationIfExists:Lock", "DeleteReservation:Lock",
      "addPods:Lock", "updatePod:Lock", "deletePods:Lock", "ForEachMatchableReservationOnNode:RLock"] := by decide

end KoordVerif.C05
