import KoordVerif.Model.C05
import KoordVerif.Model.C05Prof
import KoordVerif.Model.C05Sel
import KoordVerif.Model.C05Ctl
import KoordVerif.Generated.C05
/-
Tie lemmas for C05: guard orders and condition shapes extracted from /repo's current source
(harness/extract/facts_c05.go, regenerated on every run; local identifiers blanked) equal what the model mirrors.
-/
namespace KoordVerif.C05
open KoordVerif.Generated

theorem tie_extract_ok : C05.extractOK = true := by decide

/-- NominateReservation: reserve pod -> no candidates -> the single-candidate shortcut (exactly one candidate AND
    reservation affinity) -> an earlier nomination -> the filter loop; inside the shortcut the allocate-once gate
    returns first.  `nominateG true` has this order: `[] => none`, `[r] => if hasAff then (gate ? none : r)`. -/
theorem tie_nominate_guards :
    C05.nominateGuards = ["IsReservePod():return", "(_ != nil):", "(len() == 0):return",
      "((len() == 1) && .hasAffinity):return", "(_ != nil):return", "!_:return"] ∧
    C05.shortcutInner = ["(IsAllocateOnce() && (GetAllocatedPods() > 0)):return"] := by decide

/-- the model's shortcut: one candidate and affinity => that candidate unless allocate-once with a pod; one
    candidate without affinity => only through the nominate filter -/
theorem tie_shortcut_model (c : Cache) (x : CycIn) (r : RInfo) (hm : matchedOf c x = [r]) :
    nominateM c x = if x.hasAff then (if nominateGate r then Nom.none else Nom.one r.uid)
                    else if nomFilterOK c x r then Nom.one r.uid else Nom.none := by
  simp [nominateM, nominateG, hm]

/-- FilterNominateReservation starts with the same gate (`nominateGate`) -/
theorem tie_nominate_filter_gate :
    C05.nominateFilterGate = "(IsAllocateOnce() && (GetAllocatedPods() > 0)):return" ∧
    (∀ r : RInfo, nominateGate r = (r.once && decide (r.assigned.length > 0))) := by
  refine ⟨by decide, fun r => ?_⟩
  simp [nominateGate]

/-- podEventHandler.updatePod: terminated -> delete; unassigned -> (delete old); then cache.updatePod is guarded by
    "old OR new names a reservation" (NOT by "the reservation changed"); an annotation names a reservation iff it
    parsed, is present and has a non-empty uid (three places); IsPodTerminated = Succeeded or Failed -/
theorem tie_handler_routing :
    C05.handlerGuards.take 2 = ["IsPodTerminated():return", "!assignedPod():return"] ∧
    C05.handlerRouteGuard = "((_ != nil) || (_ != nil))" ∧
    C05.annotationValid = List.replicate 3 "(((_ == nil) && (_ != nil)) && (.UID != \"\"))" ∧
    C05.terminatedDef = "((.Phase == .PodSucceeded) || (.Phase == .PodFailed))" := by decide

/-- the model's routing has that guard: `oldU != 0 || new.rAlloc != 0` -/
theorem tie_handler_model (c : Cache) (o n : HPod) (ht : n.term = false) (hn : n.node ≠ 0) :
    podUpdate c (some o) n =
      if o.rAlloc != 0 || n.rAlloc != 0 then updatePod c o.rAlloc n.rAlloc (some o.pod) (some n.pod) else c := by
  simp [podUpdate, ht, hn]

/-- fitsNodeAndReservation applies fitsReservation to the Restricted policy only; fitsReservation clamps the used
    amount at 0 AFTER subtracting the preemptible amount (as `fitsReservation` of the model does) -/
theorem tie_fit_shape :
    C05.policySwitch = ["((_ == .ReservationAllocatePolicyDefault) || (_ == .ReservationAllocatePolicyAligned))",
                         "(_ == .ReservationAllocatePolicyRestricted)"] ∧
    C05.fitClampAfterPreemptibleSub = true := by decide

/-- every cache entry point of the model's `step` is ONE critical section in the code (Lock + deferred Unlock as
    the first two statements), so the sequential model is adequate for interleaved callers -/
theorem tie_critical_sections :
    C05.criticalSections = ["updateReservation:Lock", "updateReservationIfExists:Lock", "DeleteReservation:Lock",
      "addPods:Lock", "updatePod:Lock", "deletePods:Lock", "ForEachMatchableReservationOnNode:RLock"] := by decide

/-! ### several scheduler profiles (frameworkext/eventhandlers/reservation_handler.go, Model/C05Prof.lean) -/

/-- deleteReservationFromSchedulerCache: returns first when Status.NodeName == ""; its ONE loop ranges over
    GetAllReservationCaches(), calls DeleteReservation(r) unconditionally on every iteration and contains no
    break / continue / return / goto (seeded change C05-f added a `break`); DeleteReservation is called nowhere else
    in the function; the Range callback of GetAllReservationCaches always returns true (never stops early) -/
theorem tie_every_cache_visited :
    C05.deleteFirstGuard = "(#1.Status.NodeName == \"\"):return" ∧
    C05.cacheLoop = ["range:GetAllReservationCaches()", "always:DeleteReservation(#1)"] ∧
    C05.cacheLoopExits = [] ∧
    C05.allCachesRangeReturns = ["true"] := by decide

/-- the model's loop: every cache of the list gets the global handler's effect (`deliverAll` has the length of the
    profile list and its canonical order is a plain map) -/
theorem tie_loop_model (e : REv) (gf : Nat → Bool) : ∀ (cs : List Cache) (i : Nat),
    (deliverFrom e gf i cs).length = cs.length ∧
    deliverFrom e (fun _ => false) i cs = cs.map (fun c => globEv (plugEv c e) e) := by
  intro cs
  induction cs with
  | nil => intro i; exact ⟨rfl, rfl⟩
  | cons c t ih =>
    intro i
    refine ⟨by simp [deliverFrom, (ih (i + 1)).1], ?_⟩
    simp [deliverFrom, (ih (i + 1)).2, evStep]

/-- the scheduler-wide updateReservation: validation first, then the case order with the cache function (and the
    object: #2 = old, #3 = new) each case calls; updateReservationInSchedulerCache turns a uid / node change into
    delete(old)-then-add(new); add never deletes, delete always does; isReservationActive = unassigned and not
    terminated; toReservation reads *Reservation and DeletedFinalStateUnknown -/
theorem tie_global_handler_cases :
    C05.globalUpdateCases = [
      "(ValidateReservation(#3) != nil) => :return",
      "((IsReservationFailed(#2) || IsReservationSucceeded(#2)) && (IsReservationFailed(#3) || IsReservationSucceeded(#3))) => :return",
      "(IsReservationAvailable(#2) && IsReservationAvailable(#3)) => updateReservationInSchedulerCache(#1,#2,#3):return",
      "(isReservationActive(#2) && IsReservationAvailable(#3)) => addReservationToSchedulerCache(#1,#3):return",
      "(IsReservationAvailable(#2) && (IsReservationFailed(#3) || IsReservationSucceeded(#3))) => deleteReservationFromSchedulerCache(#1,#2):return",
      "(IsReservationAvailable(#2) && isReservationActive(#3)) => deleteReservationFromSchedulerCache(#1,#2):return",
      "(isReservationActive(#2) && isReservationActive(#3)) => :return",
      "(isReservationActive(#2) && (IsReservationFailed(#3) || IsReservationSucceeded(#3))) => :return"] ∧
    C05.globalUpdateInCache = ["((#1.UID != #2.UID) || (GetReservationNodeName(#1) != GetReservationNodeName(#2))) => deleteReservationFromSchedulerCache(#0,#1),addReservationToSchedulerCache(#0,#2):return"] ∧
    C05.globalAddDeletes = [] ∧
    C05.globalDeleteAlways = ["deleteReservationFromSchedulerCache(#1,#2)"] ∧
    C05.globalActiveDef = "(((GetReservationNodeName(#0) == \"\") && !IsReservationFailed(#0)) && !IsReservationSucceeded(#0))" ∧
    C05.toReservationShapes = ["Reservation", "DeletedFinalStateUnknown"] := ⟨rfl, rfl, rfl, rfl, rfl, rfl⟩

/-- the model's `gUpdateDeletes` is that case analysis: invalid -> nothing; both terminated -> nothing; both available ->
    only on a uid / node change; unassigned -> available: nothing; available -> terminated / unassigned: delete -/
theorem tie_global_update_model (valid : Bool) (o n : RObj) :
    gUpdateDeletes valid o n =
      (valid && !(o.terminated && n.terminated) &&
        (if o.available && n.available then (o.uid != n.uid || o.node != n.node)
         else if o.unassigned && n.available then false
         else if o.available && n.terminated then true
         else if o.available && n.unassigned then true
         else false)) ∧
    (∀ o : RObj, o.unassigned = (o.node == 0 && !(o.phase == 3 || o.phase == 4))) ∧
    (∀ k : Nat, toRsv k = decide (k ≤ 1)) := ⟨rfl, fun _ => rfl, fun _ => rfl⟩

/-- the plugin's own reservation handler (one per profile): OnAdd / OnUpdate of an active reservation ->
    updateReservation; OnUpdate to Failed / Succeeded -> updateReservationIfExists; OnDelete -> always
    updateReservationIfExists (it never deletes: the real removal is the scheduler-wide handler's) -/
theorem tie_plugin_rsv_handler :
    C05.pluginRsvHandler = ["OnAdd:IsReservationActive() => updateReservation",
      "OnUpdate:IsReservationActive() => updateReservation",
      "OnUpdate:(IsReservationFailed() || IsReservationSucceeded()) => updateReservationIfExists",
      "OnDelete:always => updateReservationIfExists"] := by decide

/-! ### roll-back of a cycle (plugin.go Unreserve / PreBind / Reserve of a reserve pod; round 4) -/

/-- Plugin.Unreserve, normal-pod part (after the reserve-pod branch), statement ORDER: ignored pod -> nothing assumed
    -> forgetPods -> ONLY THEN the `!state.hasReservationAllocated` return -> the annotation clean-up loop (seeded
    change round 4 hoisted that return above forgetPods).  Plugin.PreBind: reserve / ignored pod -> nothing assumed
    -> `state.hasReservationAllocated = true` -> SetReservationAllocated. -/
theorem tie_unreserve_normal_order :
    C05.unreserveNormalOrder = ["IsReservationIgnored():return", "(.assumed == nil):return", "call:forgetPods",
      "!.hasReservationAllocated:return", "range:unreservePod"] ∧
    C05.preBindOrder = ["(IsReservePod() || IsReservationIgnored()):return", "(.assumed == nil):return",
      "set:_.hasReservationAllocated=true", "call:SetReservationAllocated"] := by decide

/-- the model has that order: the flag does not influence the cache -/
theorem tie_unreserve_normal_model (c : Cache) (assumed : Nat) (hasAlloc : Bool) (pu : Nat) :
    unreservePodM c assumed hasAlloc pu = (if assumed == 0 then c else deletePods c assumed [pu]) ∧
    (preBindM assumed false).2.2 = (assumed != 0) := by
  constructor
  · simp [unreservePodM, unreserveG]
  · unfold preBindM; by_cases h : assumed = 0 <;> simp [h]

/-- Plugin.Unreserve, reserve-pod branch: lister miss -> stub with UID = pod.UID (#2) and Status.NodeName = nodeName
    (#3); lister hit -> DeepCopy, then `Status.NodeName = nodeName` (seeded change round 4 dropped both), THEN
    forgetReservation, then the pre-allocation guard.  Plugin.Reserve, reserve-pod branch: lister error -> return;
    DeepCopy; `Status.NodeName = nodeName`; assumeReservation; not pre-allocation -> return.  The cache aliases are
    one-liners; DeleteReservation cleans reservationsOnNode under the node name of the PASSED object. -/
theorem tie_unreserve_rsv_branch :
    C05.unreserveRsvBranch.take 6 = ["stub:UID=#2.UID", "stub:NodeName=#3", "else:_=_.DeepCopy()",
      "else:_.Status.NodeName=#3", "call:forgetReservation", "(len() == 0):return"] ∧
    C05.reserveRsvBranch = ["(_ != nil):return", "_=_.DeepCopy()", "_.Status.NodeName=#3", "call:assumeReservation",
      "!IsReservePodPreAllocation():return"] ∧
    C05.cacheAliases = ["assumeReservation=updateReservation(#0)", "forgetReservation=DeleteReservation(#0)",
      "assumePods=addPods(#0,#1)", "forgetPods=deletePods(#0,#1)"] ∧
    C05.deleteKeyedBy = "deleteReservationOnNode(#0.Status.NodeName,#0.UID)" := by decide

/-- the model's reserve-pod branch is that: delete by (uid of the object / of the pod, the cycle's node) -/
theorem tie_unreserve_rsv_model (c : Cache) (listed : Option RObj) (pu n : Nat) :
    unreserveRsvM c listed pu n = deleteReservation c (match listed with | some o => o.uid | none => pu) n ∧
    (∀ o : RObj, reserveRsvM c (some o) n = (updateReservation c { o with node := n }, 0)) ∧
    reserveRsvM c none n = (c, 3) := by
  refine ⟨?_, fun _ => rfl, rfl⟩
  cases listed <;> simp [unreserveRsvM, unreserveRsvG]

/-- ReservationInfo.IsUnschedulable = Spec.Unschedulable OR IsTerminating (DeletionTimestamp set): a terminating
    reservation is skipped by the matching unless the pod names it; the cycle model passes `r.term` -/
theorem tie_terminating_unschedulable :
    C05.unschedulableDef = "(_ || IsTerminating())" ∧
    C05.terminatingDef = "!_.GetObject().GetDeletionTimestamp().IsZero()" := by decide

/-- util.GetFastLabelSelector: the labels-only fast path (SelectorFromValidatedSet(ps.MatchLabels)) is guarded by
    "NO expressions AND some labels" (either order of the conjuncts); everything else goes through
    LabelSelectorAsSelector.  ParseReservationOwnerMatchers parses an owner's selector with exactly this helper and
    returns no matcher at all when any entry failed; MatchOwners answers false on a ParseError.
    (seeded change round 5 dropped the `len(MatchExpressions) == 0` conjunct) -/
theorem tie_fast_selector :
    (C05.fastSelector = ["if:((len(#0.MatchExpressions) == 0) && (len(#0.MatchLabels) != 0))",
        "then:SelectorFromValidatedSet(#0.MatchLabels)", "return:LabelSelectorAsSelector(#0)"] ∨
     C05.fastSelector = ["if:((len(#0.MatchLabels) != 0) && (len(#0.MatchExpressions) == 0))",
        "then:SelectorFromValidatedSet(#0.MatchLabels)", "return:LabelSelectorAsSelector(#0)"]) ∧
    C05.ownerSelectorParse = ["selector=GetFastLabelSelector(.LabelSelector)", "errs:(len() > 0) => return nil"] ∧
    C05.matchOwnersGate = "(.ParseError != nil) => return false" := by decide

/-- the model's helper is that guard -/
theorem tie_fast_selector_model (s : LabelSel) :
    getFastLabelSelector s =
      (if s.exprs.isEmpty && !s.labels.isEmpty then some { labels := s.labels, exprs := [] } else labelSelectorAsSelector s) := rfl

/-- util/reservation.MatchReservationControllerReference (round 8): nil reference = true, the extended namespace field
    first, then ANY of the pod's ownerReferences under the five-conjunct guard (any order of the conjuncts); the FLAG
    conjunct is "spec flag nil, or pod flag non-nil AND equal" (seeded change round 6 made it "pod flag nil OR equal") -/
theorem tie_controller_ref :
    C05.controllerRefFrame = ["if:(#1 == nil):return true",
        "if:((len(#1.Namespace) > 0) && (#1.Namespace != #0.Namespace)):return false",
        "range:#0.OwnerReferences", "loop-if-guard:return true", "return:false"] ∧
    C05.controllerRefGuard.length = 5 ∧
    ∀ x ∈ ["((#1.Controller == nil) || (($.Controller != nil) && (*#1.Controller == *$.Controller)))",
           "((len(#1.UID) == 0) || (#1.UID == $.UID))", "((len(#1.Name) == 0) || (#1.Name == $.Name))",
           "((len(#1.Kind) == 0) || (#1.Kind == $.Kind))",
           "((len(#1.APIVersion) == 0) || (#1.APIVersion == $.APIVersion))"], x ∈ C05.controllerRefGuard := by decide

/-- the model is that frame and that guard -/
theorem tie_controller_ref_model (specNs podNs : Int) (s : CtlRef) (refs : List CtlRef) :
    matchControllerRef specNs podNs s refs =
      (if specNs != 0 && specNs != podNs then false else refs.any (fun p =>
        (s.flag == 0 || (p.flag != 0 && s.flag == p.flag)) && (s.uid == 0 || s.uid == p.uid) && (s.name == 0 || s.name == p.name) &&
          (s.kind == 0 || s.kind == p.kind) && (s.api == 0 || s.api == p.api))) := rfl

/-- frameworkExtenderImpl.RunReservePluginsReserve drops the pod's reservation nomination after the Reserve plugins
    whenever a nominator is registered - NOT depending on the Reserve status (seeded change round 6: only on failure, so
    a stale nomination is read by the pod's next Reserve); the model's Reserve always works on the cycle's own nomination -/
theorem tie_reserve_drops_nomination :
    C05.reserveNominationDrop = ["drop-if:(_ != nil)", "return"] := by decide

end KoordVerif.C05
