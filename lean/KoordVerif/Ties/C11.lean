import KoordVerif.Model.C11Decode
import KoordVerif.Model.C11Rounds
import KoordVerif.Model.C11Metric
import KoordVerif.Model.C11Containers
import KoordVerif.Generated.C11
/-
Tie lemmas for C11: constants, parse calls, cache guards and loop guard order of /repo's current source
(regenerated on every run by harness/extract/facts_c11.go) equal what the model and the theorems use.
-/
namespace KoordVerif.C11
/-! generated names are written fully qualified. -/

theorem tie_extract_ok : KoordVerif.Generated.C11.extractOK = true := by decide

/-- `GetDefaultPriorityByPriorityClass` table = `defaultPrio`. -/
theorem tie_priority_defaults :
    defaultPrio .prod = KoordVerif.Generated.C11.PriorityProdValueDefault ∧
    defaultPrio .mid = KoordVerif.Generated.C11.PriorityMidValueDefault ∧
    defaultPrio .batch = KoordVerif.Generated.C11.PriorityBatchValueDefault ∧
    defaultPrio .free = KoordVerif.Generated.C11.PriorityFreeValueDefault ∧
    defaultPrio .none = KoordVerif.Generated.C11.PriorityNoneValueDefault := by decide

/-- `getPriorityClassByPriority` ranges = `clsByPriority`. -/
theorem tie_priority_ranges (p : Int) :
    clsByPriority p =
      if KoordVerif.Generated.C11.PriorityProdValueMin ≤ p ∧ p ≤ KoordVerif.Generated.C11.PriorityProdValueMax then .prod
      else if KoordVerif.Generated.C11.PriorityMidValueMin ≤ p ∧ p ≤ KoordVerif.Generated.C11.PriorityMidValueMax then .mid
      else if KoordVerif.Generated.C11.PriorityBatchValueMin ≤ p ∧ p ≤ KoordVerif.Generated.C11.PriorityBatchValueMax then .batch
      else if KoordVerif.Generated.C11.PriorityFreeValueMin ≤ p ∧ p ≤ KoordVerif.Generated.C11.PriorityFreeValueMax then .free
      else .none := rfl

/-- `GetPodPriorityValueWithDefault` keeps exactly a non-nil, non-default (≠ 0) spec.priority
    (`priorityWithDefault`: `if p ≠ 0 then p else default`). -/
theorem tie_priority_default_guard :
    KoordVerif.Generated.C11.prioDefaultGuard = "p!=nil&&*p!=PriorityNoneValueDefault" ∧
    KoordVerif.Generated.C11.PriorityNoneValueDefault = 0 := by decide

/-- `GetPodEvictionPriority` parses with `strconv.ParseInt(value, 10, 32)` and returns 0 on error
    (`evictionPriority = (parseBits 32 ·).getD 0`); `GetPodPriorityLabel` parses with `strconv.Atoi`
    (`priorityLabel = parseBits 64`); `PodEvictEnabled` compares with "true". -/
theorem tie_parsers :
    KoordVerif.Generated.C11.evictPrioParseBase = 10 ∧ KoordVerif.Generated.C11.evictPrioParseBits = 32 ∧
    KoordVerif.Generated.C11.evictPrioErrorReturnsZero = true ∧ KoordVerif.Generated.C11.prioLabelUsesAtoi = true ∧
    KoordVerif.Generated.C11.evictEnabledLiteral = "true" := by decide

/-- the evicted-cache: default TTL 2 minutes, `Get` drops an item once `expirationTime.Before(now)`
    (`cacheGet`), `set` refuses before `Run` (`Exec.record` on `started`), `SetDefault` uses the default TTL,
    `NewEvictor` uses the default cache. -/
theorem tie_cache :
    KoordVerif.Generated.C11.cacheDefaultExpirationSeconds = defaultTTLSeconds ∧
    KoordVerif.Generated.C11.cacheGetExpiresByBeforeNow = true ∧
    KoordVerif.Generated.C11.cacheSetRefusedBeforeStart = true ∧
    KoordVerif.Generated.C11.cacheSetDefaultUsesDefaultExpiration = true ∧
    KoordVerif.Generated.C11.evictorUsesDefaultCache = true := by decide

/-- the only write to `podsEvicted` in the package sits under `if success` with
    `success := r.evictPod(...)` (`Exec.evictIfNot`: `record` only in the `api = true` branch). -/
theorem tie_record_only_on_success :
    KoordVerif.Generated.C11.evictedCacheWriteSites = 1 ∧ KoordVerif.Generated.C11.evictedCacheWritesUnderSuccess = 1 ∧
    KoordVerif.Generated.C11.successIsEvictPodResult = true := by decide

/-- `DefaultEvictionExecutor.Evict`: OnlyEvictByAPI ⇒ EvictPodIfNotEvicted's result, else KillContainers and
    `true` (`Exec.evict`). -/
theorem tie_executor_modes : KoordVerif.Generated.C11.executorTwoModes = true := by decide

/-- KillAndEvictPods' pod loop tests `evictedPodsMp[podKey]` (continue) before `IsPodEvicted`, asks that before
    `Evict`, and its two `break`s sit under the covered-target test (`loopPods`, `loopPodsX`). -/
theorem tie_loop_guard_order :
    KoordVerif.Generated.C11.loopGuardOrder = true ∧ KoordVerif.Generated.C11.loopBreaks = 2 ∧
    KoordVerif.Generated.C11.loopBreaksUnderCoveredTest = true := by decide

/-- `CollectPodMetricLast` queries the last `2 × collectInterval` (the harness hands `window = 2·interval` to
    `podMetricLast`), aggregates with `AggregationTypeLast` over `[end − window, end]`, and every return either hands an error
    variable on (never a literal `nil` error) or is the aggregate's own `Value(…)` pair, under no test other than
    `… != nil` — there is no path that turns an empty result into a value (`podMetricLast … = (lastOf …).map …`, `lastOf [] = none`). -/
theorem tie_collect_last :
    KoordVerif.Generated.C11.collectLastWindowFactor = 2 ∧
    KoordVerif.Generated.C11.collectLastReturnsOnlyErrOrAggregate = true ∧
    KoordVerif.Generated.C11.queryParamsLastAggregatesLast = true ∧
    KoordVerif.Generated.C11.queryParamsLastStartIsEndMinusWindow = true ∧
    lastOf [] = none := by decide

/-- `fieldLastOfMetricList`: empty input ⇒ error (`lastOf [] = none`); a later point replaces the current one
    only on a strictly greater timestamp (`lastFrom`: `if x.age < best.age`). -/
theorem tie_last_aggregate :
    KoordVerif.Generated.C11.lastOfEmptyInputIsError = true ∧
    KoordVerif.Generated.C11.lastReplacesOnStrictlyLaterTimestamp = true ∧
    lastFrom ⟨5, 1⟩ [⟨5, 2⟩, ⟨3, 3⟩, ⟨3, 4⟩, ⟨7, 5⟩] = ⟨3, 3⟩ := by decide

/-- both `getPodEvictInfoAndSortByPriority` (memoryevict, cpuevict) `continue` when `CollectPodMetricLast` errs
    (`prioInfo?`: `if !p.hasMetric then none`); `CollectAllPodMetrics` (BE memory path) skips an empty result
    (`beInfo?`: no metric ⇒ usage 0). -/
theorem tie_filter_no_metrics :
    KoordVerif.Generated.C11.prioBuildersSkippingOnMetricError = 2 ∧
    KoordVerif.Generated.C11.collectAllPodMetricsSkipsEmptyResult = true := by decide

/-- `GetRequestTypeAndValueFromPod`: one loop over `Spec.Containers`, one over `Spec.InitContainers` whose whole body
    is guarded by `IsSidecarContainer`, each clamping a request `<= 0` to 0 (`ctrSum`: kinds 0 and 2, `clamp0`). -/
theorem tie_request_loops :
    KoordVerif.Generated.C11.requestLoopsContainersOnceInitOnce = true ∧
    KoordVerif.Generated.C11.requestInitLoopSidecarOnly = true ∧
    KoordVerif.Generated.C11.requestClampsNonPositive = 2 ∧
    ctrSum Ctr.mid [⟨0, 3, 0⟩, ⟨1, 5, 0⟩, ⟨2, 7, 0⟩, ⟨0, -1, 0⟩] = 10 := by decide

/-- the four candidate-list builders filter a pod by exactly the guards of the model (`beInfo?`: QoS BE, policy;
    `prioInfo?`: active phase, policy, priority, eviction-enabled label, [query meta,] usage metric) and none of them
    mentions the pod's deletionTimestamp or a `…Terminating…` helper: a terminating pod stays a candidate
    (`passRaws` forgets the flag; `terminating_victim_stays_candidate`). -/
theorem tie_list_builders_ignore_deletion_timestamp :
    KoordVerif.Generated.C11.memBEBuilderGuards = 2 ∧ KoordVerif.Generated.C11.memPrioBuilderGuards = 6 ∧
    KoordVerif.Generated.C11.cpuBEBuilderGuards = 2 ∧ KoordVerif.Generated.C11.cpuPrioBuilderGuards = 6 ∧
    KoordVerif.Generated.C11.listBuildersMentionDeletionTimestamp = false := by decide

end KoordVerif.C11
