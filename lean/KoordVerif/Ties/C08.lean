import KoordVerif.Model.C08
import KoordVerif.Model.C08Glue
import KoordVerif.Model.C08Fw
import KoordVerif.Proofs.C08ExtConc
import KoordVerif.Generated.C08
/-
Tie lemmas for C08: facts re-extracted from /repo's current source on every run.
 * the estimator defaults / default report interval are the model's,
 * nodeInfo.deletePod is, statement for statement, nodeInfo.addPod with Add→Sub, AddDelta→SubDelta,
   Insert→Delete (the syntactic form of `delete_add_inverse`),
 * every nodeInfo field addPod touches is reassigned on every path of AddOrUpdateNodeMetric before it
   replays addPod over n.podInfos (the "same context" premise of `cache_eq_rebuild`; the pre-repair
   code assigned `updateTime` only under an `if`, which this lemma rejects),
 * the lock / retry structure the small-step model Proofs/C08ExtConc.lean is written from: two attempts in both
   retry loops; the `deleted` flag read before Lock (touching nothing else of the nodeInfo) and again as the first
   statement under the lock in both add-type methods; flag check - Lock - flag check - work - tryCleanup in both
   delete-type methods; a created nodeInfo is stored locked; and tryCleanup runs CompareAndDelete BEFORE
   `deleted = true` (the pre-repair order is the shape `Conc.preRepair`, which loses events:
   `Conc.pre_repair_counterexample`),
 * estimatedPodUsed passes empty PodResourcesOptions (spec only), and the NodeMetric handler's UpdateFunc forwards every
   update without looking at the old object,
 * Plugin.PreFilter returns the status nil on every path and generateUsageThresholdsFilterProfile is called by Filter only
   (Model/C08Fw.lean).
-/
namespace KoordVerif.C08
open KoordVerif.Generated

theorem tie_extract_ok : C08.extractOK = true := by decide

theorem tie_defaults :
    defaultOf 1 0 = C08.DefaultMilliCPURequest ∧ defaultOf 1 1 = C08.DefaultMemoryRequest ∧
    defaultOf 3 0 = C08.DefaultMilliCPURequest ∧ defaultOf 3 1 = C08.DefaultMemoryRequest ∧
    intervalOf { hasUpd := false, updT := 0, interval := -1, hasInfo := false, nodeUsage := [], sysUsage := [],
                 aggs := [], pods := [] } = C08.DefaultNodeMetricReportIntervalSeconds := by decide

theorem tie_delete_mirrors_add : C08.deleteMirrorsAdd = true := by decide

theorem tie_metric_resets_context :
    (C08.addPodFields.all fun f => C08.metricResetFields.contains f) = true ∧
    C08.metricRebuildsFromPods = true := by decide

/-- the protocol shape read off the source -/
def extractedShape : Conc.Shape :=
  { bound := C08.assignAttempts,
    fastCheck := C08.addPodSteps.take 2 == ["check", "lock"],
    recheck := (C08.addPodSteps.drop 2).take 2 == ["defer-unlock", "check"],
    flagFirst := C08.cleanupOrder != ["cad", "flag"],
    atomicCleanup := false }

theorem tie_conc_shape : extractedShape = Conc.asWritten ∧ C08.metricAttempts = C08.assignAttempts := by decide

theorem tie_conc_sections :
    C08.addPodSteps = ["check", "lock", "defer-unlock", "check", "work"] ∧ C08.addPodStepsPreLock = [] ∧
    C08.addMetricSteps = ["check", "work", "lock", "defer-unlock", "check", "work"] ∧ C08.addMetricStepsPreLock = [] ∧
    C08.delPodSteps = ["check", "lock", "defer-unlock", "check", "work", "cleanup"] ∧
    C08.delMetricSteps = ["check", "lock", "defer-unlock", "check", "work", "cleanup"] ∧
    C08.fastCheckReleasesCreated = true ∧ C08.createdLocked = true := by decide

theorem tie_cleanup_order :
    C08.cleanupOrder = ["cad", "flag"] ∧ C08.cleanupCond = "n.nodeMetric == nil && len(n.podInfos) == 0" := by decide

/-- a `return` of Plugin.PreFilter the model `preFilter = Success` stands for: status nil, or the one Skip that cannot
change the verdict of any node (`daemonset_skip_is_safe`; every other Skip can: `skip_safe_only_for_daemonset`) -/
def preFilterReturnOK (r : String × String) : Bool :=
  r.1 == "nil" ||
    (r.1 == "fwktype.NewStatus(fwktype.Skip)" && r.2 == "isDaemonSetPod(pod.OwnerReferences)")

/-- Model/C08Fw.lean `preFilter` answers Success on every path: every `return` of Plugin.PreFilter carries the status
`nil` (a Skip status makes the framework drop Filter for the whole cycle; tolerated only under the DaemonSet guard, where
Filter passes on every node anyway); and the node's usage-thresholds annotation is merged in by Filter alone (so nothing
before Filter can know the thresholds in force on a node). -/
theorem tie_prefilter_status :
    C08.preFilterReturns ≠ [] ∧ (C08.preFilterReturns.all preFilterReturnOK) = true ∧
    C08.customThresholdsCallers = ["Filter"] := by decide

/-- the priority bands of the glue model are the bands of apis/extension/priority.go: the band ends map to the
class, their outer neighbours to none -/
theorem tie_priority_bands :
    classByPriority C08.PriorityProdValueMin = 1 ∧ classByPriority C08.PriorityProdValueMax = 1 ∧
    classByPriority C08.PriorityMidValueMin = 2 ∧ classByPriority C08.PriorityMidValueMax = 2 ∧
    classByPriority C08.PriorityBatchValueMin = 3 ∧ classByPriority C08.PriorityBatchValueMax = 3 ∧
    classByPriority C08.PriorityFreeValueMin = 4 ∧ classByPriority C08.PriorityFreeValueMax = 4 ∧
    classByPriority (C08.PriorityProdValueMax + 1) = 0 ∧ classByPriority (C08.PriorityProdValueMin - 1) = 0 ∧
    classByPriority (C08.PriorityMidValueMax + 1) = 0 ∧ classByPriority (C08.PriorityMidValueMin - 1) = 0 ∧
    classByPriority (C08.PriorityBatchValueMax + 1) = 0 ∧ classByPriority (C08.PriorityBatchValueMin - 1) = 0 ∧
    classByPriority (C08.PriorityFreeValueMax + 1) = 0 ∧ classByPriority (C08.PriorityFreeValueMin - 1) = 0 := by decide

/-- the estimate of a pod reads the pod SPEC only: estimatedPodUsed calls both PodRequests and PodLimits with an empty
PodResourcesOptions literal (no UseStatusResources: a cached pod is renewed by OnUpdate on spec / condition changes only, so
an estimate that also read status.containerStatuses[].resources would go stale on a status-only update).  The model's
PodDesc has no status field; the harness generates container-status resources (equal / larger / smaller / none) and
status-only updates, and its from-scratch oracle estimates from the spec. -/
theorem tie_estimate_reads_spec_only :
    C08.podResourcesCalls = ["PodLimits", "PodRequests"] ∧ C08.podResourcesOptionFields = [] := by decide

/-- the registered NodeMetric handler forwards every Add and every Update to AddOrUpdateNodeMetric whatever the old object
is (`Ev.metric` of the model = one informer event): UpdateFunc does not read its first parameter, compares nothing and
calls no other method of the cache.  The report interval is part of the SPEC, so a handler that drops an update whose
status is unchanged leaves the sums computed with the old interval (`metric_status_filter_counterexample`). -/
theorem tie_metric_handler_forwards :
    C08.metricAddCacheCalls = ["AddOrUpdateNodeMetric"] ∧ C08.metricUpdateCacheCalls = ["AddOrUpdateNodeMetric"] ∧
    C08.metricUpdateOldUsed = false ∧ C08.metricUpdateEqualCalls = 0 := by decide

end KoordVerif.C08
