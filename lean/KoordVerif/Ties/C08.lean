import KoordVerif.Model.C08
import KoordVerif.Generated.C08
/-
Tie lemmas for C08: facts re-extracted from /repo's current source on every run.
 * the estimator defaults / default report interval are the model's,
 * nodeInfo.deletePod is, statement for statement, nodeInfo.addPod with Add→Sub, AddDelta→SubDelta,
   Insert→Delete (the syntactic form of `delete_add_inverse`),
 * every nodeInfo field addPod touches is reassigned on every path of AddOrUpdateNodeMetric before it
   replays addPod over n.podInfos (the "same context" premise of `cache_eq_rebuild`; the pre-repair
   code assigned `updateTime` only under an `if`, which this lemma rejects).
-/
namespace KoordVerif.C08
open KoordVerif.Generated

theorem tie_extract_ok : C08.extractOK = true := by decide

theorem tie_defaults :
    defaultOf 1 0 = C08.DefaultMilliCPURequest ∧ defaultOf 1 1 = C08.DefaultMemoryRequest ∧
    defaultOf 3 0 = C08.DefaultMilliCPURequest ∧ defaultOf 3 1 = C08.DefaultMemoryRequest ∧
    intervalOf { hasUpd := false, updT := 0, interval := -1, hasInfo := false, nodeUsage := [], sysUsage := [],
                 aggs := [], pods := [] } = C08.DefaultNodeMetricReportIntervalSeconds := by decide

theorem tie_delete_mirrors_add : C08.deleteMirrorsAdd = true := by decide

theorem tie_metric_resets_context :
    (C08.addPodFields.all fun f => C08.metricResetFields.contains f) = true ∧
    C08.metricRebuildsFromPods = true := by decide

end KoordVerif.C08
