import KoordVerif.Props.C16
import KoordVerif.Generated.C16
/-
Tie lemmas: the critical-section shapes extracted from /repo's current source (regenerated on every run by
harness/extract/facts_c16.go) satisfy the premise of `atomic_reserve_safe`, so the theorem applies to the
code as it is now.  A narrowed lock / a count moved out of the section breaks a `decide` here.
-/
namespace KoordVerif.C16
open KoordVerif.Generated

theorem tie_extract_ok : C16.extractOK = true := by decide

/-- PodEvictor.Evict: limit checks, EvictPod and the three increments inside one acquisition of pe.lock -/
theorem tie_podevictor_one_section : oneSection (toProg C16.podEvictorEvict) = true := by decide

/-- evictorProxy.Evict: AllowEvict, plugin call and Done inside one acquisition of the eviction lock … -/
theorem tie_proxy_one_section : oneSection (toProg C16.proxyEvict) = true := by decide

/-- … and that lock is one object for all callers although handle.Evictor() builds a fresh proxy per call -/
theorem tie_proxy_lock_shared : C16.proxyLockShared = true := by decide

/-- EvictionLimiter.AllowEvict only reads, Done only writes, each under the limiter's lock
    (so the pair is atomic only through the proxy's outer lock) -/
theorem tie_limiter_sections :
    toProg C16.limiterAllow = [⟨true, [.check]⟩] ∧ toProg C16.limiterDone = [⟨true, [.count]⟩] := by decide

/-- `atomic_reserve_safe` instantiated with the shapes of the current source -/
theorem tie_podevictor_safe (capNode capNs : Option Nat) (pods : List (Pod × Bool)) (sched : List Nat) :
    let s := run peRefuse ⟨capNode, capNs, none⟩ (initCS (toProg C16.podEvictorEvict) pods) sched
    (∀ n, n ≠ 0 → capLe capNode (issuedBy (·.node) s.issued n)) ∧ (∀ k, capLe capNs (issuedBy (·.ns) s.issued k)) ∧
      s.issued.length = s.ctr.total := by
  have h := atomic_reserve_safe_podevictor capNode capNs _ tie_podevictor_one_section pods sched
  exact ⟨fun n hn => (h.1 n hn).2, fun k => (h.2.1 k).2, h.2.2⟩

theorem tie_proxy_safe (caps : Caps) (pods : List (Pod × Bool)) (sched : List Nat) :
    let s := run elRefuse caps (initCS (toProg C16.proxyEvict) pods) sched
    (∀ n, n ≠ 0 → capLe caps.node (issuedBy (·.node) s.issued n)) ∧ (∀ k, capLe caps.ns (issuedBy (·.ns) s.issued k)) ∧
      capLe caps.total s.issued.length ∧ s.issued.length = s.ctr.total := by
  have h := atomic_reserve_safe_limiter caps _ tie_proxy_one_section pods sched
  exact ⟨fun n hn => (h.1 n hn).2, fun k => (h.2.1 k).2, h.2.2.2, h.2.2.1⟩

end KoordVerif.C16
