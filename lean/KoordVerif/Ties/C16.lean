import KoordVerif.Props.C16
import KoordVerif.Generated.C16
/-
Tie lemmas: the critical-section shapes extracted from /repo's current source (regenerated on every run by
harness/extract/facts_c16.go) satisfy the premise of `atomic_reserve_safe`, so the theorem applies to the
code as it is now.  A narrowed lock / a count moved out of the section breaks a `decide` here.
-/
namespace KoordVerif.C16
open KoordVerif.Generated

theorem tie_extract_ok : C16.extractOK = true := by decide

/-- PodEvictor.Evict: limit checks, EvictPod and the three increments inside one acquisition of pe.lock -/
theorem tie_podevictor_one_section : oneSection (toProg C16.podEvictorEvict) = true := by decide

/-- evictorProxy.Evict: AllowEvict, plugin call and Done inside one acquisition of the eviction lock … -/
theorem tie_proxy_one_section : oneSection (toProg C16.proxyEvict) = true := by decide

/-- … and that lock is one object for all callers although handle.Evictor() builds a fresh proxy per call -/
theorem tie_proxy_lock_shared : C16.proxyLockShared = true := by decide

/-- the lock evictorProxy.Evict takes is a package-level variable — or a field of the framework while frameworks do not share
    a limiter.  (The descheduler builds one framework per profile and gives all of them one limiter; both facts are
    re-extracted from profile.NewMap / descheduler.New.)  A lock inside frameworkImpl or inside the proxy breaks this. -/
theorem tie_proxy_lock_scope :
    (C16.proxyLockScope == 0 ||
      (C16.proxyLockScope == 1 && !(C16.profileFrameworkPerProfile && C16.profilesShareLimiter))) = true := by decide

/-- what the `proxy` harness repeats by hand (package profile cannot be imported from package runtime): profile.NewMap reaches
    NewFramework once per profile from inside its loop, forwarding its option list unchanged, and descheduler.New puts exactly
    one WithEvictionLimiter option into that list — one framework per profile, one limiter for all of them.  (The `profiles`
    harness goes through the real New and does not depend on this.) -/
theorem tie_profiles_share_limiter :
    C16.profileFrameworkPerProfile = true ∧ C16.profilesShareLimiter = true := by decide

/-- `global_lock_safe_any_frameworks` for the lock scope of the current source: callers spread over any frameworks -/
theorem tie_proxy_safe_any_frameworks (caps : Caps) (n : Nat) (req : Nat → Req) (sched : List Nat) :
    ∀ sc, scopeOfCode C16.proxyLockScope = some sc →
      let s := lrun elRefuse caps sc n req linit sched
      IssuedWithin caps s.issued ∧ ((∀ j, insidePc (s.pc j) = false) → Good caps s.ctr s.issued) := by
  intro sc h
  have h0 : scopeOfCode C16.proxyLockScope = some .global := by decide
  rw [h0] at h
  cases h
  exact global_lock_safe_any_frameworks caps n req sched

/-- EvictionLimiter.AllowEvict only reads, Done only writes, each under the limiter's lock
    (so the pair is atomic only through the proxy's outer lock) -/
theorem tie_limiter_sections :
    toProg C16.limiterAllow = [⟨true, [.check]⟩] ∧ toProg C16.limiterDone = [⟨true, [.count]⟩] := by decide

/-- `atomic_reserve_safe` instantiated with the shapes of the current source -/
theorem tie_podevictor_safe (capNode capNs : Option Nat) (pods : List (Pod × Bool)) (sched : List Nat) :
    let s := run peRefuse ⟨capNode, capNs, none⟩ (initCS (toProg C16.podEvictorEvict) pods) sched
    (∀ n, n ≠ 0 → capLe capNode (issuedBy (·.node) s.issued n)) ∧ (∀ k, capLe capNs (issuedBy (·.ns) s.issued k)) ∧
      s.issued.length = s.ctr.total := by
  have h := atomic_reserve_safe_podevictor capNode capNs _ tie_podevictor_one_section pods sched
  exact ⟨fun n hn => (h.1 n hn).2, fun k => (h.2.1 k).2, h.2.2⟩

theorem tie_proxy_safe (caps : Caps) (pods : List (Pod × Bool)) (sched : List Nat) :
    let s := run elRefuse caps (initCS (toProg C16.proxyEvict) pods) sched
    (∀ n, n ≠ 0 → capLe caps.node (issuedBy (·.node) s.issued n)) ∧ (∀ k, capLe caps.ns (issuedBy (·.ns) s.issued k)) ∧
      capLe caps.total s.issued.length ∧ s.issued.length = s.ctr.total := by
  have h := atomic_reserve_safe_limiter caps _ tie_proxy_one_section pods sched
  exact ⟨fun n hn => (h.1 n hn).2, fun k => (h.2.1 k).2, h.2.2.2, h.2.2.1⟩

/-! ### arbitration facts (filter.go) -/

/-- meaning of the extracted skip condition of getUnavailablePods, given the values of IsPodActive / IsPodReady -/
def evalSkipLeaf (act rdy : Bool) (l : Bool × Nat) : Bool :=
  let v := if l.2 = 1 then act else if l.2 = 2 then rdy else false
  if l.1 then !v else v

def evalSkip (conj : Bool) (ls : List (Bool × Nat)) (act rdy : Bool) : Bool :=
  if conj then ls.all (evalSkipLeaf act rdy) else ls.any (evalSkipLeaf act rdy)

/-- getUnavailablePods: whatever the order / spelling of the `continue` condition in the source, it holds exactly when
    the pod is active AND ready … -/
theorem tie_unavailable_condition_sem :
    ∀ act rdy : Bool, evalSkip C16.arbUnavailSkipConj C16.arbUnavailSkip act rdy = (act && rdy) := by decide

/-- … which is the model's `podAvail` for every pod: a replica is unavailable iff it is not active or not ready -/
theorem tie_unavailable_condition (q : PodA) :
    evalSkip C16.arbUnavailSkipConj C16.arbUnavailSkip (podActive q) q.ready = podAvail q := by
  rw [tie_unavailable_condition_sem]; rfl

/-- initFilters: the retryable chain consists (in any order) of the four limit filters of `retryableChecks`, each dropped
    exactly when its gate (for the workload filter: both gates) is skipped — the model's `gateSkipped` tests -/
theorem tie_retryable_chain :
    (C16.arbRetryableChain.length == 4 &&
      [(5, [5]), (3, [3]), (4, [4])].all (fun e => C16.arbRetryableChain.contains e) &&
      C16.arbRetryableChain.any (fun e => e.1 == 12 && e.2.length == 2 && e.2.contains 1 && e.2.contains 2)) = true := by decide

/-- both pod filters start with `HaveEvictAnnotation(pod) ||`: the exemption that `exemptAdm` / `round_inv` state -/
theorem tie_annotation_bypass :
    C16.arbAnnBypassRetryable = true ∧ C16.arbAnnBypassNonRetryable = true := by decide

/-! ### the duplicate lookup (filter.go existingPodMigrationJob) and the cycle (descheduler.go deschedulerOnce) -/

/-- existingPodMigrationJob looks a pod up under BOTH job indexes (by pod UID and by namespace/name), and neither
    lookup is conditional on a UID (no `if pod.UID != "" {…} else {…}`): the second is at most a fall-back behind a
    found-flag — the two-step shape of the model's `hasJob`, which `existing_lookup_iff` shows to be "UID or name" -/
theorem tie_existing_lookup :
    (C16.arbExistingLookups.all (fun e => decide (e.2 ≤ 1)) && C16.arbExistingLookups.any (fun e => e.1 == 1) &&
      C16.arbExistingLookups.any (fun e => e.1 == 2)) = true := by decide

/-- deschedulerOnce resets the limiter exactly once, outside every loop and before the first profile loop, then runs
    the Deschedule phase, then the Balance phase: the model's `cycleShape` -/
theorem tie_cycle_shape : C16.cycleEvents = cycleShape := by decide

/-- EvictionLimiter.Reset rewrites the counters inside ONE acquisition of the limiter's lock (the model's `ctr := {}` is
    atomic w.r.t. AllowEvict / Done, which take the same lock: tie_limiter_sections) -/
theorem tie_limiter_reset_locked : toProg C16.limiterReset = [⟨true, [.count]⟩] := by decide

/-- `cycle_caps_hold` for the event sequence of the current source -/
theorem tie_cycle_safe (caps : Caps) (s0 : Ctr) (ph1 ph2 : List (Pod × Bool)) :
    let r := runCycleEvents (some caps) false C16.cycleEvents s0 ph1 ph2
    let iss := issuedOf (ph1 ++ ph2) r.2
    (∀ n, n ≠ 0 → capLe caps.node (issuedBy (·.node) iss n)) ∧ (∀ k, capLe caps.ns (issuedBy (·.ns) iss k)) ∧
      capLe caps.total iss.length ∧ iss.length = r.1.total := by
  rw [tie_cycle_shape]
  have h := cycle_caps_hold caps s0 ph1 ph2
  exact ⟨fun n hn => (h.1 n hn).2, fun k => (h.2.1 k).2, h.2.2.2, h.2.2.1⟩

/-! ### the events around the arbitrator (handler.go) and the way of the caps from the file to the limiter -/

/-- arbitrationHandler.Update drops the passed mark in exactly one place, guarded by `Phase == K1 || Phase == K2 …`, and the
    phases K are exactly those of the model's `terminalPhase` (Succeeded, Failed, Aborted): a job whose phase is "", Pending,
    Running or anything else keeps its mark (`passed_mark_kept_while_live`) -/
theorem tie_handler_update_phases :
    C16.handlerDropShape = true ∧ (∀ ph, terminalPhase ph = C16.handlerDropPhases.contains ph) := by
  refine ⟨by decide, fun ph => ?_⟩
  have h1 : ∀ ph < 7, terminalPhase ph = C16.handlerDropPhases.contains ph := by decide
  have h2 : ∀ x ∈ C16.handlerDropPhases, x < 7 := by decide
  by_cases h : ph < 7
  · exact h1 ph h
  · have a : terminalPhase ph = false := by
      simp only [terminalPhase, Bool.or_eq_false_iff, beq_eq_false_iff_ne, ne_eq]
      omega
    have b : C16.handlerDropPhases.contains ph = false := by
      cases hc : C16.handlerDropPhases.contains ph with
      | false => rfl
      | true => exact absurd (h2 ph (by simpa using hc)) h
    rw [a, b]

/-- Create only adds to the waiting collection, Delete only drops the mark, and DeletePodMigrationJob touches nothing but the
    filter's map: the model's `handle` -/
theorem tie_handler_create_delete :
    C16.handlerCreateAdds = true ∧ C16.handlerDeleteDrops = true ∧ C16.arbDeleteOnlyDropsMark = true := by decide

/-- Create returns before AddPodMigrationJob exactly for the phases of the model's `terminalPhase` (one guard
    `Phase == K1 || …` with a bare return, in any order; no other test of the phase): `finished_job_not_taken_in` -/
theorem tie_handler_create_skips_finished :
    C16.handlerCreateSkipShape = true ∧ (∀ ph, terminalPhase ph = C16.handlerCreateSkipPhases.contains ph) := by
  refine ⟨by decide, fun ph => ?_⟩
  have h1 : ∀ ph < 7, terminalPhase ph = C16.handlerCreateSkipPhases.contains ph := by decide
  have h2 : ∀ x ∈ C16.handlerCreateSkipPhases, x < 7 := by decide
  by_cases h : ph < 7
  · exact h1 ph h
  · have a : terminalPhase ph = false := by
      simp only [terminalPhase, Bool.or_eq_false_iff, beq_eq_false_iff_ne, ne_eq]
      omega
    have b : C16.handlerCreateSkipPhases.contains ph = false := by
      cases hc : C16.handlerCreateSkipPhases.contains ph with
      | false => rfl
      | true => exact absurd (h2 ph (by simpa using hc)) h
    rw [a, b]

/-- nothing in package arbitrator (filter, job iterator, sorts, handler, arbitrator) reads `spec.paused`: the model's jobs have no
    such field, so a paused job that is Running or has passed arbitration is counted by every limit check and by the duplicate
    rule exactly like an unpaused one (`round_inv`, `no_second_job_ref` apply to it unchanged), and its pause / resume Update
    event is an Update event with an unchanged phase (`handler_events_keep_live`) -/
theorem tie_arbitrator_ignores_paused : C16.arbPausedMentions = 0 := by decide

/-- no code of package v1alpha2 outside the generated deep-copy / conversion files names one of the three caps — in
    particular SetDefaults_DeschedulerConfiguration does not (the model's `defaultCap` is the identity) -/
theorem tie_defaults_leave_caps : C16.v1alpha2CapMentions = 0 := by decide

/-- the conversion to the internal type copies each cap pointer to the field of the same name (`convertCap` = identity) -/
theorem tie_conversion_copies_caps : C16.convCapAssigns = [(1, 1), (2, 2), (3, 3)] := by decide

/-- app.Setup hands the three fields of the completed configuration to NewEvictionLimiter in the order node, namespace,
    total, and nothing else in cmd/koord-descheduler/app names them (`configCaps`) -/
theorem tie_setup_limiter_args : C16.setupLimiterArgs = [1, 2, 3] ∧ C16.appCapMentions = 3 := by decide

/-- the arbitration limits of MigrationControllerArgs: no code of package v1alpha2 outside the generated files names
    MaxMigratingGlobally / PerNamespace / PerWorkload, MaxUnavailablePerWorkload, SkipEvictionGates or SkipCheckExpectedReplicas;
    MaxMigratingPerNode is named only by `if obj.MaxMigratingPerNode == nil { obj.MaxMigratingPerNode = &defaultMaxMigratingPerNode }`,
    whose constant is the model's; the generated conversion copies each of the seven fields to the field of the same name:
    the model's `defaultArbCfg` (`arb_limits_roundtrip_config`) -/
theorem tie_args_defaults_and_conversion :
    C16.argsLimitMentions = [0, 2, 0, 0, 0, 0, 0] ∧ C16.argsPerNodeDefaultShape = true ∧
    C16.argsDefaultMaxMigratingPerNode = defaultMaxMigratingPerNode ∧
    (C16.argsConvAssigns.all (fun e => e.1 == e.2) &&
      [1, 2, 3, 4, 5, 6, 7].all (fun c => C16.argsConvAssigns.any (fun e => e.1 == c))) = true := by decide

end KoordVerif.C16
