import KoordVerif.Model.C20
import KoordVerif.Model.C20Hist
import KoordVerif.Model.C20Race
import KoordVerif.Model.C20Wire
import KoordVerif.Generated.C20
/-
Tie lemmas for C20: the guard structure extracted from /repo's current source
(harness/extract/facts_c20.go, regenerated on every run) is the one the model mirrors.
-/
namespace KoordVerif.C20
open KoordVerif.Generated

theorem tie_extract_ok : C20.extractOK = true := by decide

/-- calculate*Merged: an absent key returns the built-in default (host applications: the empty config),
    a json.Unmarshal error returns the old merged config — `mergeSection`/`mergeHost` on `.absent` / `.bad`. -/
theorem tie_absent_default_bad_old :
    C20.mergedReturns = ["ResourceThresholdCfgMerged absent:default bad:old", "ResourceQOSCfgMerged absent:default bad:old",
      "CPUBurstCfgMerged absent:default bad:old", "SystemConfigMerged absent:default bad:old",
      "HostAppConfigMerged absent:empty bad:old"] := by decide

/-- get*Spec: an unparsable selector skips the entry, the first matching entry ends the loop — `selectNode`. -/
theorem tie_first_match_loops :
    C20.selectLeaves = ["ResourceThresholdSpec err:continue match:first", "ResourceQOSSpec err:continue match:first",
      "CPUBurstConfigSpec err:continue match:first", "SystemConfigSpec err:continue match:first",
      "HostApplicationConfig err:continue match:first"] := by decide

/-- util.MergeCfg(old, new): json.Marshal(new), json.Unmarshal(.., &old), return old — `overlay o n`. -/
theorem tie_mergecfg_direction : C20.mergeCfgShape = ["new", "old", "old"] := by decide

/-- syncConfig(nil) installs DefaultSLOCfg() — `sync d st none = Cfg.default d`. -/
theorem tie_deleted_configmap : C20.deletedInstallsDefault = true := by decide

/-! ### delivery path (Model/C20Hist.lean) -/

/-- Reconcile: the only Client.Update of the NodeSLO is guarded by `!reflect.DeepEqual(new, &stored.Spec)` on the WHOLE
    spec (new = the result of getNodeSLOSpec) and its body stores the new spec — `reconcileCore`'s `if new = old`. -/
theorem tie_reconcile_write_guard :
    C20.reconcileWriteGuard = ["!reflect.DeepEqual", "new", "&stored.Spec", "stores-new:true"] := by decide

/-- EnqueueRequestForConfigMap.Update: name filter, skip iff reflect.DeepEqual on the WHOLE Data maps of the new and the
    old object, then SyncCacheIfChanged, then EnqueueRequest — `hstep … (.cmUpdate i)`. -/
theorem tie_cm_update_routing :
    C20.cmUpdateShape = ["name", "skip-if reflect.DeepEqual(new.Data, old.Data)", "sync", "enqueue"] := by decide

/-- Create: type check, name filter, SyncCacheIfChanged, EnqueueRequest — `cmSync`; Delete has an empty body. -/
theorem tie_cm_create_delete_routing :
    C20.cmCreateShape = ["type", "name", "sync", "enqueue"] ∧ C20.cmDeleteStmts = 0 := by decide

/-- updateCacheIfChanged: the returned flag is `!reflect.DeepEqual(cache, new)`; `available` is set on every call —
    `syncIfChanged`. -/
theorem tie_cache_changed_flag :
    C20.cacheChangedExpr = "changed := !reflect.DeepEqual(cache, new)" ∧ C20.availableSetUnconditionally = true := by decide

/-- critical sections: the whole read–merge–write of the cache (syncConfig) runs under the write lock, and readers get a
    DeepCopy taken under the read lock — so `sync` is atomic w.r.t. `nodeSpec` and no reader aliases the cache. -/
theorem tie_cache_critical_sections :
    C20.syncLockShape = ["Lock", "defer Unlock", "return syncConfig"] ∧
    C20.cfgCopyLockShape = ["RLock", "defer RUnlock", "return cache.DeepCopy"] := by decide

/-- IsCfgAvailable takes the cache lock, and on first use reads the ConfigMap and runs syncConfig on it — `ensureAvail`.
    (In the pinned source the lock taken is the READ lock although syncConfig writes the cache; the model treats the
    check as atomic, which is what either lock kind is meant to give.) -/
theorem tie_first_use_sync :
    (C20.availLockKind = "RLock" ∨ C20.availLockKind = "Lock") ∧ C20.availSyncsOnFirstUse = true := by decide

/-- IsCfgAvailable's critical sections: either check–read–sync inside ONE section (the pinned source) or `available` is
    checked again under the lock that covers the sync — the two shapes for which `lazy_init_tracks_latest` holds; the
    split shape (check; unlock; read; lock; sync) is the one of `lazy_init_split_counterexample`. -/
theorem tie_lazy_init_sections : (shapeOf C20.availSections).map LazyShape.safe = some true := by decide

/-- every calculate*Merged decodes its section text with json.Unmarshal: the WHOLE text must be exactly one JSON value
    (`SecIn.bad` otherwise); a stream decoder (json.NewDecoder(..).Decode) would accept and apply a valid prefix. -/
theorem tie_section_decoders :
    C20.sectionDecoders = ["json.Unmarshal", "json.Unmarshal", "json.Unmarshal", "json.Unmarshal", "json.Unmarshal"] := by decide

/-- triggerAllNodeEnqueue adds one request per listed node, unfiltered — `cmSync` drains `w.nodes.map (·.1)`. -/
theorem tie_enqueue_all_nodes : C20.enqueueAllShape = "range Items: q.Add" := by decide

/-! ### wiring (Model/C20Wire.lean) and entry order -/

/-- SetupWithManager watches ConfigMaps and Nodes, hands the ConfigMap events to the very handler it installs as the
    reconciler's cache, and puts on those two watches (and on the whole controller: WithEventFilter) none of the
    controller-runtime predicates that look at metadata only - GenerationChangedPredicate (a ConfigMap's generation never
    changes: every Update would be dropped, `WatchPred.generationChanged`), AnnotationChanged, LabelChanged on the ConfigMap
    watch; Generation / AnnotationChanged on the Node watch.  Custom predicate functions are not judged here: the executed
    `wiring` harness runs them.  — `WatchPred.none` / `WatchPred.Sound`. -/
theorem tie_watch_registrations :
    "ConfigMap" ∈ C20.watchedKinds ∧ "Node" ∈ C20.watchedKinds ∧ C20.cmWatchHandlerIsCache = true ∧
    C20.cmWatchDroppingPredicates = [] ∧ C20.nodeWatchDroppingPredicates = [] := by decide

/-- nothing reachable inside the package from syncConfig / getNodeSLOSpec sorts or reverses a slice: the node entries
    reach the first-match loops in the order encoding/json parsed them (document order) — `mergeSection`'s `ns.map`. -/
theorem tie_entries_keep_document_order : C20.entryReorderCalls = [] := by decide

end KoordVerif.C20
