import KoordVerif.Model.C20
import KoordVerif.Generated.C20
/-
Tie lemmas for C20: the guard structure extracted from /repo's current source
(harness/extract/facts_c20.go, regenerated on every run) is the one the model mirrors.
-/
namespace KoordVerif.C20
open KoordVerif.Generated

theorem tie_extract_ok : C20.extractOK = true := by decide

/-- calculate*Merged: an absent key returns the built-in default (host applications: the empty config),
    a json.Unmarshal error returns the old merged config — `mergeSection`/`mergeHost` on `.absent` / `.bad`. -/
theorem tie_absent_default_bad_old :
    C20.mergedReturns = ["ResourceThresholdCfgMerged absent:default bad:old", "ResourceQOSCfgMerged absent:default bad:old",
      "CPUBurstCfgMerged absent:default bad:old", "SystemConfigMerged absent:default bad:old",
      "HostAppConfigMerged absent:empty bad:old"] := by decide

/-- get*Spec: an unparsable selector skips the entry, the first matching entry ends the loop — `selectNode`. -/
theorem tie_first_match_loops :
    C20.selectLeaves = ["ResourceThresholdSpec err:continue match:first", "ResourceQOSSpec err:continue match:first",
      "CPUBurstConfigSpec err:continue match:first", "SystemConfigSpec err:continue match:first",
      "HostApplicationConfig err:continue match:first"] := by decide

/-- util.MergeCfg(old, new): json.Marshal(new), json.Unmarshal(.., &old), return old — `overlay o n`. -/
theorem tie_mergecfg_direction : C20.mergeCfgShape = ["new", "old", "old"] := by decide

/-- syncConfig(nil) installs DefaultSLOCfg() — `sync d st none = Cfg.default d`. -/
theorem tie_deleted_configmap : C20.deletedInstallsDefault = true := by decide

end KoordVerif.C20
