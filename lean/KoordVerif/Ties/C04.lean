import KoordVerif.Model.C04
import KoordVerif.Proofs.C04ExtConc
import KoordVerif.Proofs.C04ExtWire
import KoordVerif.Proofs.C04ExtCreate
import KoordVerif.Proofs.C04ExtRsv
import KoordVerif.Generated.C04
/-
Tie lemmas for C04: facts regenerated from /repo's current source on every run.  They pin
(1) the plugin glue the in-package harness mirrors by hand (coscheduling.go): Permit releases the
    whole group through AllowGangGroup exactly on Success; Unreserve / PostBind / AfterPostFilter
    delegate to the PodGroupManager methods the harness calls;
(2) the shape of core.Permit the model copies: addAssumedPod before the loop over the gang group,
    one isGangValidForPermit per gang, and no lock of its own (so `permit_snapshot` is the honest
    statement under real interleavings);
(3) the informer wiring of NewPodGroupManager (the harness builds GangCache + PodGroupManager directly; the extractor
    sorts the `Key=method` pairs, the order in which the two literals are written does not matter);
(4) the guard of setChild's PendingChildren insertion (fix bbde960);
(5) the lock structure of the Gang methods the small-step model treats as ONE critical section each
    (one gang.lock.Lock/RLock, one deferred Unlock, no explicit Unlock, no child-set access before
    the Lock), and with it `setChild_atomic_safe` instantiated at the extracted number of sections;
(7) what the permit / rejection decisions read: isGangValidForPermit mentions exactly the fields the model's
    `validForPermit` uses (so WaitingGangIDs, BindingMemberPods and the representative pod, which the model
    leaves out, cannot influence a release), and Unreserve / AfterPostFilter / PostBind call the gang methods
    the model's `unreserve` / `postFilter` / `postBind` mirror, in that order;
(6) the test guarding the "gang is a group of its own" fallback on both initialisation paths
    (`len(groupSlice) == 0`, the model's `groupOrSelf`);
(8) what NewPodGroupManager REGISTERS on the pod and the PodGroup informer: the cache.ResourceEventHandlerFuncs literal
    itself (model: wiring 0 of `deliverDel` — nothing between the informer and onPodDelete / onPodGroupDelete that could
    drop an event shape they understand, e.g. a re-list tombstone), and with it the delivery theorem at the extracted
    wiring;
(9) the lock structure of GangCache.getGangFromCacheByGangId: one write Lock, no RLock, one deferred Unlock, no
    explicit Unlock, gangItems / NewGang not touched before the Lock, one lookup and one store of gangItems — get-or-create
    is ONE critical section (the `sections = 1` shape of Proofs/C04ExtCreate.lean), and `newGang_race_atomic_safe`
    instantiated at the extracted number of sections;
(10) which match policy and which mode are in force (model: getMatchPolicy / resolvePolicy / normStrict):
    GetGangMatchPolicy returns the annotation unless empty, else the alias annotation — no constant of its own;
    both initialisation paths fall back to args.DefaultMatchPolicy exactly for "" and for a value that is none of
    the three constants, and store the result; the mode falls back to GangModeStrict exactly for "" and for a value
    that is neither constant (exact `!=`, no case folding) and the stored value is what Unreserve / AfterPostFilter
    compare with `== GangModeStrict`; the five string constants; v1 defaulting replaces only a nil DefaultMatchPolicy.
    (Statement-level ties: a rename of the local variables `matchPolicy` / `mode` / `policy` breaks them without
    breaking the property — reported as no-failing-input-found.)
(11) reserve pods (model: `reservePodHasNode 0` — "already bound" = status.nodeName, never the requested node):
    onPodAddInternal calls addBoundPod under exactly one test, `pod.Spec.NodeName != ""` (no fall-back to the
    reservation-node annotation); reservationutil.NewReservePod clears the template's (requested) node name after copying
    it to the annotation and then sets spec.nodeName from GetReservationNodeName(r) = r.Status.NodeName only; and the
    Reservation informer gets the pod handler behind NewReservationToPodEventHandler (tie_handlers_registered_directly).
    (Statement-level like (10); NewReservePod lives outside the plugin, in pkg/util/reservation.)
-/
namespace KoordVerif.C04
open KoordVerif.Generated

theorem tie_extract_ok : C04.extractOK = true := by decide

theorem tie_plugin_permit :
    C04.pluginPermitFirstCall = "Permit" ∧
    C04.pluginPermitCases =
      [("PodGroupNotSpecified", []), ("PodGroupNotFound", []), ("Wait", []),
       ("Success", ["AllowGangGroup", "SucceedGangScheduling"])] := by decide

theorem tie_plugin_delegates :
    C04.pluginDelegates =
      [("Unreserve", ["Unreserve"]), ("PostBind", ["PostBind"]), ("AfterPostFilter", ["AfterPostFilter"])] := by
  decide

theorem tie_core_permit_shape :
    C04.corePermitCalls =
      ["GetGangByPod", "addAssumedPod", "getGangGroup", "getGangFromCacheByGangId", "isGangValidForPermit",
       "addWaitingGang"] ∧
    C04.corePermitAssumesBeforeLoop = true ∧ C04.corePermitOwnLocks = 0 := by decide

theorem tie_informer_wiring :
    C04.informerWiring =
      ["AddFunc=onPodAdd", "AddFunc=onPodGroupAdd", "DeleteFunc=onPodDelete", "DeleteFunc=onPodGroupDelete",
       "UpdateFunc=onPodGroupUpdate", "UpdateFunc=onPodUpdate"] := by decide

theorem tie_setChild_guard :
    C04.setChildPendingGuard = ["NodeName", "WaitingForBindChildren", "BoundChildren"] := by decide

theorem tie_gang_methods_one_section :
    C04.gangLockShape =
      [("setChild", 1, 1, 0, false), ("addAssumedPod", 1, 1, 0, false), ("delAssumedPod", 1, 1, 0, false),
       ("addBoundPod", 1, 1, 0, false), ("deletePod", 1, 1, 0, false), ("isGangValidForPermit", 1, 1, 0, false),
       ("GetGangSummary", 1, 1, 0, false)] := by decide

theorem tie_validForPermit_reads :
    C04.validForPermitReads =
      ["BoundChildren", "GangGroupInfo", "GangMatchPolicy", "GangMatchPolicyOnlyWaiting",
       "GangMatchPolicyWaitingAndRunning", "HasGangInit", "MinRequiredNumber", "WaitingForBindChildren",
       "isGangOnceResourceSatisfied"] := by decide

theorem tie_core_rollback_shape :
    C04.coreUnreserveCalls =
      ["IsPodNeedGang", "GetGangByPod", "delAssumedPod", "getGangMatchPolicy", "isGangOnceResourceSatisfied",
       "getGangMode", "rejectGangGroupById"] ∧
    C04.coreAfterPostFilterCalls =
      ["IsPodNeedGang", "GetGangByPod", "getGangMatchPolicy", "isGangOnceResourceSatisfied", "getGangMode",
       "clearWaitingGang", "rejectGangGroupById"] ∧
    C04.corePostBindCalls = ["IsPodNeedGang", "GetGangByPod", "addBoundPod"] := by decide

theorem tie_group_fallback_is_len_test :
    C04.groupFallbackTest = [("tryInitByPodConfig", "len==0"), ("tryInitByPodGroup", "len==0")] := by decide

theorem tie_setChild_sections : C04.setChildSections = 1 := by decide

/-- `setChild_atomic_safe` for the number of critical sections setChild has in the CURRENT source -/
theorem tie_setChild_atomic_safe (g : PodSets) (progs : List (List Call)) (sched : List Nat)
    (hg : g.Disj) (hc : (start C04.setChildSections g progs).contract sched = true) :
    ((start C04.setChildSections g progs).run sched).g.Disj := by
  have e : C04.setChildSections = 1 := by decide
  rw [e] at hc ⊢
  exact run_whole_disj _ sched (start_one_allWhole g progs) hg hc

/-- the model's wiring token of what the extractor saw registered on an informer -/
def wiringOf (kind : String) : Nat := if kind = "direct" then 0 else 1

/-- wiring of the informer `name` in the CURRENT source (1 = not the plain literal / not registered at all) -/
def registeredWiring (name : String) : Nat :=
  match C04.handlerRegistrations.find? (fun e => e.1 == name) with
  | some e => wiringOf e.2
  | none => 1

theorem tie_handlers_registered_directly :
    C04.handlerRegistrations =
      [("pgInformer", "direct"), ("podInformer", "direct"),
       ("reservationInformer", "call:NewReservationToPodEventHandler")] := by decide

/-- the delivery theorem at the wiring the CURRENT source has: a delete the informer hands over as the object or as a
    re-list tombstone reaches onPodDelete / onPodGroupDelete -/
theorem tie_delete_delivery (shape : Nat) (op : Op) (h : delUnderstood shape = true) :
    deliverDel (registeredWiring "podInformer") shape op = op ∧
    deliverDel (registeredWiring "pgInformer") shape op = op := by
  have e1 : registeredWiring "podInformer" = 0 := by decide
  have e2 : registeredWiring "pgInformer" = 0 := by decide
  rw [e1, e2]
  simp [deliverDel, handlerForwardsDel, h]

/-- onPodDelete / onPodGroupDelete understand exactly the two shapes `delUnderstood` says: the object, or a
    cache.DeletedFinalStateUnknown by value (not a pointer to one) around an object of the right type -/
theorem tie_delete_shapes :
    C04.deleteTypeAsserts =
      [("onPodDelete", ["*Pod", "DeletedFinalStateUnknown", "*Pod"]),
       ("onPodGroupDelete", ["*PodGroup", "DeletedFinalStateUnknown", "*PodGroup"])] := by decide

theorem tie_getGang_one_section :
    C04.getGangLockShape = (1, 0, 1, 0, false) ∧ C04.getGangMapAccess = (1, 1) ∧ C04.getGangSections = 1 := by decide

/-- the invariant of get-or-create for the number of critical sections getGangFromCacheByGangId has in the CURRENT
    source: every goroutine that holds a Gang for an id holds the cached one, under every schedule -/
theorem tie_getOrCreate_unique (progs : List (GangId × CAct)) (sched : List Nat) :
    ∀ t ∈ ((cStart progs).run C04.getGangSections sched).ts, 2 ≤ t.pc →
      cLookup ((cStart progs).run C04.getGangSections sched).cache t.gid = some t.obj := by
  have e : C04.getGangSections = 1 := by decide
  rw [e]
  exact (cinv_run _ sched (cinv_start progs)).holds

theorem tie_match_policy_getter :
    C04.matchPolicyGetter =
      ["policy:=obj.GetAnnotations()[AnnotationGangMatchPolicy]", "if policy!=\"\"", "return policy",
       "return obj.GetAnnotations()[AnnotationAliasGangMatchPolicy]"] := by decide

theorem tie_policy_resolution :
    C04.policyResolution.map (·.1) = ["tryInitByPodConfig", "tryInitByPodGroup"] ∧
    C04.policyResolution.map (fun e => e.2.drop 1) = List.replicate 2
      ["if matchPolicy==\"\"", "matchPolicy=args.DefaultMatchPolicy",
       "if matchPolicy!=extension.GangMatchPolicyOnlyWaiting", "&&matchPolicy!=extension.GangMatchPolicyWaitingAndRunning",
       "&&matchPolicy!=extension.GangMatchPolicyOnceSatisfied",
       "matchPolicy=args.DefaultMatchPolicy", "gang.GangMatchPolicy=matchPolicy"] ∧
    C04.policyResolution.map (fun e => e.2.take 1) =
      [["matchPolicy:=extension.GetGangMatchPolicy(pod)"], ["matchPolicy:=extension.GetGangMatchPolicy(pg)"]] := by
  decide

theorem tie_mode_resolution :
    C04.modeResolution.map (fun e => e.2.drop 1) = List.replicate 2
      ["if mode==\"\"", "mode=extension.GangModeStrict",
       "if mode!=extension.GangModeStrict", "&&mode!=extension.GangModeNonStrict", "mode=extension.GangModeStrict",
       "gang.Mode=mode"] ∧
    C04.modeResolution.map (fun e => e.2.take 1) =
      [["mode:=pod.Annotations[extension.AnnotationGangMode]"], ["mode:=pg.Annotations[extension.AnnotationGangMode]"]] := by
  decide

/-- the stored mode / policy strings are compared exactly, and only with these constants -/
theorem tie_mode_and_policy_tests :
    C04.modeAndPolicyTests =
      ["AfterPostFilter:gang.getGangMatchPolicy()==extension.GangMatchPolicyOnceSatisfied",
       "AfterPostFilter:gang.getGangMode()==extension.GangModeStrict",
       "BeforePreFilter:gang.getGangMatchPolicy()==extension.GangMatchPolicyOnceSatisfied",
       "PreEnqueue:gang.getGangMatchPolicy()==extension.GangMatchPolicyOnceSatisfied",
       "Unreserve:gang.getGangMatchPolicy()==extension.GangMatchPolicyOnceSatisfied",
       "Unreserve:gang.getGangMode()==extension.GangModeStrict"] := by decide

theorem tie_gang_string_consts :
    C04.gangStringConsts =
      [("GangModeStrict", "\"Strict\""), ("GangModeNonStrict", "\"NonStrict\""),
       ("GangMatchPolicyOnlyWaiting", "\"only-waiting\""), ("GangMatchPolicyWaitingAndRunning", "\"waiting-and-running\""),
       ("GangMatchPolicyOnceSatisfied", "\"once-satisfied\"")] := by decide

theorem tie_default_match_policy_defaulting :
    C04.defaultMatchPolicyDefaulting =
      (["if obj.DefaultMatchPolicy==nil", "obj.DefaultMatchPolicy=defaultGangMatchPolicy"],
       "ptr.To[string](extension.GangMatchPolicyOnceSatisfied)") := by decide

/-- "already bound" in onPodAddInternal is the reserve pod's spec.nodeName and nothing else -/
theorem tie_pod_add_bound_test : C04.podAddBoundTest = ["pod.Spec.NodeName!=\"\""] := by decide

/-- NewReservePod: the requested node goes to the annotation and is cleared; spec.nodeName = status.nodeName -/
theorem tie_reserve_pod_node_name :
    C04.reservePodNodeName =
      (["if len(reservePod.Spec.NodeName)>0",
        "reservePod.Annotations[AnnotationReservationNode]=reservePod.Spec.NodeName",
        "reservePod.Spec.NodeName=\"\"", "reservePod.Spec.NodeName=nodeName"],
       ["nodeName:=GetReservationNodeName(r)", "if len(nodeName)>0", "reservePod.Spec.NodeName=nodeName"]) ∧
    C04.reservationNodeNameGetter = ["return r.Status.NodeName"] := by decide

/-- the model's adapter at the rule the CURRENT source has (0 = spec.nodeName only; anything else = 1) -/
def boundRuleOf (conds : List String) : Nat := if conds = ["pod.Spec.NodeName!=\"\""] then 0 else 1

/-- ... under which an unscheduled Reservation, whatever node it requests, is not a binding event -/
theorem tie_unscheduled_reservation_not_binding (upd : Bool) (r : Rsv) (hr : r.sched = false) (p : Pod) (g : GangId)
    (anno : Option (Bool × Cfg)) : (deliverRsv (boundRuleOf C04.podAddBoundTest) upd r p g anno).binds? = none := by
  have h : boundRuleOf C04.podAddBoundTest = 0 := by decide
  rw [h]
  exact deliverRsv_unscheduled_binds_none upd r hr p g anno

end KoordVerif.C04
