import KoordVerif.Model.C04
import KoordVerif.Generated.C04
/-
Tie lemmas for C04: facts regenerated from /repo's current source on every run.  They pin
(1) the plugin glue the in-package harness mirrors by hand (coscheduling.go): Permit releases the
    whole group through AllowGangGroup exactly on Success; Unreserve / PostBind / AfterPostFilter
    delegate to the PodGroupManager methods the harness calls;
(2) the shape of core.Permit the model copies: addAssumedPod before the loop over the gang group,
    one isGangValidForPermit per gang, and no lock of its own (so `permit_snapshot` is the honest
    statement under real interleavings);
(3) the informer wiring of NewPodGroupManager (the harness builds GangCache + PodGroupManager directly);
(4) the guard of setChild's PendingChildren insertion (fix bbde960).
-/
namespace KoordVerif.C04
open KoordVerif.Generated

theorem tie_extract_ok : C04.extractOK = true := by decide

theorem tie_plugin_permit :
    C04.pluginPermitFirstCall = "Permit" ∧
    C04.pluginPermitCases =
      [("PodGroupNotSpecified", []), ("PodGroupNotFound", []), ("Wait", []),
       ("Success", ["AllowGangGroup", "SucceedGangScheduling"])] := by decide

theorem tie_plugin_delegates :
    C04.pluginDelegates =
      [("Unreserve", ["Unreserve"]), ("PostBind", ["PostBind"]), ("AfterPostFilter", ["AfterPostFilter"])] := by
  decide

theorem tie_core_permit_shape :
    C04.corePermitCalls =
      ["GetGangByPod", "addAssumedPod", "getGangGroup", "getGangFromCacheByGangId", "isGangValidForPermit",
       "addWaitingGang"] ∧
    C04.corePermitAssumesBeforeLoop = true ∧ C04.corePermitOwnLocks = 0 := by decide

theorem tie_informer_wiring :
    C04.informerWiring =
      ["AddFunc=onPodGroupAdd", "UpdateFunc=onPodGroupUpdate", "DeleteFunc=onPodGroupDelete",
       "AddFunc=onPodAdd", "UpdateFunc=onPodUpdate", "DeleteFunc=onPodDelete"] := by decide

theorem tie_setChild_guard :
    C04.setChildPendingGuard = ["NodeName", "WaitingForBindChildren", "BoundChildren"] := by decide

end KoordVerif.C04
