import KoordVerif.Model.C09
import KoordVerif.Model.C09Plugin
import KoordVerif.Model.C09Reconcile
import KoordVerif.Model.C09Strategy
import KoordVerif.Generated.C09
/-
Tie lemmas: the priority bands / default values the model's class resolution uses are those of
/repo's current source, and the `!hasMetric` branch of calculateOnNode / calculateOnNUMALevel still
charges a metric-less HP pod to BOTH the usage and the max(usage, request) accumulator
(the guard repaired by d5e8147; `chargeUsed`/`chargeMax` and `zChargeUsed`/`zChargeMax` model it).
-/
namespace KoordVerif.C09
open KoordVerif.Generated

theorem tie_extract_ok : C09.extractOK = true := by decide

theorem tie_prio_consts :
    stdPrio = { prodMin := C09.PriorityProdValueMin, prodMax := C09.PriorityProdValueMax,
                midMin := C09.PriorityMidValueMin, midMax := C09.PriorityMidValueMax,
                batchMin := C09.PriorityBatchValueMin, batchMax := C09.PriorityBatchValueMax,
                freeMin := C09.PriorityFreeValueMin, freeMax := C09.PriorityFreeValueMax,
                prodDef := C09.PriorityProdValueDefault, midDef := C09.PriorityMidValueDefault,
                batchDef := C09.PriorityBatchValueDefault, freeDef := C09.PriorityFreeValueDefault,
                noneDef := C09.PriorityNoneValueDefault } := by decide

theorem tie_no_metric_branch_node :
    "podsHPUsed" ∈ C09.noMetricAssigns_calculateOnNode ∧ "podsHPMaxUsedReq" ∈ C09.noMetricAssigns_calculateOnNode := by decide

theorem tie_no_metric_branch_zone :
    "podsHPZoneUsed" ∈ C09.noMetricAssigns_calculateOnNUMALevel ∧ "podsHPZoneMaxUsedReq" ∈ C09.noMetricAssigns_calculateOnNUMALevel := by decide

/-! extension: plugin glue -/

/-- getPercentFromStrategy falls back to sloconfig.DefaultColocationStrategy; `stdMidDefaults` are those values. -/
theorem tie_mid_defaults :
    stdMidDefaults = { cpuThr := C09.defaultMidCPUThresholdPercent, memThr := C09.defaultMidMemoryThresholdPercent,
                       cpuRes := C09.defaultMidStaticCPUReservedPercent, memRes := C09.defaultMidStaticMemoryReservedPercent,
                       unalloc := C09.defaultMidUnallocatedPercent } := by decide

/-- each plugin owns exactly the two resources `Pub` gives it (cpu first). -/
theorem tie_resource_names :
    C09.batchResourceNames = ["BatchCPU", "BatchMemory"] ∧ C09.midResourceNames = ["MidCPU", "MidMemory"] := by decide

/-- `isHP` skips exactly batch and free; `isProdForMid` skips exactly mid, batch and free. -/
theorem tie_low_priorities :
    C09.batchLowPriorities = ["PriorityBatch", "PriorityFree"] ∧
    C09.midLowPriorities = ["PriorityBatch", "PriorityFree", "PriorityMid"] ∧
    (∀ p : Prio, isHP p = !(p == .batch || p == .free)) ∧
    (∀ p : Prio, isProdForMid p = !(p == .mid || p == .batch || p == .free)) := by
  refine ⟨by decide, by decide, ?_, ?_⟩ <;> intro p <;> cases p <;> rfl

/-- strict comparisons: IsQuantityDiff `>`, isCommonNodeNeedSync `>`, degrade by `now.After(update + limit)` in both plugins
    (`DiffOps.diffGt`, `commonNeedSync`, `isDegradeNeeded` are strict in the same places). -/
theorem tie_strict_comparisons :
    C09.quantityDiffOp = ">" ∧ C09.commonNeedSyncOp = ">" ∧
    C09.batchDegradeTimeCmp = ["After"] ∧ C09.midDegradeTimeCmp = ["After"] := by decide

/-- PrepareNodeForResource removes the resource exactly when the quantity is nil or the item is Reset (`prepareRes`). -/
theorem tie_prepare_delete_cond : C09.prepareDeleteCond = "q==nil||Resets" := by decide

/-! extension 3: the NodeResource threaded through the reconcile (Model/C09Reconcile.lean) -/

/-- `reconcileNR` runs the prepare chain once for the need-sync check, once more before the status write and once more
    before the meta patch: each of the three functions has exactly one prepareNodeResource call site, and
    prepareNodeResource runs the chain once (`prepareCalls`). -/
theorem tie_prepare_call_sites :
    C09.prepareCallsIn_updateNodeResource = 1 ∧ C09.prepareCallsIn_updateNodeStatus = 1 ∧
    C09.prepareCallsIn_updateNodeMeta = 1 ∧ C09.prepareChainRunsPerCall = 1 ∧
    prepareCalls true true = C09.prepareCallsIn_updateNodeResource + C09.prepareCallsIn_updateNodeStatus + C09.prepareCallsIn_updateNodeMeta := by decide

/-- the status amounts reach the API server only through updateNodeStatus (`Status().Update`); updateNodeMeta patches the
    main resource, updateNodeResource itself writes nothing. -/
theorem tie_client_writes :
    C09.clientWritesIn_updateNodeResource = [] ∧ C09.clientWritesIn_updateNodeStatus = ["Status().Update"] ∧
    C09.clientWritesIn_updateNodeMeta = ["Patch"] := by decide

/-- PrepareNodeForResource assigns nothing through a pointer (`*q = …`) or into the NodeResource (`nr.… = …`): the only
    write that can reach the stored quantity is a method call on `q` (the `q.Set(q.Value())` rounding of `prepareStored`);
    in particular the amplified quantity is never stored. -/
theorem tie_prepare_no_write_through : C09.prepareWritesThroughNR = [] := by decide

/-- prepare order: cpunormalization (annotation), then midresource, then batchresource (`prepareAll`). -/
theorem tie_prepare_order :
    C09.nodePrepareOrder.filter (fun p => p == "cpunormalization" || p == "midresource" || p == "batchresource")
      = ["cpunormalization", "midresource", "batchresource"] := by decide

/-- IsCPUNormalizationRatioDifferent uses epsilon 0.01 (`ratioDiff`: more than 1 apart in percent units). -/
theorem tie_ratio_diff_epsilon : C09.ratioDiffEpsilon = "0.01" := by decide

/-- zone withdrawal (`preUpdateZones`): the early return of prepareForNodeResourceTopology is not taken when the batch
    items are Reset, and the reset branch of UpdateNRTZoneListIfNeeded writes the zeroed entry back (437c681). -/
theorem tie_zone_withdrawal : C09.nrtEarlyReturnChecksResets = true ∧ C09.zoneResetWritesBack = true := by decide

/-- (extension 4) every pointer field of configuration.ColocationStrategy is cloned by the generated DeepCopyInto, so the
    strategy `GetCfgCopy` / `GetNodeColocationStrategy` hand to a reconcile shares no cell with the config cache and the
    JSON merge of a node's override cannot write into the cluster strategy (Model/C09Strategy.lean treats the cache as a
    value; `reconcile_keeps_cache`).  A stale generated file (a field added without re-running deepcopy-gen) breaks this. -/
theorem tie_strategy_deepcopy_complete :
    C09.colocationStrategyDeepCopyClones = C09.colocationStrategyPointerFields ∧
    C09.colocationStrategyPointerFields.contains "BatchCPUThresholdPercent" = true ∧
    C09.colocationStrategyPointerFields.contains "BatchMemoryThresholdPercent" = true := by decide

/-- (extension 4) the integer defaults of `defaultV` -/
theorem tie_strategy_defaults :
    fld defaultV 1 = some C09.defaultCPUReclaimThresholdPercent ∧ fld defaultV 2 = some C09.defaultMemoryReclaimThresholdPercent ∧
    fld defaultV 5 = some C09.defaultDegradeTimeMinutes ∧ fld defaultV 6 = some C09.defaultUpdateTimeThresholdSeconds ∧
    fld defaultV 11 = some C09.defaultMidCPUThresholdPercent ∧ fld defaultV 12 = some C09.defaultMidMemoryThresholdPercent ∧
    fld defaultV 13 = some C09.defaultMidStaticCPUReservedPercent ∧ fld defaultV 14 = some C09.defaultMidStaticMemoryReservedPercent ∧
    fld defaultV 15 = some C09.defaultMidUnallocatedPercent := by decide

/-- (extension 4) the comparisons of IsColocationStrategyValid on the modelled fields are those of `validV`
    (>= 0: reclaim thresholds, mid static reserved, batch caps; > 0: degrade time, update interval, diff threshold;
    0..100: mid thresholds, mid unallocated); the only other checks concern the two unmodelled metric-interval fields. -/
theorem tie_strategy_valid_conds :
    C09.strategyValidConds =
      ["MetricAggregateDurationSeconds>0", "MetricReportIntervalSeconds>0", "CPUReclaimThresholdPercent>=0", "MidStaticCPUReservedPercent>=0", "MemoryReclaimThresholdPercent>=0",
       "MidStaticMemoryReservedPercent>=0", "DegradeTimeMinutes>0", "UpdateTimeThresholdSeconds>0", "ResourceDiffThreshold>0",
       "MidCPUThresholdPercent>=0", "MidCPUThresholdPercent<=100", "MidMemoryThresholdPercent>=0", "MidMemoryThresholdPercent<=100",
       "MidUnallocatedPercent>=0", "MidUnallocatedPercent<=100", "BatchCPUThresholdPercent>=0", "BatchMemoryThresholdPercent>=0"] := by
  decide

/-- (extension 8) the pod request the calculators charge comes from ONE helper, util.GetPodRequest, called once per pod in
    calculateOnNode, calculateOnNUMALevel and midresource getUnallocated, and that helper calls resourcehelper.PodRequests
    with the DEFAULT options: pod overhead is included (no ExcludeOverhead), pod-level resources and init containers are
    honoured.  The model takes the request as an input; the harness computes it from the declared pod
    (sum of containers + spec.overhead) without this helper. -/
theorem tie_pod_request_default_options :
    C09.getPodRequestCalls = ["PodRequests{}"] ∧
    C09.getPodRequestSitesNode = 1 ∧ C09.getPodRequestSitesNUMA = 1 ∧ C09.getPodRequestSitesMid = 1 := by decide

end KoordVerif.C09
