import KoordVerif.Model.C09
import KoordVerif.Generated.C09
/-
Tie lemmas: the priority bands / default values the model's class resolution uses are those of
/repo's current source, and the `!hasMetric` branch of calculateOnNode / calculateOnNUMALevel still
charges a metric-less HP pod to BOTH the usage and the max(usage, request) accumulator
(the guard repaired by d5e8147; `chargeUsed`/`chargeMax` and `zChargeUsed`/`zChargeMax` model it).
-/
namespace KoordVerif.C09
open KoordVerif.Generated

theorem tie_extract_ok : C09.extractOK = true := by decide

theorem tie_prio_consts :
    stdPrio = { prodMin := C09.PriorityProdValueMin, prodMax := C09.PriorityProdValueMax,
                midMin := C09.PriorityMidValueMin, midMax := C09.PriorityMidValueMax,
                batchMin := C09.PriorityBatchValueMin, batchMax := C09.PriorityBatchValueMax,
                freeMin := C09.PriorityFreeValueMin, freeMax := C09.PriorityFreeValueMax,
                prodDef := C09.PriorityProdValueDefault, midDef := C09.PriorityMidValueDefault,
                batchDef := C09.PriorityBatchValueDefault, freeDef := C09.PriorityFreeValueDefault,
                noneDef := C09.PriorityNoneValueDefault } := by decide

theorem tie_no_metric_branch_node :
    "podsHPUsed" ∈ C09.noMetricAssigns_calculateOnNode ∧ "podsHPMaxUsedReq" ∈ C09.noMetricAssigns_calculateOnNode := by decide

theorem tie_no_metric_branch_zone :
    "podsHPZoneUsed" ∈ C09.noMetricAssigns_calculateOnNUMALevel ∧ "podsHPZoneMaxUsedReq" ∈ C09.noMetricAssigns_calculateOnNUMALevel := by decide

end KoordVerif.C09
