import KoordVerif.Model.C10
import KoordVerif.Model.C10Exec
import KoordVerif.Generated.C10
/-
Tie lemmas: constants and one guard-order fact of /repo's current source (regenerated on every
run by harness/extract) equal what the model and the theorems use.
-/
namespace KoordVerif.C10
/-! generated names are written fully qualified: `C10.x` alone would resolve to the model's own `KoordVerif.C10.x`. -/

theorem tie_extract_ok : KoordVerif.Generated.C10.extractOK = true := by decide

theorem tie_consts :
    beMinCPUSetCores = KoordVerif.Generated.C10.beMinCPUSetCores ∧ beMinQuota = KoordVerif.Generated.C10.beMinQuota ∧
    beUnsetQuota = KoordVerif.Generated.C10.beUnsetQuota ∧ cfsPeriod = KoordVerif.Generated.C10.DefaultCPUCFSPeriod := by decide

/-- the step limit is 10 % (`FloatOps.stepCpus`, `stepGt`, `stepInc`), the bypass band 1 % (`bypassLt`). -/
theorem tie_float_literals :
    KoordVerif.Generated.C10.beMaxIncreaseCPUPercent = "0.1" ∧ KoordVerif.Generated.C10.suppressBypassQuotaDeltaRatio = "0.01" := by decide

/-- adjustByCPUSet returns on `len(lsrCpus)+len(lsCpus) == 0` before it divides by that sum
    (the model's `adjustCPUSet` tests the sum before `goDiv`; theorem `total_no_panic`). -/
theorem tie_zero_pool_guard : KoordVerif.Generated.C10.zeroPoolGuardBeforeDivision = true ∧ KoordVerif.Generated.C10.poolSizeDivisions = 1 := by decide

/-- which pods count (model: `poolOf` / `lseClaimed` look at `valid`, `qos`, `cpus` only — theorem `life_irrelevant`):
    the pod loops of adjustByCPUSet / calcBECPUSet leave an iteration only through the three annotation guards
    (+ the QoS guard in calcBECPUSet) and never read deletionTimestamp / phase. -/
theorem tie_pod_loops :
    KoordVerif.Generated.C10.adjustPodLoopExits = 3 ∧ KoordVerif.Generated.C10.adjustPodLoopReadsLifecycle = false ∧
    KoordVerif.Generated.C10.recoverPodLoopExits = 4 ∧ KoordVerif.Generated.C10.recoverPodLoopReadsLifecycle = false := by decide

/-- the budget uses NonBEPodFilter / NonBEHostAppFilter, whose bodies are the conjunction / disjunction the model's
    `PodU.counted` / `AppU.counted` mirror (theorem `app_counted_iff`). -/
theorem tie_budget_filters :
    KoordVerif.Generated.C10.budgetPodFilter = "helpers.NonBEPodFilter" ∧
    KoordVerif.Generated.C10.budgetHostAppFilter = "helpers.NonBEHostAppFilter" ∧
    KoordVerif.Generated.C10.hostAppFilterDisjuncts =
      ["hostAppSpec.CgroupPath.Base!=slov1alpha1.CgroupBaseTypeKubeBesteffort", "hostAppSpec.CgroupPath==nil", "hostAppSpec.QoS!=apiext.QoSBE"] ∧
    KoordVerif.Generated.C10.podFilterConjuncts =
      ["apiext.GetPodQoSClassRaw(pod)!=apiext.QoSBE", "util.GetKubeQosClass(pod)!=corev1.PodQOSBestEffort"] := by decide

/-- adjustByCfsQuota: the 1 % bypass and the 10 % step both require a currently set quota (model `adjustQuota`,
    theorems `quota_eq`, `quota_from_unset_written`; repair 4d853b2). -/
theorem tie_quota_unset_guards :
    KoordVerif.Generated.C10.quotaBypassExcludesUnset = true ∧ KoordVerif.Generated.C10.quotaStepExcludesUnset = true := by decide

/-- applyBESuppressCPUSet: under the static kubelet policy the recover path runs BEFORE the container-level write;
    any other policy writes every level (model `adjustFull`, theorem `static_levels`). -/
theorem tie_policy_dispatch :
    KoordVerif.Generated.C10.staticPolicyCalls = ["recoverCPUSetIfNeed", "applyCPUSetWithStaticPolicy"] ∧
    KoordVerif.Generated.C10.otherPolicyCalls = ["applyCPUSetWithNonePolicy"] := by decide

/-- suppressBECPU (model `roundStep`): quota mode = adjustByCfsQuota then hand the cpuset back; cpuset mode = adjustByCPUSet
    then unset the quota; disabled = recover both; the budget receives the NodeSLO's host applications, threshold and
    minimum percent (in this order). -/
theorem tie_round_dispatch :
    KoordVerif.Generated.C10.roundQuotaModeCalls = ["adjustByCfsQuota", "recoverCPUSetIfNeed"] ∧
    KoordVerif.Generated.C10.roundCpusetModeCalls = ["adjustByCPUSet", "recoverCFSQuotaIfNeed"] ∧
    KoordVerif.Generated.C10.roundDisabledCalls = ["recoverCFSQuotaIfNeed", "recoverCPUSetIfNeed"] ∧
    KoordVerif.Generated.C10.roundBudgetArgs =
      ["node", "nodeCPUUsage", "podMetrics", "podMetas", "nodeSLO.Spec.HostApplications", "hostAppMetrics",
       "*nodeSLO.Spec.ResourceUsedThresholdWithBE.CPUSuppressThresholdPercent",
       "nodeSLO.Spec.ResourceUsedThresholdWithBE.CPUSuppressMinPercent"] := by decide

/-- which writes go through the executor's cache (model `codeShape`, theorems `quota_round_writes_target_regardless_of_cache`,
    `quota_file_independent_of_cache`): the cpuset batch is cacheable, adjustByCfsQuota and its mirror recoverCFSQuotaIfNeed are
    BOTH direct (same cacheability), and nothing else in the package writes through the executor. -/
theorem tie_exec_shape :
    KoordVerif.Generated.C10.executorCalls =
      ["writeBECgroupsCPUSet:UpdateBatch(true)", "adjustByCfsQuota:Update(false)", "recoverCFSQuotaIfNeed:Update(false)"] ∧
    KoordVerif.Generated.C10.otherExecutorCalls = 0 ∧
    codeShape.cpusetCacheable = true ∧ codeShape.adjustQuotaCacheable = false ∧ codeShape.recoverQuotaCacheable = false := by decide

/-- updateByCache: update(), return on the ignored error, return on any other error, and only then the single cache Set; the
    direct update() never touches the cache (model `execWrite` with `codeShape.cacheOnIgnored = false`; theorems
    `ignored_error_leaves_cache`, `late_cgroup_file_gets_target`, `rounds_keep_cache_truthful`). -/
theorem tie_cache_set_after_write :
    KoordVerif.Generated.C10.cacheSetAfterSuccessfulWriteOnly = true ∧ KoordVerif.Generated.C10.cacheSetCallsInUpdateByCache = 1 ∧
    KoordVerif.Generated.C10.directUpdateTouchesCache = false ∧ codeShape.cacheOnIgnored = false := by decide

/-- Update / UpdateBatch send a cacheable call to updateByCache and any other to update; needUpdate is true without an entry,
    for another value and for an entry older than ResourceForceUpdateSeconds (60 by default; the harness ages entries by 61 s),
    false otherwise (model `needUpdate`, `XFile.age`). -/
theorem tie_exec_dispatch :
    KoordVerif.Generated.C10.executorUpdateDispatch = "updateByCache|update" ∧
    KoordVerif.Generated.C10.executorUpdateBatchDispatch = "updateByCache|update" ∧
    KoordVerif.Generated.C10.needUpdateRules = "noentry:true;othervalue:true;stale:true;else:false" ∧
    KoordVerif.Generated.C10.resourceForceUpdateSeconds = 60 := by decide

/-- the node-annotation sources (node reservation `reservedCPUs`, exclusive system-QoS cpuset): every place of the package that
    reads one of them handles its parse error WITHOUT leaving the function while another source is still to be read further
    down in that function, so an unreadable source never hides the other one
    (model `effReserved` / `effSysExcl`; theorems `unreadable_source_as_absent`, `wellformed_sources_protect`;
    `folded_early_return_counterexample` is the shape this excludes). -/
theorem tie_node_sources_independent :
    0 < KoordVerif.Generated.C10.nodeSourceErrorHandlers ∧ KoordVerif.Generated.C10.nodeSourceErrorHandlersLeaving = 0 := by decide

/-- the budget's node-reservation term: helpers.GetNodeResourceReserved passes node.Annotations to exactly one helper,
    util.GetNodeReservationFromAnnotation, and neither it nor GetNodeReservationResources mentions the annotation's ApplyPolicy
    (model `annoReservedP` ignores the policy; theorems `anno_policy_irrelevant`, `budget_reserves_annotation`;
    `policy_aware_reservation_counterexample` is the shape this excludes). -/
theorem tie_reservation_policy_blind :
    KoordVerif.Generated.C10.nodeReservedAnnoHelper = "util.GetNodeReservationFromAnnotation" ∧
    KoordVerif.Generated.C10.nodeReservedAnnoHelperCalls = 1 ∧
    KoordVerif.Generated.C10.annoReservationReadsApplyPolicy = false ∧
    (∀ p ∈ [0, 1, 2, 3, 4], annoReservedP p 2 100 4 = 4000) := by decide

end KoordVerif.C10
