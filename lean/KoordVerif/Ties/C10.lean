import KoordVerif.Model.C10
import KoordVerif.Generated.C10
/-
Tie lemmas: constants and one guard-order fact of /repo's current source (regenerated on every
run by harness/extract) equal what the model and the theorems use.
-/
namespace KoordVerif.C10
/-! generated names are written fully qualified: `C10.x` alone would resolve to the model's own `KoordVerif.C10.x`. -/

theorem tie_extract_ok : KoordVerif.Generated.C10.extractOK = true := by decide

theorem tie_consts :
    beMinCPUSetCores = KoordVerif.Generated.C10.beMinCPUSetCores ∧ beMinQuota = KoordVerif.Generated.C10.beMinQuota ∧
    beUnsetQuota = KoordVerif.Generated.C10.beUnsetQuota ∧ cfsPeriod = KoordVerif.Generated.C10.DefaultCPUCFSPeriod := by decide

/-- the step limit is 10 % (`FloatOps.stepCpus`, `stepGt`, `stepInc`), the bypass band 1 % (`bypassLt`). -/
theorem tie_float_literals :
    KoordVerif.Generated.C10.beMaxIncreaseCPUPercent = "0.1" ∧ KoordVerif.Generated.C10.suppressBypassQuotaDeltaRatio = "0.01" := by decide

/-- adjustByCPUSet returns on `len(lsrCpus)+len(lsCpus) == 0` before it divides by that sum
    (the model's `adjustCPUSet` tests the sum before `goDiv`; theorem `total_no_panic`). -/
theorem tie_zero_pool_guard : KoordVerif.Generated.C10.zeroPoolGuardBeforeDivision = true ∧ KoordVerif.Generated.C10.poolSizeDivisions = 1 := by decide

end KoordVerif.C10
