import KoordVerif.Proofs.C19ExtQuota2
/-
C19 (elasticquota part), helper lemmas 3: the live invariant, and the migration tick turns it into `Canon`.
-/
namespace KoordVerif.C19.Quota

theorem eq_of_map_nodup {α β : Type} {f : α → β} {l : List α} (h : (l.map f).Nodup) {a b : α}
    (ha : a ∈ l) (hb : b ∈ l) (hab : f a = f b) : a = b := by
  induction l with
  | nil => cases ha
  | cons x l ih =>
    simp only [List.map_cons, List.nodup_cons, List.mem_map, not_exists, not_and] at h
    rcases List.mem_cons.1 ha with rfl | ha' <;> rcases List.mem_cons.1 hb with rfl | hb'
    · rfl
    · exact absurd hab.symm (h.1 b hb')
    · exact absurd hab (h.1 a ha')
    · exact ih h.2 ha' hb'

theorem hasE_iff_view (s : St) (q pid : Nat) :
    hasE s q pid = true ↔ ∃ o, (q, pid, o) ∈ view s := by
  rw [hasE_view, List.any_eq_true]
  constructor
  · rintro ⟨⟨a, b, o⟩, hv, h⟩
    simp only [Bool.and_eq_true, beq_iff_eq] at h
    obtain ⟨rfl, rfl⟩ := h
    exact ⟨o, hv⟩
  · rintro ⟨o, hv⟩; exact ⟨_, hv, by simp⟩

theorem one_loc {s : St} (h : ((view s).map (·.2.1)).Nodup) {q q' pid : Nat}
    (h1 : hasE s q pid = true) (h2 : hasE s q' pid = true) : q = q' := by
  obtain ⟨o, ho⟩ := (hasE_iff_view s q pid).1 h1
  obtain ⟨o', ho'⟩ := (hasE_iff_view s q' pid).1 h2
  have := eq_of_map_nodup h ho ho' rfl
  exact (Prod.mk.inj this).1

theorem sumBy_ge_point {l : List PodObj} {o : PodObj} (ho : o ∈ l) (f : PodObj → Bool) (hf : f o = true)
    (hnn : ∀ x ∈ l, 0 ≤ x.req) : o.req ≤ sumBy l f := by
  induction l with
  | nil => cases ho
  | cons x l ih =>
    simp only [sumBy]
    have h0 := sumBy_nonneg f (fun y hy => hnn y (List.mem_cons_of_mem _ hy))
    rcases List.mem_cons.1 ho with rfl | ho'
    · rw [hf]; simp only [if_true]; omega
    · have := ih ho' (fun y hy => hnn y (List.mem_cons_of_mem _ hy))
      have := hnn x (by simp)
      split <;> omega

def agree (a o : PodObj) : Prop := a.label = o.label ∧ a.ns = o.ns ∧ a.req = o.req

theorem resolve_agree (s : St) {a o : PodObj} (h : agree a o) : resolve s a = resolve s o := by
  have : quotaNameOf s.store a = quotaNameOf s.store o := by unfold quotaNameOf; rw [h.1, h.2.1]
  unfold resolve; rw [this]

/-- **the live invariant** -/
structure LiveInv (s : St) (w : World) : Prop where
  kinv : KInv s
  su : storeUnique s.store = true
  nd : NodupIds w.alive
  nn : ∀ o ∈ w.alive, 0 ≤ o.req
  vnd : ((view s).map (·.2.1)).Nodup
  vobj : ∀ v ∈ view s, ∃ o ∈ w.alive, o.id = v.2.1 ∧ v.2.2.id = v.2.1 ∧
    (v.1 = resolve s o ∨ v.1 = dflt) ∧ agree v.2.2 o
  cov : ∀ o ∈ w.alive, ∃ q, hasE s q o.id = true
  asg : ∀ o ∈ w.alive, ∀ q, isAssigned s q o.id = (hasE s q o.id && (bound o || w.resvd.contains o.id))
  rnt : ∀ id, w.resvd.contains id = true → ∃ o ∈ w.alive, o.id = id ∧ o.term = false
  req : ∀ q, getC s.req q = sumBy w.alive (fun o => hasE s q o.id)
  used : ∀ q, getC s.used q = sumBy w.alive (fun o => isAssigned s q o.id)

/-- the cached object of an alive pod agrees with the last delivered one (same label, namespace, request) -/
theorem LiveInv.cached {s : St} {w : World} (h : LiveInv s w) {p : PodObj} (hp : p ∈ w.alive) {q : Nat}
    (hh : hasE s q p.id = true) : ∃ c, cachedObj s q p.id = some c ∧ c.id = p.id ∧ agree c p := by
  obtain ⟨e, he, h1, h2, h3⟩ := cachedObj_of_hasE s q p.id hh
  have hv : (e.q, e.pid, e.obj) ∈ view s := List.mem_map.2 ⟨e, he, rfl⟩
  obtain ⟨o, ho, a1, a2, _, a4⟩ := h.vobj _ hv
  have a1 : o.id = e.pid := a1
  have a2 : e.obj.id = e.pid := a2
  have : o = p := h.nd.eq_of_id ho hp (a1.trans h2)
  subst this
  exact ⟨e.obj, h3, a2.trans h2, a4⟩

theorem LiveInv.k1 {s : St} {w : World} (h : LiveInv s w) : s.known.contains dflt = true := h.kinv.k1

theorem LiveInv.loc {s : St} {w : World} (h : LiveInv s w) {q pid : Nat} (he : hasE s q pid = true) :
    ∃ o ∈ w.alive, o.id = pid ∧ (q = resolve s o ∨ q = dflt) := by
  obtain ⟨x, hx⟩ := (hasE_iff_view s q pid).1 he
  obtain ⟨o, ho, h1, _, h3, _⟩ := h.vobj _ hx
  exact ⟨o, ho, h1, h3⟩

theorem Canon_of_LiveInv {s : St} {w : World} (h : LiveInv s w)
    (hcov : ∀ o ∈ w.alive, hasE s (resolve s o) o.id = true) : Canon s w := by
  have hiff : ∀ o ∈ w.alive, ∀ q, hasE s q o.id = (resolve s o == q) := by
    intro o ho q
    rw [Bool.eq_iff_iff, beq_iff_eq]
    constructor
    · intro he; exact one_loc h.vnd (hcov o ho) he
    · rintro rfl; exact hcov o ho
  have hloc : ∀ q pid, hasE s q pid = true → ∃ o ∈ w.alive, o.id = pid ∧ resolve s o = q := by
    intro q pid he
    obtain ⟨o, ho, hid, _⟩ := h.loc he
    subst hid
    exact ⟨o, ho, rfl, one_loc h.vnd (hcov o ho) he⟩
  refine ⟨?_, ?_, ?_, ?_⟩
  · intro q pid
    rw [Bool.eq_iff_iff, List.any_eq_true]
    simp only [chargedTo, List.mem_filter, beq_iff_eq]
    constructor
    · intro he
      obtain ⟨o, ho, hid, hq⟩ := hloc q pid he
      exact ⟨o, ⟨ho, hq⟩, hid⟩
    · rintro ⟨o, ⟨ho, rfl⟩, rfl⟩; exact hcov o ho
  · intro q pid
    rw [Bool.eq_iff_iff, List.any_eq_true]
    simp only [chargedTo, List.mem_filter, beq_iff_eq, Bool.and_eq_true]
    constructor
    · intro ha
      obtain ⟨o, ho, hid, hq⟩ := hloc q pid (isAssigned_le_hasE _ _ _ ha)
      subst hid
      rw [h.asg o ho q, Bool.and_eq_true] at ha
      exact ⟨o, ⟨ho, hq⟩, rfl, ha.2⟩
    · rintro ⟨o, ⟨ho, rfl⟩, rfl, hb⟩
      rw [h.asg o ho, hcov o ho, hb]; rfl
  · intro q
    rw [chargedTo_sum, h.req]
    exact sumBy_congr (fun o ho => hiff o ho q)
  · intro q
    rw [chargedTo_sum_asg, h.used]
    apply sumBy_congr
    intro o ho
    show isAssigned s q o.id = (resolve s o == q && (bound o || w.resvd.contains o.id))
    rw [h.asg o ho q, hiff o ho q]

/-! ### MigratePod out of the default group -/

theorem mgrMigrate_eff (s : St) (p : PodObj) (n : Nat) (hn : n ≠ dflt)
    (hno : hasE s n p.id = false)
    (hr1 : 0 ≤ getC s.req dflt - p.req) (hr2 : 0 ≤ getC s.req n + p.req)
    (hu1 : isAssigned s dflt p.id = true → 0 ≤ getC s.used dflt - p.req) (hu2 : 0 ≤ getC s.used n + p.req) :
    view (mgrMigrate s p dflt n) = (n, p.id, p) :: (view s).filter (fun v => !(v.1 == dflt && v.2.1 == p.id)) ∧
    (∀ q pid, isAssigned (mgrMigrate s p dflt n) q pid =
      if q = n ∧ pid = p.id then isAssigned s dflt p.id else (isAssigned s q pid && !(q == dflt && pid == p.id))) ∧
    (∀ q, getC (mgrMigrate s p dflt n).req q =
      getC s.req q + (if q = n then p.req else 0) - (if q = dflt then p.req else 0)) ∧
    (∀ q, getC (mgrMigrate s p dflt n).used q = getC s.used q +
      (if isAssigned s dflt p.id = true then (if q = n then p.req else 0) - (if q = dflt then p.req else 0) else 0)) ∧
    (∀ q pid, hasE (mgrMigrate s p dflt n) q pid =
      ((hasE s q pid && !(q == dflt && pid == p.id)) || (q == n && pid == p.id))) ∧
    (mgrMigrate s p dflt n).known = s.known ∧ (mgrMigrate s p dflt n).store = s.store := by
  refine and_assoc.1 (and_assoc.1 (and_assoc.1 (and_assoc.1 ⟨?_, mgrMigrate_known _ _ _ _, mgrMigrate_store _ _ _ _⟩)))
  have hnd : (n == dflt) = false := by simp [hn]
  have hdn : ¬ dflt = n := fun h => hn h.symm
  cases ha : isAssigned s dflt p.id
  · have e : mgrMigrate s p dflt n =
        reqD (setAsg (addE (delE (reqD s dflt (-p.req)) dflt p.id) n p) n p.id false) n p.req := by
      unfold mgrMigrate; simp [ha, hasE_delE, hno]
    rw [e]
    have hx : hasE (delE (reqD s dflt (-p.req)) dflt p.id) n p.id = false := by simp [hasE_delE, hno]
    refine ⟨⟨⟨⟨?_, ?_⟩, ?_⟩, ?_⟩, ?_⟩
    rotate_right 1
    · intro q pid; simp [hasE_setAsg, hasE_addE, hasE_delE]
    · simp [view_addE, hx, view_delE]
    · intro q pid
      simp only [isAssigned_reqD, isAssigned_setAsg, isAssigned_addE, isAssigned_delE, Bool.false_and]
    · intro q
      have h1 : ∀ q', getC (reqD s dflt (-p.req)).req q' = getC s.req q' + if q' = dflt then -p.req else 0 :=
        fun q' => reqD_req s dflt q' (-p.req) (by omega)
      rw [reqD_req _ _ _ _ (by simp only [setAsg_req, addE_req, delE_req, h1, hn, if_false]; omega)]
      simp only [setAsg_req, addE_req, delE_req, h1]
      split <;> split <;> omega
    · intro q; simp
  · have hu1 := hu1 ha
    have e : mgrMigrate s p dflt n =
        usedD (reqD (setAsg (addE (delE (usedD (reqD s dflt (-p.req)) dflt (-p.req)) dflt p.id) n p) n p.id true)
          n p.req) n p.req := by
      unfold mgrMigrate; simp [ha, hasE_delE, hno]
    rw [e]
    have hx : hasE (delE (usedD (reqD s dflt (-p.req)) dflt (-p.req)) dflt p.id) n p.id = false := by
      simp [hasE_delE, hno]
    refine ⟨⟨⟨⟨?_, ?_⟩, ?_⟩, ?_⟩, ?_⟩
    rotate_right 1
    · intro q pid; simp [hasE_setAsg, hasE_addE, hasE_delE]
    · simp [view_addE, hx, view_delE]
    · intro q pid
      simp only [isAssigned_usedD, isAssigned_reqD, isAssigned_setAsg, isAssigned_addE, isAssigned_delE,
        hasE_addE, Bool.true_and]
      by_cases hc : q = n ∧ pid = p.id
      · simp [hc]
      · simp only [hc, if_false]
    · intro q
      have h1 : ∀ q', getC (reqD s dflt (-p.req)).req q' = getC s.req q' + if q' = dflt then -p.req else 0 :=
        fun q' => reqD_req s dflt q' (-p.req) (by omega)
      simp only [usedD_req]
      rw [reqD_req _ _ _ _ (by simp only [setAsg_req, addE_req, delE_req, usedD_req, h1, hn, if_false]; omega)]
      simp only [setAsg_req, addE_req, delE_req, usedD_req, h1]
      split <;> split <;> omega
    · intro q
      have h1 : ∀ q', getC (usedD (reqD s dflt (-p.req)) dflt (-p.req)).used q' =
          getC s.used q' + if q' = dflt then -p.req else 0 :=
        fun q' => by
          have := usedD_used (reqD s dflt (-p.req)) dflt q' (-p.req) (by rw [reqD_used]; omega)
          rwa [reqD_used] at this
      rw [usedD_used _ _ _ _ (by simp only [reqD_used, setAsg_used, addE_used, delE_used, h1, hn, if_false]; omega)]
      simp only [reqD_used, setAsg_used, addE_used, delE_used, h1, if_true]
      split <;> split <;> omega

theorem beq_false_of_ne {a b : Nat} (h : a ≠ b) : (a == b) = false := by simp [h]

/-- one pod parked in the default group is moved home -/
theorem LiveInv_migrate1 {s : St} {w : World} (h : LiveInv s w) {e : PodObj}
    (hv : (dflt, e.id, e) ∈ view s) (hn : resolve s e ≠ dflt) :
    LiveInv (mgrMigrate s e dflt (resolve s e)) w ∧
    view (mgrMigrate s e dflt (resolve s e)) =
      (resolve s e, e.id, e) :: (view s).filter (fun v => !(v.1 == dflt && v.2.1 == e.id)) ∧
    (mgrMigrate s e dflt (resolve s e)).known = s.known ∧ (mgrMigrate s e dflt (resolve s e)).store = s.store := by
  obtain ⟨o, ho, hid, _, _, hag⟩ := h.vobj _ hv
  have hag : agree e o := hag
  have hid : o.id = e.id := hid
  have hres : resolve s e = resolve s o := resolve_agree s hag
  have hreq : e.req = o.req := hag.2.2
  have hd : hasE s dflt e.id = true := (hasE_iff_view _ _ _).2 ⟨e, hv⟩
  have hE : ∀ q, hasE s q e.id = (q == dflt) := by
    intro q
    rw [Bool.eq_iff_iff, beq_iff_eq]
    exact ⟨fun hq => one_loc h.vnd hq hd, fun hq => hq ▸ hd⟩
  have hno : hasE s (resolve s e) e.id = false := by rw [hE]; exact beq_false_of_ne hn
  have hr1 : 0 ≤ getC s.req dflt - e.req := by
    rw [h.req, hreq]
    have := sumBy_ge_point ho (fun x => hasE s dflt x.id) (by simp only [hid]; exact hd) h.nn; omega
  have hr2 : 0 ≤ getC s.req (resolve s e) + e.req := by
    rw [h.req, hreq]; have := sumBy_nonneg (fun x => hasE s (resolve s e) x.id) h.nn; have := h.nn o ho; omega
  have hu1 : isAssigned s dflt e.id = true → 0 ≤ getC s.used dflt - e.req := by
    intro ha
    rw [h.used, hreq]
    have := sumBy_ge_point ho (fun x => isAssigned s dflt x.id) (by simp only [hid]; exact ha) h.nn; omega
  have hu2 : 0 ≤ getC s.used (resolve s e) + e.req := by
    rw [h.used, hreq]; have := sumBy_nonneg (fun x => isAssigned s (resolve s e) x.id) h.nn
    have := h.nn o ho; omega
  obtain ⟨ev, ea, er, eu, eh, ek, es⟩ := mgrMigrate_eff s e (resolve s e) hn hno hr1 hr2 hu1 hu2
  refine ⟨?_, ev, ek, es⟩
  have hrs : ∀ x, resolve (mgrMigrate s e dflt (resolve s e)) x = resolve s x := fun x => resolve_congr ek es x
  generalize hn' : resolve s e = n at *
  generalize mgrMigrate s e dflt n = s' at *
  clear hr1 hr2 hu1 hu2 hno hd
  generalize hpe : e.id = pid at *
  subst hid
  generalize hB : (bound o || w.resvd.contains o.id) = B
  have hA : ∀ q, isAssigned s q o.id = ((q == dflt) && B) := by
    intro q; rw [h.asg o ho q, hE, hB]
  have hnd : (n == dflt) = false := beq_false_of_ne hn
  have hdn : (dflt == n) = false := beq_false_of_ne (fun h => hn h.symm)
  refine ⟨KInv_same h.kinv ek es, by rw [es]; exact h.su, h.nd, h.nn, ?_, ?_, ?_, ?_, h.rnt, ?_, ?_⟩
  · -- vnd
    rw [ev, List.map_cons, List.nodup_cons]
    refine ⟨?_, List.Nodup.sublist (List.Sublist.map _ List.filter_sublist) h.vnd⟩
    intro hm
    obtain ⟨v, hvf, hvid⟩ := List.mem_map.1 hm
    obtain ⟨hvm, hvp⟩ := List.mem_filter.1 hvf
    have : v = (dflt, o.id, e) := eq_of_map_nodup h.vnd hvm hv hvid
    subst this
    simp at hvp
  · -- vobj
    intro v hvm
    rw [ev] at hvm
    rcases List.mem_cons.1 hvm with rfl | hvm
    · exact ⟨o, ho, rfl, hpe, Or.inl (by rw [hrs]; exact hres), hag⟩
    · obtain ⟨o', ho', h1, h2, h3, h4⟩ := h.vobj v (List.mem_filter.1 hvm).1
      exact ⟨o', ho', h1, h2, by rw [hrs]; exact h3, h4⟩
  · -- cov
    intro o' ho'
    by_cases hi : o'.id = o.id
    · exact ⟨n, by rw [eh, hi]; simp⟩
    · obtain ⟨q, hq⟩ := h.cov o' ho'
      exact ⟨q, by rw [eh, hq, beq_false_of_ne hi]; simp⟩
  · -- asg
    intro o' ho' q
    rw [ea, eh]
    by_cases hi : o'.id = o.id
    · have : o' = o := h.nd.eq_of_id ho' ho hi
      subst this
      simp only [hB, hA, hE]
      by_cases hq : q = n
      · subst hq; cases B <;> simp [hnd]
      · by_cases hq2 : q = dflt
        · subst hq2; cases B <;> simp [hq]
        · cases B <;> simp [hq, hq2]
    · have hi' : ¬ (q = n ∧ o'.id = o.id) := fun hc => hi hc.2
      rw [if_neg hi', beq_false_of_ne hi, h.asg o' ho' q]; simp
  · -- req
    intro q
    rw [er, h.req q]
    rw [sumBy_point' h.nd ho (fun x => hasE s' q x.id) (fun x => hasE s q x.id)
      (fun x _ hne => by
        show hasE s' q x.id = hasE s q x.id
        rw [eh, beq_false_of_ne hne]; simp) (q == n) (q == dflt)
      (by show hasE s' q o.id = (q == n)
          rw [eh, hE]; by_cases hq : q = dflt
          · subst hq; simp [hdn]
          · simp [beq_false_of_ne hq])
      (hE q)]
    rw [hreq]
    by_cases h1 : q = n <;> by_cases h2 : q = dflt <;> simp [h1, h2]
  · -- used
    intro q
    rw [eu, h.used q]
    rw [sumBy_point' h.nd ho (fun x => isAssigned s' q x.id) (fun x => isAssigned s q x.id)
      (fun x _ hne => by
        show isAssigned s' q x.id = isAssigned s q x.id
        rw [ea, if_neg (fun hc => hne hc.2), beq_false_of_ne hne]; simp) ((q == n) && B) ((q == dflt) && B)
      (by show isAssigned s' q o.id = ((q == n) && B)
          rw [ea]; simp only [hA]
          by_cases hq : q = n
          · subst hq; simp
          · by_cases hq2 : q = dflt
            · subst hq2; cases B <;> simp [hq]
            · cases B <;> simp [hq, hq2])
      (hA q)]
    rw [hreq, hA]
    by_cases h1 : q = n
    · have h2 : ¬ q = dflt := h1 ▸ hn
      cases B <;> simp [h1, hn]
    · have hdn' : ¬ dflt = n := fun h => hn h.symm
      by_cases h2 : q = dflt <;> cases B <;> simp [h1, h2, hdn'] <;> omega

def migStep (s : St) (e : Entry) : St :=
  let n := resolve s e.obj
  if n = dflt then s else mgrMigrate s e.obj dflt n

theorem migrate_fold {w : World} : ∀ (R : List Entry) (s : St), LiveInv s w →
    (∀ e ∈ R, (dflt, e.obj.id, e.obj) ∈ view s) → (R.map (·.obj.id)).Nodup →
    (∀ o ∈ w.alive, hasE s (resolve s o) o.id = true ∨ ∃ e ∈ R, e.obj.id = o.id) →
    LiveInv (R.foldl migStep s) w ∧
    (∀ o ∈ w.alive, hasE (R.foldl migStep s) (resolve (R.foldl migStep s) o) o.id = true) ∧
    (R.foldl migStep s).known = s.known ∧ (R.foldl migStep s).store = s.store := by
  intro R
  induction R with
  | nil =>
    intro s h _ _ hc
    refine ⟨h, fun o ho => ?_, rfl, rfl⟩
    rcases hc o ho with h1 | ⟨e, he, _⟩
    · exact h1
    · cases he
  | cons e R ih =>
    intro s h hv hnd hc
    simp only [List.map_cons, List.nodup_cons] at hnd
    simp only [List.foldl_cons]
    have hve := hv e (by simp)
    obtain ⟨o0, ho0, hid0, _, _, hag0⟩ := h.vobj _ hve
    have hag0 : agree e.obj o0 := hag0
    have hid0 : o0.id = e.obj.id := hid0
    by_cases hn : resolve s e.obj = dflt
    · have : migStep s e = s := by simp [migStep, hn]
      rw [this]
      refine ih s h (fun e' he' => hv e' (by simp [he'])) hnd.2 (fun o ho => ?_)
      rcases hc o ho with h1 | ⟨e', he', hid⟩
      · exact Or.inl h1
      · rcases List.mem_cons.1 he' with rfl | he'
        · have : o0 = o := h.nd.eq_of_id ho0 ho (hid0.trans hid)
          subst this
          left
          rw [← resolve_agree s hag0, hn, hid0]
          exact (hasE_iff_view _ _ _).2 ⟨_, hve⟩
        · exact Or.inr ⟨e', he', hid⟩
    · have : migStep s e = mgrMigrate s e.obj dflt (resolve s e.obj) := by simp [migStep, hn]
      rw [this]
      obtain ⟨h1, ev, ek, es⟩ := LiveInv_migrate1 h hve hn
      have hrs : ∀ x, resolve (mgrMigrate s e.obj dflt (resolve s e.obj)) x = resolve s x :=
        fun x => resolve_congr ek es x
      have hkeep : ∀ v ∈ view s, v.2.1 ≠ e.obj.id → v ∈ view (mgrMigrate s e.obj dflt (resolve s e.obj)) := by
        intro v hvm hne
        rw [ev]
        refine List.mem_cons_of_mem _ (List.mem_filter.2 ⟨hvm, ?_⟩)
        simp [hne]
      obtain ⟨r1, r2, r3, r4⟩ := ih _ h1
        (fun e' he' => hkeep _ (hv e' (by simp [he'])) (fun hc' => hnd.1 (List.mem_map.2 ⟨e', he', hc'⟩)))
        hnd.2 (fun o ho => by
          by_cases hi : o.id = e.obj.id
          · have : o0 = o := h.nd.eq_of_id ho0 ho (hid0.trans hi.symm)
            subst this
            left
            rw [hrs, ← resolve_agree s hag0, hid0]
            exact (hasE_iff_view _ _ _).2 ⟨e.obj, by rw [ev]; simp⟩
          · rcases hc o ho with h2 | ⟨e', he', hid⟩
            · left
              rw [hrs]
              obtain ⟨x, hx⟩ := (hasE_iff_view _ _ _).1 h2
              exact (hasE_iff_view _ _ _).2 ⟨x, hkeep _ hx hi⟩
            · rcases List.mem_cons.1 he' with rfl | he'
              · exact absurd hid.symm hi
              · exact Or.inr ⟨e', he', hid⟩)
      exact ⟨r1, r2, r3.trans ek, r4.trans es⟩

theorem view_pids (s : St) : (view s).map (·.2.1) = s.cache.map (·.pid) := by
  simp [view, List.map_map]

/-- **step 2**: the migration tick turns the live invariant into the canonical ledger -/
theorem LiveInv_migrateAll {s : St} {w : World} (h : LiveInv s w) :
    LiveInv (migrateAll s) w ∧ Canon (migrateAll s) w ∧
    (migrateAll s).known = s.known ∧ (migrateAll s).store = s.store := by
  have hmem : ∀ e ∈ s.cache.filter (fun e => e.q == dflt), (dflt, e.obj.id, e.obj) ∈ view s ∧ e.obj.id = e.pid := by
    intro e he
    obtain ⟨he1, he2⟩ := List.mem_filter.1 he
    have hq : e.q = dflt := by simpa using he2
    have hv : (e.q, e.pid, e.obj) ∈ view s := List.mem_map.2 ⟨e, he1, rfl⟩
    obtain ⟨_, _, _, h2, _, _⟩ := h.vobj _ hv
    have h2 : e.obj.id = e.pid := h2
    rw [hq] at hv; rw [h2]; exact ⟨hv, rfl⟩
  have hnd : ((s.cache.filter (fun e => e.q == dflt)).map (·.obj.id)).Nodup := by
    have : (s.cache.filter (fun e => e.q == dflt)).map (·.obj.id) =
        (s.cache.filter (fun e => e.q == dflt)).map (·.pid) :=
      List.map_congr_left (fun e he => (hmem e he).2)
    rw [this]
    have hv := h.vnd
    rw [view_pids] at hv
    exact List.Nodup.sublist (List.Sublist.map _ List.filter_sublist) hv
  have hc : ∀ o ∈ w.alive, hasE s (resolve s o) o.id = true ∨
      ∃ e ∈ s.cache.filter (fun e => e.q == dflt), e.obj.id = o.id := by
    intro o ho
    obtain ⟨q, hq⟩ := h.cov o ho
    obtain ⟨o', ho', hid, hl⟩ := h.loc hq
    have : o' = o := h.nd.eq_of_id ho' ho hid
    subst this
    rcases hl with rfl | rfl
    · exact Or.inl hq
    · right
      rw [hasE, List.any_eq_true] at hq
      obtain ⟨e, he, hq⟩ := hq
      simp only [Bool.and_eq_true, beq_iff_eq] at hq
      have hm : e ∈ s.cache.filter (fun e => e.q == dflt) := List.mem_filter.2 ⟨he, by simp [hq.1]⟩
      exact ⟨e, hm, by rw [(hmem e hm).2, hq.2]⟩
  have key := migrate_fold _ s h (fun e he => (hmem e he).1) hnd hc
  have e0 : migrateAll s = (s.cache.filter (fun e => e.q == dflt)).foldl migStep s := rfl
  rw [e0]
  exact ⟨key.1, Canon_of_LiveInv key.1 key.2.1, key.2.2⟩

end KoordVerif.C19.Quota
