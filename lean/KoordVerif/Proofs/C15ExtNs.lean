import KoordVerif.Proofs.C15ExtEdge
/- C15 (extension): the namespace map is exactly the namespace annotations of the recorded quotas
   (hence: a namespace is bound to at most one quota, and the map only names live quotas);
   and the children-map clause for EVERY accepted request, root-named creates included. -/
namespace KoordVerif.C15

/-! ### association-list lookups -/

theorem nsGet_nil (x : Nat) : nsGet [] x = none := rfl

theorem nsGet_cons (e : Nat × Nat) (m : List (Nat × Nat)) (x : Nat) :
    nsGet (e :: m) x = if e.1 = x then some e.2 else nsGet m x := by
  unfold nsGet
  by_cases h : e.1 = x
  · simp [h]
  · simp [h]

theorem nsGet_nsDel (m : List (Nat × Nat)) (n x : Nat) :
    nsGet (nsDel m n) x = if x = n then none else nsGet m x := by
  induction m with
  | nil => simp [nsDel, nsGet_nil]
  | cons e m ih =>
    unfold nsDel at ih ⊢
    by_cases he : e.1 = n
    · have : (e.1 != n) = false := by simp [he]
      rw [List.filter_cons, this]
      simp only [Bool.false_eq_true, if_false]
      rw [ih, nsGet_cons]
      by_cases hx : x = n
      · simp [hx]
      · have : e.1 ≠ x := fun h => hx (h.symm.trans he)
        simp [hx, this]
    · have : (e.1 != n) = true := by simp [he]
      rw [List.filter_cons, this]
      simp only [if_true]
      rw [nsGet_cons, nsGet_cons, ih]
      by_cases hx : x = n
      · subst hx; simp [he]
      · simp [hx]

theorem nsGet_nsSet (m : List (Nat × Nat)) (n q x : Nat) :
    nsGet (nsSet m n q) x = if x = n then some q else nsGet m x := by
  unfold nsSet
  rw [nsGet_cons, nsGet_nsDel]
  by_cases hx : x = n
  · simp [hx]
  · have : n ≠ x := fun h => hx h.symm
    simp [hx, this]

theorem nsGet_nsDelAll (l : List Nat) : ∀ (m : List (Nat × Nat)) (x : Nat),
    nsGet (nsDelAll m l) x = if x ∈ l then none else nsGet m x := by
  induction l with
  | nil => intro m x; simp [nsDelAll]
  | cons n l ih =>
    intro m x
    have : nsDelAll m (n :: l) = nsDelAll (nsDel m n) l := rfl
    rw [this, ih, nsGet_nsDel]
    by_cases h1 : x ∈ l
    · simp [h1]
    · by_cases h2 : x = n
      · simp [h2]
      · simp [h1, h2]

theorem nsGet_nsSetAll (q : Nat) (l : List Nat) : ∀ (m : List (Nat × Nat)) (x : Nat),
    nsGet (nsSetAll m l q) x = if x ∈ l then some q else nsGet m x := by
  induction l with
  | nil => intro m x; simp [nsSetAll]
  | cons n l ih =>
    intro m x
    have : nsSetAll m (n :: l) q = nsSetAll (nsSet m n q) l q := rfl
    rw [this, ih, nsGet_nsSet]
    by_cases h1 : x ∈ l
    · simp [h1]
    · by_cases h2 : x = n
      · simp [h2]
      · simp [h1, h2]

/-! ### the invariant -/

/-- `namespaceToQuotaMap[n] = qn` exactly when the recorded quota `qn` declares `n`. -/
def NsOK (s : Topo) : Prop :=
  ∀ n qn, nsGet s.nsMap n = some qn ↔ ∃ q ∈ s.info, q.name = qn ∧ n ∈ q.ns

theorem ns_init : NsOK init := by
  intro n qn; simp [init, nsGet_nil]

theorem ns_add {d : Nat} {s : Topo} {q : QI} {sw : Bool} (hN : NsOK s)
    (h : (validAdd d s q sw).2 = true) : NsOK (addState s q) := by
  obtain ⟨_, hfree, _, _, _⟩ := validAdd_true h
  have hfree : ∀ n ∈ q.ns, nsGet s.nsMap n = none := by
    intro n hn
    have := List.any_eq_false.mp hfree n hn
    simpa using this
  intro x qn
  simp only [addState, nsGet_nsSetAll, List.mem_cons]
  by_cases hx : x ∈ q.ns
  · simp only [hx, if_true, Option.some.injEq]
    constructor
    · intro e; exact ⟨q, Or.inl rfl, e, hx⟩
    · rintro ⟨c, hc | hc, hcn, hxc⟩
      · subst hc; exact hcn
      · have := (hN x c.name).mpr ⟨c, hc, rfl, hxc⟩
        rw [hfree x hx] at this; cases this
  · simp only [hx, if_false]
    rw [hN x qn]
    constructor
    · rintro ⟨c, hc, hcn, hxc⟩; exact ⟨c, Or.inr hc, hcn, hxc⟩
    · rintro ⟨c, hc | hc, hcn, hxc⟩
      · subst hc; exact absurd hxc hx
      · exact ⟨c, hc, hcn, hxc⟩

theorem nsFree_true {s : Topo} {q : QI} (h : nsFree s q = true) :
    ∀ n ∈ q.ns, ∀ o, nsGet s.nsMap n = some o → o = q.name := by
  intro n hn o ho
  unfold nsFree at h
  simp only [Bool.not_eq_true', List.any_eq_false] at h
  have := h n hn
  simp only [ho] at this
  simpa using this

theorem ns_upd {s : Topo} {o q : QI} (hu : Uniq s.info) (hN : NsOK s) (ho : o ∈ s.info) (hon : o.name = q.name)
    (hfree : nsFree s q = true) : NsOK (updState s o q) := by
  have hfree := nsFree_true hfree
  intro x qn
  simp only [updState, nsGet_nsSetAll, nsGet_nsDelAll]
  by_cases hx : x ∈ q.ns
  · simp only [hx, if_true, Option.some.injEq]
    constructor
    · intro e; exact ⟨q, mem_replace_self ho hon, e, hx⟩
    · rintro ⟨c, hc, hcn, hxc⟩
      rcases mem_replace hc with ⟨hcq, _⟩ | ⟨hc', hcne⟩
      · subst hcq; exact hcn
      · have := (hN x c.name).mpr ⟨c, hc', rfl, hxc⟩
        exact absurd (hfree x hx _ this) hcne
  · simp only [hx, if_false]
    by_cases hxo : x ∈ o.ns
    · simp only [hxo, if_true]
      constructor
      · intro e; cases e
      · rintro ⟨c, hc, hcn, hxc⟩
        exfalso
        rcases mem_replace hc with ⟨hcq, _⟩ | ⟨hc', hcne⟩
        · subst hcq; exact hx hxc
        · have h1 := (hN x c.name).mpr ⟨c, hc', rfl, hxc⟩
          have h2 := (hN x o.name).mpr ⟨o, ho, rfl, hxo⟩
          rw [h1] at h2
          exact hcne ((Option.some.inj h2).trans hon)
    · simp only [hxo, if_false]
      rw [hN x qn]
      constructor
      · rintro ⟨c, hc, hcn, hxc⟩
        have hcne : c.name ≠ q.name := by
          intro e
          have : c = o := hu c hc o ho (e.trans hon.symm)
          exact hxo (this ▸ hxc)
        exact ⟨c, mem_replace_of_ne hc hcne, hcn, hxc⟩
      · rintro ⟨c, hc, hcn, hxc⟩
        rcases mem_replace hc with ⟨hcq, _⟩ | ⟨hc', _⟩
        · subst hcq; exact absurd hxc hx
        · exact ⟨c, hc', hcn, hxc⟩

theorem ns_del {s : Topo} {o : QI} {name : Nat} (hu : Uniq s.info) (hN : NsOK s) (ho : o ∈ s.info)
    (hon : o.name = name) : NsOK (delState s o name) := by
  intro x qn
  simp only [delState, nsGet_nsDelAll, List.mem_filter, bne_iff_ne, ne_eq]
  by_cases hxo : x ∈ o.ns
  · simp only [hxo, if_true]
    constructor
    · intro e; cases e
    · rintro ⟨c, ⟨hc, hcne⟩, hcn, hxc⟩
      exfalso
      have h1 := (hN x c.name).mpr ⟨c, hc, rfl, hxc⟩
      have h2 := (hN x o.name).mpr ⟨o, ho, rfl, hxo⟩
      rw [h1] at h2
      exact hcne ((Option.some.inj h2).trans hon)
  · simp only [hxo, if_false]
    rw [hN x qn]
    constructor
    · rintro ⟨c, hc, hcn, hxc⟩
      refine ⟨c, ⟨hc, ?_⟩, hcn, hxc⟩
      intro e
      have : c = o := hu c hc o ho (e.trans hon.symm)
      exact hxo (this ▸ hxc)
    · rintro ⟨c, ⟨hc, _⟩, hcn, hxc⟩
      exact ⟨c, hc, hcn, hxc⟩

/-! ### reading -/

/-- a namespace is declared by at most one recorded quota. -/
theorem ns_at_most_one {s : Topo} (hN : NsOK s) {a b : QI} (ha : a ∈ s.info) (hb : b ∈ s.info) {n : Nat}
    (hna : n ∈ a.ns) (hnb : n ∈ b.ns) : a.name = b.name := by
  have h1 := (hN n a.name).mpr ⟨a, ha, rfl, hna⟩
  have h2 := (hN n b.name).mpr ⟨b, hb, rfl, hnb⟩
  rw [h1] at h2
  exact Option.some.inj h2

/-- the namespace map only names live quotas. -/
theorem ns_live {s : Topo} (hN : NsOK s) {n qn : Nat} (h : nsGet s.nsMap n = some qn) :
    ∃ q ∈ s.info, q.name = qn := by
  obtain ⟨q, hq, hqn, _⟩ := (hN n qn).mp h
  exact ⟨q, hq, hqn⟩

/-! ### children map = inverse of the parent links, for every accepted request
    (no `NotRootAdd`: holds for the root-named create as well, since the repair f812ecb) -/

structure KidsMap (s : Topo) : Prop where
  nodup  : (s.info.map (·.name)).Nodup
  kidsOK : ∀ p c, (p, c) ∈ s.kids ↔ ∃ q ∈ s.info, q.name = c ∧ q.parent = p

theorem Forest.kidsMap {s : Topo} (hF : Forest s) : KidsMap s := ⟨hF.nodup, hF.kidsOK⟩

theorem kidsmap_init : KidsMap init := ⟨by simp [init], by simp [init]⟩

theorem kidsmap_add {d : Nat} {s : Topo} {q : QI} {sw : Bool} (hK : KidsMap s)
    (h : (validAdd d s q sw).2 = true) : KidsMap (validAdd d s q sw).1 := by
  obtain ⟨hfresh, _, _, _, hst⟩ := validAdd_true h
  rw [hst]
  have hfresh := find_isSome_false hfresh
  refine ⟨?_, ?_⟩
  · simp only [addState, List.map_cons, List.nodup_cons]
    refine ⟨?_, hK.nodup⟩
    intro hm
    obtain ⟨c, hc, hcn⟩ := List.mem_map.mp hm
    exact hfresh c hc hcn
  · intro p c
    simp only [addState, List.mem_cons, Prod.mk.injEq]
    constructor
    · rintro (⟨rfl, rfl⟩ | hk)
      · exact ⟨q, Or.inl rfl, rfl, rfl⟩
      · obtain ⟨c', hc', h1, h2⟩ := (hK.kidsOK p c).mp hk
        exact ⟨c', Or.inr hc', h1, h2⟩
    · rintro ⟨c', (rfl | hc'), h1, h2⟩
      · exact Or.inl ⟨h2.symm, h1.symm⟩
      · exact Or.inr ((hK.kidsOK p c).mpr ⟨c', hc', h1, h2⟩)

theorem kidsmap_upd {d : Nat} {s : Topo} {q : QI} {sw hp : Bool} (hK : KidsMap s)
    (h : (validUpdate d s q sw hp).2 = true) : KidsMap (validUpdate d s q sw hp).1 := by
  rcases validUpdate_true h with hst | ⟨o, hfo, _, _, _, _, hst⟩
  · rw [hst]; exact hK
  rw [hst]
  have hu := uniq_of_nodup hK.nodup
  obtain ⟨ho, hon⟩ := find_some hfo
  refine ⟨?_, ?_⟩
  · simp only [updState]; rw [replace_names]; exact hK.nodup
  · intro p c
    have hbase := hK.kidsOK p c
    simp only [updState]
    by_cases hpp : o.parent = q.parent
    · simp only [hpp, bne_self_eq_false, Bool.false_eq_true, if_false]
      rw [hbase]
      constructor
      · rintro ⟨c', hc', h1, h2⟩
        by_cases hcn : c'.name = q.name
        · have : c' = o := hu c' hc' o ho (hcn.trans hon.symm)
          exact ⟨q, mem_replace_self ho hon, by rw [← h1, hcn], by rw [← h2, this, hpp]⟩
        · exact ⟨c', mem_replace_of_ne hc' hcn, h1, h2⟩
      · rintro ⟨c', hc', h1, h2⟩
        rcases mem_replace hc' with ⟨hcq, _⟩ | ⟨hc'', _⟩
        · subst hcq; exact ⟨o, ho, hon.trans h1, hpp.trans h2⟩
        · exact ⟨c', hc'', h1, h2⟩
    · have hb : (o.parent != q.parent) = true := by simpa using hpp
      simp only [hb, if_true, List.mem_cons, List.mem_filter, Prod.mk.injEq, bne_iff_ne, ne_eq]
      constructor
      · rintro (⟨rfl, rfl⟩ | ⟨hk, hne⟩)
        · exact ⟨q, mem_replace_self ho hon, rfl, rfl⟩
        · obtain ⟨c', hc', h1, h2⟩ := hbase.mp hk
          have hcn : c'.name ≠ q.name := by
            intro e
            have : c' = o := hu c' hc' o ho (e.trans hon.symm)
            apply hne; subst this; exact ⟨h2.symm, h1.symm.trans e⟩
          exact ⟨c', mem_replace_of_ne hc' hcn, h1, h2⟩
      · rintro ⟨c', hc', h1, h2⟩
        rcases mem_replace hc' with ⟨hcq, _⟩ | ⟨hc'', hcn⟩
        · left; subst hcq; exact ⟨h2.symm, h1.symm⟩
        · right; refine ⟨hbase.mpr ⟨c', hc'', h1, h2⟩, ?_⟩
          rintro ⟨_, e⟩; exact hcn (h1.trans e)

theorem kidsmap_del {s : Topo} {name : Nat} {lp : Bool} (hK : KidsMap s)
    (h : (validDelete s name lp).2 = true) : KidsMap (validDelete s name lp).1 := by
  obtain ⟨o, hfo, hnk, _, hst⟩ := validDelete_true h
  rw [hst]
  have hu := uniq_of_nodup hK.nodup
  obtain ⟨ho, hon⟩ := find_some hfo
  have hnokid := hasKids_false hnk
  have hnochild : ∀ c ∈ s.info, c.parent ≠ name := by
    intro c hc e
    exact hnokid c.name ((hK.kidsOK _ _).mpr ⟨c, hc, rfl, e⟩)
  refine ⟨?_, ?_⟩
  · simp only [delState]
    exact List.Nodup.sublist ((List.filter_sublist).map _) hK.nodup
  · intro p c
    simp only [delState, List.mem_filter, Bool.and_eq_true, bne_iff_ne, ne_eq, Prod.mk.injEq]
    constructor
    · rintro ⟨hk, hne, hpne⟩
      obtain ⟨c', hc', h1, h2⟩ := (hK.kidsOK p c).mp hk
      refine ⟨c', ⟨hc', ?_⟩, h1, h2⟩
      intro e
      have : c' = o := hu c' hc' o ho (e.trans hon.symm)
      apply hne; subst this; exact ⟨h2.symm, h1.symm.trans e⟩
    · rintro ⟨c', ⟨hc', hcn⟩, h1, h2⟩
      refine ⟨(hK.kidsOK p c).mpr ⟨c', hc', h1, h2⟩, ?_, ?_⟩
      · rintro ⟨_, e⟩; exact hcn (h1.trans e)
      · intro e; exact hnochild c' hc' (h2.trans e)

end KoordVerif.C15
